"""Equivalence demonstration for the C18 refactoring of teneva/grid.py.

The refactored functions are ind_to_poi, poi_scale and poi_to_ind. The same
deterministic list of scenarios is executed in two subprocesses, one importing
the pristine package (/tmp/twinsA/C18/orig) and one importing the refactored
package (/tmp/wt/C18). Each worker dumps its outcomes to a pickle, and the
parent process compares the two pickles. Exit code is 0 if everything agrees
and 1 otherwise.

Usage: /venv/bin/python /tmp/twinsA/C18/equiv.py

"""
import copy
import os
import pickle
import subprocess
import sys
import tempfile
import warnings


ROOT_ORIG = '/tmp/twinsA/C18/orig'
ROOT_NEW = '/tmp/wt/C18'


# --------------------------------------------------------------------------
# Scenarios (built identically in both workers; only numpy is needed)
# --------------------------------------------------------------------------


def build_scenarios():
    import numpy as np

    S = []  # items: (label, func_name, args (list), kwargs (dict))

    def add(label, func, *args, **kwargs):
        S.append((f'{len(S):05d}:{label}', func, list(args), dict(kwargs)))

    boxes_1 = [(0., 1.), (-1., 1.), (-3.5, 7.25), (1.E+8, 1.E+8 + 3.),
        (-1.E-12, 2.E-12), (-1.E+12, 1.E+12), (5., 5.000001), (-7, 11),
        (0.1, 0.3)]
    kinds = ['uni', 'cheb']

    # --- Exhaustive index sweeps, 1D, scalar options ----------------------
    for a, b in boxes_1:
        for n in list(range(2, 14)) + [17, 32, 33, 64, 100, 257]:
            I = np.arange(n).reshape(-1, 1)
            for kind in kinds:
                add('i2p-exh', 'ind_to_poi', I, a, b, n, kind)
                add('rt-exh', 'roundtrip', I, a, b, n, kind)
                # Single samples (1D input, list input):
                add('i2p-one', 'ind_to_poi', [0], a, b, n, kind)
                add('i2p-one', 'ind_to_poi', [n-1], a, b, n, kind)
                add('i2p-one', 'ind_to_poi', np.array([n // 2]), a, b, n, kind)

    # --- Multi-dimensional, per-dimension options of every flavour --------
    rng = np.random.default_rng(20240918)
    for d in range(1, 7):
        for rep in range(6):
            scale = 10. ** rng.integers(-6, 7)
            shift = rng.choice([0., 1., -1.E+3, 1.E+6]) * rng.normal()
            a = shift + scale * rng.normal(size=d)
            b = a + scale * (1.E-3 + rng.random(size=d))
            n = rng.integers(2, 15, size=d)
            m = int(rng.integers(1, 40))
            I = np.stack([rng.integers(0, k, size=m) for k in n], axis=1)
            I[0, :] = 0
            I[-1, :] = n - 1
            w = (b - a)
            X_in = a + w * rng.random(size=(m, d))
            X_out = a + w * (3. * rng.random(size=(m, d)) - 1.)
            X_bnd = np.where(rng.random(size=(m, d)) < 0.5, a, b)
            X_far = a + w * 1.E+9 * rng.normal(size=(m, d))
            for kind in kinds:
                for aa, bb, nn in [
                        (a, b, n),
                        (list(a), list(b), list(n)),
                        (list(a), b, [int(k) for k in n]),
                        (float(a[0]), b.max() + 1., int(n[0])),
                        (float(a[0]), b.max() + 1., float(n[0])),
                        (a, float(b.max() + 1.), n),
                        (float(a.min() - 1.), b, list(n)),
                        (a, b, int(n[-1]))]:
                    add('i2p-md', 'ind_to_poi', I, aa, bb, nn, kind)
                    add('i2p-md-list', 'ind_to_poi', I.tolist(), aa, bb, nn,
                        kind)
                    add('i2p-md-one', 'ind_to_poi', I[0], aa, bb, nn, kind)
                    add('i2p-md-one', 'ind_to_poi', list(I[-1]), aa, bb, nn,
                        kind)
                    add('rt-md', 'roundtrip', I, aa, bb, nn, kind)
                    for X in [X_in, X_out, X_bnd, X_far]:
                        add('p2i-md', 'poi_to_ind', X, aa, bb, nn, kind)
                        add('p2i-md-one', 'poi_to_ind', X[0], aa, bb, nn,
                            kind)
                        add('p2i-md-list', 'poi_to_ind', X.tolist(), aa, bb,
                            nn, kind)
                        add('sc-md', 'poi_scale', X, aa, bb, kind)
                        add('sc-md-one', 'poi_scale', X[-1], aa, bb, kind)
                        add('sc-md-list', 'poi_scale', X[0].tolist(), aa, bb,
                            kind)
                for lim in [[0., 1.], [-1., 1.], (2, 5), [-3.5, 10.25],
                        (1.E+6, 1.E+6 + 1.), [5., 2.], [0, 0],
                        np.array([-2., 3.]), (np.float64(0.5), 1)]:
                    for X in [X_in, X_out, X_bnd]:
                        add('sc-lim', 'poi_scale', X, a, b, lim)
                        add('sc-lim', 'poi_scale', X[0], list(a), float(
                            b.max() + 1.), kind=lim)
                        # Custom limits are not a grid kind for poi_to_ind:
                    add('p2i-lim', 'poi_to_ind', X_in, a, b, n, lim)

    # --- Nearest node / ties / outside, 1D exhaustive over fine points ----
    for a, b in boxes_1:
        for n in [2, 3, 4, 5, 8, 9, 16, 31]:
            w = b - a
            t = np.linspace(-0.5, 1.5, 16 * (n - 1) * 2 + 1)
            X = (a + w * t).reshape(-1, 1)
            # Exact node mid-points (rounding ties):
            h = w / (n - 1)
            X_mid = (a + h * (np.arange(n - 1) + 0.5)).reshape(-1, 1)
            for kind in kinds:
                add('p2i-fine', 'poi_to_ind', X, a, b, n, kind)
                add('p2i-mid', 'poi_to_ind', X_mid, a, b, n, kind)
                add('sc-fine', 'poi_scale', X, a, b, kind)
                add('p2i-fine-vec', 'poi_to_ind', X, [a], [b], [n], kind)
            add('sc-fine-lim', 'poi_scale', X, a, b, [-2., 2.])

    # --- Special values and input types -----------------------------------
    X_sp = np.array([[np.nan, 0.5], [np.inf, -np.inf], [0., 1.], [-0., 1.],
        [1.E+308, -1.E+308], [0.25, 0.75]])
    for kind in kinds + [[0., 1.], [3., -3.]]:
        add('sc-special', 'poi_scale', X_sp, 0., 1., kind)
        add('sc-special', 'poi_scale', X_sp, [0., -1.], [1., 2.], kind)
        add('p2i-special', 'poi_to_ind', X_sp, 0., 1., 7, kind)
        add('p2i-special', 'poi_to_ind', X_sp, [0., -1.], [1., 2.], [3, 9],
            kind)
    X_int = np.array([[0, 1, 2], [3, 4, 5], [-7, 9, 2]])
    for kind in kinds + [(0, 10)]:
        add('sc-int', 'poi_scale', X_int, 0, 5, kind)
        add('sc-int', 'poi_scale', X_int, [0, 1, 2], [5, 6, 7], kind)
        add('p2i-int', 'poi_to_ind', X_int, 0, 5, 6, kind)
        add('p2i-int', 'poi_to_ind', X_int, 0., 5., [6, 11, 2], kind)
        add('p2i-int', 'poi_to_ind', X_int[1], 0., 5., np.array([6, 11, 2]),
            kind)
    X_f32 = np.array([[0.1, 0.9], [0.5, 0.5]], dtype=np.float32)
    I_i32 = np.array([[0, 1], [4, 3]], dtype=np.int32)
    I_u8 = np.array([[0, 1], [4, 3]], dtype=np.uint8)
    I_flt = np.array([[0., 1.], [4., 3.]])
    I_neg = np.array([[-1, 7], [9, -3]])
    for kind in kinds:
        add('sc-f32', 'poi_scale', X_f32, 0., 1., kind)
        add('p2i-f32', 'poi_to_ind', X_f32, 0., 1., 5, kind)
        for I in [I_i32, I_u8, I_flt, I_neg]:
            add('i2p-dtype', 'ind_to_poi', I, -1., 2., 5, kind)
            add('i2p-dtype', 'ind_to_poi', I, [-1., 0.], [2., 3.], [5, 6],
                kind)
        # 3D input (more than two axes), degenerate boxes and sizes:
        add('i2p-3d', 'ind_to_poi', np.zeros((2, 3, 4), dtype=int), 0., 1.,
            5, kind)
        add('sc-3d', 'poi_scale', np.zeros((2, 3, 4)), 0., 1., kind)
        add('p2i-3d', 'poi_to_ind', np.zeros((2, 3, 4)), 0., 1., 5, kind)
        add('i2p-n1', 'ind_to_poi', [[0, 0]], 0., 1., 1, kind)
        add('p2i-n1', 'poi_to_ind', [[0.2, 0.7]], 0., 1., 1, kind)
        add('p2i-n0', 'poi_to_ind', [[0.2, 0.7]], 0., 1., 0, kind)
        add('sc-a=b', 'poi_scale', [[0.2, 0.7]], 1., 1., kind)
        add('sc-a>b', 'poi_scale', [[0.2, 0.7]], 1., 0., kind)
        add('p2i-a>b', 'poi_to_ind', [[0.2, 0.7]], 1., 0., 4, kind)
        add('i2p-a>b', 'ind_to_poi', [[0, 3]], 1., 0., 4, kind)
        add('i2p-empty', 'ind_to_poi', np.zeros((0, 3), dtype=int), 0., 1.,
            4, kind)
        add('p2i-empty', 'poi_to_ind', np.zeros((0, 3)), 0., 1., 4, kind)
        add('sc-empty', 'poi_scale', np.zeros((0, 3)), 0., 1., kind)
        # numpy scalar options:
        add('i2p-npn', 'ind_to_poi', [[0, 3], [1, 2]], 0., 1., np.int64(4),
            kind)
        add('i2p-npn', 'ind_to_poi', [0, 3], 0., 1., np.int64(4), kind)
        add('p2i-npn', 'poi_to_ind', [[0.1, 0.9], [0.5, 2.]], 0., 1.,
            np.int64(4), kind)
        add('p2i-npn', 'poi_to_ind', [0.1, 0.9], 0., 1., np.int64(4), kind)
        add('p2i-npn1', 'poi_to_ind', [[0.1], [2.]], 0., 1., np.int64(4),
            kind)
        add('sc-npab', 'poi_scale', [[0.1, 0.9]], np.float64(0.), np.float64(
            1.), kind)
        add('p2i-boolopt', 'poi_to_ind', [[0.1, 0.9]], False, True, 4, kind)

    # --- Rejected inputs (the same exceptions are required) ---------------
    Ib = np.array([[0, 1, 2], [2, 1, 0]])
    Xb = np.array([[0.1, 0.5, 0.9], [2., -1., 0.3]])
    for kind in kinds + ['chebyshev', 'xy', '', None, 5, [1., 2., 3.], [1.],
            [], ['a', 'b'], [None, 1.], np.array([0., 1.]), ('uni',)]:
        add('i2p-kind', 'ind_to_poi', Ib, 0., 1., 3, kind)
        add('i2p-kind', 'ind_to_poi', Ib[0], 0., 1., 3, kind=kind)
        add('sc-kind', 'poi_scale', Xb, 0., 1., kind)
        add('sc-kind', 'poi_scale', Xb[0], 0., 1., kind=kind)
        add('p2i-kind', 'poi_to_ind', Xb, 0., 1., 3, kind)
        add('p2i-kind', 'poi_to_ind', Xb[0], 0., 1., 3, kind=kind)
        add('p2i-kind-nNone', 'poi_to_ind', Xb, 0., 1., None, kind)
        add('i2p-kind-badopt', 'ind_to_poi', Ib, [0., 1.], 1., 3, kind)
        add('sc-kind-badopt', 'poi_scale', Xb, [0., 1.], 1., kind)
        add('p2i-kind-badopt', 'poi_to_ind', Xb, 0., [1., 2.], 3, kind)
    for kind in kinds:
        for aa, bb, nn in [
                ([0., 0.], 1., 3), (0., [1.] * 4, 3), (0., 1., [3, 3]),
                (np.zeros(2), np.ones(3), 3), ([0.] * 3, [1.] * 3, [3] * 4),
                (None, 1., 3), (0., None, 3), (0., 1., None),
                (None, None, None), ('0', 1., 3), (0., 1., '3'),
                (0., 1., (3, 3, 3)), ((0., 0., 0.), 1., 3),
                (np.zeros((3, 1)), 1., 3), (np.array(0.), 1., 3),
                ([[0.] * 3], 1., 3), (0., 1., [3., 4., 5.]),
                (0., 1., 3.7), (0., 1., np.array([3.2, 4.9, 5.5]))]:
            add('i2p-bad', 'ind_to_poi', Ib, aa, bb, nn, kind)
            add('i2p-bad', 'ind_to_poi', Ib[0], aa, bb, nn, kind)
            add('p2i-bad', 'poi_to_ind', Xb, aa, bb, nn, kind)
            add('p2i-bad', 'poi_to_ind', Xb[0], aa, bb, nn, kind)
            add('sc-bad', 'poi_scale', Xb, aa, bb, kind)
            add('sc-bad', 'poi_scale', Xb[0], aa, bb, kind)
        for bad in [3, 0.5, np.array(2.), [], np.zeros((2, 0)), None, 'ab',
                [[0, 1], [2]], np.array([None, 1.], dtype=object)]:
            add('i2p-badI', 'ind_to_poi', bad, 0., 1., 3, kind)
            add('sc-badX', 'poi_scale', bad, 0., 1., kind)
            add('p2i-badX', 'poi_to_ind', bad, 0., 1., 3, kind)

    return S


# --------------------------------------------------------------------------
# Worker (runs inside a subprocess with one of the two packages on the path)
# --------------------------------------------------------------------------


def encode(x):
    """Turn a result into a picklable, comparable description."""
    import numpy as np

    if isinstance(x, np.ndarray):
        if x.dtype == object:
            return ('ndarray-obj', x.shape, repr(x.tolist()))
        return ('ndarray', type(x).__name__, str(x.dtype), x.shape,
            np.array(x))
    if isinstance(x, np.generic):
        return ('npscalar', str(x.dtype), np.array(x))
    if isinstance(x, (list, tuple)):
        return (type(x).__name__, [encode(y) for y in x])
    if isinstance(x, dict):
        return ('dict', [(k, encode(v)) for k, v in x.items()])
    return ('py', type(x).__name__, repr(x))


def worker(root, fpath):
    sys.path.insert(0, root)
    os.chdir(root)
    import numpy as np
    import teneva

    pkg_dir = os.path.dirname(os.path.abspath(teneva.__file__))
    assert pkg_dir == os.path.join(root, 'teneva'), (pkg_dir, root)

    def roundtrip(I, a, b, n, kind):
        X = teneva.ind_to_poi(I, a, b, n, kind)
        J = teneva.poi_to_ind(X, a, b, n, kind)
        Z = teneva.poi_scale(X, a, b, kind)
        return [X, J, Z]

    funcs = {
        'ind_to_poi': teneva.ind_to_poi,
        'poi_scale': teneva.poi_scale,
        'poi_to_ind': teneva.poi_to_ind,
        'roundtrip': roundtrip,
    }

    out = []
    for label, fname, args, kwargs in build_scenarios():
        args_run = copy.deepcopy(args)
        kwargs_run = copy.deepcopy(kwargs)
        with warnings.catch_warnings(record=True) as wlist:
            warnings.simplefilter('always')
            with np.errstate(all='warn'):
                try:
                    res = funcs[fname](*args_run, **kwargs_run)
                    outcome = ('ok', encode(res))
                    # Does the result alias (share memory with) an argument?
                    alias = [isinstance(res, np.ndarray)
                        and isinstance(arg, np.ndarray)
                        and np.shares_memory(res, arg) for arg in args_run]
                except Exception as e:
                    outcome = ('exc', type(e).__name__, str(e),
                        type(e.__context__).__name__,
                        type(e.__cause__).__name__)
                    alias = None
        wcats = sorted({w.category.__name__ for w in wlist})
        out.append({
            'label': label,
            'func': fname,
            'outcome': outcome,
            'alias': alias,
            'warn': wcats,
            # State of the arguments after the call (mutation behaviour):
            'args_after': encode(args_run),
            'kwargs_after': encode(kwargs_run),
            'args_before': encode(args),
        })

    with open(fpath, 'wb') as f:
        pickle.dump(out, f)


# --------------------------------------------------------------------------
# Comparison
# --------------------------------------------------------------------------


class Stat:
    arrays = 0
    bitwise = 0
    max_rel = 0.


def same(x, y, path, errs):
    import numpy as np

    if type(x) is not type(y):
        errs.append(f'{path}: type {type(x)} vs {type(y)}')
        return
    if isinstance(x, np.ndarray):
        if x.shape != y.shape or x.dtype != y.dtype:
            errs.append(f'{path}: {x.dtype}{x.shape} vs {y.dtype}{y.shape}')
            return
        Stat.arrays += 1
        if x.tobytes() == y.tobytes():
            Stat.bitwise += 1
            return
        if x.dtype.kind in 'iub':
            if not np.array_equal(x, y):
                errs.append(f'{path}: integer arrays differ')
            return
        with np.errstate(all='ignore'):
            if not np.allclose(x, y, rtol=1.E-14, atol=0., equal_nan=True):
                errs.append(f'{path}: float arrays differ '
                    f'(max abs diff {np.nanmax(np.abs(x - y))})')
                return
            fin = np.isfinite(x) & np.isfinite(y) & (x != y)
            if fin.any():
                rel = np.max(np.abs(x[fin] - y[fin]) / np.abs(x[fin]))
                Stat.max_rel = max(Stat.max_rel, float(rel))
        return
    if isinstance(x, (list, tuple)):
        if len(x) != len(y):
            errs.append(f'{path}: length {len(x)} vs {len(y)}')
            return
        for k, (p, q) in enumerate(zip(x, y)):
            same(p, q, f'{path}[{k}]', errs)
        return
    if x != y:
        errs.append(f'{path}: {x!r} vs {y!r}')


def main():
    tmp = tempfile.mkdtemp(prefix='equivC18_')
    files = {}
    for name, root in [('orig', ROOT_ORIG), ('new', ROOT_NEW)]:
        files[name] = os.path.join(tmp, name + '.pkl')
        env = dict(os.environ)
        env.pop('PYTHONPATH', None)
        env['PYTHONDONTWRITEBYTECODE'] = '1'
        r = subprocess.run([sys.executable, os.path.abspath(__file__),
            '--worker', root, files[name]], cwd=root, env=env)
        if r.returncode != 0:
            print(f'Worker "{name}" failed with code {r.returncode}')
            return 1

    with open(files['orig'], 'rb') as f:
        R1 = pickle.load(f)
    with open(files['new'], 'rb') as f:
        R2 = pickle.load(f)

    if len(R1) != len(R2):
        print(f'Different number of scenarios: {len(R1)} vs {len(R2)}')
        return 1

    bad = 0
    n_ok = n_exc = n_mut = 0
    per_func = {}
    for r1, r2 in zip(R1, R2):
        errs = []
        for key in ['label', 'func', 'outcome', 'alias', 'warn', 'args_after',
                'kwargs_after', 'args_before']:
            same(r1[key], r2[key], key, errs)
        kind = r1['outcome'][0]
        n_ok += kind == 'ok'
        n_exc += kind == 'exc'
        errs_mut = []
        same(r1['args_before'], r1['args_after'], 'mut', errs_mut)
        n_mut += bool(errs_mut)
        c = per_func.setdefault(r1['func'], [0, 0])
        c[0 if kind == 'ok' else 1] += 1
        if errs:
            bad += 1
            if bad <= 25:
                print(f'MISMATCH in {r1["label"]} ({r1["func"]}):')
                for e in errs[:6]:
                    print('    ' + e)
                if r1['outcome'][0] == 'exc' or r2['outcome'][0] == 'exc':
                    print('    orig:', r1['outcome'][:3] if r1['outcome'][0]
                        == 'exc' else 'ok')
                    print('    new :', r2['outcome'][:3] if r2['outcome'][0]
                        == 'exc' else 'ok')

    print(f'Scenarios: {len(R1)} (returned: {n_ok}, raised: {n_exc}; '
        f'mutating an argument in the original: {n_mut})')
    for fname, (k_ok, k_exc) in sorted(per_func.items()):
        print(f'    {fname:<12}: {k_ok:6d} returned, {k_exc:5d} raised')
    print(f'Arrays compared: {Stat.arrays}, bitwise identical: '
        f'{Stat.bitwise}, max rel. diff of the rest: {Stat.max_rel:.2e}')
    if bad:
        print(f'FAIL: {bad} scenarios disagree')
        return 1
    print('OK: the original and the refactored package agree everywhere')
    return 0


if __name__ == '__main__':
    if len(sys.argv) == 4 and sys.argv[1] == '--worker':
        worker(sys.argv[2], sys.argv[3])
        sys.exit(0)
    sys.exit(main())
