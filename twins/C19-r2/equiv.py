"""Equivalence demonstration for the C19 twin B refactoring.

The same deterministic scenario list is run in two subprocesses, one with the
pristine package (cwd = /tmp/twinsB/C19/orig) and one with the refactored
package (cwd = /tmp/wt/C19). Each run dumps a pickle; the two pickles are then
compared (bit-for-bit for array contents, shapes, dtypes, memory flags,
exceptions, argument mutation and the state of random generators).

Exit code 0: everything agrees; 1: otherwise.
"""
import math
import os
import pickle
import subprocess
import sys
import tempfile


ORIG = '/tmp/twinsB/C19/orig'
TWIN = os.environ.get('C19_TWIN', '/tmp/wt/C19')


# ---------------------------------------------------------------------------
# Worker part (runs inside the subprocess, cwd decides which package is used)
# ---------------------------------------------------------------------------


def _snap(x):
    """Turn a value into a picklable, exactly comparable description."""
    import numpy as np
    if isinstance(x, np.ndarray):
        return ('nd', x.shape, str(x.dtype), x.tobytes(),
            bool(x.flags['OWNDATA']), bool(x.flags['C_CONTIGUOUS']),
            bool(x.flags['F_CONTIGUOUS']), bool(x.flags['WRITEABLE']))
    if isinstance(x, np.generic):
        return ('npscalar', type(x).__name__, x.tobytes())
    if isinstance(x, (list, tuple)):
        return (type(x).__name__, [_snap(y) for y in x])
    if isinstance(x, dict):
        return ('dict', sorted((str(k), _snap(v)) for k, v in x.items()))
    if isinstance(x, np.random.Generator):
        return ('rng', repr(x.bit_generator.state))
    if isinstance(x, float):
        return ('float', x.hex() if x == x else 'nan')
    if isinstance(x, (int, bool, str)) or x is None:
        return (type(x).__name__, x)
    if callable(x):
        return ('callable', getattr(x, '__name__', type(x).__name__))
    return ('other', type(x).__name__, repr(x))


def _scenarios():
    """Deterministic list of (label, function name, args-builder)."""
    import numpy as np
    S = []

    def add(label, name, build):
        S.append((label, name, build))

    # ---- poly -------------------------------------------------------------
    shapes = [[3, 4], [2, 2, 2], [5, 1, 3, 2], [1, 1], [4, 3, 2, 5, 2, 3],
        [7], [0, 3], [3, 0, 2], [2, 3, 0], np.array([3, 2, 4]), (2, 5, 3),
        [2] * 12]
    powers = [2, 1, 0, 3, 5, -1, -2, 0.5, 2.5, 7, 2.0]
    shifts = ['scalar0', 'scalar', 'int', 'list', 'array', 'neg']
    scales = [1., -2.5, 0., 1.E-30, 3, 1.E+20]
    cnt = 0
    for n in shapes:
        for power in powers:
            for sh in shifts:
                scale = scales[cnt % len(scales)]
                cnt += 1

                def build(n=n, power=power, sh=sh, scale=scale):
                    d = len(n)
                    if sh == 'scalar0':
                        shift = 0.
                    elif sh == 'scalar':
                        shift = 1.75
                    elif sh == 'int':
                        shift = 2
                    elif sh == 'list':
                        shift = [0.5 + 0.3 * k for k in range(d)]
                    elif sh == 'array':
                        shift = np.linspace(1., 2., d)
                    else:
                        shift = [-1.25 - k for k in range(d)]
                    n_ = n.copy() if isinstance(n, np.ndarray) else (
                        list(n) if isinstance(n, list) else n)
                    return (n_,), dict(shift=shift, power=power, scale=scale)
                add(f'poly n={list(n)} p={power} sh={sh} sc={scale}',
                    'poly', build)
    add('poly defaults', 'poly', lambda: (([3, 4, 5],), {}))
    add('poly positional', 'poly', lambda: (([3, 4, 5], 1., 3, 2.), {}))
    add('poly empty shape', 'poly', lambda: (([],), {}))
    add('poly short shift', 'poly', lambda: (([2, 3, 4],),
        dict(shift=[1., 2.])))
    add('poly long shift', 'poly', lambda: (([2, 3],),
        dict(shift=[1., 2., 3.])))
    add('poly shift None', 'poly', lambda: (([2, 3],), dict(shift=None)))
    add('poly negative mode', 'poly', lambda: (([2, -3, 2],), {}))
    add('poly float mode', 'poly', lambda: (([2, 3., 2],), {}))
    add('poly short shift, empty mode', 'poly', lambda: (([2, 3, 0],),
        dict(shift=[1., 2.])))

    # ---- random constructors ---------------------------------------------
    rshapes = [
        ([3, 4], 2), ([3, 4], 1), ([3, 4], [1, 3, 1]), ([3, 4], [1, 9, 1]),
        ([2, 2, 2], 3), ([2, 2, 2], [1, 2, 4, 1]), ([2, 2, 2], [1, 5, 7, 1]),
        ([5, 1, 3, 2], [1, 1, 1, 1, 1]), ([5, 1, 3, 2], [1, 4, 2, 3, 1]),
        ([5, 1, 3, 2], 4.), ([5, 1, 3, 2], 2.7), ([5, 1, 3, 2], True),
        (np.array([4, 3, 2, 5, 2, 3]), np.array([1, 2, 3, 4, 3, 2, 1])),
        ((3, 3, 3), (1, 2, 2, 1)), ([2] * 10, 3), ([2] * 10, 1),
        ([7], 2), ([7], [1, 1]), ([0, 3], 2), ([3, 0, 2], [1, 2, 2, 1]),
        ([3, 4, 2], [2, 3, 2, 3]),           # outer ranks not 1
        ([3, 4], [1, 0, 1]),                 # zero rank
        ([3, 4, 2], [1, 2, 3, 1, 5, 6]),     # too long rank list
        ([3, 4, 2], [1, 2, 1]),              # too short rank list
        ([3, 4], [1, 2]),                    # too short (broadcastable)
        ([3], [1]),                          # too short, d = 1
        ([3, 4], [1, -2, 1]),                # negative rank
        ([3, 4], np.int64(2)),               # numpy scalar rank (0-d array)
        ([3, 4], [[1, 2, 1]]),               # 2-d rank list
        ([3, 4], 'a'),                       # bad rank type
        ([], 2), ([], [1, 1]),               # empty shape
        ([[2, 3], [4, 5]], 2),               # 2-d shape
        ([3.7, 4.2], 2),                     # float shape
    ]
    seeds = [0, 1, 42, 12345, None, 'gen']

    def cp(x):
        return x.copy() if isinstance(x, np.ndarray) else (
            list(x) if isinstance(x, list) else x)

    def mkseed(seed):
        if seed == 'gen':
            return np.random.default_rng(777)
        return seed

    for n, r in rshapes:
        for seed in seeds:
            if seed is None:
                # Not reproducible by construction: only check the structure
                continue
            add(f'rand n={n!r} r={r!r} seed={seed}', 'rand',
                lambda n=n, r=r, seed=seed: (
                    (cp(n), cp(r)), dict(seed=mkseed(seed))))
            add(f'rand(a,b) n={n!r} r={r!r} seed={seed}', 'rand',
                lambda n=n, r=r, seed=seed: (
                    (cp(n), cp(r), 2., 5.), dict(seed=mkseed(seed))))
            add(f'rand_norm n={n!r} r={r!r} seed={seed}', 'rand_norm',
                lambda n=n, r=r, seed=seed: (
                    (cp(n), cp(r)), dict(seed=mkseed(seed))))
            add(f'rand_norm(m,s) n={n!r} r={r!r} seed={seed}', 'rand_norm',
                lambda n=n, r=r, seed=seed: (
                    (cp(n), cp(r)), dict(m=-3., s=0.25, seed=mkseed(seed))))
            for noise in [1.E-15, 0., 1.E-3, 1., 10.]:
                add(f'rand_stab n={n!r} r={r!r} seed={seed} noise={noise}',
                    'rand_stab',
                    lambda n=n, r=r, seed=seed, noise=noise: (
                        (cp(n), cp(r)),
                        dict(noise=noise, seed=mkseed(seed))))
            add(f'rand_stab default n={n!r} r={r!r} seed={seed}',
                'rand_stab',
                lambda n=n, r=r, seed=seed: (
                    (cp(n), cp(r)), dict(seed=mkseed(seed))))

    # rand_custom: several sampling functions, incl. the default (global RNG)
    def f_arange(size):
        return np.arange(size)

    def f_list(size):
        return [0.5 * k for k in range(size)]

    def f_long(size):
        return np.arange(size + 5, dtype=float)

    def f_short(size):
        return np.arange(max(size - 1, 0), dtype=float)

    def f_f32(size):
        return np.linspace(0., 1., size, dtype=np.float32)

    def f_cplx(size):
        return np.arange(size) * 1j

    def f_log(size):
        f_log.calls.append((type(size).__name__, int(size)))
        return np.ones(size)
    f_log.calls = []

    funcs = [('arange', f_arange), ('list', f_list), ('long', f_long),
        ('short', f_short), ('f32', f_f32), ('cplx', f_cplx)]
    for n, r in rshapes:
        for fname, f in funcs:
            add(f'rand_custom n={n!r} r={r!r} f={fname}', 'rand_custom',
                lambda n=n, r=r, f=f: ((cp(n), cp(r), f), {}))
        add(f'rand_custom n={n!r} r={r!r} f=default', 'rand_custom_default',
            lambda n=n, r=r: ((cp(n), cp(r)), {}))
        add(f'rand_custom n={n!r} r={r!r} f=log', 'rand_custom_log',
            lambda n=n, r=r: ((cp(n), cp(r), f_log), {'_log': f_log}))

    # ---- QTT index helpers and delta constructors -------------------------
    for q in range(0, 8):
        N = 1 << q
        for i in range(-N - 2, N + 3):
            add(f'_vector_index_prepare q={q} i={i}', '_vector_index_prepare',
                lambda q=q, i=i: ((q, i), {}))
            add(f'_vector_index_expand q={q} i={i}', '_vector_index_expand',
                lambda q=q, i=i: ((q, i), {}))
            for v in [1., -3.5, 0., 1.E-20, 2]:
                add(f'vector_delta q={q} i={i} v={v}', 'vector_delta',
                    lambda q=q, i=i, v=v: ((q, i), dict(v=v)))
            add(f'vector_delta q={q} i={i}', 'vector_delta',
                lambda q=q, i=i: ((q, i), {}))
    for q in range(0, 5):
        N = 1 << q
        for i in range(-N - 1, N + 2):
            for j in range(-N - 1, N + 2):
                v = [1., -3.5, 0., 1.E-20, 2][(i + 3 * j) % 5]
                add(f'matrix_delta q={q} i={i} j={j} v={v}', 'matrix_delta',
                    lambda q=q, i=i, j=j, v=v: ((q, i, j), dict(v=v)))
                add(f'matrix_delta q={q} i={i} j={j}', 'matrix_delta',
                    lambda q=q, i=i, j=j: ((q, i, j), {}))
    # larger levels, numpy integer indices, odd inputs
    for q in [10, 20, 30, 40, 52, 53, 54, 60, 62, 63, 64, 70]:
        N = 1 << q
        for i in [0, 1, 2, N // 3, N // 2, N - 2, N - 1, N, -1, -2, -N,
                -N - 1, -(N // 3)]:
            add(f'_vector_index_prepare q={q} i={i}', '_vector_index_prepare',
                lambda q=q, i=i: ((q, i), {}))
            add(f'_vector_index_expand q={q} i={i}', '_vector_index_expand',
                lambda q=q, i=i: ((q, i), {}))
            add(f'vector_delta q={q} i={i}', 'vector_delta',
                lambda q=q, i=i: ((q, i, -0.75), {}))
            add(f'matrix_delta q={q} i={i}', 'matrix_delta',
                lambda q=q, i=i: ((q, i, N - 1 - abs(i) % N, 2.5), {}))
    for q in [3, 6]:
        for i in [np.int64(5), np.int64(-3), np.int32(2), np.int64(-1),
                np.int64(100), 3.0, -2.0, 2.5, True]:
            add(f'_vector_index_prepare q={q} i={i!r}',
                '_vector_index_prepare', lambda q=q, i=i: ((q, i), {}))
            add(f'_vector_index_expand q={q} i={i!r}',
                '_vector_index_expand', lambda q=q, i=i: ((q, i), {}))
            add(f'vector_delta q={q} i={i!r}', 'vector_delta',
                lambda q=q, i=i: ((q, i), {}))
            add(f'matrix_delta q={q} i={i!r}', 'matrix_delta',
                lambda q=q, i=i: ((q, i, i), {}))
    add('_vector_index_expand q=-1', '_vector_index_expand',
        lambda: ((-1, 0), {}))
    add('_vector_index_expand q=-1, i=-1', '_vector_index_expand',
        lambda: ((-1, -1), {}))
    add('_vector_index_prepare q=-1', '_vector_index_prepare',
        lambda: ((-1, 0), {}))
    add('vector_delta q=-1', 'vector_delta', lambda: ((-1, 0), {}))
    add('matrix_delta q=-1', 'matrix_delta', lambda: ((-1, 0, 0), {}))

    return S


def worker(out):
    sys.path.insert(0, os.getcwd())
    import warnings
    import numpy as np
    import teneva
    assert os.path.dirname(os.path.dirname(os.path.abspath(
        teneva.__file__))) == os.path.abspath(os.getcwd()), teneva.__file__

    res = []
    for label, name, build in _scenarios():
        args, kwargs = build()
        log = kwargs.pop('_log', None)
        if log is not None:
            del log.calls[:]
        if name in ('rand_custom_default', 'rand_custom_log'):
            func = teneva.rand_custom
        else:
            func = getattr(teneva, name)
        np.random.seed(2024)
        with warnings.catch_warnings(record=True) as w:
            warnings.simplefilter('always')
            try:
                Y = func(*args, **kwargs)
                out_ = ('ok', _snap(Y))
                if isinstance(Y, list) and Y and all(
                        isinstance(G, np.ndarray) for G in Y):
                    # Do the cores alias each other / the arguments?
                    share = [bool(np.may_share_memory(Y[a], Y[b]))
                        for a in range(len(Y)) for b in range(a)]
                    share += [bool(np.may_share_memory(G, a)) for G in Y
                        for a in args if isinstance(a, np.ndarray)]
                    out_ += (share,)
                    try:
                        out_ += (_snap(teneva.full(Y)) if
                            math.prod(int(G.size) for G in Y) < 10**6 and
                            len(Y) <= 14 and
                            Y[0].ndim == 3 else None,)
                    except Exception as e:
                        out_ += (('full-exc', type(e).__name__),)
            except Exception as e:
                out_ = ('exc', type(e).__name__, str(e))
            # Distinct warnings only: the number of repetitions of one and the
            # same RuntimeWarning is not considered behaviour (for d = 1, which
            # is outside the quantifier, the original poly evaluates the same
            # scalar powers twice and so repeats an "invalid value" warning).
            wlist = sorted(set(
                (x.category.__name__, str(x.message)) for x in w))
        # state after the call: arguments (mutation), generators, global RNG
        after = (_snap(list(args)), _snap(kwargs),
            _snap(np.random.get_state()[1][:8]), int(np.random.get_state()[2]),
            list(log.calls) if log is not None else None)
        res.append((label, out_, wlist, after))

    with open(out, 'wb') as f:
        pickle.dump(res, f)


# ---------------------------------------------------------------------------
# Driver part
# ---------------------------------------------------------------------------


def _allclose(a, b):
    """Fallback comparison of two snapshots up to rounding."""
    import numpy as np
    if type(a) != type(b):
        return False
    if isinstance(a, tuple) and a and a[0] == 'nd':
        if b[0] != 'nd' or a[1] != b[1] or a[2] != b[2] or a[4:] != b[4:]:
            return False
        x = np.frombuffer(a[3], dtype=a[2])
        y = np.frombuffer(b[3], dtype=b[2])
        return bool(np.allclose(x, y, rtol=1.E-14, atol=0., equal_nan=True))
    if isinstance(a, (tuple, list)):
        return len(a) == len(b) and all(_allclose(x, y) for x, y in zip(a, b))
    return a == b


def main():
    tmp = tempfile.mkdtemp(prefix='c19_equiv_')
    outs = []
    for tag, cwd in [('orig', ORIG), ('twin', TWIN)]:
        out = os.path.join(tmp, tag + '.pkl')
        env = dict(os.environ)
        env.pop('PYTHONPATH', None)
        env['PYTHONDONTWRITEBYTECODE'] = '1'
        p = subprocess.run([sys.executable, os.path.abspath(__file__),
            '--worker', out], cwd=cwd, env=env)
        if p.returncode != 0:
            print(f'worker for {tag} failed with code {p.returncode}')
            return 1
        outs.append(out)

    with open(outs[0], 'rb') as f:
        A = pickle.load(f)
    with open(outs[1], 'rb') as f:
        B = pickle.load(f)

    if len(A) != len(B):
        print(f'different number of scenarios: {len(A)} vs {len(B)}')
        return 1

    bad = 0
    close_only = 0
    n_ok = n_exc = 0
    per_func = {}
    for a, b in zip(A, B):
        assert a[0] == b[0]
        key = a[0].split(' ')[0]
        per_func[key] = per_func.get(key, 0) + 1
        if a[1][0] == 'ok':
            n_ok += 1
        else:
            n_exc += 1
        if a == b:
            continue
        if _allclose(a, b):
            close_only += 1
            print(f'ROUNDING-ONLY difference: {a[0]}')
            continue
        bad += 1
        if bad <= 20:
            print(f'MISMATCH: {a[0]}')
            for k, nm in enumerate(['label', 'result', 'warnings', 'after']):
                if a[k] != b[k]:
                    print(f'   field {nm}:')
                    print(f'      orig: {str(a[k])[:300]}')
                    print(f'      twin: {str(b[k])[:300]}')

    print(f'scenarios: {len(A)} (returned: {n_ok}, raised: {n_exc}); '
        f'per function: {per_func}')
    print(f'bitwise identical: {len(A) - bad - close_only}; '
        f'equal up to rounding only: {close_only}; mismatches: {bad}')
    if bad or close_only:
        print('FAIL')
        return 1
    print('OK: original and refactored packages agree on every scenario')
    return 0


if __name__ == '__main__':
    if len(sys.argv) == 3 and sys.argv[1] == '--worker':
        worker(sys.argv[2])
        sys.exit(0)
    sys.exit(main())
