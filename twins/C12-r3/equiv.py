"""Equivalence demonstration for the C12 twin (round C).

Refactored anchors: teneva.func.func_int, teneva.func.func_diff_matrix,
teneva.func_full.func_get_full (and through it func_gets_full).

The same deterministic list of scenarios is executed in two subprocesses, one
with the pristine package (/tmp/twinsC/C12/orig) and one with the refactored
package (/tmp/wt/C12); each one dumps its results to a pickle, and the two
pickles are compared here. Exit code 0 if everything agrees and 1 otherwise.

Usage: /venv/bin/python /tmp/twinsC/C12/equiv.py

"""
import os
import pickle
import subprocess
import sys
import tempfile


HERE = os.path.dirname(os.path.abspath(__file__))
ROOT_ORIG = os.path.join(HERE, 'orig')
ROOT_TWIN = '/tmp/wt/C12'
if len(sys.argv) == 3 and sys.argv[1] == '--twin-root':
    # Only for the self-check of this script on a deliberately broken copy:
    ROOT_TWIN = os.path.abspath(sys.argv[2])
RTOL = 1.E-13
ATOL = 1.E-13


# ---------------------------------------------------------------------------
# Worker part (is run in the subprocess with cwd = root of the package)
# ---------------------------------------------------------------------------


def _describe(v):
    """Turn a result into a picklable description with all the metadata."""
    import numpy as np
    if isinstance(v, np.ndarray):
        return ('arr', str(v.dtype), v.shape, bool(v.flags.c_contiguous),
            bool(v.flags.f_contiguous), bool(v.flags.writeable),
            np.array(v, copy=True, order='C'))
    if isinstance(v, np.generic):
        return ('npscalar', type(v).__name__, np.array(v))
    if isinstance(v, (list, tuple)):
        return (type(v).__name__, [_describe(x) for x in v])
    if isinstance(v, dict):
        return ('dict', {k: _describe(x) for k, x in v.items()})
    return ('py', type(v).__name__, v)


def _call(func, *args, **kwargs):
    """Call func, catch exception and warnings, describe the result."""
    import warnings
    with warnings.catch_warnings(record=True) as ws:
        warnings.simplefilter('always')
        try:
            res = func(*args, **kwargs)
            out = ('ok', _describe(res))
        except BaseException as e:
            out = ('exc', type(e).__name__, str(e))
            res = None
    cats = sorted(set(w.category.__name__ for w in ws))
    return out + (cats, ), res


def _tt_rand(rng, n, r, dtype=float):
    import numpy as np
    r = [1] + list(r) + [1]
    Y = []
    for k in range(len(n)):
        G = rng.normal(size=(r[k], n[k], r[k+1]))
        if dtype is int:
            G = np.round(G * 5).astype(int)
        else:
            G = G.astype(dtype)
        Y.append(G)
    return Y


def _poly_full(rng, n, a, b):
    """Values of a random polynomial (degree < n_k) on the Chebyshev grid."""
    import numpy as np
    import teneva
    d = len(n)
    I = teneva.grid_flat(n)
    X = teneva.ind_to_poi(I, a, b, n, 'cheb')
    Y = np.zeros(X.shape[0])
    for _ in range(3):
        term = np.ones(X.shape[0])
        for k in range(d):
            c = rng.normal(size=n[k])
            term = term * np.polynomial.polynomial.polyval(X[:, k], c)
        Y = Y + term
    return Y.reshape(n, order='F')


def worker(fpath):
    import numpy as np
    sys.path.insert(0, os.getcwd())
    import teneva

    out = {'__file__': os.path.dirname(os.path.abspath(teneva.__file__))}

    def rec(name, func, *args, watch=(), **kwargs):
        """Run the scenario and check the mutation of the watched args."""
        before = [pickle.dumps(_describe(w)) for w in watch]
        desc, res = _call(func, *args, **kwargs)
        same = [pickle.dumps(_describe(w)) == b for w, b in zip(watch, before)]
        alias = []
        if res is not None:
            items = res if isinstance(res, list) else [res]
            for w in watch:
                ws = w if isinstance(w, list) else [w]
                alias.append(any(
                    isinstance(x, np.ndarray) and isinstance(y, np.ndarray)
                    and np.shares_memory(x, y) for x in items for y in ws))
        assert name not in out, name
        out[name] = (desc, same, alias)

    # ----------------------------------------------------------- func_int
    cfgs = [
        ([5, 6], [1]), ([5, 6], [3]), ([2, 2], [1]), ([2, 3, 2], [4, 4]),
        ([4, 5, 6], [1, 1]), ([4, 5, 6], [2, 3]), ([3, 3, 3], [7, 7]),
        ([9, 2, 7, 3], [3, 1, 2]), ([6, 6, 6, 6, 6], [2, 9, 9, 2]),
        ([17, 33], [5]), ([8, 7, 6, 5, 4, 3], [1, 2, 3, 2, 1]),
        ([12], []),
    ]
    for ic, (n, r) in enumerate(cfgs):
        for seed in range(3):
            for kind in ['cheb', 'sin']:
                rng = np.random.default_rng(1000 * ic + seed)
                Y = _tt_rand(rng, n, r)
                rec(f'int/{ic}/{seed}/{kind}', teneva.func_int, Y, kind,
                    watch=[Y])
                rec(f'int-kw/{ic}/{seed}/{kind}', teneva.func_int, Y,
                    kind=kind, watch=[Y])
    rng = np.random.default_rng(7)
    for kind in ['cheb', 'sin']:
        Y = _tt_rand(rng, [5, 4, 6], [2, 3], np.float32)
        rec(f'int/f32/{kind}', teneva.func_int, Y, kind, watch=[Y])
        Y = _tt_rand(rng, [5, 4, 6], [2, 3], int)
        rec(f'int/int/{kind}', teneva.func_int, Y, kind, watch=[Y])
        Y = _tt_rand(rng, [5, 4, 6], [2, 3], complex)
        Y = [G + 1j * G[::-1] for G in Y]
        rec(f'int/complex/{kind}', teneva.func_int, Y, kind, watch=[Y])
        # Non-contiguous cores (views):
        Y = [np.asfortranarray(G) for G in _tt_rand(rng, [5, 4, 6], [2, 3])]
        rec(f'int/fortran/{kind}', teneva.func_int, Y, kind, watch=[Y])
        Y = [G[:, ::2, :] for G in _tt_rand(rng, [10, 8, 12], [2, 3])]
        rec(f'int/strided/{kind}', teneva.func_int, Y, kind, watch=[Y])
        # Edge cases and errors:
        rec(f'int/empty/{kind}', teneva.func_int, [], kind)
        rec(f'int/tuple/{kind}', teneva.func_int,
            tuple(_tt_rand(rng, [3, 4], [2])), kind)
        rec(f'int/stack/{kind}', teneva.func_int,
            rng.normal(size=(3, 1, 5, 1)), kind)
        rec(f'int/n1/{kind}', teneva.func_int,
            _tt_rand(rng, [4, 1, 3], [2, 2]), kind)
        rec(f'int/2d-core/{kind}', teneva.func_int,
            [rng.normal(size=(4, 3))], kind)
        rec(f'int/list-core/{kind}', teneva.func_int,
            [rng.normal(size=(1, 4, 1)).tolist()], kind)
        rec(f'int/none-core/{kind}', teneva.func_int, [None], kind)
    for kind in ['CHEB', 'uni', None, 1, ['cheb'], ('cheb', 'sin')]:
        Y = _tt_rand(rng, [3, 4], [2])
        rec(f'int/badkind/{kind!r}', teneva.func_int, Y, kind, watch=[Y])
        rec(f'int/badkind-empty/{kind!r}', teneva.func_int, [], kind)
    rec('int/no-len', teneva.func_int, (G for G in _tt_rand(rng, [3, 4], [2])))
    rec('int/none', teneva.func_int, None)

    # --------------------------------------------------- func_diff_matrix
    boxes = [(-1., 1.), (0., 1.), (-3., 2.5), (2., 5.), (-1, 1), (0, 4),
        (np.float64(-0.5), np.float64(2.)), (1., -1.), (1.E-3, 1.E+3)]
    for n in list(range(2, 26)) + [32, 33, 64, 65]:
        for m in [0, 1, 2, 3, 4]:
            for ib, (a, b) in enumerate(boxes):
                if n > 12 and ib > 2:
                    continue
                for kind in ['cheb', 'sin']:
                    rec(f'diff/{n}/{m}/{ib}/{kind}', teneva.func_diff_matrix,
                        a, b, n, m, kind)
    for n in [2, 5, 8]:
        rec(f'diff/default/{n}', teneva.func_diff_matrix, -2., 3., n)
        rec(f'diff/kw/{n}', teneva.func_diff_matrix, a=-2., b=3., n=n, m=2,
            kind='cheb')
    for kind in ['cheb', 'sin', 'uni', None, 'CHEB']:
        for m in [0, 1, 2]:
            # Edge and error cases (grid sizes outside the quantifier too):
            for n in [0, 1, 5., 4.7, '6', np.int64(7), True, -1, -3, 'x',
                    None, [3]]:
                rec(f'diff/edge-n/{kind}/{m}/{n!r}', teneva.func_diff_matrix,
                    -1., 1., n, m, kind)
            # Degenerate box:
            rec(f'diff/a=b/{kind}/{m}', teneva.func_diff_matrix,
                1., 1., 5, m, kind)
            rec(f'diff/a=b-np/{kind}/{m}', teneva.func_diff_matrix,
                np.float64(1.), np.float64(1.), 5, m, kind)
            rec(f'diff/ab-arr/{kind}/{m}', teneva.func_diff_matrix,
                np.array([-1., 0.]), np.array([1., 2.]), 2, m, kind)
            rec(f'diff/ab-none/{kind}/{m}', teneva.func_diff_matrix,
                None, 1., 4, m, kind)
        for m in [-1, -2, 1.5, 2., '2', None, True, False, np.int64(1),
                np.int64(3), [1]]:
            rec(f'diff/edge-m/{kind}/{m!r}', teneva.func_diff_matrix,
                -1., 2., 6, m, kind)

    # ------------------------------------------------------ func_get_full
    def points(rng, a, b, d, kinds='idobn'):
        a = np.ones(d) * np.asarray(a, dtype=float)
        b = np.ones(d) * np.asarray(b, dtype=float)
        P = []
        if 'i' in kinds: # inside
            P.append(a + (b - a) * rng.uniform(size=(7, d)))
        if 'o' in kinds: # outside (below, above, one coordinate only)
            P.append(a - (b - a) * rng.uniform(0.01, 1., size=(2, d)))
            P.append(b + (b - a) * rng.uniform(0.01, 1., size=(2, d)))
            Q = a + (b - a) * rng.uniform(size=(2, d))
            Q[0, -1] = b[-1] + 1.E-3
            Q[1, 0] = a[0] - 1.E-3
            P.append(Q)
        if 'b' in kinds: # boundary, tiny excess
            P.append(np.array([a, b, (a + b) / 2]))
            P.append(np.array([a - 1.E-300, b + 1.E-300]))
            P.append(np.array([np.nextafter(a, -np.inf),
                np.nextafter(b, np.inf)]))
        P = np.vstack(P)
        if 'd' in kinds: # duplicates (incl. signed zeros as different bytes)
            P = np.vstack([P, P[::3], P[:2], P[-1:], P[:1]])
            Z = np.zeros((4, d))
            Z[1] = -0.
            Z[3, 0] = -0.
            P = np.vstack([P, Z])
        if 'n' in kinds:
            Q = a + (b - a) * rng.uniform(size=(3, d))
            Q[0, 0] = np.nan
            Q[1, -1] = np.inf
            Q[2] = Q[0]
            P = np.vstack([P, Q])
        return P[rng.permutation(P.shape[0])]

    cfgs = [
        ([5], -1., 1.), ([2], 0., 3.), ([9], [-2.], [0.5]),
        ([4, 5], -1., 1.), ([2, 2], [-1., 0.], [1., 5.]),
        ([6, 3], [-3., -2.], [3., 2.]), ([3, 7], -2, 3),
        ([3, 4, 5], [-1., -2., 0.], [2., 2., 1.]), ([2, 2, 2], -1., 1.),
        ([5, 2, 4, 3], [-1., 0., 1., 2.], [1., 1., 3., 7.]),
        ([3, 3, 3, 3, 3], -0.5, 0.5),
    ]
    for ic, (n, a, b) in enumerate(cfgs):
        d = len(n)
        for seed in range(2):
            rng = np.random.default_rng(500 * ic + seed)
            A = rng.normal(size=n)
            X = points(rng, a, b, d)
            for skip_out in [True, False]:
                for z in [0., -7.5]:
                    rec(f'get/{ic}/{seed}/{skip_out}/{z}',
                        teneva.func_get_full, X, A, a, b, z, skip_out,
                        watch=[X, A])
            rec(f'get/default/{ic}/{seed}', teneva.func_get_full, X, A, a, b,
                watch=[X, A])
            rec(f'get/kw/{ic}/{seed}', teneva.func_get_full, X=X, A=A, a=a,
                b=b, z=1., skip_out=1, watch=[X, A])
            XF = np.asfortranarray(X)
            rec(f'get/fortran/{ic}/{seed}', teneva.func_get_full, XF, A, a, b,
                watch=[XF, A])
            XS = np.repeat(X, 2, axis=0)[::2]
            rec(f'get/strided/{ic}/{seed}', teneva.func_get_full, XS, A, a, b,
                watch=[XS, A])
            AF = np.asfortranarray(A)
            rec(f'get/A-fortran/{ic}/{seed}', teneva.func_get_full, X, AF, a,
                b, watch=[X, AF])
            rec(f'get/empty/{ic}/{seed}', teneva.func_get_full,
                np.zeros((0, d)), A, a, b)
            rec(f'get/one/{ic}/{seed}', teneva.func_get_full, X[:1], A, a, b)
            rec(f'get/1d/{ic}/{seed}', teneva.func_get_full, X[0], A, a, b)
            rec(f'get/1d-noskip/{ic}/{seed}', teneva.func_get_full, X[0], A,
                a, b, 0., False)
            rec(f'get/list/{ic}/{seed}', teneva.func_get_full, X.tolist(), A,
                a, b)
            rec(f'get/A-list/{ic}/{seed}', teneva.func_get_full, X,
                A.tolist(), a, b)
            rec(f'get/wrong-d/{ic}/{seed}', teneva.func_get_full,
                np.hstack([X, X[:, :1]]), A, a, b)
            rec(f'get/wrong-ab/{ic}/{seed}', teneva.func_get_full, X, A,
                [-1.] * (d + 1), [1.] * (d + 1))
            rec(f'get/3d/{ic}/{seed}', teneva.func_get_full, X[:, None, :], A,
                a, b)
            # Integer points and integer / complex coefficients:
            XI = np.round(X[np.isfinite(X).all(axis=1)]).astype(int)
            rec(f'get/int-X/{ic}/{seed}', teneva.func_get_full, XI, A, a, b,
                watch=[XI, A])
            AI = np.round(A * 4).astype(int)
            rec(f'get/int-A/{ic}/{seed}', teneva.func_get_full, X, AI, a, b,
                watch=[X, AI])
            rec(f'get/complex-z/{ic}/{seed}', teneva.func_get_full, X, A, a,
                b, 1. + 2.j)
            # Exactness pipeline (interpolate, evaluate, re-sample):
            lo = np.ones(d) * np.asarray(a, dtype=float)
            hi = np.ones(d) * np.asarray(b, dtype=float)
            if d <= 4:
                F = _poly_full(rng, n, lo, hi)
                C = teneva.func_int_full(F)
                XP = points(rng, a, b, d, 'iobd')
                rec(f'get/poly/{ic}/{seed}', teneva.func_get_full, XP, C, a, b,
                    watch=[XP, C])
                rec(f'gets/same/{ic}/{seed}', teneva.func_gets_full, C, a, b,
                    watch=[C])
                rec(f'gets/m-int/{ic}/{seed}', teneva.func_gets_full, C, a, b,
                    4, watch=[C])
                rec(f'gets/m-list/{ic}/{seed}', teneva.func_gets_full, C, a, b,
                    [3 + k for k in range(d)], watch=[C])
    rec('get/0d', teneva.func_get_full, np.zeros((2, 0)), np.array(1.), -1.,
        1.)
    rec('get/0d-list', teneva.func_get_full, np.zeros((2, 0)), np.array(1.),
        [], [])

    # ------------------------ TT pipeline through func_int (both formats)
    for ic, (n, r) in enumerate([([5, 6], [2]), ([4, 5, 6], [2, 3]),
            ([3, 4, 3, 4], [1, 5, 1]), ([7, 7, 7], [9, 9])]):
        d = len(n)
        rng = np.random.default_rng(77 + ic)
        Y = _tt_rand(rng, n, r)
        A = teneva.func_int(Y)
        X = points(rng, -1., 2., d, 'iob')
        rec(f'pipe/get/{ic}', teneva.func_get, X, A, -1., 2., watch=[X, A])
        rec(f'pipe/gets/{ic}', teneva.func_gets, A, watch=[A])
        rec(f'pipe/gets-m/{ic}', teneva.func_gets, A, 5, watch=[A])
        rec(f'pipe/sum/{ic}', teneva.func_sum, A, -1., 2., watch=[A])
        S = teneva.func_int(Y, 'sin')
        rec(f'pipe/gets-sin/{ic}', teneva.func_gets, S, None, 'sin',
            watch=[S])
        AF = teneva.func_int_full(teneva.full(Y))
        rec(f'pipe/full-vs-tt/{ic}', teneva.func_get_full, X, AF, -1., 2.,
            watch=[X, AF])
        D = teneva.func_diff_matrix(-1., 2., n[0], 2)
        rec(f'pipe/diff-apply/{ic}', lambda: [Dk @ teneva.full(Y).reshape(
            n[0], -1) for Dk in D])

    with open(fpath, 'wb') as f:
        pickle.dump(out, f)


# ---------------------------------------------------------------------------
# Comparison part
# ---------------------------------------------------------------------------


class Stat:
    def __init__(self):
        self.arrays = 0
        self.inexact = 0
        self.maxdiff = 0.


def same(x, y, stat, path=''):
    """Compare two descriptions; return the list of disagreement messages."""
    import numpy as np
    if type(x) is not type(y):
        return [f'{path}: type {type(x)} != {type(y)}']
    if isinstance(x, np.ndarray):
        if x.dtype != y.dtype or x.shape != y.shape:
            return [f'{path}: array meta {x.dtype}{x.shape} != '
                f'{y.dtype}{y.shape}']
        stat.arrays += 1
        if x.dtype.kind in 'fc':
            if not np.allclose(x, y, rtol=RTOL, atol=ATOL, equal_nan=True):
                return [f'{path}: values differ']
            if not np.array_equal(x, y, equal_nan=True):
                stat.inexact += 1
                with np.errstate(all='ignore'):
                    diff = np.abs(x - y)
                stat.maxdiff = max(stat.maxdiff, float(np.nanmax(diff)))
            # The sign of zeros and of NaN / inf positions must agree too:
            if not np.array_equal(np.isnan(x), np.isnan(y)):
                return [f'{path}: nan positions differ']
            if x.dtype.kind == 'f':
                ok = ~np.isnan(x)
                if not np.array_equal(np.signbit(x[ok]), np.signbit(y[ok])):
                    return [f'{path}: signs (of zeros) differ']
            return []
        if not np.array_equal(x, y):
            return [f'{path}: values differ']
        return []
    if isinstance(x, (tuple, list)):
        if len(x) != len(y):
            return [f'{path}: len {len(x)} != {len(y)}']
        msgs = []
        for i, (p, q) in enumerate(zip(x, y)):
            msgs += same(p, q, stat, f'{path}[{i}]')
        return msgs
    if isinstance(x, dict):
        if sorted(x) != sorted(y):
            return [f'{path}: keys differ']
        msgs = []
        for k in x:
            msgs += same(x[k], y[k], stat, f'{path}[{k!r}]')
        return msgs
    if isinstance(x, float):
        if x != y and not (x != x and y != y):
            if abs(x - y) > ATOL + RTOL * abs(y):
                return [f'{path}: {x!r} != {y!r}']
        return []
    if x != y:
        return [f'{path}: {x!r} != {y!r}']
    return []


def main():
    res = {}
    with tempfile.TemporaryDirectory() as tmp:
        for name, root in [('orig', ROOT_ORIG), ('twin', ROOT_TWIN)]:
            fpath = os.path.join(tmp, name + '.pkl')
            env = dict(os.environ)
            env.pop('PYTHONPATH', None)
            p = subprocess.run([sys.executable, os.path.abspath(__file__),
                '--worker', fpath], cwd=root, env=env)
            if p.returncode != 0:
                print(f'Worker "{name}" failed')
                return 1
            with open(fpath, 'rb') as f:
                res[name] = pickle.load(f)

    fo, ft = res['orig'].pop('__file__'), res['twin'].pop('__file__')
    print(f'orig package : {fo}')
    print(f'twin package : {ft}')
    if fo != os.path.join(ROOT_ORIG, 'teneva') or \
            ft != os.path.join(ROOT_TWIN, 'teneva') or fo == ft:
        print('Wrong packages were imported')
        return 1

    if list(res['orig']) != list(res['twin']):
        print('Scenario lists differ')
        return 1

    stat = Stat()
    bad = 0
    n_exc = 0
    n_warn = 0
    n_msg = 0
    for name in res['orig']:
        ro, rt = res['orig'][name], res['twin'][name]
        if ro[0][0] == 'exc' and rt[0][0] == 'exc' and ro[0][1] == rt[0][1] \
                and ro[0][2] != rt[0][2]:
            # The same exception class with another text (note, not failure):
            n_msg += 1
            print(f'NOTE {name}: {ro[0][1]} text differs: '
                f'{ro[0][2]!r} vs {rt[0][2]!r}')
            rt = ((rt[0][0], rt[0][1], ro[0][2], rt[0][3]), ) + tuple(rt[1:])
        msgs = same(ro, rt, stat, name)
        n_exc += res['orig'][name][0][0] == 'exc'
        n_warn += len(res['orig'][name][0][-1]) > 0
        if msgs:
            bad += 1
            for msg in msgs[:5]:
                print('DIFF', msg)

    print(f'scenarios    : {len(res["orig"])} ({n_exc} raise an exception, '
        f'{n_warn} emit warnings)')
    print(f'arrays       : {stat.arrays} compared, {stat.inexact} not '
        f'bit-identical (max abs diff {stat.maxdiff:.3e})')
    print(f'exc. texts   : {n_msg} differ (the exception class is the same)')
    print(f'disagreements: {bad}')
    print('RESULT:', 'FAIL' if bad else 'OK (equivalent)')
    return 1 if bad else 0


if __name__ == '__main__':
    if len(sys.argv) == 3 and sys.argv[1] == '--worker':
        worker(sys.argv[2])
        sys.exit(0)
    sys.exit(main())
