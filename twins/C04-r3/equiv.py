"""Equivalence demonstration for the C04 twin C refactoring.

The ORIGINAL package (/tmp/twinsC/C04/orig) and the REFACTORED package
(/tmp/wt/C04) are run in two subprocesses on the same deterministic list of
scenarios; every scenario is dumped to a pickle and the two pickles are then
compared (values with a tight np.allclose, shapes, dtypes, memory layout,
exceptions, identity / mutation behaviour of the arguments).

Exit code 0: everything agrees; 1: some difference (or a worker failed).

"""
import os
import pickle
import subprocess
import sys
import tempfile


ROOT_ORIG = '/tmp/twinsC/C04/orig'
ROOT_NEW = os.environ.get('EQUIV_C04_NEW', '/tmp/wt/C04')
RTOL = 1.E-13
ATOL = 0.


# --------------------------------------------------------------------------
# Worker part (runs with one of the two packages)
# --------------------------------------------------------------------------


def enc(x):
    """Encode a result into a plain comparable / picklable structure."""
    import numpy as np
    if isinstance(x, np.ndarray):
        return ('arr', str(x.dtype), x.shape, bool(x.flags['C_CONTIGUOUS']),
            bool(x.flags['F_CONTIGUOUS']), np.array(x, copy=True, order='C'))
    if isinstance(x, tuple):
        return ('tuple', [enc(v) for v in x])
    if isinstance(x, list):
        return ('list', [enc(v) for v in x])
    if isinstance(x, (np.generic,)):
        return ('npscalar', type(x).__name__, x.item())
    return ('py', type(x).__name__, x)


def make_tt(rng, n, r, scale=1., kind='normal', order='C', dtype=float):
    """Build a TT-tensor with mode sizes n and ranks r (len(r) = len(n)+1)."""
    import numpy as np
    Y = []
    for k in range(len(n)):
        shape = (r[k], n[k], r[k+1])
        if kind == 'normal':
            G = rng.normal(size=shape)
        elif kind == 'deficient':
            # core whose both unfoldings have rank 1
            a = rng.normal(size=(r[k], 1, 1))
            b = rng.normal(size=(1, n[k], 1))
            c = rng.normal(size=(1, 1, r[k+1]))
            G = a * b * c
        elif kind == 'zero':
            G = np.zeros(shape)
        elif kind == 'zero_mid':
            G = rng.normal(size=shape) if k != len(n) // 2 else np.zeros(shape)
        elif kind == 'ones':
            G = np.ones(shape)
        elif kind == 'int':
            G = rng.integers(-3, 4, size=shape)
        else:
            raise NotImplementedError(kind)
        if kind != 'int':
            G = (G * scale).astype(dtype)
        G = np.asfortranarray(G) if order == 'F' else np.ascontiguousarray(G)
        Y.append(G)
    return Y


def tt_cases():
    """Deterministic list (name, builder) of TT-tensors."""
    import numpy as np
    cases = []

    def add(name, seed, n, r, **kw):
        cases.append((name, seed, list(n), list(r), kw))

    add('d2_small', 1, [3, 4], [1, 2, 1])
    add('d2_rank1', 2, [5, 2], [1, 1, 1])
    add('d2_over', 3, [2, 3], [1, 7, 1])
    add('d3_generic', 4, [4, 5, 3], [1, 3, 2, 1])
    add('d3_over', 5, [2, 2, 2], [1, 5, 6, 1])
    add('d3_mode1', 6, [1, 4, 1], [1, 3, 2, 1])
    add('d3_allmode1', 7, [1, 1, 1], [1, 2, 3, 1])
    add('d4_rank1', 8, [3, 3, 3, 3], [1, 1, 1, 1, 1])
    add('d4_generic', 9, [4, 3, 5, 2], [1, 3, 4, 2, 1])
    add('d4_over', 10, [2, 3, 2, 3], [1, 9, 4, 11, 1])
    add('d4_deficient', 11, [3, 4, 3, 4], [1, 3, 4, 3, 1], kind='deficient')
    add('d5_deficient_over', 12, [2, 2, 2, 2, 2], [1, 5, 7, 6, 4, 1],
        kind='deficient')
    add('d5_generic', 13, [3, 2, 4, 2, 3], [1, 2, 4, 4, 2, 1])
    add('d6_generic', 14, [2, 3, 2, 3, 2, 3], [1, 2, 5, 6, 5, 3, 1])
    add('d7_mixed', 15, [2, 1, 3, 1, 2, 4, 2], [1, 2, 2, 8, 3, 3, 2, 1])
    add('d4_huge', 16, [3, 3, 3, 3], [1, 3, 3, 3, 1], scale=1.E+60)
    add('d4_tiny', 17, [3, 3, 3, 3], [1, 3, 3, 3, 1], scale=1.E-60)
    add('d3_vhuge', 18, [3, 2, 3], [1, 2, 2, 1], scale=1.E+100)
    add('d3_vtiny', 19, [3, 2, 3], [1, 2, 2, 1], scale=1.E-101)
    add('d3_subthr', 20, [3, 2, 3], [1, 2, 2, 1], scale=1.E-120)
    add('d3_zero', 21, [3, 2, 3], [1, 2, 2, 1], kind='zero')
    add('d4_zero_mid', 22, [3, 2, 3, 2], [1, 2, 3, 2, 1], kind='zero_mid')
    add('d4_ones', 23, [3, 2, 3, 2], [1, 2, 3, 2, 1], kind='ones')
    add('d4_forder', 24, [4, 3, 5, 2], [1, 3, 4, 2, 1], order='F')
    add('d4_int', 25, [3, 2, 3, 2], [1, 2, 3, 2, 1], kind='int')
    add('d4_f32', 26, [3, 2, 3, 2], [1, 2, 3, 2, 1], dtype=np.float32)
    add('d3_bound_rank', 27, [3, 4, 2], [2, 3, 2, 3])
    add('d10_chain', 28, [2] * 10, [1, 2, 4, 8, 9, 9, 9, 8, 4, 2, 1])
    for s in range(8):
        rng = np.random.default_rng(1000 + s)
        d = int(rng.integers(2, 7))
        n = [int(v) for v in rng.integers(1, 6, size=d)]
        r = [1] + [int(v) for v in rng.integers(1, 9, size=d-1)] + [1]
        add('rand%d' % s, 2000 + s, n, r,
            scale=float(10. ** rng.integers(-30, 30)))
    return cases


def call(func, *args, **kwargs):
    try:
        return ('ok', func(*args, **kwargs))
    except Exception as e:
        return ('exc', type(e).__name__, str(e))


def snapshot(Y):
    return [G.copy() for G in Y]


def mutation_info(Y, Y_ids, Y_before, res):
    """How the argument Y (list of cores) looks after the call."""
    import numpy as np
    info = {}
    info['same_len'] = len(Y) == len(Y_ids)
    info['slot_same_object'] = [id(G) == i for G, i in zip(Y, Y_ids)]
    info['arg_after'] = enc(list(Y))
    info['old_arrays_untouched'] = [
        bool(np.array_equal(G0, G1, equal_nan=True))
        for G0, G1 in zip(Y_before['arrays'], Y_before['copies'])]
    if res[0] == 'ok':
        out = res[1][0] if isinstance(res[1], tuple) else res[1]
        info['res_is_arg'] = out is Y
        if isinstance(out, list):
            info['res_shares_core'] = [
                any(G is H for H in Y_before['arrays']) for G in out]
    return info


def run_tt_scenario(func, Y, *args, **kwargs):
    Y_ids = [id(G) for G in Y]
    before = {'arrays': list(Y), 'copies': snapshot(Y)}
    res = call(func, Y, *args, **kwargs)
    out = {'res': (res[0], enc(res[1])) if res[0] == 'ok' else res}
    out['mut'] = mutation_info(Y, Y_ids, before, res)
    return out


def worker(root, fpath):
    sys.path.insert(0, root)
    os.chdir(root)
    import numpy as np
    import teneva
    assert os.path.dirname(os.path.abspath(teneva.__file__)) == \
        os.path.join(root, 'teneva'), teneva.__file__
    import teneva.transformation as tr
    import teneva.core as co
    assert os.path.abspath(tr.__file__).startswith(root)
    assert os.path.abspath(co.__file__).startswith(root)

    np.seterr(all='ignore')
    results = {}

    def build(case):
        name, seed, n, r, kw = case
        return make_tt(np.random.default_rng(seed), n, r, **kw)

    for case in tt_cases():
        name = case[0]
        d = len(case[2])

        # -- orthogonalize: all pivots, default pivot, bad pivots, both flags
        pivots = list(range(d)) + [None, -1, d, d + 3, -d, np.int64(d - 1)]
        for k in pivots:
            for use_stab in (False, True, 0, 1):
                key = ('orthogonalize', name, repr(k), repr(use_stab))
                Y = build(case)
                results[key] = run_tt_scenario(
                    teneva.orthogonalize, Y, k, use_stab)
        # keyword / default spelling
        Y = build(case)
        results[('orthogonalize-default', name)] = run_tt_scenario(
            teneva.orthogonalize, Y)
        Y = build(case)
        results[('orthogonalize-kw', name)] = run_tt_scenario(
            teneva.orthogonalize, Y, use_stab=True, k=0)
        # tuple instead of list as container (copy -> list)
        Y = tuple(build(case))
        res = call(teneva.orthogonalize, Y, d - 1, True)
        results[('orthogonalize-tuple', name)] = {
            'res': (res[0], enc(res[1])) if res[0] == 'ok' else res,
            'arg_after': enc(list(Y))}

        # -- single steps: all modes (valid and invalid), both inplace flags
        modes = list(range(-1, d + 2)) + [None, np.int64(1), -d]
        for fname in ('orthogonalize_left', 'orthogonalize_right'):
            func = getattr(teneva, fname)
            for i in modes:
                for inplace in (False, True):
                    key = (fname, name, repr(i), inplace)
                    Y = build(case)
                    results[key] = run_tt_scenario(func, Y, i, inplace)
            Y = build(case)
            results[(fname + '-default', name)] = run_tt_scenario(
                func, Y, 1 if fname.endswith('right') else 0)
            Y = build(case)
            results[(fname + '-kw', name)] = run_tt_scenario(
                func, Y, inplace=True, i=min(1, d - 1))

        # -- chains: a manual sweep built from the single steps, in place
        Y = build(case)
        p = 0
        for i in range(d - 1):
            teneva.orthogonalize_left(Y, i, inplace=True)
            Y[i+1], p = teneva.core_stab(Y[i+1], p)
        for i in range(d - 1, 0, -1):
            teneva.orthogonalize_right(Y, i, inplace=True)
            Y[i-1], p = teneva.core_stab(Y[i-1], p)
        results[('chain', name)] = {'res': ('ok', enc((Y, p)))}

        # -- orthogonalize twice (idempotence path, exact rank-cut cores)
        Y = build(case)
        Z = teneva.orthogonalize(Y, d // 2)
        Z, p = teneva.orthogonalize(Z, 0, use_stab=True)
        results[('twice', name)] = {'res': ('ok', enc((Z, p)))}

    # -- empty / degenerate containers
    for k in (None, 0, -1, 1):
        for use_stab in (False, True):
            res = call(teneva.orthogonalize, [], k, use_stab)
            results[('orthogonalize-empty', repr(k), use_stab)] = {'res': res}
    for i in (None, 0, 1, -1):
        for fname in ('orthogonalize_left', 'orthogonalize_right'):
            for Y in ([], [np.ones((1, 3, 1))]):
                res = call(getattr(teneva, fname), list(Y), i, True)
                results[(fname + '-degenerate', repr(i), len(Y))] = {
                    'res': res if res[0] == 'exc' else (res[0], enc(res[1]))}
    Y1 = [np.arange(1., 4.).reshape(1, 3, 1)]
    for use_stab in (False, True):
        results[('orthogonalize-d1', use_stab)] = run_tt_scenario(
            teneva.orthogonalize, list(Y1), None, use_stab)

    # -- core_stab
    rng = np.random.default_rng(77)
    cores = []
    for scale in (1., 3., 1.E+5, 1.E-5, 1.E+99, 1.E-99, 1.E-100, 1.E-101,
            1.E+300, 1.E-300, 5.E-324, 2. ** 10, 2. ** -10, 1.7E+308):
        cores.append(('normal%g' % scale, rng.normal(size=(2, 3, 4)) * scale))
        cores.append(('const%g' % scale, np.full((1, 2, 1), scale)))
        cores.append(('negconst%g' % scale, np.full((1, 2, 1), -scale)))
    cores.append(('zero', np.zeros((2, 2, 2))))
    cores.append(('thr_exact', np.full((1, 1, 1), 1.E-100)))
    cores.append(('nan', np.array([[[1., np.nan]]])))
    cores.append(('inf', np.array([[[1., np.inf]]])))
    cores.append(('neginf', np.array([[[-np.inf, 2.]]])))
    cores.append(('int', np.arange(-5, 7).reshape(2, 3, 2)))
    cores.append(('int_zero', np.zeros((1, 2, 1), dtype=int)))
    cores.append(('f32', (rng.normal(size=(2, 2, 2)) * 100).astype(np.float32)))
    cores.append(('forder', np.asfortranarray(rng.normal(size=(3, 2, 3)) * 9)))
    cores.append(('view', (rng.normal(size=(4, 4, 4)) * 77)[::2, 1:, ::-1]))
    cores.append(('complex', rng.normal(size=(2, 2, 2)) * (3 + 4j)))
    cores.append(('vec', rng.normal(size=(5,)) * 1000))
    cores.append(('mat', rng.normal(size=(3, 4)) / 1000))
    cores.append(('pow2', np.array([[[4., -2., 1.]]])))
    cores.append(('below_pow2', np.array([[[np.nextafter(4., 0.), 1.]]])))
    cores.append(('empty', np.zeros((0, 2, 1))))
    for cname, G in cores:
        for p0 in (0, 3, -7, 2.5):
            for thr in (None, 1.E-100, 0., 1., 1.E+10, -1.):
                G_arg = G.copy(order='K')
                G_ref = G_arg.copy(order='K')
                if thr is None:
                    res = call(teneva.core_stab, G_arg, p0)
                else:
                    res = call(teneva.core_stab, G_arg, p0, thr)
                out = {'res': (res[0], enc(res[1])) if res[0] == 'ok' else res}
                out['arg_untouched'] = bool(
                    np.array_equal(G_arg, G_ref, equal_nan=True))
                if res[0] == 'ok':
                    out['q_is_arg'] = res[1][0] is G_arg
                    out['p_type'] = type(res[1][1]).__name__
                results[('core_stab', cname, repr(p0), repr(thr))] = out
        res = call(teneva.core_stab, G.copy())
        results[('core_stab-default', cname)] = {
            'res': (res[0], enc(res[1])) if res[0] == 'ok' else res}
        res = call(teneva.core_stab, thr=1.E-3, p0=5, G=G.copy())
        results[('core_stab-kw', cname)] = {
            'res': (res[0], enc(res[1])) if res[0] == 'ok' else res}

    # -- callers inside the library that go through the anchors
    rng = np.random.default_rng(5)
    Y = make_tt(rng, [4, 3, 5, 2], [1, 3, 4, 2, 1])
    results[('caller-truncate',)] = {'res': ('ok', enc(
        teneva.truncate(Y, e=1.E-8)))}
    results[('caller-truncate-stab',)] = {'res': ('ok', enc(
        teneva.truncate(Y, e=1.E-8, use_stab=True)))}

    with open(fpath, 'wb') as f:
        pickle.dump(results, f)


# --------------------------------------------------------------------------
# Comparison part
# --------------------------------------------------------------------------


class Cmp:
    def __init__(self):
        self.bad = []
        self.n_arr = 0
        self.n_bitwise_diff = 0

    def cmp(self, key, path, a, b):
        import numpy as np
        if type(a) is not type(b):
            self.bad.append((key, path, 'type', type(a), type(b)))
            return
        if isinstance(a, tuple) and len(a) == 6 and a[0] == 'arr':
            if b[0] != 'arr' or a[1:5] != b[1:5]:
                self.bad.append((key, path, 'dtype/shape/layout', a[1:5],
                    b[1:5]))
                return
            self.n_arr += 1
            x, y = a[5], b[5]
            if x.tobytes() != y.tobytes():
                self.n_bitwise_diff += 1
            if x.dtype.kind in 'fc':
                ok = np.allclose(x, y, rtol=RTOL, atol=ATOL, equal_nan=True)
            else:
                ok = np.array_equal(x, y)
            if not ok:
                self.bad.append((key, path, 'values', x, y))
            return
        if isinstance(a, dict):
            if sorted(a, key=repr) != sorted(b, key=repr):
                self.bad.append((key, path, 'dict keys', list(a), list(b)))
                return
            for k in a:
                self.cmp(key, path + (k,), a[k], b[k])
            return
        if isinstance(a, (tuple, list)):
            if len(a) != len(b):
                self.bad.append((key, path, 'len', len(a), len(b)))
                return
            for j, (u, v) in enumerate(zip(a, b)):
                self.cmp(key, path + (j,), u, v)
            return
        if isinstance(a, float):
            if not (a == b or (a != a and b != b)):
                self.bad.append((key, path, 'float', a, b))
            return
        if a != b:
            self.bad.append((key, path, 'value', a, b))


def main():
    tmp = tempfile.mkdtemp(prefix='equiv_C04_')
    files = {}
    for tag, root in (('orig', ROOT_ORIG), ('new', ROOT_NEW)):
        fpath = os.path.join(tmp, tag + '.pkl')
        env = dict(os.environ)
        env.pop('PYTHONPATH', None)
        env['PYTHONDONTWRITEBYTECODE'] = '1'
        proc = subprocess.run(
            [sys.executable, '-W', 'ignore', os.path.abspath(__file__),
                '--worker', root, fpath],
            cwd=root, env=env)
        if proc.returncode != 0 or not os.path.isfile(fpath):
            print('FAIL: worker for "%s" exited with %d' % (
                tag, proc.returncode))
            return 1
        with open(fpath, 'rb') as f:
            files[tag] = pickle.load(f)

    A, B = files['orig'], files['new']
    c = Cmp()
    if list(A.keys()) != list(B.keys()):
        print('FAIL: scenario lists differ')
        return 1
    n_exc = 0
    for key in A:
        c.cmp(key, (), A[key], B[key])
        if A[key]['res'][0] == 'exc':
            n_exc += 1

    print('scenarios compared : %d (%d of them raise an exception)' % (
        len(A), n_exc))
    print('arrays compared    : %d (rtol=%g); not bit-identical: %d' % (
        c.n_arr, RTOL, c.n_bitwise_diff))
    if c.bad:
        print('FAIL: %d differences' % len(c.bad))
        for item in c.bad[:25]:
            print('  ', item[:3], *[repr(v)[:200] for v in item[3:]])
        return 1
    print('OK: original and refactored packages agree')
    return 0


if __name__ == '__main__':
    if len(sys.argv) == 4 and sys.argv[1] == '--worker':
        worker(sys.argv[2], sys.argv[3])
        sys.exit(0)
    sys.exit(main())
