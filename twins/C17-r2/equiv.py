"""Equivalence demonstration for the C17 twin (QTT conversion / index maps).

Runs the same deterministic scenario list in two subprocesses - one importing
the pristine package (cwd=/tmp/twinsB/C17/orig), one importing the refactored
package (cwd=/tmp/wt/C17) - each dumping its results to a pickle, and compares
the two pickles. Exit code 0 if everything agrees, 1 otherwise.

Refactored functions that are compared:
    teneva.core_qtt_to_tt, teneva.ind_tt_to_qtt, teneva.ind_qtt_to_tt
(plus the public wrappers teneva.qtt_to_tt / teneva.tt_to_qtt, which call them,
and core_tt_to_qtt as the untouched producer of the inputs).
"""
import os
import pickle
import subprocess
import sys
import tempfile

import numpy as np


ORIG = '/tmp/twinsB/C17/orig'
TWIN = '/tmp/wt/C17'
PY = '/venv/bin/python'


# --------------------------------------------------------------------------
# Worker part (executed in a subprocess with cwd = package root)
# --------------------------------------------------------------------------


def _desc(x):
    """Picklable, comparable description of a result (values + metadata)."""
    if isinstance(x, np.ndarray):
        return {
            'kind': 'ndarray',
            'shape': x.shape,
            'dtype': str(x.dtype),
            'c': bool(x.flags['C_CONTIGUOUS']),
            'f': bool(x.flags['F_CONTIGUOUS']),
            'own': bool(x.flags['OWNDATA']),
            'val': np.array(x),
        }
    if isinstance(x, (list, tuple)):
        return {'kind': type(x).__name__, 'items': [_desc(v) for v in x]}
    return {'kind': 'obj', 'type': type(x).__name__, 'val': x}


def _call(func, *args, **kwargs):
    """Call and record the result or the exception type; record mutation."""
    import copy
    before = copy.deepcopy(args)
    try:
        res = func(*args, **kwargs)
        out = {'ok': True, 'res': _desc(res)}
        # aliasing of the result with the arguments
        alias = []
        for a in args:
            items = a if isinstance(a, (list, tuple)) else [a]
            for it in items:
                if isinstance(it, np.ndarray) and isinstance(res, np.ndarray):
                    alias.append(bool(np.shares_memory(it, res)))
        out['alias'] = alias
    except Exception as exc:
        out = {'ok': False, 'exc': type(exc).__name__}
    out['args_after'] = _desc(list(args))
    out['args_before'] = _desc(list(before))
    return out


def _rand_qtt_cores(rng, q, ranks, kind):
    """List of q QTT-cores with the given bond profile (length q+1)."""
    cores = []
    for k in range(q):
        shape = (ranks[k], 2, ranks[k+1])
        if kind == 'normal':
            G = rng.normal(size=shape)
        elif kind == 'fortran':
            G = np.asfortranarray(rng.normal(size=shape))
        elif kind == 'int':
            G = rng.integers(-3, 4, size=shape)
        elif kind == 'f32':
            G = rng.normal(size=shape).astype(np.float32)
        elif kind == 'complex':
            G = rng.normal(size=shape) + 1j * rng.normal(size=shape)
        elif kind == 'view':
            G = rng.normal(size=(ranks[k], 4, ranks[k+1]))[:, ::2, :]
        elif kind == 'zeros':
            G = np.zeros(shape)
        else:
            raise ValueError(kind)
        cores.append(G)
    return cores


def worker(fpath):
    import itertools
    sys.path.insert(0, os.getcwd())
    import teneva
    assert os.path.dirname(os.path.dirname(teneva.__file__)) == os.getcwd(), \
        teneva.__file__

    R = {}
    R['__file__'] = None  # (the location differs by construction)

    # ---- 1. core_qtt_to_tt on random QTT-core lists --------------------
    rng = np.random.default_rng(12345)
    profiles = []
    for q in range(1, 8):
        profiles.append((q, [1]*(q+1)))                      # all rank 1
        profiles.append((q, [3]*(q+1)))                      # uniform
        profiles.append((q, [1] + [9]*(q-1) + [1]))          # over-ranked
        profiles.append((q, [4] + [2]*(q-1) + [5]))          # r1 != r2
        profiles.append((q, list(rng.integers(1, 7, size=q+1))))
        profiles.append((q, [2**min(k, q-k)+1 for k in range(q+1)]))
    kinds = ['normal', 'fortran', 'int', 'f32', 'complex', 'view', 'zeros']
    for ip, (q, ranks) in enumerate(profiles):
        for kind in kinds:
            Q_list = _rand_qtt_cores(rng, q, [int(v) for v in ranks], kind)
            R[('core_qtt_to_tt', ip, kind)] = _call(
                teneva.core_qtt_to_tt, Q_list)
            # tuple instead of list as the container
            R[('core_qtt_to_tt/tuple', ip, kind)] = _call(
                teneva.core_qtt_to_tt, tuple(Q_list))

    # malformed inputs (outside of the quantifier): same exception type
    bad = [
        [],
        [rng.normal(size=(2, 2, 3)), rng.normal(size=(4, 2, 2))],
        [rng.normal(size=(2, 2, 3)), rng.normal(size=(6, 2, 1))],
        [rng.normal(size=(1, 2, 2)), rng.normal(size=(2, 3, 2)),
            rng.normal(size=(2, 2, 1))],                       # mode size 3
        [rng.normal(size=(1, 4, 2)), rng.normal(size=(2, 2, 1))],
    ]
    for ib, Q_list in enumerate(bad):
        R[('core_qtt_to_tt/bad', ib)] = _call(teneva.core_qtt_to_tt, Q_list)

    # ---- 2. round trip core_tt_to_qtt -> core_qtt_to_tt ---------------
    for seed in range(6):
        rng = np.random.default_rng(100 + seed)
        for q in range(1, 7):
            for (r1, r2) in [(1, 1), (1, 4), (3, 2), (7, 7)]:
                G = rng.normal(size=(r1, 2**q, r2))
                for (e, r) in [(0., 1.E+12), (1.E-8, 1.E+12), (1.E-2, 3),
                               (0., 1), (0.5, 2)]:
                    Q_list = teneva.core_tt_to_qtt(G, e, r)
                    R[('rt_core', seed, q, r1, r2, e, r)] = _call(
                        teneva.core_qtt_to_tt, Q_list)

    # ---- 3. TT-tensor level: tt_to_qtt / qtt_to_tt ---------------------
    for seed in range(4):
        for d in range(1, 5):
            for q in range(1, 5):
                for rk in [1, 2, 5]:
                    Y = teneva.rand([2**q]*d, rk, seed=seed)
                    for (e, r) in [(1.E-12, 100), (1.E-3, 2)]:
                        Z = teneva.tt_to_qtt(Y, e, r)
                        key = ('rt_tt', seed, d, q, rk, e, r)
                        R[key] = _call(teneva.qtt_to_tt, Z, q)
                        # value at the binary expansion of multi-indices
                        rng = np.random.default_rng(seed)
                        I = rng.integers(0, 2**q, size=(7, d))
                        I_qtt = teneva.ind_tt_to_qtt(I, 2**q)
                        R[key + ('get',)] = _desc(teneva.get_many(Z, I_qtt))
                        R[key + ('ind',)] = _desc(I_qtt)
                        R[key + ('back',)] = _desc(
                            teneva.ind_qtt_to_tt(I_qtt, q))

    # ---- 4. index maps: exhaustive for bounded q*d --------------------
    for q in range(1, 7):
        for d in range(1, 7):
            if q * d > 12:
                continue
            n = 2**q
            I_all = np.array(list(itertools.product(range(n), repeat=d)))
            res = _call(teneva.ind_tt_to_qtt, I_all, n)
            R[('ind_tt_to_qtt/all', q, d)] = res
            if res['ok']:
                I_qtt = res['res']['val']
                R[('ind_qtt_to_tt/all', q, d)] = _call(
                    teneva.ind_qtt_to_tt, I_qtt, q)
            B_all = np.array(list(itertools.product(range(2), repeat=q*d)))
            R[('ind_qtt_to_tt/bits', q, d)] = _call(
                teneva.ind_qtt_to_tt, B_all, q)

    # ---- 5. index maps: input flavours --------------------------------
    rng = np.random.default_rng(777)
    for q in [1, 2, 3, 5, 10, 20]:
        n = 2**q
        for d in [1, 2, 3, 8]:
            for m in [0, 1, 2, 13]:
                I = rng.integers(0, n, size=(m, d))
                B = rng.integers(0, 2, size=(m, d*q))
                flav = {
                    'int64': lambda x: x,
                    'list': lambda x: x.tolist(),
                    'int32': lambda x: x.astype(np.int32),
                    'uint8': lambda x: x.astype(np.uint8),
                    'float': lambda x: x.astype(float),
                    'fortran': lambda x: np.asfortranarray(x),
                    'view': lambda x: np.repeat(x, 2, axis=0)[::2],
                    'T': lambda x: np.array(x.T, order='C').T,
                }
                for fname, f in flav.items():
                    if fname == 'uint8' and q > 7:
                        continue
                    if fname == 'list' and m == 0:
                        continue
                    key = (q, d, m, fname)
                    R[('ind_tt_to_qtt/many',) + key] = _call(
                        teneva.ind_tt_to_qtt, f(I), n)
                    R[('ind_qtt_to_tt/many',) + key] = _call(
                        teneva.ind_qtt_to_tt, f(B), q)
                    for n_alt in [float(n), np.int64(n), np.float64(n)]:
                        R[('ind_tt_to_qtt/n_alt', type(n_alt).__name__)
                            + key] = _call(teneva.ind_tt_to_qtt, f(I), n_alt)
                    if m > 0:
                        R[('ind_tt_to_qtt/one',) + key] = _call(
                            teneva.ind_tt_to_qtt, f(I)[0], n)
                        R[('ind_qtt_to_tt/one',) + key] = _call(
                            teneva.ind_qtt_to_tt, f(B)[0], q)
                        R[('ind_tt_to_qtt/last',) + key] = _call(
                            teneva.ind_tt_to_qtt, f(I)[-1], n)

    # ---- 6. index maps: rejections and malformed input ----------------
    for n in [0, 1, 3, 5, 6, 7, 9, 12, 100, 1023, 1025, -4, 2.5, 7.999]:
        for I in [[0, 0], [[0, 0], [0, 0]], [0], np.zeros((3, 2), dtype=int)]:
            R[('ind_tt_to_qtt/reject', repr(n), repr(np.shape(I)))] = _call(
                teneva.ind_tt_to_qtt, I, n)
    for I in [[0, 8], [-1, 0], [[0, 1], [9, 0]], [7, 7], []]:
        R[('ind_tt_to_qtt/range', repr(I))] = _call(
            teneva.ind_tt_to_qtt, I, 8)
    for B in [[0, 2, 0, 1], [0, -1, 0, 1], [[0, 1, 1, 1], [0, 0, 3, 0]], [],
              [0, 1, 1], [1, 1, 0, 1, 1], [[1, 0, 1], [0, 1, 1]]]:
        for q in [1, 2, 3]:
            R[('ind_qtt_to_tt/range', repr(B), q)] = _call(
                teneva.ind_qtt_to_tt, B, q)
    R[('ind_qtt_to_tt/q0',)] = _call(teneva.ind_qtt_to_tt, [0, 1], 0)
    R[('ind_tt_to_qtt/none',)] = _call(teneva.ind_tt_to_qtt, None, 4)
    R[('ind_qtt_to_tt/none',)] = _call(teneva.ind_qtt_to_tt, None, 2)
    R[('ind_tt_to_qtt/scalar',)] = _call(teneva.ind_tt_to_qtt, 3, 4)
    R[('ind_qtt_to_tt/scalar',)] = _call(teneva.ind_qtt_to_tt, 1, 1)

    # ---- 7. callers of the refactored functions ------------------------
    for seed in range(3):
        Y = teneva.rand([8]*3, 2, seed=seed)
        R[('optima_qtt', seed)] = _desc(list(teneva.optima_qtt(Y)))

    with open(fpath, 'wb') as f:
        pickle.dump(R, f)


# --------------------------------------------------------------------------
# Comparison part
# --------------------------------------------------------------------------


def _same(a, b, path, errs, exact):
    if type(a) is not type(b):
        errs.append(f'{path}: type {type(a)} vs {type(b)}')
        return
    if isinstance(a, dict):
        if a.keys() != b.keys():
            errs.append(f'{path}: keys {sorted(a)} vs {sorted(b)}')
            return
        for k in a:
            _same(a[k], b[k], f'{path}/{k}', errs, exact)
    elif isinstance(a, (list, tuple)):
        if len(a) != len(b):
            errs.append(f'{path}: len {len(a)} vs {len(b)}')
            return
        for i, (x, y) in enumerate(zip(a, b)):
            _same(x, y, f'{path}[{i}]', errs, exact)
    elif isinstance(a, np.ndarray):
        if a.shape != b.shape or a.dtype != b.dtype:
            errs.append(f'{path}: {a.shape} {a.dtype} vs {b.shape} {b.dtype}')
        elif a.dtype.kind in 'iub':
            if not np.array_equal(a, b):
                errs.append(f'{path}: integer arrays differ')
        else:
            if not np.allclose(a, b, rtol=1.E-13, atol=1.E-14,
                               equal_nan=True):
                errs.append(f'{path}: max diff {np.max(np.abs(a - b))}')
            if not np.array_equal(a, b, equal_nan=True):
                exact.append(path)
    elif isinstance(a, float):
        if not (a == b or (a != a and b != b)
                or abs(a - b) <= 1.E-13 * max(abs(a), abs(b))):
            errs.append(f'{path}: {a} vs {b}')
    else:
        if a != b:
            errs.append(f'{path}: {a!r} vs {b!r}')


def main():
    tmp = tempfile.mkdtemp(prefix='c17equiv_')
    files = {}
    for name, cwd in [('orig', ORIG), ('twin', TWIN)]:
        fpath = os.path.join(tmp, name + '.pkl')
        env = dict(os.environ)
        env.pop('PYTHONPATH', None)
        env['PYTHONDONTWRITEBYTECODE'] = '1'
        cmd = [PY, '-W', 'ignore', os.path.abspath(__file__), '--worker',
               fpath]
        proc = subprocess.run(cmd, cwd=cwd, env=env)
        if proc.returncode != 0:
            print(f'worker "{name}" failed with code {proc.returncode}')
            return 1
        with open(fpath, 'rb') as f:
            files[name] = pickle.load(f)

    A, B = files['orig'], files['twin']
    errs, inexact = [], []
    if A.keys() != B.keys():
        errs.append('scenario key sets differ')
    n_exc = 0
    for key in A:
        if key not in B:
            continue
        _same(A[key], B[key], repr(key), errs, inexact)
        if isinstance(A[key], dict) and A[key].get('ok') is False:
            n_exc += 1

    print(f'scenarios compared       : {len(A)}')
    print(f'  of them raise (in both): {n_exc}')
    print(f'not bit-identical floats : {len(inexact)}')
    for p in inexact[:10]:
        print('    ', p)
    print(f'mismatches               : {len(errs)}')
    for e in errs[:40]:
        print('    ', e)
    return 1 if errs else 0


if __name__ == '__main__':
    if len(sys.argv) == 3 and sys.argv[1] == '--worker':
        worker(sys.argv[2])
        sys.exit(0)
    sys.exit(main())
