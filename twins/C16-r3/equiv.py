"""Equivalence demonstration for the C16 twin (stabilised arithmetic).

Refactored anchors: teneva.act_two.accuracy, teneva.act_one.norm,
teneva.transformation.orthogonalize (and, as callers, teneva.truncate with
use_stab, teneva.mul_scalar, teneva.orthogonalize_left / right).

The same deterministic scenario list is run in two subprocesses, one with the
pristine package (cwd = /tmp/twinsC/C16/orig) and one with the refactored
package (cwd = /tmp/wt/C16); each dumps its results to a pickle and the two
pickles are compared. Exit code 0 if everything agrees and 1 otherwise.

"""
import os
import pickle
import subprocess
import sys
import tempfile


ROOT_ORIG = '/tmp/twinsC/C16/orig'
ROOT_TWIN = os.environ.get('EQUIV_TWIN_ROOT', '/tmp/wt/C16')
PYTHON = '/venv/bin/python'
RTOL = 1.E-13


# ---------------------------------------------------------------------------
# Worker part (is run inside the subprocess)
# ---------------------------------------------------------------------------


def _pack(x):
    """Transform the result into a picklable and comparable structure."""
    import numpy as np
    if isinstance(x, np.ndarray):
        return ('nd', str(x.dtype), x.shape, x.tobytes(), x.flags['C_CONTIGUOUS'])
    if isinstance(x, np.generic):
        return ('np', type(x).__name__, np.asarray(x).tobytes())
    if isinstance(x, (list, tuple)):
        return (type(x).__name__, [_pack(v) for v in x])
    if isinstance(x, (bool, int, float, str)) or x is None:
        return ('py', type(x).__name__, repr(x))
    raise TypeError('Unsupported result type %s' % type(x))


def _try(func, *args, **kwargs):
    """Call the function and capture the result or the exception."""
    import numpy as np
    try:
        with np.errstate(all='ignore'):
            return ['ok', func(*args, **kwargs)]
    except Exception as e:
        return ['exception', type(e).__name__, str(e)]


def _tt(rng, n, r, scale_pow=0., dtype=float):
    """Random TT-tensor with the given shape, ranks and per-core 2-power."""
    import numpy as np
    d = len(n)
    Y = []
    for i in range(d):
        G = rng.normal(size=(r[i], n[i], r[i+1]))
        s = scale_pow[i] if hasattr(scale_pow, '__len__') else scale_pow
        G = G * 2.**s
        Y.append(G.astype(dtype))
    return Y


def _ranks(d, kind, rng):
    if kind == 'one':
        return [1] * (d + 1)
    if kind == 'const':
        return [1] + [3] * (d - 1) + [1]
    if kind == 'over':
        # Over-ranked cores (rank is larger than r1 * n):
        return [1] + [7 if i % 2 else 2 for i in range(d - 1)] + [1]
    if kind == 'rand':
        return [1] + [int(q) for q in rng.integers(1, 6, size=d - 1)] + [1]
    raise ValueError(kind)


def _scenarios():
    """Generate the list of (name, function of the package -> result)."""
    import numpy as np

    out = []

    def add(name, func):
        out.append((name, func))

    # --- Tensors ------------------------------------------------------------

    tensors = {}
    seed = 0
    for d in [1, 2, 3, 4, 7, 20, 100, 1000, 3000]:
        for kind in ['one', 'const', 'over', 'rand']:
            if d == 1 and kind != 'one':
                continue
            if d >= 1000 and kind in ['over']:
                continue
            for total in [0., -30000., 30000., 777.5, -2100.25]:
                if abs(total) / d > 300:
                    # The scale of one core is kept within 2^(+-300), so that
                    # the square of its items is representable:
                    continue
                seed += 1
                rng = np.random.default_rng(seed)
                n = [int(q) for q in rng.integers(1, 5, size=d)]
                r = _ranks(d, kind, rng)
                if d > 1 and seed % 3 == 0:
                    # Uneven distribution of the scale over the cores:
                    w = rng.random(size=d)
                    w = w / w.sum() * total
                    w = np.clip(w, -300, 300)
                else:
                    w = [total / d] * d
                tensors['d%d-%s-p%g' % (d, kind, total)] = (seed, n, r, w)

    def make(key, shift=0):
        seed, n, r, w = tensors[key]
        return _tt(np.random.default_rng(seed + shift), n, r, w)

    # --- norm / mul_scalar ----------------------------------------------------

    for key in tensors:
        def f(tn, key=key):
            Y = make(key)
            Y0 = [G.copy() for G in Y]
            res = [
                _try(tn.norm, Y),
                _try(tn.norm, Y, use_stab=True),
                _try(tn.norm, Y, True),
                _try(tn.norm, Y, use_stab=False),
                _try(tn.norm, Y, use_stab=1),
                _try(tn.norm, Y, use_stab=0),
                _try(tn.norm, Y=Y, use_stab=True),
                _try(tn.mul_scalar, Y, Y, use_stab=True),
            ]
            same = all(np.array_equal(a, b) for a, b in zip(Y, Y0))
            return [res, same]
        add('norm/' + key, f)

    def f(tn):
        # Zero tensor, negative scalar product (numerically), int cores:
        rng = np.random.default_rng(12345)
        Y = _tt(rng, [3, 4, 2], [1, 2, 3, 1])
        Z = [G * 0. for G in Y]
        Yi = [np.round(G * 5).astype(int) for G in Y]
        return [_try(tn.norm, Z), _try(tn.norm, Z, use_stab=True),
            _try(tn.norm, Yi), _try(tn.norm, Yi, use_stab=True)]
    add('norm/special', f)

    def f(tn):
        # Rescaling a core by an exact power of two:
        rng = np.random.default_rng(777)
        Y = _tt(rng, [3, 4, 2, 5], [1, 2, 3, 2, 1])
        res = [tn.norm(Y, use_stab=True)]
        for q in [1, -1, 10, 501, -700, 1000]:
            Z = [G.copy() for G in Y]
            Z[2] = Z[2] * 2.**q
            res.append(_try(tn.norm, Z, use_stab=True))
            res.append(_try(tn.orthogonalize, Z, 1, use_stab=True))
            res.append(_try(tn.accuracy, Z, Y))
            res.append(_try(tn.accuracy, Y, Z))
        return res
    add('norm/rescale', f)

    # --- accuracy ---------------------------------------------------------

    for key in tensors:
        def f(tn, key=key):
            Y1 = make(key)
            Y2 = make(key, shift=100000)
            Y3 = [G.copy() for G in Y1]
            Y3[len(Y3) // 2] = Y3[len(Y3) // 2] * (1. + 1.E-7)
            d = len(Y1)
            Y4 = [G * 2.**(600. / d) for G in Y1]
            Y5 = [G * 2.**(-700. / d) for G in Y1]
            Y6 = [G * 0. for G in Y1]
            A0 = [[G.copy() for G in Y] for Y in [Y1, Y2, Y3, Y4, Y5, Y6]]
            pairs = [(Y1, Y2), (Y2, Y1), (Y1, Y1), (Y3, Y1), (Y1, Y3),
                (Y4, Y1), (Y1, Y4), (Y5, Y1), (Y1, Y5), (Y5, Y4), (Y4, Y5),
                (Y6, Y4), (Y4, Y6), (Y6, Y6), (Y1, Y6), (Y6, Y1)]
            res = [_try(tn.accuracy, Ya, Yb) for Ya, Yb in pairs]
            res.append(_try(tn.accuracy, Y1=Y3, Y2=Y2))
            A1 = [Y1, Y2, Y3, Y4, Y5, Y6]
            same = all(np.array_equal(a, b)
                for Ya, Yb in zip(A0, A1) for a, b in zip(Ya, Yb))
            return [res, same]
        add('accuracy/' + key, f)

    def f(tn):
        # Half-integer / boundary gaps of the power factors (+-500, +-500.5):
        rng = np.random.default_rng(4242)
        Y = _tt(rng, [2, 3, 2], [1, 2, 2, 1])
        res = []
        for q in np.arange(495, 506, 0.5):
            for sgn in [1, -1]:
                Z = [G.copy() for G in Y]
                Z[0] = Z[0] * 2.**(sgn * q / 2)
                Z[1] = Z[1] * 2.**(sgn * q / 2)
                res.append(_try(tn.accuracy, Z, Y))
                res.append(_try(tn.accuracy, Y, Z))
        return res
    add('accuracy/boundary', f)

    def f(tn):
        # All the branches of the scalar logic of "accuracy" (saturation, gap
        # of the power factors, infinite / tiny mantissas): the stabilised
        # norm is replaced by a stub, which returns the prescribed pairs:
        rng = np.random.default_rng(31)
        Y1 = _tt(rng, [2, 3, 2], [1, 2, 2, 1])
        Y2 = _tt(rng, [2, 3, 2], [1, 2, 2, 1])
        zs = [0., 1., np.float64(1.5), np.float64(0.), 1.E-100, 9.E-101,
            np.float64(-1.E-101), np.inf, np.float64(np.inf), -np.inf,
            np.float64(1.E+300), np.nan]
        ps = [0, 0.5, 499.5, 500, 500.5, 501, 30000, 15000.5]
        res = []
        norm_real = tn.norm
        try:
            for z1 in zs:
                for z2 in zs:
                    for p1 in ps:
                        for p2 in [0, 0.5, 30000]:
                            for sgn in [1, -1]:
                                queue = [(z1, sgn * p1), (z2, sgn * p2)]
                                calls = []
                                def stub(Y, use_stab=False):
                                    calls.append((len(Y), use_stab))
                                    return queue.pop(0)
                                tn.norm = stub
                                res.append(_try(tn.accuracy, Y1, Y2))
                                res.append(len(queue))
                                res.append(repr(calls))
        finally:
            tn.norm = norm_real
        return res
    add('accuracy/branches', f)

    def f(tn):
        # Tensors in the numpy format (the first branch of the function):
        rng = np.random.default_rng(99)
        A = rng.normal(size=(3, 4, 5))
        B = rng.normal(size=(3, 4, 5))
        return [_try(tn.accuracy, A, B), _try(tn.accuracy, A, A),
            _try(tn.accuracy, A, A*0), _try(tn.accuracy, A, B.tolist()),
            _try(tn.accuracy, A[0], B[0]), _try(tn.accuracy, A, B[0]),
            _try(tn.accuracy, A.astype(np.float32), B)]
    add('accuracy/numpy', f)

    for case in ['inf', 'nan', 'shape', 'len', 'rank', 'none', 'empty', 'num']:
        def f(tn, case=case):
            rng = np.random.default_rng(5)
            Y1 = _tt(rng, [3, 4, 2], [1, 2, 3, 1])
            Y2 = _tt(rng, [3, 4, 2], [1, 3, 2, 1])
            if case == 'inf':
                Y2[1][0, 0, 0] = np.inf
            if case == 'nan':
                Y1[1][0, 0, 0] = np.nan
            if case == 'shape':
                Y2 = _tt(rng, [3, 5, 2], [1, 3, 2, 1])
            if case == 'len':
                Y2 = Y2[:2]
            if case == 'rank':
                Y2 = _tt(rng, [3, 4, 2], [2, 3, 2, 1])
            if case == 'none':
                Y2 = None
            if case == 'empty':
                Y1, Y2 = [], []
            if case == 'num':
                Y2 = 2.5
            with np.errstate(all='ignore'):
                return tn.accuracy(Y1, Y2)
        add('accuracy/bad-' + case, f)

    # --- orthogonalize ----------------------------------------------------

    for key in tensors:
        d = len(tensors[key][1])
        if d > 100 and not key.endswith('p30000'):
            continue
        def f(tn, key=key, d=d):
            Y = make(key)
            Y0 = [G.copy() for G in Y]
            ks = sorted(set([None, 0, d - 1, d // 2, d // 3, 1 if d > 1 else 0]),
                key=lambda q: -1 if q is None else q)
            res = []
            for k in ks:
                res.append(_try(tn.orthogonalize, Y, k))
                res.append(_try(tn.orthogonalize, Y, k, True))
                res.append(_try(tn.orthogonalize, Y, k=k, use_stab=1))
                res.append(_try(tn.orthogonalize, Y, k=k, use_stab=0))
            res.append(_try(tn.orthogonalize, Y, np.int64(d // 2), use_stab=True))
            res.append(_try(tn.orthogonalize, Y=Y, use_stab=True))
            same = all(np.array_equal(a, b) for a, b in zip(Y, Y0))
            return [res, same]
        add('orthogonalize/' + key, f)

    for k in [-1, -5, 4, 5, 100, 1.5, 3.0, 4.5, '1', float('nan'), [1], True]:
        for use_stab in [False, True]:
            def f(tn, k=k, use_stab=use_stab):
                rng = np.random.default_rng(6)
                Y = _tt(rng, [3, 4, 2, 3], [1, 2, 3, 2, 1])
                return tn.orthogonalize(Y, k, use_stab)
            add('orthogonalize/bad-k-%r-%r' % (k, use_stab), f)

    for case in ['empty', 'nan', 'inf', 'rank', 'tuple', 'zero', 'int']:
        for use_stab in [False, True]:
            def f(tn, case=case, use_stab=use_stab):
                rng = np.random.default_rng(7)
                Y = _tt(rng, [3, 4, 2, 3], [1, 2, 3, 2, 1])
                if case == 'empty':
                    Y = []
                if case == 'nan':
                    Y[1][0, 1, 0] = np.nan
                if case == 'inf':
                    Y[2][0, 1, 0] = np.inf
                if case == 'rank':
                    Y[2] = rng.normal(size=(4, 2, 2))
                if case == 'tuple':
                    Y = tuple(Y)
                if case == 'zero':
                    Y[1] = Y[1] * 0.
                if case == 'int':
                    Y = [np.round(G * 4).astype(int) for G in Y]
                return [_try(tn.orthogonalize, Y, 2, use_stab),
                    _try(tn.orthogonalize, Y, use_stab=use_stab)]
            add('orthogonalize/special-%s-%r' % (case, use_stab), f)

    # --- Callers: truncate (orth / use_stab), random state ------------------

    for key in tensors:
        d = len(tensors[key][1])
        if d < 2 or d > 100:
            continue
        def f(tn, key=key):
            Y = make(key)
            Y0 = [G.copy() for G in Y]
            res = []
            for use_stab in [True, False]:
                for e, r in [(1.E-10, 1.E+12), (1.E-2, 2)]:
                    Z = _try(tn.truncate, Y, e, r, use_stab=use_stab)
                    res.append(Z)
                    if Z[0] == 'ok':
                        res.append(_try(tn.accuracy, Z[1], Y))
            same = all(np.array_equal(a, b) for a, b in zip(Y, Y0))
            return [res, same]
        add('truncate/' + key, f)

    return out


def worker(fpath):
    import hashlib
    import numpy as np
    sys.path.insert(0, os.getcwd())
    import teneva
    root = os.path.dirname(os.path.dirname(os.path.abspath(teneva.__file__)))
    assert root == os.path.abspath(os.getcwd()), (root, os.getcwd())

    results = {'__root__': root}
    for name, func in _scenarios():
        np.random.seed(20240916)
        try:
            res = ('ok', _pack(func(teneva)))
        except Exception as e:
            res = ('exception', type(e).__name__, str(e))
        # The global random state should be consumed in the same way:
        state = np.random.get_state()
        h = hashlib.sha1(state[1].tobytes() + bytes([state[2] % 256])).hexdigest()
        results[name] = (res, h)

    with open(fpath, 'wb') as f:
        pickle.dump(results, f)


# ---------------------------------------------------------------------------
# Comparison part
# ---------------------------------------------------------------------------


def _compare(a, b, path, stat):
    """Compare two packed results; return the list of messages on mismatch."""
    import numpy as np
    if a[0] != b[0]:
        return ['%s: kind %s != %s' % (path, a[0], b[0])]
    if a[0] == 'nd':
        if a[1] != b[1] or a[2] != b[2]:
            return ['%s: dtype/shape %s %s != %s %s' % (path, a[1], a[2], b[1], b[2])]
        if a[4] != b[4]:
            return ['%s: contiguity differs' % path]
        stat['arrays'] += 1
        if a[3] == b[3]:
            stat['bitwise'] += 1
            return []
        xa = np.frombuffer(a[3], dtype=a[1]).reshape(a[2])
        xb = np.frombuffer(b[3], dtype=b[1]).reshape(b[2])
        if np.allclose(xa, xb, rtol=RTOL, atol=0., equal_nan=True):
            return []
        return ['%s: array values differ' % path]
    if a[0] == 'np':
        if a[1] != b[1]:
            return ['%s: scalar type %s != %s' % (path, a[1], b[1])]
        stat['scalars'] += 1
        if a[2] == b[2]:
            stat['bitwise'] += 1
            return []
        xa = np.frombuffer(a[2], dtype=getattr(np, a[1]))
        xb = np.frombuffer(b[2], dtype=getattr(np, b[1]))
        if np.allclose(xa, xb, rtol=RTOL, atol=0., equal_nan=True):
            return []
        return ['%s: scalar values differ (%s, %s)' % (path, xa, xb)]
    if a[0] in ('list', 'tuple'):
        if len(a[1]) != len(b[1]):
            return ['%s: length %d != %d' % (path, len(a[1]), len(b[1]))]
        msgs = []
        if a[1] and a[1][0] == ('py', 'str', repr('exception')):
            stat['exceptions'] += 1
        if a[1] and a[1][0] == ('py', 'str', repr('ok')):
            stat['calls'] += 1
        for i, (va, vb) in enumerate(zip(a[1], b[1])):
            msgs.extend(_compare(va, vb, '%s[%d]' % (path, i), stat))
        return msgs
    if a[0] == 'py':
        if a[1] != b[1]:
            return ['%s: python type %s != %s' % (path, a[1], b[1])]
        stat['scalars'] += 1
        if a[2] == b[2]:
            stat['bitwise'] += 1
            return []
        if a[1] == 'float' and np.allclose(float(a[2]), float(b[2]),
                rtol=RTOL, atol=0., equal_nan=True):
            return []
        return ['%s: python values differ (%s, %s)' % (path, a[2], b[2])]
    return ['%s: unknown kind' % path]


def main():
    tmp = tempfile.mkdtemp(prefix='equiv_C16_')
    paths = {}
    for label, root in [('orig', ROOT_ORIG), ('twin', ROOT_TWIN)]:
        fpath = os.path.join(tmp, label + '.pkl')
        env = dict(os.environ)
        env.pop('PYTHONPATH', None)
        res = subprocess.run([PYTHON, os.path.abspath(__file__), '--worker',
            fpath], cwd=root, env=env)
        if res.returncode != 0:
            print('Worker "%s" failed' % label)
            return 1
        paths[label] = fpath

    with open(paths['orig'], 'rb') as f:
        res_orig = pickle.load(f)
    with open(paths['twin'], 'rb') as f:
        res_twin = pickle.load(f)

    print('orig package root :', res_orig.pop('__root__'))
    print('twin package root :', res_twin.pop('__root__'))

    if list(res_orig.keys()) != list(res_twin.keys()):
        print('Scenario lists differ')
        return 1

    stat = {'arrays': 0, 'scalars': 0, 'bitwise': 0, 'calls': 0,
        'exceptions': 0}
    n_exc = 0
    msgs = []
    for name in res_orig:
        (ra, ha), (rb, hb) = res_orig[name], res_twin[name]
        if ha != hb:
            msgs.append('%s: global random state differs' % name)
        if ra[0] != rb[0]:
            msgs.append('%s: %s != %s' % (name, ra[:2], rb[:2]))
        elif ra[0] == 'exception':
            n_exc += 1
            if ra != rb:
                msgs.append('%s: exceptions differ: %r != %r' % (name, ra, rb))
        else:
            msgs.extend(_compare(ra[1], rb[1], name, stat))

    print('scenarios         :', len(res_orig))
    print('  with exceptions :', n_exc, '(equal type and message required)')
    print('calls returning   :', stat['calls'])
    print('calls raising     :', stat['exceptions'], '(equal type and message)')
    print('arrays compared   :', stat['arrays'])
    print('scalars compared  :', stat['scalars'])
    print('bitwise identical :', stat['bitwise'], 'of',
        stat['arrays'] + stat['scalars'])

    if msgs:
        print('MISMATCHES (%d):' % len(msgs))
        for msg in msgs[:50]:
            print('  ' + msg)
        return 1

    print('OK: the refactored package is equivalent on all scenarios')
    return 0


if __name__ == '__main__':
    if len(sys.argv) == 3 and sys.argv[1] == '--worker':
        worker(sys.argv[2])
        sys.exit(0)
    sys.exit(main())
