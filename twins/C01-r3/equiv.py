"""Equivalence demonstration for the C01 twin (round C).

Refactored anchors: teneva.act_one.get_many, teneva.act_two.accuracy,
teneva.act_two.sub (and their users get / accuracy_on_data / expression trees).

The script runs the same deterministic scenario list in two subprocesses, one
with the pristine package (cwd=/tmp/twinsC/C01/orig) and one with the refactored
package (cwd=/tmp/wt/C01), dumps the outcomes (values, dtypes, shapes,
exceptions, warnings, state of the arguments after the call, aliasing of the
result with the arguments) into pickles and compares them.

Exit code 0: everything agrees; 1: otherwise.

"""
import os
import pickle
import subprocess
import sys
import tempfile


DIR_ORIG = '/tmp/twinsC/C01/orig'
DIR_NEW = '/tmp/wt/C01'
PYTHON = '/venv/bin/python'
RTOL = 1.E-13
ATOL = 0.


# --------------------------------------------------------------------------
# Worker part (runs inside the subprocess, "import teneva" resolves via cwd)
# --------------------------------------------------------------------------


def _enc(x):
    """Encode a result into a picklable, comparable structure."""
    import numpy as np
    if isinstance(x, np.ndarray):
        return ('arr', str(x.dtype), tuple(x.shape),
            np.ascontiguousarray(x).tobytes(), type(x).__name__)
    if isinstance(x, np.generic):
        return ('npnum', str(x.dtype), np.asarray(x).tobytes())
    if isinstance(x, (list, tuple)):
        return (type(x).__name__, [_enc(y) for y in x])
    if isinstance(x, dict):
        return ('dict', [(repr(k), _enc(v)) for k, v in x.items()])
    if isinstance(x, float):
        return ('float', repr(x))
    if isinstance(x, (int, bool, str)) or x is None:
        return (type(x).__name__, repr(x))
    return ('other', type(x).__name__, repr(x))


def _arrays(x, out=None):
    import numpy as np
    out = [] if out is None else out
    if isinstance(x, np.ndarray):
        out.append(x)
    elif isinstance(x, (list, tuple)):
        for y in x:
            _arrays(y, out)
    return out


def _tt(rs, n, r, kind='float', scale=None):
    """Build a TT-tensor directly with numpy (no teneva code involved)."""
    import numpy as np
    Y = []
    for k in range(len(n)):
        sh = (r[k], n[k], r[k+1])
        if kind == 'float':
            G = rs.standard_normal(sh)
        elif kind == 'intf':
            G = rs.randint(-3, 4, size=sh).astype(float)
        elif kind == 'int':
            G = rs.randint(-3, 4, size=sh)
        elif kind == 'f32':
            G = rs.standard_normal(sh).astype(np.float32)
        elif kind == 'fortran':
            G = np.asfortranarray(rs.standard_normal(sh))
        else:
            raise ValueError(kind)
        if scale is not None:
            G = G * scale[k]
        Y.append(G)
    return Y


PROFILES = [
    # (mode sizes, ranks)
    ([3, 4], [1, 2, 1]),
    ([2, 2], [1, 1, 1]),
    ([1, 1], [1, 1, 1]),
    ([2, 3], [1, 7, 1]),                # over-ranked
    ([4, 1, 3], [1, 3, 2, 1]),
    ([2, 2, 2], [1, 5, 9, 1]),          # over-ranked
    ([3, 3, 3], [1, 1, 1, 1]),
    ([5, 2, 3, 4], [1, 2, 4, 3, 1]),
    ([2, 3, 1, 2], [1, 3, 3, 3, 1]),
    ([3, 2, 2, 3, 2], [1, 2, 3, 3, 2, 1]),
    ([2, 2, 2, 2, 2, 2], [1, 2, 4, 8, 4, 2, 1]),
    ([2, 1, 2, 1, 2, 1, 3], [1, 1, 2, 1, 3, 1, 2, 1]),
]


def scenarios():
    """Yield (name, callable(teneva) -> (result, args_to_watch))."""
    import numpy as np

    out = []

    def add_s(name, func):
        out.append((name, func))

    # ---------------------------------------------------------------- get_many
    for ip, (n, r) in enumerate(PROFILES):
        for kind in ['float', 'intf', 'int', 'f32', 'fortran']:
            for to_item in [True, False]:
                for form in ['arr', 'list', 'i1d', 'i3d', 'float', 'neg',
                        'empty', 'short', 'long', 'oob', 'int32', 'nonc']:
                    def f(tn, n=n, r=r, kind=kind, to_item=to_item, form=form,
                            ip=ip):
                        rs = np.random.RandomState(1000 + ip)
                        Y = _tt(rs, n, r, kind)
                        m = 9
                        I = np.vstack([rs.randint(0, k, size=m) for k in n]).T
                        if form == 'list':
                            I = I.tolist()
                        elif form == 'i1d':
                            I = I[0]
                        elif form == 'i3d':
                            I = I[:8].reshape(2, 4, len(n))
                        elif form == 'float':
                            I = I.astype(float) + 0.25
                        elif form == 'neg':
                            I = I - np.array(n)[None, :]
                        elif form == 'empty':
                            I = I[:0]
                        elif form == 'short':
                            I = I[:, :-1]
                        elif form == 'long':
                            I = np.hstack([I, I[:, :1], I[:, :1]])
                        elif form == 'oob':
                            I = I.copy()
                            I[3, len(n) // 2] = n[len(n) // 2]
                        elif form == 'int32':
                            I = I.astype(np.int32)
                        elif form == 'nonc':
                            I = np.asfortranarray(np.vstack([I, I])[::2])
                        if to_item:
                            res = tn.get_many(Y, I)
                        else:
                            res = tn.get_many(Y, I, _to_item=False)
                        return res, [Y, I]
                    add_s(f'get_many/p{ip}/{kind}/item{int(to_item)}/{form}', f)

    # get_many: rank r0 > 1 / r_d > 1 with _to_item=False
    for to_item in [True, False]:
        def f(tn, to_item=to_item):
            rs = np.random.RandomState(7)
            Y = _tt(rs, [3, 2, 4], [2, 3, 2, 3])
            I = np.vstack([rs.randint(0, k, size=6) for k in [3, 2, 4]]).T
            return tn.get_many(Y, I, _to_item=to_item), [Y, I]
        add_s(f'get_many/openranks/item{int(to_item)}', f)

    # get_many: degenerate arguments (exceptions have to agree)
    def f(tn):
        return tn.get_many([], np.zeros((3, 2), dtype=int)), []
    add_s('get_many/emptyY', f)

    def f(tn):
        rs = np.random.RandomState(8)
        Y = _tt(rs, [3, 2], [1, 2, 1])
        return tn.get_many(Y, 1), [Y]
    add_s('get_many/I0d', f)

    def f(tn):
        return tn.get_many([], 1), []
    add_s('get_many/emptyY_I0d', f)

    def f(tn):
        rs = np.random.RandomState(8)
        Y = _tt(rs, [3, 2], [1, 2, 1])
        return tn.get_many(Y, np.zeros((4, 0), dtype=int)), [Y]
    add_s('get_many/Ino_columns', f)

    def f(tn):
        rs = np.random.RandomState(8)
        Y = _tt(rs, [3, 2], [1, 2, 1])
        return tn.get_many(Y, [[0, 1], [1]]), [Y]
    add_s('get_many/ragged', f)

    def f(tn):
        rs = np.random.RandomState(8)
        Y = tuple(_tt(rs, [3, 2, 2], [1, 2, 3, 1]))
        return tn.get_many(Y, [[0, 1, 1], [2, 0, 1]]), [list(Y)]
    add_s('get_many/tupleY', f)

    def f(tn):
        rs = np.random.RandomState(8)
        Y = _tt(rs, [3, 2, 2], [1, 2, 3, 1])
        Y[1] = Y[1][:1]     # rank mismatch -> einsum error
        return tn.get_many(Y, [[0, 1, 1], [2, 0, 1]]), [Y]
    add_s('get_many/rank_mismatch', f)

    # Users of get_many: get (2D index), accuracy_on_data
    for ip, (n, r) in enumerate(PROFILES):
        for kind in ['float', 'intf']:
            def f(tn, n=n, r=r, kind=kind, ip=ip):
                rs = np.random.RandomState(2000 + ip)
                Y = _tt(rs, n, r, kind)
                I = np.vstack([rs.randint(0, k, size=11) for k in n]).T
                y = rs.standard_normal(11)
                res = [
                    tn.get(Y, I),
                    tn.get(Y, I.tolist()),
                    tn.get(Y, I[0]),
                    tn.get(Y, I, _to_item=False),
                    tn.accuracy_on_data(Y, I, y),
                    tn.accuracy_on_data(Y, I.tolist(), y.tolist()),
                    tn.accuracy_on_data(Y, None, y),
                    tn.accuracy_on_data(Y, I, None),
                    tn.accuracy_on_data(Y, I, tn.get_many(Y, I)),
                ]
                return res, [Y, I, y]
            add_s(f'get_users/p{ip}/{kind}', f)

            def f(tn, n=n, r=r, kind=kind, ip=ip):
                rs = np.random.RandomState(2100 + ip)
                Y = _tt(rs, n, r, kind)
                I = np.vstack([rs.randint(0, k, size=11) for k in n]).T
                y = rs.standard_normal(11)
                return tn.accuracy_on_data(Y, I, y, e_trunc=1.E-3), [Y, I, y]
            add_s(f'accuracy_on_data_trunc/p{ip}/{kind}', f)

    # --------------------------------------------------------------------- sub
    for ip, (n, r) in enumerate(PROFILES):
        r2 = [1] + [max(1, q - 1) for q in r[1:-1]] + [1]
        for k1 in ['float', 'intf', 'int', 'f32']:
            for k2 in ['float', 'intf', 'int', 'f32', 'fortran']:
                def f(tn, n=n, r=r, r2=r2, k1=k1, k2=k2, ip=ip):
                    rs = np.random.RandomState(3000 + ip)
                    Y1 = _tt(rs, n, r, k1)
                    Y2 = _tt(rs, n, r2, k2)
                    Z = tn.sub(Y1, Y2)
                    alias = [bool(np.shares_memory(a, b))
                        for a in _arrays(Z) for b in _arrays([Y1, Y2])]
                    return [Z, any(alias)], [Y1, Y2]
                add_s(f'sub/tt_tt/p{ip}/{k1}/{k2}', f)

        nums = [0, 1, -2, 3.5, -0.75, 0., -0., 1.E-20, 1.E+30, True,
            np.float64(2.5), np.float64(-1.E-17), np.int64(3), np.float32(1.5),
            float('inf'), float('nan'), 2 + 1j, None, '1']
        for inum, a in enumerate(nums):
            for kind in ['float', 'intf', 'int']:
                for side in ['tt_num', 'num_tt']:
                    def f(tn, n=n, r=r, a=a, kind=kind, side=side, ip=ip):
                        rs = np.random.RandomState(3500 + ip)
                        Y = _tt(rs, n, r, kind)
                        Z = tn.sub(Y, a) if side == 'tt_num' else tn.sub(a, Y)
                        alias = [bool(np.shares_memory(p, q))
                            for p in _arrays(Z) for q in _arrays(Y)]
                        return [Z, any(alias)], [Y]
                    add_s(f'sub/{side}/p{ip}/{kind}/a{inum}', f)

    nums = [0, 1, -2, 3.5, -0.75, 0., True, np.float64(2.5), np.int64(3),
        float('inf'), float('nan'), 10**400, None]
    for i1, a in enumerate(nums):
        for i2, b in enumerate(nums):
            def f(tn, a=a, b=b):
                return tn.sub(a, b), []
            add_s(f'sub/num_num/{i1}/{i2}', f)

    def f(tn):
        rs = np.random.RandomState(11)
        Y1 = _tt(rs, [3, 2, 4], [1, 2, 3, 1])
        Y2 = _tt(rs, [3, 3, 4], [1, 2, 3, 1])   # shape mismatch
        return tn.sub(Y1, Y2), [Y1, Y2]
    add_s('sub/shape_mismatch', f)

    def f(tn):
        rs = np.random.RandomState(11)
        Y1 = _tt(rs, [3, 2, 4], [1, 2, 3, 1])
        Y2 = _tt(rs, [3, 2], [1, 2, 1])         # different d
        return tn.sub(Y1, Y2), [Y1, Y2]
    add_s('sub/d_mismatch', f)

    def f(tn):
        rs = np.random.RandomState(11)
        Y1 = tuple(_tt(rs, [3, 2, 4], [1, 2, 3, 1]))
        Y2 = tuple(_tt(rs, [3, 2, 4], [1, 1, 2, 1]))
        return tn.sub(Y1, Y2), [list(Y1), list(Y2)]
    add_s('sub/tuples', f)

    def f(tn):
        rs = np.random.RandomState(11)
        Y1 = _tt(rs, [3, 2, 4], [1, 2, 3, 1])
        return tn.sub(Y1, []), [Y1]
    add_s('sub/emptyY2', f)

    def f(tn):
        rs = np.random.RandomState(11)
        Y1 = _tt(rs, [3, 2, 4], [1, 2, 3, 1])
        return tn.sub(Y1, Y1), [Y1]
    add_s('sub/same_object', f)

    # ---------------------------------------------------------------- accuracy
    for ip, (n, r) in enumerate(PROFILES):
        d = len(n)
        r2 = [1] + [max(1, q - 1) for q in r[1:-1]] + [1]
        cases = {
            'plain': (None, None),
            'tiny_ref': (None, [1.E-110] * d),      # shift > 500
            'tiny_both': ([1.E-90] * d, [1.E-90] * d),
            'huge_both': ([1.E+90] * d, [1.E+90] * d),
            'huge_1': ([1.E+120] * d, None),
            'tiny_1': ([1.E-120] * d, None),
            'huge_ref': (None, [1.E+120] * d),
            'overflow': ([1.E+200] * d, [1.E+200] * d),
            'underflow': ([1.E-200] * d, [1.E-200] * d),
            'zero_ref': (None, [0.] * d),
            'zero_1': ([0.] * d, None),
            'zero_both': ([0.] * d, [0.] * d),
        }
        for cname, (s1, s2) in cases.items():
            for kind in ['float', 'intf']:
                def f(tn, n=n, r=r, r2=r2, s1=s1, s2=s2, kind=kind, ip=ip):
                    rs = np.random.RandomState(4000 + ip)
                    Y1 = _tt(rs, n, r, kind, s1)
                    Y2 = _tt(rs, n, r2, kind, s2)
                    return tn.accuracy(Y1, Y2), [Y1, Y2]
                add_s(f'accuracy/{cname}/p{ip}/{kind}', f)

        # Exactly equal tensors with integer cores; the last core carries an
        # exact power of two -> exact cancellation and |shift| > 500:
        for e in [0, 3, 400, 499, 500, 501, 502, 600, 900,
                -3, -400, -499, -500, -501, -502, -600, -900]:
            def f(tn, n=n, r=r, e=e, ip=ip):
                rs = np.random.RandomState(4200 + ip)
                Y = _tt(rs, n, r, 'intf')
                Y[-1] = Y[-1] * 2.**e
                Y2 = [G.copy() for G in Y]
                return [tn.accuracy(Y, Y2), tn.accuracy(Y, Y)], [Y, Y2]
            add_s(f'accuracy/exact_equal/p{ip}/e{e}', f)

        # Near equal tensors (perturbation of all sizes):
        for ie, eps in enumerate([1.E-2, 1.E-6, 1.E-9, 1.E-14, 1.E-30]):
            def f(tn, n=n, r=r, eps=eps, ip=ip):
                rs = np.random.RandomState(4400 + ip)
                Y1 = _tt(rs, n, r)
                Y2 = [G + eps * rs.standard_normal(G.shape) for G in Y1]
                return [tn.accuracy(Y1, Y2), tn.accuracy(Y2, Y1)], [Y1, Y2]
            add_s(f'accuracy/near/p{ip}/eps{ie}', f)

        # Dense (numpy) branch and mixed arguments:
        def f(tn, n=n, r=r, ip=ip):
            rs = np.random.RandomState(4600 + ip)
            A = rs.standard_normal(n)
            B = rs.standard_normal(n)
            return [tn.accuracy(A, B), tn.accuracy(A, A),
                tn.accuracy(A, 0 * B), tn.accuracy(A, 2.)], [A, B]
        add_s(f'accuracy/dense/p{ip}', f)

        for mix in ['tt_dense', 'dense_tt', 'tt_num', 'num_tt', 'num_num',
                'int_cores', 'tt_none', 'shape_mismatch']:
            def f(tn, n=n, r=r, mix=mix, ip=ip):
                rs = np.random.RandomState(4700 + ip)
                Y = _tt(rs, n, r)
                A = rs.standard_normal(n)
                if mix == 'tt_dense':
                    return tn.accuracy(Y, A), [Y, A]
                if mix == 'dense_tt':
                    return tn.accuracy(A, Y), [Y, A]
                if mix == 'tt_num':
                    return tn.accuracy(Y, 2.), [Y]
                if mix == 'num_tt':
                    return tn.accuracy(2., Y), [Y]
                if mix == 'num_num':
                    return tn.accuracy(2., 3.), []
                if mix == 'int_cores':
                    Yi = _tt(rs, n, r, 'int')
                    return tn.accuracy(Y, Yi), [Y, Yi]
                if mix == 'tt_none':
                    return tn.accuracy(Y, None), [Y]
                if mix == 'shape_mismatch':
                    Y2 = _tt(rs, [k + 1 for k in n], r)
                    return tn.accuracy(Y, Y2), [Y, Y2]
            add_s(f'accuracy/mix/{mix}/p{ip}', f)

    # ------------------------------------------------------- expression trees
    for ip, (n, r) in enumerate(PROFILES):
        r2 = [1] + [max(1, q - 1) for q in r[1:-1]] + [1]
        for kind in ['float', 'intf']:
            def f(tn, n=n, r=r, r2=r2, kind=kind, ip=ip):
                rs = np.random.RandomState(5000 + ip)
                A = _tt(rs, n, r, kind)
                B = _tt(rs, n, r2, kind)
                C = _tt(rs, n, [1] * (len(n) + 1), kind)
                T1 = tn.sub(tn.mul(A, B), tn.add(C, 2))
                T2 = tn.sub(3, tn.sub(tn.copy(A), tn.mul(2., C)))
                T3 = tn.outer(tn.sub(A, B), tn.sub(C, 1.5))
                T4 = tn.sub(tn.sub(tn.sub(A, B), C), tn.sub(A, A))
                res = []
                for T in [T1, T2, T3, T4]:
                    nn = [G.shape[1] for G in T]
                    I = np.vstack([rs.randint(0, k, size=13) for k in nn]).T
                    res.append(T)
                    res.append(tn.full(T))
                    res.append(tn.get_many(T, I))
                    res.append(tn.get(T, I[0]))
                    res.append([tn.shape(T), tn.ranks(T), tn.size(T),
                        tn.erank(T), tn.sum(T), tn.mean(T), tn.norm(T)])
                res.append(tn.accuracy(T1, T2))
                res.append(tn.accuracy(T4, tn.sub(tn.sub(A, B), C)))
                res.append(tn.accuracy(T1, T1))
                return res, [A, B, C]
            add_s(f'tree/p{ip}/{kind}', f)

    return out


def worker(path):
    import copy
    import warnings
    import numpy as np
    sys.path.insert(0, os.getcwd())
    import teneva as tn
    assert os.path.dirname(os.path.dirname(os.path.abspath(tn.__file__))) \
        == os.path.abspath(os.getcwd()), tn.__file__

    results = {}
    for name, func in scenarios():
        with warnings.catch_warnings(record=True) as wlist:
            warnings.simplefilter('always')
            old = np.seterr(all='warn')
            try:
                res, args = func(tn)
                rec = {'status': 'ok', 'res': _enc(res), 'args': _enc(args)}
            except Exception as e:
                rec = {'status': 'exc', 'type': type(e).__name__,
                    'msg': str(e)}
            finally:
                np.seterr(**old)
        rec['warn'] = sorted(set((w.category.__name__, str(w.message))
            for w in wlist))
        assert name not in results, name
        results[name] = rec

    with open(path, 'wb') as f:
        pickle.dump({'file': tn.__file__, 'results': results}, f)


# --------------------------------------------------------------------------
# Comparison part
# --------------------------------------------------------------------------


def _close(a, b, path, notes):
    """Compare two encoded structures; return True if they agree."""
    import numpy as np
    if a == b:
        return True
    if type(a) != type(b) or a[0] != b[0]:
        notes.append(f'{path}: kind {a[0]!r} vs {b[0]!r}')
        return False
    tag = a[0]
    if tag == 'arr':
        if a[1] != b[1] or a[2] != b[2] or a[4] != b[4]:
            notes.append(f'{path}: dtype/shape {a[1:3]} vs {b[1:3]}')
            return False
        x = np.frombuffer(a[3], dtype=a[1]).reshape(a[2])
        y = np.frombuffer(b[3], dtype=b[1]).reshape(b[2])
        ok = np.allclose(x, y, rtol=RTOL, atol=ATOL, equal_nan=True)
        notes.append(f'{path}: arrays differ bitwise, allclose={ok}')
        return bool(ok)
    if tag == 'npnum':
        if a[1] != b[1]:
            notes.append(f'{path}: dtype {a[1]} vs {b[1]}')
            return False
        x = np.frombuffer(a[2], dtype=a[1])
        y = np.frombuffer(b[2], dtype=b[1])
        ok = np.allclose(x, y, rtol=RTOL, atol=ATOL, equal_nan=True)
        notes.append(f'{path}: numbers differ bitwise, allclose={ok}')
        return bool(ok)
    if tag == 'float':
        x, y = float(a[1]), float(b[1])
        ok = np.allclose(x, y, rtol=RTOL, atol=ATOL, equal_nan=True)
        notes.append(f'{path}: floats {x!r} vs {y!r}, allclose={ok}')
        return bool(ok)
    if tag in ('list', 'tuple'):
        if len(a[1]) != len(b[1]):
            notes.append(f'{path}: length {len(a[1])} vs {len(b[1])}')
            return False
        return all([_close(p, q, f'{path}[{i}]', notes)
            for i, (p, q) in enumerate(zip(a[1], b[1]))])
    notes.append(f'{path}: {a!r} vs {b!r}')
    return False


def main():
    tmp = tempfile.mkdtemp(prefix='equiv_C01_')
    paths = {}
    for label, cwd in [('orig', DIR_ORIG), ('new', DIR_NEW)]:
        paths[label] = os.path.join(tmp, f'{label}.pkl')
        env = dict(os.environ)
        env.pop('PYTHONPATH', None)
        env['PYTHONDONTWRITEBYTECODE'] = '1'
        proc = subprocess.run([PYTHON, os.path.abspath(__file__), '--worker',
            paths[label]], cwd=cwd, env=env)
        if proc.returncode != 0:
            print(f'FAIL: worker "{label}" exited with {proc.returncode}')
            return 1

    data = {}
    for label in paths:
        with open(paths[label], 'rb') as f:
            data[label] = pickle.load(f)
    print('orig package :', data['orig']['file'])
    print('new package  :', data['new']['file'])
    if not data['orig']['file'].startswith(DIR_ORIG + '/') or \
            not data['new']['file'].startswith(DIR_NEW + '/'):
        print('FAIL: wrong packages were imported')
        return 1

    R1, R2 = data['orig']['results'], data['new']['results']
    if list(R1.keys()) != list(R2.keys()):
        print('FAIL: scenario lists differ')
        return 1

    bad, n_ok, n_exc, n_fuzzy, n_warn = [], 0, 0, 0, 0
    for name in R1:
        a, b = R1[name], R2[name]
        notes = []
        ok = a['status'] == b['status'] and a['warn'] == b['warn']
        if not ok:
            notes.append(f'status/warnings: {a["status"]} {a["warn"]} vs '
                f'{b["status"]} {b["warn"]}')
        elif a['status'] == 'exc':
            n_exc += 1
            ok = a['type'] == b['type'] and a['msg'] == b['msg']
            if not ok:
                notes.append(f'exception {a["type"]}: {a["msg"]} vs '
                    f'{b["type"]}: {b["msg"]}')
        else:
            n_ok += 1
            ok = _close(a['res'], b['res'], 'res', notes)
            # State of the arguments after the call has to be identical:
            if a['args'] != b['args']:
                ok = False
                notes.append('arguments after the call differ')
            if ok and notes:
                n_fuzzy += 1
        if a['warn']:
            n_warn += 1
        if not ok:
            bad.append((name, notes))

    kinds = {}
    for name in R1:
        key = name.split('/')[0]
        kinds[key] = kinds.get(key, 0) + 1
    print('scenarios    :', len(R1), kinds)
    print('returned     :', n_ok, '(not bit-for-bit but allclose:', n_fuzzy,
        ')')
    print('raised       :', n_exc, '(same type and message required)')
    print('with warnings:', n_warn, '(same warnings required)')
    for name, notes in bad[:40]:
        print('MISMATCH', name)
        for t in notes[:5]:
            print('    ', t)
    if bad:
        print(f'FAIL: {len(bad)} scenarios disagree')
        return 1
    print('OK: the refactored package agrees with the original one')
    return 0


if __name__ == '__main__':
    if len(sys.argv) == 3 and sys.argv[1] == '--worker':
        worker(sys.argv[2])
        sys.exit(0)
    sys.exit(main())
