"""Equivalence demonstration for the C09 twin (round B).

Refactored functions: teneva.act_two.mul, teneva.act_two.sub (plus the shared
private helpers now used by teneva.act_two.mul_scalar) and teneva.func.func_int.

The same deterministic scenario list is run in two subprocesses, one importing
the pristine package (/tmp/twinsB/C09/orig) and one importing the refactored
package (/tmp/wt/C09). Every scenario records: the result (type tree, shapes,
dtypes, memory-order flags, raw bytes), the exception (type and message), whether
any argument was mutated (contents, shape, dtype, strides, list length, identity
of the list items), and whether any returned array shares memory with any
argument array. The two records must be identical (bitwise), and additionally
np.allclose(rtol=1e-13, atol=0) is checked on the numeric payloads.

Exit status: 0 when everything agrees, 1 otherwise.
"""
import os
import pickle
import shutil
import subprocess
import sys
import tempfile

ROOT_ORIG = '/tmp/twinsB/C09/orig'
ROOT_TWIN = os.environ.get('C09_EQUIV_TWIN', '/tmp/wt/C09')  # override: sanity runs


# --------------------------------------------------------------------------
# Worker part (runs inside a subprocess with exactly one teneva importable)
# --------------------------------------------------------------------------


def describe(x):
    """Turn a result into a picklable, comparable structure."""
    import numpy as np
    if isinstance(x, np.ndarray):
        return ('nd', type(x).__name__, str(x.dtype), tuple(x.shape),
            bool(x.flags['C_CONTIGUOUS']), bool(x.flags['F_CONTIGUOUS']),
            bool(x.flags['WRITEABLE']), np.ascontiguousarray(x).tobytes())
    if isinstance(x, list):
        return ('list', [describe(v) for v in x])
    if isinstance(x, tuple):
        return ('tuple', [describe(v) for v in x])
    if isinstance(x, dict):
        return ('dict', [(k, describe(v)) for k, v in sorted(x.items())])
    if x is None:
        return ('none', )
    if isinstance(x, (bool, int, float, complex, np.generic)):
        return ('num', type(x).__name__, repr(x))
    return ('other', type(x).__name__, repr(x))


def arrays_of(x, out=None):
    import numpy as np
    out = [] if out is None else out
    if isinstance(x, np.ndarray):
        out.append(x)
    elif isinstance(x, (list, tuple)):
        for v in x:
            arrays_of(v, out)
    elif isinstance(x, dict):
        for v in x.values():
            arrays_of(v, out)
    return out


def snapshot(x):
    """Deep snapshot of an argument (to detect any mutation afterwards)."""
    import numpy as np
    if isinstance(x, np.ndarray):
        return ('nd', id(x), str(x.dtype), tuple(x.shape), tuple(x.strides),
            x.copy(order='K').tobytes(order='A'))
    if isinstance(x, (list, tuple)):
        return (type(x).__name__, id(x), [snapshot(v) for v in x])
    return ('leaf', repr(x))


def run_one(func, args, kwargs):
    import numpy as np
    before = snapshot(args)
    kw = dict(kwargs)
    rec = {}
    try:
        with np.errstate(all='ignore'):
            res = func(*args, **kw)
        rec['exc'] = None
    except Exception as e:
        res = None
        rec['exc'] = (type(e).__name__, str(e))
    rec['res'] = describe(res)
    after = snapshot(args)
    rec['mutated'] = before != after
    arrs_arg = arrays_of(list(args))
    arrs_res = arrays_of(res)
    rec['aliased'] = any(np.shares_memory(a, b)
        for a in arrs_res for b in arrs_arg)
    rec['same_obj'] = any(res is a for a in args) and res is not None
    # Later writes to the result must not reach the arguments:
    if arrs_res and rec['exc'] is None:
        for a in arrs_res:
            if a.flags['WRITEABLE'] and a.size and a.dtype.kind in 'fiuc':
                a.flat[0] = a.flat[0] + 1
        rec['mutated_after_write'] = snapshot(args) != before
    else:
        rec['mutated_after_write'] = False
    return rec


def tt_rand(rng, n, r, dtype=float, layout='C'):
    """Random TT-tensor with the shape n and the rank profile r (len d+1)."""
    import numpy as np
    Y = []
    for k in range(len(n)):
        sh = (r[k], n[k], r[k+1])
        if np.dtype(dtype).kind in 'iu':
            G = rng.integers(-3, 4, size=sh).astype(dtype)
        elif np.dtype(dtype).kind == 'c':
            G = (rng.normal(size=sh) + 1j * rng.normal(size=sh)).astype(dtype)
        else:
            G = rng.normal(size=sh).astype(dtype)
        if layout == 'F':
            G = np.asfortranarray(G)
        elif layout == 'strided':
            B = np.zeros((sh[0], 2 * sh[1], sh[2] + 1), dtype=G.dtype)
            B[:, ::2, :-1] = G
            G = B[:, ::2, :-1]
        elif layout == 'neg':
            G = G[::-1, ::-1, ::-1].copy()[::-1, ::-1, ::-1]
        elif layout == 'T':
            G = np.ascontiguousarray(G.transpose(2, 1, 0)).transpose(2, 1, 0)
        elif layout == 'ro':
            G.setflags(write=False)
        Y.append(G)
    return Y


def rank_profiles(rng, d, n):
    import numpy as np
    yield [1] * (d + 1)
    yield [1] + [2] * (d - 1) + [1]
    yield [1] + [int(v) for v in rng.integers(1, 5, size=d - 1)] + [1]
    # over-ranked cores (rank above what the unfoldings can support):
    yield [1] + [min(int(np.prod(n)), 5) + 3] * (d - 1) + [1]
    yield [1] + [7 if k % 2 else 1 for k in range(1, d)] + [1]


def scenarios():
    """Yield (name, function name, args builder)."""
    import numpy as np
    import teneva
    out = []

    def add(name, fname, args, **kwargs):
        out.append((name, fname, args, kwargs))

    shapes = [[3], [1], [2, 3], [4, 1, 2], [2, 2, 2, 2], [3, 5, 2, 4, 3],
        [2] * 8, [1, 1, 1]]
    layouts = ['C', 'F', 'strided', 'neg', 'T', 'ro']
    nums = [0, 1, -2, 3.5, -0.25, True, False, np.float64(1.5), 0., 1e300,
        float('inf'), float('nan')]

    seed = 0
    for n in shapes:
        d = len(n)
        rng0 = np.random.default_rng(1000 + len(out))
        profs = list(rank_profiles(rng0, d, n))
        for ip, r1 in enumerate(profs):
            r2 = profs[(ip + 2) % len(profs)]
            for layout in (layouts if ip < 3 else layouts[:2]):
                seed += 1
                rng = np.random.default_rng(seed)
                Y1 = tt_rand(rng, n, r1, float, layout)
                Y2 = tt_rand(rng, n, r2, float,
                    layouts[(layouts.index(layout) + 1) % len(layouts)])
                tag = f'n={n} r1={r1} r2={r2} lay={layout}'
                add(f'mul TT*TT {tag}', 'mul', [Y1, Y2])
                add(f'mul TT*self {tag}', 'mul', [Y1, Y1])
                add(f'sub TT-TT {tag}', 'sub', [Y1, Y2])
                add(f'sub TT-self {tag}', 'sub', [Y2, Y2])
                add(f'mul_scalar {tag}', 'mul_scalar', [Y1, Y2])
                add(f'mul_scalar stab {tag}', 'mul_scalar', [Y1, Y2],
                    use_stab=True)
                add(f'mul_scalar self stab {tag}', 'mul_scalar', [Y1, Y1],
                    use_stab=True)
                add(f'norm {tag}', 'norm', [Y1])
                add(f'norm stab {tag}', 'norm', [Y2], use_stab=True)
                add(f'accuracy {tag}', 'accuracy', [Y1, Y2])
                for kind in ['cheb', 'sin']:
                    add(f'func_int {kind} {tag}', 'func_int', [Y1],
                        kind=kind)
                    add(f'func_int kw {kind} {tag}', 'func_int', [Y2, kind])
                v = nums[seed % len(nums)]
                w = nums[(seed * 7 + 3) % len(nums)]
                add(f'mul num*TT v={v!r} {tag}', 'mul', [v, Y1])
                add(f'mul TT*num v={v!r} {tag}', 'mul', [Y2, v])
                add(f'sub TT-num v={v!r} {tag}', 'sub', [Y1, v])
                add(f'sub num-TT v={v!r} {tag}', 'sub', [v, Y2])
                add(f'sub TT-num w={w!r} {tag}', 'sub', [Y2, w])
                add(f'sub num-TT w={w!r} {tag}', 'sub', [w, Y1])

    # Number with number (all pairs):
    for v in nums:
        for w in nums:
            add(f'mul num*num {v!r} {w!r}', 'mul', [v, w])
            add(f'sub num-num {v!r} {w!r}', 'sub', [v, w])

    # Other dtypes:
    for dt1, dt2 in [(np.float32, np.float32), (np.float32, float),
            (int, int), (int, float), (float, int), (np.int32, np.int64),
            (complex, float), (np.complex64, np.float32), (int, complex)]:
        for n in [[3], [2, 3], [4, 3, 2, 3]]:
            seed += 1
            rng = np.random.default_rng(seed)
            d = len(n)
            r1 = [1] + [2] * (d - 1) + [1]
            r2 = [1] + [3] * (d - 1) + [1]
            Y1 = tt_rand(rng, n, r1, dt1)
            Y2 = tt_rand(rng, n, r2, dt2, 'F')
            tag = f'n={n} {np.dtype(dt1)} {np.dtype(dt2)}'
            add(f'mul dtypes {tag}', 'mul', [Y1, Y2])
            add(f'sub dtypes {tag}', 'sub', [Y1, Y2])
            add(f'sub dtypes rev {tag}', 'sub', [Y2, Y1])
            add(f'mul_scalar dtypes {tag}', 'mul_scalar', [Y1, Y2])
            add(f'mul_scalar dtypes stab {tag}', 'mul_scalar', [Y1, Y2],
                use_stab=True)
            for v in [2, -1.5, True]:
                add(f'mul num*TT dtypes {v!r} {tag}', 'mul', [v, Y1])
                add(f'mul TT*num dtypes {v!r} {tag}', 'mul', [Y2, v])
                add(f'sub TT-num dtypes {v!r} {tag}', 'sub', [Y1, v])
                add(f'sub num-TT dtypes {v!r} {tag}', 'sub', [v, Y2])
            for kind in ['cheb', 'sin']:
                add(f'func_int dtypes {kind} {tag}', 'func_int', [Y1, kind])
                add(f'func_int dtypes F {kind} {tag}', 'func_int', [Y2, kind])

    # Edge cases / malformed inputs (equal exceptions are required):
    rng = np.random.default_rng(777)
    Ya = tt_rand(rng, [3, 4, 5], [1, 2, 3, 1])
    Yb = tt_rand(rng, [3, 4], [1, 2, 1])
    Yc = tt_rand(rng, [3, 2, 5], [1, 2, 3, 1])
    Yd = tt_rand(rng, [3, 1, 5], [1, 4, 2, 1])
    Ye = tt_rand(rng, [3, 4, 5], [2, 2, 3, 3])      # boundary ranks above 1
    Yz = [np.zeros((1, 3, 2)), np.zeros((2, 4, 1))]
    Y0 = [np.zeros((1, 3, 0)), np.zeros((0, 4, 1))]  # zero rank
    X = rng.normal(size=(4, 3))
    for f in ['mul', 'sub', 'mul_scalar']:
        add(f'{f} different d', f, [Ya, Yb])
        add(f'{f} different d rev', f, [Yb, Ya])
        add(f'{f} mode mismatch', f, [Ya, Yc])
        add(f'{f} mode broadcast', f, [Ya, Yd])
        add(f'{f} boundary ranks', f, [Ye, Ya])
        add(f'{f} boundary ranks both', f, [Ye, Ye])
        add(f'{f} zero tensor', f, [Yz, Yz])
        add(f'{f} zero rank', f, [Y0, Y0])
        add(f'{f} empty lists', f, [[], []])
        add(f'{f} tuples', f, [tuple(Ya), tuple(Ya)])
        add(f'{f} None, TT', f, [None, Ya])
        add(f'{f} TT, None', f, [Ya, None])
        add(f'{f} None, None', f, [None, None])
        add(f'{f} ndarray, ndarray', f, [X, X])
        add(f'{f} str', f, ['ab', Ya])
    for f in ['mul', 'sub']:
        for v in [2, -0.5, np.int64(3), np.float32(2.)]:
            add(f'{f} ndarray, num {v!r}', f, [X, v])
            add(f'{f} num, ndarray {v!r}', f, [v, X])
            add(f'{f} None, num {v!r}', f, [None, v])
            add(f'{f} num, None {v!r}', f, [v, None])
            add(f'{f} empty, num {v!r}', f, [[], v])
            add(f'{f} num, empty {v!r}', f, [v, []])
            add(f'{f} tuple, num {v!r}', f, [tuple(Ya), v])
            add(f'{f} num, tuple {v!r}', f, [v, tuple(Ya)])
            add(f'{f} TT, np num {v!r}', f, [Ya, v])
            add(f'{f} np num, TT {v!r}', f, [v, Yb])
    for kind in ['cheb', 'sin', 'fourier', None]:
        add(f'func_int empty {kind}', 'func_int', [[], kind])
        add(f'func_int tuple {kind}', 'func_int', [tuple(Ya), kind])
        add(f'func_int n=1 {kind}', 'func_int', [Yd, kind])
        add(f'func_int n=2 {kind}', 'func_int', [Yc, kind])
        add(f'func_int zero rank {kind}', 'func_int', [Y0, kind])
        add(f'func_int boundary ranks {kind}', 'func_int', [Ye, kind])
        add(f'func_int None {kind}', 'func_int', [None, kind])
        add(f'func_int ndarray {kind}', 'func_int', [X, kind])
        add(f'func_int 4D ndarray {kind}', 'func_int',
            [rng.normal(size=(3, 2, 4, 2)), kind])
        add(f'func_int bad item {kind}', 'func_int',
            [[Ya[0], None, Ya[2]], kind])
        add(f'func_int list cores {kind}', 'func_int',
            [[G.tolist() for G in Ya], kind])
    add('func_int default kind', 'func_int', [Ya])

    return out


def pipelines():
    """Longer flows through public callers of the refactored functions."""
    import numpy as np
    import teneva
    res = []
    for seed in range(6):
        rng = np.random.default_rng(5000 + seed)
        d = 2 + seed % 4
        n = [int(v) for v in rng.integers(3, 7, size=d)]
        r = [1] + [int(v) for v in rng.integers(1, 4, size=d - 1)] + [1]
        Y1 = tt_rand(rng, n, r)
        Y2 = tt_rand(rng, n, r[::-1])
        Z = teneva.sub(teneva.mul(Y1, Y2), teneva.mul(2.5, Y1))
        Z = teneva.sub(Z, 0.5)
        res.append(('chain', describe(Z), describe(teneva.full(Z))))
        res.append(('acc', describe(teneva.accuracy(Y1, Y2)),
            describe(teneva.accuracy(Y1, Y1))))
        A = teneva.func_int(Y1)
        res.append(('func_gets', describe(teneva.func_gets(A, m=5))))
        X = rng.uniform(-1., 1., size=(7, d))
        res.append(('func_get', describe(teneva.func_get(X, A, -1., 1.))))
        res.append(('func_sum', describe(teneva.func_sum(A, -1., 1.))))
        A = teneva.func_int(Y2, kind='sin')
        res.append(('func_gets sin', describe(
            teneva.func_gets(A, m=4, kind='sin'))))
        res.append(('func_sum sin', describe(
            teneva.func_sum(A, 0., np.pi, kind='sin'))))
        # optima uses sub / mul internally:
        try:
            res.append(('optima_tt', describe(
                teneva.optima_tt(teneva.mul(Y1, Y1), k=3))))
        except Exception as e:
            res.append(('optima_tt exc', type(e).__name__, str(e)))
    return res


def worker(root, fpath):
    sys.path.insert(0, root)
    os.chdir(root)
    import warnings
    warnings.simplefilter('ignore')
    import numpy as np
    import teneva
    assert os.path.dirname(os.path.dirname(os.path.abspath(
        teneva.__file__))) == os.path.abspath(root), teneva.__file__

    records = []
    for name, fname, args, kwargs in scenarios():
        rec = run_one(getattr(teneva, fname), args, kwargs)
        rec['name'] = name
        records.append(rec)

    with open(fpath, 'wb') as f:
        pickle.dump({'records': records, 'pipelines': pipelines()}, f)


# --------------------------------------------------------------------------
# Driver part
# --------------------------------------------------------------------------


def payload_close(a, b):
    """np.allclose (tight) on two 'describe' structures with equal layout."""
    import numpy as np
    if a[0] != b[0]:
        return False
    if a[0] == 'nd':
        if a[1:4] != b[1:4]:
            return False
        x = np.frombuffer(a[7], dtype=a[2])
        y = np.frombuffer(b[7], dtype=b[2])
        if x.dtype.kind in 'fc':
            return bool(np.allclose(x, y, rtol=1e-13, atol=0, equal_nan=True))
        return bool(np.array_equal(x, y))
    if a[0] in ('list', 'tuple'):
        return len(a[1]) == len(b[1]) and all(
            payload_close(u, v) for u, v in zip(a[1], b[1]))
    return a == b


def main():
    tmp = tempfile.mkdtemp(prefix='c09_equiv_')
    fpaths = {}
    for tag, root in [('orig', ROOT_ORIG), ('twin', ROOT_TWIN)]:
        fpaths[tag] = os.path.join(tmp, f'{tag}.pkl')
        env = dict(os.environ)
        env.pop('PYTHONPATH', None)
        subprocess.run([sys.executable, os.path.abspath(__file__), '--worker',
            root, fpaths[tag]], check=True, cwd=root, env=env)

    with open(fpaths['orig'], 'rb') as f:
        D1 = pickle.load(f)
    with open(fpaths['twin'], 'rb') as f:
        D2 = pickle.load(f)
    shutil.rmtree(tmp, ignore_errors=True)

    R1, R2 = D1['records'], D2['records']
    bad = 0
    if len(R1) != len(R2):
        print(f'DIFFERENT number of scenarios: {len(R1)} vs {len(R2)}')
        bad += 1

    n_exc = n_bitwise = 0
    for a, b in zip(R1, R2):
        assert a['name'] == b['name']
        diffs = [k for k in ['exc', 'mutated', 'aliased', 'same_obj',
            'mutated_after_write'] if a[k] != b[k]]
        if not payload_close(a['res'], b['res']):
            diffs.append('res (allclose)')
        elif a['res'] != b['res']:
            diffs.append('res (bitwise / flags)')
        else:
            n_bitwise += 1
        n_exc += a['exc'] is not None
        if diffs:
            bad += 1
            print(f'MISMATCH in "{a["name"]}": {diffs}')
            for k in diffs:
                if not k.startswith('res'):
                    print(f'    orig {k}: {a[k]!r}\n    twin {k}: {b[k]!r}')

    P1, P2 = D1['pipelines'], D2['pipelines']
    if P1 != P2:
        bad += 1
        print('MISMATCH in pipelines')
        for u, v in zip(P1, P2):
            if u != v:
                print('    ', u[0])

    n_mut = sum(r['mutated'] or r['mutated_after_write'] for r in R1)
    n_ali = sum(r['aliased'] for r in R1)
    print(f'scenarios: {len(R1)} (raising in both: {n_exc}; bitwise equal '
        f'results: {n_bitwise}); pipelines: {len(P1)}')
    print(f'orig: scenarios with mutated args: {n_mut}, with aliased '
        f'results: {n_ali} (the twin shows exactly the same)')
    print('RESULT:', 'EQUIVALENT' if bad == 0 else f'{bad} MISMATCHES')
    return 0 if bad == 0 else 1


if __name__ == '__main__':
    if len(sys.argv) == 4 and sys.argv[1] == '--worker':
        worker(sys.argv[2], sys.argv[3])
        sys.exit(0)
    sys.exit(main())
