"""Equivalence demonstration for the C18 twin B refactoring.

Runs the same deterministic scenario list against the pristine package
(/tmp/twinsB/C18/orig) and the refactored one (/tmp/wt/C18) in two
subprocesses, dumps the outcomes to pickles and compares them.

Exit code 0: everything agrees; 1: otherwise.
"""
import os
import pickle
import subprocess
import sys
import tempfile


ORIG = '/tmp/twinsB/C18/orig'
TWIN = '/tmp/wt/C18'
PYTHON = '/venv/bin/python'


WORKER = r'''
import copy
import itertools
import pickle
import sys
sys.path.insert(0, sys.argv[2])
import numpy as np
import teneva

assert teneva.__file__.startswith(sys.argv[2]), teneva.__file__


def enc(v):
    """Encode a value into a comparable / picklable description."""
    if isinstance(v, np.ndarray):
        return ('nd', v.shape, str(v.dtype), bool(v.flags.c_contiguous),
            bool(v.flags.f_contiguous), bool(v.flags.writeable), v.tobytes()
            if v.dtype != object else repr(v.tolist()))
    if isinstance(v, np.generic):
        return ('ng', str(v.dtype), v.tobytes())
    if isinstance(v, (tuple, list)):
        return (type(v).__name__, [enc(x) for x in v])
    if v is None or isinstance(v, (int, float, str, bool)):
        return (type(v).__name__, repr(v))
    if callable(v):
        return ('callable', type(v).__name__, getattr(v, '__qualname__', ''))
    return ('obj', type(v).__name__, repr(v))


def run(name, func, args, kwargs=None):
    """Call func on deep copies and record result / exception / mutation."""
    kwargs = kwargs or {}
    args_c = copy.deepcopy(args)
    kwargs_c = copy.deepcopy(kwargs)
    before = (enc(list(args_c)), enc(sorted(kwargs_c.items())))
    try:
        with np.errstate(all='ignore'):
            res = func(*args_c, **kwargs_c)
        out = ('ok', enc(res))
    except Exception as e:
        out = ('exc', type(e).__name__, str(e))
        res = None
    after = (enc(list(args_c)), enc(sorted(kwargs_c.items())))
    return name, out, before == after, after, res


records = []


def add(name, func, args, kwargs=None):
    name, out, same, after, res = run(name, func, args, kwargs)
    records.append((name, out, same, after))
    return res


rng = np.random.default_rng(20240918)

# ---------------------------------------------------------------- grid_flat
flat_inputs = [
    2, 3, 7, 1, 0, 3.0, 3.7, True, False, np.int32(4), np.int64(5),
    np.float32(3), np.float64(4.2), np.int16(3), np.int8(2), -2, None,
    'abc', [], (), [0], [1], [2], [5], [0, 2], [2, 0], [1, 1], [2, 2],
    [2, 3], [3, 2], (2, 3), (4, 3, 2), [2, 3, 4], [4, 3, 2], [2, 2, 2, 2],
    [3, 1, 2], [1, 5, 1], [2.0, 3], [2.5, 2], [3, 2.2, 2], [[2, 3]],
    [2, 3, 2, 3, 2], [2] * 8, [3] * 5, [7, 5, 3], [2, 1, 1, 1, 1, 3],
    np.array([2, 3]), np.array([4, 2, 3]), np.array([2., 3.]),
    np.array([3], dtype=np.int32), np.array([[2, 3], [3, 2]]),
    np.array(3), [np.int64(3), np.int32(2)], [True, 3], [-1, 2], [2, -1],
    [2, None], [2, 'a'], range(3), {2: 1, 3: 1},
]
for d in range(1, 6):
    for _ in range(6):
        flat_inputs.append([int(k) for k in rng.integers(1, 6, size=d)])
        flat_inputs.append(rng.integers(2, 5, size=d))
for i, n in enumerate(flat_inputs):
    I = add(f'grid_flat[{i}] {n!r}', teneva.grid_flat, (n,))
    if isinstance(I, np.ndarray) and I.ndim == 2 and I.shape[0] > 0:
        # extra: every multi-index once, the first index runs fastest
        sizes = [len(np.arange(k)) for k in n]
        J = np.ravel_multi_index(tuple(I.T), sizes, order='F')
        records.append((f'grid_flat[{i}] enumeration',
            ('ok', bool(np.array_equal(J, np.arange(len(J))))), True, None))

# ----------------------------------------------------- grid_prep_opts (+opt)
scalars = [None, -1., 2, 0, 3.5, True, np.float64(2.), np.int64(3)]
vectors = [[-1., -2.], [1, 2, 3], np.array([0., 1.]), np.array([4, 5, 6]),
    [], np.array([]), (1., 2.), np.array(5), np.array([[1., 2.], [3., 4.]]),
    [[1, 2], [3, 4], [5, 6]], [1.5, 2.5, 3.5, 4.5], np.array([2.7, 3.2]),
    ['a', 'b'], [None, 1.], np.array([1, 2], dtype=np.int32)]
opts = scalars + vectors
ds = [None, 1, 2, 3, 0, -1, 2.0, np.int64(2)]
reps_list = [None, 1, 3, 0]
k = 0
for a, b, n in itertools.product(opts, repeat=3):
    for d in ds:
        reps = reps_list[k % len(reps_list)]
        add(f'grid_prep_opts[{k}]', teneva.grid_prep_opts, (a, b, n, d, reps))
        k += 1
for a, b, n in itertools.product(opts[:12], repeat=3):
    for reps in reps_list:
        add(f'grid_prep_opts_kw[{k}]', teneva.grid_prep_opts, (),
            dict(a=a, b=b, n=n, reps=reps))
        k += 1
add('grid_prep_opts()', teneva.grid_prep_opts, ())
add('grid_prep_opts(d=3)', teneva.grid_prep_opts, (), dict(d=3))
add('grid_prep_opts(n=5,d=3,reps=2)', teneva.grid_prep_opts, (),
    dict(n=5, d=3, reps=2))
add('grid_prep_opts(reps=-1)', teneva.grid_prep_opts, ([1., 2.], 3., 4),
    dict(reps=-1))

# --------------------------- callers of grid_prep_opts (round trips, scaling)
boxes = [(-1., 1.), (0., 1.), (-3.5, 7.25), (1.E+6, 1.E+6 + 1.),
    (-1.E-9, 2.E-9), (1.E+12, 3.E+12), (-5., -4.)]
for kind in ['uni', 'cheb', 'bad', [2., 5.], [-1., 1.], [1, 2, 3]]:
    for (a, b) in boxes:
        for n in [2, 3, 5, 16, 17]:
            for d in [1, 2, 4]:
                I = teneva.grid_flat([n] * d) if n**d <= 300 else \
                    rng.integers(0, n, size=(50, d))
                if isinstance(kind, str):
                    X = add(f'ind_to_poi {kind} {a} {b} {n} {d}',
                        teneva.ind_to_poi, (I, a, b, n, kind))
                    add(f'ind_to_poi(vec) {kind} {a} {b} {n} {d}',
                        teneva.ind_to_poi, (I, [a] * d, [b] * d, [n] * d, kind))
                    add(f'ind_to_poi(single) {kind} {a} {b} {n} {d}',
                        teneva.ind_to_poi, (I[-1], a, [b] * d, n, kind))
                    add(f'ind_to_poi(mismatch) {kind} {a} {b} {n} {d}',
                        teneva.ind_to_poi, (I, [a] * (d + 1), b, n, kind))
                X = a + (b - a) * (rng.random((40, d)) * 1.6 - 0.3)
                add(f'poi_scale {kind} {a} {b} {n} {d}',
                    teneva.poi_scale, (X, a, b, kind))
                add(f'poi_scale(vec) {kind} {a} {b} {n} {d}',
                    teneva.poi_scale, (X, np.array([a] * d), [b] * d, kind))
                add(f'poi_scale(mismatch) {kind} {a} {b} {n} {d}',
                    teneva.poi_scale, (X, [a] * d, [b] * (d + 2), kind))
                add(f'poi_to_ind {kind} {a} {b} {n} {d}',
                    teneva.poi_to_ind, (X, a, b, n, kind))
                add(f'poi_to_ind(single) {kind} {a} {b} {n} {d}',
                    teneva.poi_to_ind, (X[0], [a] * d, b, [n] * d, kind))

# --------------------------------------------------------------- cdf_getter
samples = [
    [1.], [2., 1.], [3., 1., 2.], [1., 1., 1.], [0., 0., 1., 1., 2.],
    [5, 3, 4, 1], np.array([5, 3, 4, 1]), np.array([2., -1., 7.5]),
    np.array([1., 2., 3.], dtype=np.float32), np.array([3, 1], dtype=np.int8),
    np.array([True, False, True]), [np.inf, -np.inf, 0.], [np.nan, 1., 0.],
    [1.E+300, -1.E+300, 1.E-300], (4., 2., 9.), [2**53 + 1, 2**53, 1],
    np.array([2**63 - 1, 5], dtype=np.uint64), [], np.array([]), 5., None,
    np.array(3.), [[1., 2.], [0., 3.]], np.array([[3.], [1.]]),
    ['b', 'a'], [1., 'a'], [1 + 2j, 0j], range(4),
    np.arange(10.)[::-1], np.arange(12.)[::3],
]
for m in [2, 3, 7, 10, 49, 100, 1001]:
    samples.append(rng.normal(size=m))
    samples.append(rng.integers(-3, 4, size=m))
    samples.append(np.round(rng.normal(size=m), 1))
    samples.append(list(rng.random(m) * 1.E+5 - 3.E+4))
queries = [0., 1., -1., 2., 2.5, 1.E+301, -1.E+301, np.inf, -np.inf, np.nan,
    0, 3, 2**53, True, np.float32(1.), np.int64(2), np.float64(0.5),
    np.array(1.5), np.array([]), np.array([0., 1., 2., 3., 4.]),
    [0.5, 1.5], (1., 2.), np.array([[0., 1.], [2., 3.]]),
    np.array([1, 2, 3]), np.array([np.nan, np.inf, -np.inf]), 'a', None,
    1j, np.linspace(-4, 4, 81), np.array([1., 2.], dtype=np.float32)]
for i, x in enumerate(samples):
    cdf = add(f'cdf_getter[{i}]', teneva.cdf_getter, (x,))
    if cdf is None:
        continue
    records.append((f'cdf_getter[{i}] callable', ('ok', callable(cdf),
        type(cdf).__name__, getattr(cdf, '__name__', None)), True, None))
    zs = list(queries)
    try:
        xa = np.asarray(x, dtype=float).ravel()
        zs += [xa.copy(), xa - 1.E-9, xa + 1.E-9, np.nextafter(xa, -np.inf),
            np.nextafter(xa, np.inf)] + [float(v) for v in xa[:5]]
    except Exception:
        pass
    for j, z in enumerate(zs):
        add(f'cdf[{i}]({j})', cdf, (z,))
    # the getter must not keep a reference to the sample
    if isinstance(x, np.ndarray) and x.dtype.kind == 'f' and x.ndim == 1 \
            and x.flags.writeable and len(x):
        x2 = x.copy()
        cdf2 = teneva.cdf_getter(x2)
        x2[:] = 1.E+9
        add(f'cdf[{i}] after sample overwrite', cdf2, (np.sort(x),))

with open(sys.argv[1], 'wb') as f:
    pickle.dump(records, f)
'''


def collect(cwd, fpath_worker, fpath_out):
    env = dict(os.environ)
    env.pop('PYTHONPATH', None)
    env['PYTHONDONTWRITEBYTECODE'] = '1'
    res = subprocess.run([PYTHON, '-W', 'ignore', fpath_worker, fpath_out,
        cwd], cwd=cwd, env=env, capture_output=True, text=True)
    if res.returncode != 0:
        print(f'Worker failed in {cwd}:\n{res.stdout}\n{res.stderr}')
        sys.exit(1)
    with open(fpath_out, 'rb') as f:
        return pickle.load(f)


def main():
    with tempfile.TemporaryDirectory(dir='/tmp/twinsB/C18') as tmp:
        fpath_worker = os.path.join(tmp, 'worker.py')
        with open(fpath_worker, 'w') as f:
            f.write(WORKER)
        rec_orig = collect(ORIG, fpath_worker, os.path.join(tmp, 'orig.pkl'))
        rec_twin = collect(TWIN, fpath_worker, os.path.join(tmp, 'twin.pkl'))

    bad = 0
    if len(rec_orig) != len(rec_twin):
        print(f'Different number of records: {len(rec_orig)} vs '
            f'{len(rec_twin)}')
        bad += 1

    n_ok = n_exc = n_mut = 0
    n_msg = 0
    for r_orig, r_twin in zip(rec_orig, rec_twin):
        if r_orig[1][0] == 'exc' and r_twin[1][0] == 'exc' and \
                r_orig[1][:2] == r_twin[1][:2] and r_orig[1] != r_twin[1]:
            # The same exception class, only the message text differs
            # (reported, but it is not counted as a behaviour change):
            n_msg += 1
            print(f'note: "{r_orig[0]}": {r_orig[1][1]} message differs: '
                f'"{r_orig[1][2]}" vs "{r_twin[1][2]}"')
            r_twin = (r_twin[0], r_orig[1]) + tuple(r_twin[2:])
        if r_orig != r_twin:
            bad += 1
            if bad <= 20:
                print(f'MISMATCH in "{r_orig[0]}":\n  orig: '
                    f'{str(r_orig[1:3])[:300]}\n  twin: '
                    f'{str(r_twin[1:3])[:300]}')
        n_ok += r_orig[1][0] == 'ok'
        n_exc += r_orig[1][0] == 'exc'
        n_mut += not r_orig[2]

    print(f'Scenarios: {len(rec_orig)} (returned: {n_ok}, raised: {n_exc}, '
        f'mutated args: {n_mut}); mismatches: {bad}')
    sys.exit(1 if bad else 0)


if __name__ == '__main__':
    main()
