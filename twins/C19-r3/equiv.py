"""Equivalence demonstration for the C19 twin C refactoring.

The ORIGINAL package (pristine copy in /tmp/twinsC/C19/orig) and the REFACTORED
package (worktree /tmp/wt/C19) are run in two subprocesses on the same
deterministic scenario list; each subprocess dumps its results into a pickle
and the two pickles are compared bit-for-bit (values, shapes, dtypes, memory
layout flags, exceptions, mutation of the arguments, state of the random
generators after the call, arguments passed to the user sampling function).

Usage:  /venv/bin/python /tmp/twinsC/C19/equiv.py      (exit 0 = all agree)

"""
import itertools
import os
import pickle
import subprocess
import sys
import tempfile


ROOT_ORIG = '/tmp/twinsC/C19/orig'
ROOT_TWIN = '/tmp/wt/C19'


# ---------------------------------------------------------------------------
# Worker part (is run inside the package root, which is given as cwd)
# ---------------------------------------------------------------------------


def _norm(x):
    """Convert the result into a picklable and exactly comparable form."""
    import numpy as np
    if isinstance(x, np.ndarray):
        return ('nd', str(x.dtype), x.shape, bool(x.flags['C_CONTIGUOUS']),
            bool(x.flags['F_CONTIGUOUS']), bool(x.flags['WRITEABLE']),
            np.ascontiguousarray(x).tobytes(), np.array(x, copy=True))
    if isinstance(x, np.generic):
        return ('sc', type(x).__name__, x.tobytes(), x.item())
    if isinstance(x, (list, tuple)):
        return (type(x).__name__, [_norm(y) for y in x])
    if isinstance(x, dict):
        return ('dict', [(k, _norm(v)) for k, v in sorted(x.items())])
    if isinstance(x, np.random.Generator):
        return ('rng', repr(x.bit_generator.state))
    if isinstance(x, float):
        import struct
        return ('float', struct.pack('<d', x), x)
    return (type(x).__name__, x)


def _run(func, *args, **kwargs):
    """Run function and return the normalized result with arguments after."""
    try:
        res = ('ok', _norm(func(*args, **kwargs)))
    except Exception as e:
        res = ('exc', type(e).__name__, str(e))
    after = [_norm(a) for a in args if not callable(a)]
    after += [(k, _norm(a)) for k, a in sorted(kwargs.items())
        if not callable(a)]
    return (res, after)


def _shares(Y):
    """Which cores of the TT-tensor share memory with the first one."""
    import numpy as np
    return [bool(np.shares_memory(Y[0], G)) for G in Y]


def scenarios():
    import numpy as np
    import teneva

    out = []

    def add(name, func, *args, **kwargs):
        out.append((name, _run(func, *args, **kwargs)))

    shapes = [[2, 2], [3, 4], [5, 1], [1, 1], [4, 3, 2], [2, 5, 3, 4],
        [3, 3, 3, 3, 3], [2, 3, 4, 2, 3, 2], [7] * 8, [2] * 12,
        np.array([4, 5, 6]), (3, 2, 5)]
    values = [1., -1., 0., -0., 1, -3, 2, 0, 3.7, -2.5E+10, 1.E-20, -1.E-20,
        1.E-16, -1.E-16, 2.E-16, 1.0000001E-16, 1.E-300, -1.E+300, 42.42,
        np.float64(-7.5), np.float64(0.), np.float32(2.5), np.int64(-4)]

    # ---------------------------------------------------------------- const
    for n, v in itertools.product(shapes, values):
        add(f'const/plain/{list(n)}/{v!r}', teneva.const, n, v)
    add('const/default', teneva.const, [3, 4, 5])
    add('const/empty-shape', teneva.const, [], 2.)
    add('const/complex', teneva.const, [2, 3], 1. + 2.j)

    rng = np.random.default_rng(12345)
    for rep in range(400):
        d = int(rng.integers(2, 7))
        n = [int(k) for k in rng.integers(1, 5, size=d)]
        if rep % 3 == 0:
            n = np.array(n)
        v = values[int(rng.integers(len(values)))]
        m = int(rng.integers(0, 12))
        I_zero = np.vstack([rng.integers(0, n) for _ in range(m)]) if m \
            else np.zeros((0, d), dtype=int)
        i_non_zero = rng.integers(0, n)
        kind = rep % 8
        if kind == 0:
            args = (n, v, I_zero.tolist(), None)
        elif kind == 1:
            args = (n, v, I_zero, None)
        elif kind == 2:
            args = (n, v, I_zero.tolist(), i_non_zero.tolist())
        elif kind == 3:
            args = (n, v, I_zero, i_non_zero)
        elif kind == 4:
            # The zero multi-indices agree with the protected one in many modes
            # (the round-robin search has to skip several modes):
            I = np.tile(i_non_zero, (max(m, 1), 1))
            for row in I:
                k = int(rng.integers(d))
                row[k] = (row[k] + 1) % max(n[k], 1) if n[k] > 1 else row[k]
            args = (n, v, I.tolist(), i_non_zero)
        elif kind == 5:
            # Conflict (the protected multi-index is requested to be zero):
            I = I_zero.tolist() + [i_non_zero.tolist()] + I_zero.tolist()
            args = (n, v, I, i_non_zero.tolist())
        elif kind == 6:
            # Conflict at the first position and duplicated zero indices:
            I = [i_non_zero.tolist()] + I_zero.tolist() * 2
            args = (n, v, np.array(I), i_non_zero)
        else:
            # Only the last (or the first) mode differs:
            I = np.tile(i_non_zero, (3, 1))
            n2 = np.array(n) + 1
            I[0, -1] = (I[0, -1] + 1) % n2[-1]
            I[1, 0] = (I[1, 0] + 1) % n2[0]
            I[2, d // 2] = (I[2, d // 2] + 1) % n2[d // 2]
            args = (n2, v, I, tuple(i_non_zero.tolist()))
        add(f'const/zero/{rep}', teneva.const, *args)
        if rep % 10 == 0:
            add(f'const/zero-kw/{rep}', teneva.const, args[0], v=args[1],
                I_zero=args[2], i_non_zero=args[3])

    add('const/zero/empty-list', teneva.const, [2, 3], 2., [], [0, 0])
    add('const/zero/negative-index', teneva.const, [2, 3, 4], 2.,
        [[-1, -1, -1], [0, -2, 1]], [1, 2, 3])
    add('const/zero/out-of-range', teneva.const, [2, 3, 4], 2., [[0, 0, 9]] * 3)
    add('const/zero/short-index', teneva.const, [2, 3, 4], 2., [[1], [1], [1]])
    add('const/zero/short-protected', teneva.const, [2, 3, 4], 2.,
        [[1, 1, 1]] * 4, [1])
    add('const/zero/d1-conflict', teneva.const, [4], 2., [[1]], [1])
    add('const/zero/d1', teneva.const, [4], 2., [[1], [2], [1]], [0])

    # ---------------------------------------------------------------- delta
    for n in [[2, 2], [3, 4], [4, 3, 2], [2, 3, 2, 3], np.array([3, 1, 2])]:
        rngs = [range(-int(k), int(k)) for k in n]
        for num, i in enumerate(itertools.product(*rngs)):
            v = values[num % len(values)]
            add(f'delta/{list(n)}/{i}/{v!r}', teneva.delta, n, list(i), v)
    add('delta/default', teneva.delta, [3, 4, 5], [1, 2, 3])
    add('delta/nd-index', teneva.delta, [3, 4, 5], np.array([2, -1, 0]), -3.)
    add('delta/out-of-range', teneva.delta, [3, 4, 5], [3, 0, 0], 1.)
    add('delta/short-index', teneva.delta, [3, 4, 5], [1, 0], 1.)

    # ----------------------------------------------------------------- poly
    for n in [[2, 2], [3, 4, 5], [4] * 6, np.array([5, 1, 2, 3])]:
        for shift, power, scale in [(0., 2, 1.), (1.5, 3, -2.), (-2., 1, 0.5),
                ([0.5] * len(n), 0, 3.), (np.arange(len(n)) * 0.25, 4, 1.E-3),
                (0., 0.5, 2.), (2, 2, 1)]:
            add(f'poly/{list(n)}/{shift!r}/{power}/{scale}', teneva.poly,
                n, shift, power, scale)

    # --------------------------------------------------- random constructors
    ranks = {
        2: [1, 2, 3, 2., True, [1, 1, 1], [1, 4, 1], np.array([1, 9, 1])],
        3: [1, 2, 5, 3., [1, 1, 1, 1], [1, 2, 3, 1], [1, 7, 1, 1],
            np.array([1, 20, 20, 1])],
        5: [1, 3, 2.9, [1, 2, 1, 4, 3, 1], np.array([1, 6, 6, 6, 6, 1]),
            [1, 1, 5, 1, 1, 1]],
    }
    shapes_r = {
        2: [[2, 2], [3, 5], np.array([1, 4])],
        3: [[2, 3, 4], [5, 5, 5], (1, 1, 1), np.array([6, 2, 3])],
        5: [[2] * 5, [3, 4, 2, 5, 3], np.array([4, 1, 3, 1, 2])],
    }
    seeds = [0, 1, 42, 2 ** 31 + 5]
    for d in ranks:
        for n, r, seed in itertools.product(shapes_r[d], ranks[d], seeds):
            tag = f'{list(n)}/{r!r}/{seed}'
            add(f'rand/{tag}', teneva.rand, n, r, seed=seed)
            add(f'rand/ab/{tag}', teneva.rand, n, r, -3., 0.5, seed)
            add(f'rand_norm/{tag}', teneva.rand_norm, n, r, seed=seed)
            add(f'rand_norm/ms/{tag}', teneva.rand_norm, n, r, 2., 0.1, seed)
            add(f'rand_stab/{tag}', teneva.rand_stab, n, r, seed=seed)
            for noise in [0., 1.E-3, 1.]:
                add(f'rand_stab/{noise}/{tag}', teneva.rand_stab, n, r,
                    noise, seed)

            # A generator instance as a seed (its state after the call shows
            # that the same number of draws is performed in the same order):
            for func in [teneva.rand, teneva.rand_norm, teneva.rand_stab]:
                gen = np.random.default_rng(seed + 7)
                add(f'{func.__name__}/gen/{tag}', func, n, r, seed=gen)
                out.append((f'{func.__name__}/gen-after/{tag}',
                    _norm(gen.normal(size=3))))

            # Custom sampling function (we log its arguments):
            log = []
            gen = np.random.default_rng(seed)

            def f(size):
                log.append((type(size).__name__, int(size)))
                return gen.exponential(size=size)

            add(f'rand_custom/f/{tag}', teneva.rand_custom, n, r, f)
            out.append((f'rand_custom/f-log/{tag}', list(log)))

            np.random.seed(seed % (2 ** 32))
            add(f'rand_custom/default/{tag}', teneva.rand_custom, n, r)
            out.append((f'rand_custom/default-after/{tag}',
                _norm(np.random.randn(2))))

    # Layout of the result (all the cores are views of one flat vector):
    for n, r in [([2, 3, 4], 2), ([3] * 5, [1, 2, 3, 3, 2, 1])]:
        if True:
            flat = []

            def f(size):
                flat.append(np.arange(size, dtype=float))
                return flat[-1]

            Y = teneva.rand_custom(n, r, f)
            out.append((f'rand_custom/views/{n}/{r}', _norm(Y),
                [bool(np.shares_memory(flat[0], G)) for G in Y], _shares(Y)))
            Y = teneva.rand_stab(n, r, seed=3)
            out.append((f'rand_stab/views/{n}/{r}', _shares(Y)))
            Y = teneva.rand(n, r, seed=3)
            out.append((f'rand/views/{n}/{r}', _shares(Y)))

    add('rand_custom/f-list', teneva.rand_custom, [2, 3], 2,
        lambda size: [0.5] * int(size))
    add('rand_custom/f-float32', teneva.rand_custom, [2, 3], 2,
        lambda size: np.arange(size, dtype=np.float32))
    add('rand_custom/f-int', teneva.rand_custom, [2, 3, 2], [1, 2, 3, 1],
        lambda size: np.arange(size))
    add('rand_custom/f-wrong-size', teneva.rand_custom, [2, 3], 2,
        lambda size: np.zeros(size + 1))
    add('rand_custom/f-kw', teneva.rand_custom, n=[2, 3], r=2,
        f=lambda size: np.ones(size))
    for func in [teneva.rand, teneva.rand_norm, teneva.rand_stab]:
        name = func.__name__
        add(f'{name}/bad/short-r', func, [2, 3, 4], [1, 2, 1], seed=1)
        add(f'{name}/bad/short-r-d2', func, [2, 3], [1, 2], seed=1)
        add(f'{name}/bad/long-r', func, [2, 3], [1, 2, 2, 1], seed=1)
        add(f'{name}/bad/neg-r', func, [2, 3, 2], [1, -2, 2, 1], seed=1)
        add(f'{name}/bad/neg-r-scalar', func, [2, 3, 2], -2, seed=1)
        add(f'{name}/bad/zero-r', func, [2, 3, 2], 0, seed=1)
        add(f'{name}/bad/np-int-r', func, [2, 3, 2], np.int64(2), seed=1)
        add(f'{name}/bad/str-r', func, [2, 3, 2], 'a', seed=1)
        add(f'{name}/bad/zero-n', func, [2, 0, 2], 2, seed=1)
        add(f'{name}/bad/neg-n', func, [2, -3, 2], 2, seed=1)
        add(f'{name}/bad/empty-n', func, [], 2, seed=1)
        add(f'{name}/float-n', func, [2., 3., 2.], 2, seed=1)
        add(f'{name}/kw', func, n=[2, 3, 2], r=[1, 2, 2, 1], seed=5)
    add('rand/bad/a>b', teneva.rand, [2, 3], 2, 1., -1., 3)
    add('rand/a=b', teneva.rand, [2, 3], 2, 1., 1., 3)
    add('rand_norm/bad/s<0', teneva.rand_norm, [2, 3], 2, 0., -1., 3)
    add('rand_norm/s=0', teneva.rand_norm, [2, 3], 2, 1., 0., 3)
    add('rand_stab/bad/noise<0', teneva.rand_stab, [2, 3], 2, -1., 3)
    add('rand_stab/big-d', teneva.rand_stab, [3] * 60, 4, 1.E-2, 8)
    add('rand/big-d', teneva.rand, [3] * 60, 4, seed=8)

    # ------------------------------------------------ QTT index preparation
    for q in range(0, 8):
        n = 1 << q
        for i in range(-n - 3, n + 4):
            add(f'prepare/{q}/{i}', teneva._vector_index_prepare, q, i)
            add(f'expand/{q}/{i}', teneva._vector_index_expand, q, i)
    for q, i in [(3, np.int64(5)), (3, np.int64(-1)), (3, np.int64(-8)),
            (3, 5.), (3, -1.), (3, 2.5), (40, 2 ** 39 + 12345), (40, -1),
            (40, -2 ** 40), (60, 2 ** 59 + 1), (60, 2 ** 60 - 1),
            (60, 2 ** 53 + 1), (64, 2 ** 64 - 1), (70, 3 ** 40), (-1, 0),
            (2, True)]:
        add(f'prepare/x/{q}/{i!r}', teneva._vector_index_prepare, q, i)
        add(f'expand/x/{q}/{i!r}', teneva._vector_index_expand, q, i)

    # ----------------------------------------------------------- QTT deltas
    for q in range(0, 8):
        n = 1 << q
        for num, i in enumerate(range(-n - 2, n + 2)):
            v = values[num % len(values)]
            add(f'vector_delta/{q}/{i}/{v!r}', teneva.vector_delta, q, i, v)
        add(f'vector_delta/default/{q}', teneva.vector_delta, q, n // 2)
    for q, i in [(3, np.int64(5)), (3, np.int64(-3)), (3, 5.), (30, 12345678),
            (30, -1), (30, -2 ** 30), (60, 2 ** 59 + 1), (60, 2 ** 60 - 1),
            (60, -5)]:
        add(f'vector_delta/x/{q}/{i!r}', teneva.vector_delta, q, i, -2.5)
    add('vector_delta/kw', teneva.vector_delta, q=4, i=-3, v=7.)
    add('vector_delta/complex', teneva.vector_delta, 3, 2, 1.j)

    for q in range(0, 5):
        n = 1 << q
        num = 0
        for i in range(-n - 1, n + 1):
            for j in range(-n - 1, n + 1):
                v = values[num % len(values)]
                num += 1
                add(f'matrix_delta/{q}/{i}/{j}/{v!r}', teneva.matrix_delta,
                    q, i, j, v)
        add(f'matrix_delta/default/{q}', teneva.matrix_delta, q, 0, n - 1)
    rng = np.random.default_rng(777)
    for q in [5, 6, 9, 20]:
        n = 1 << q
        for _ in range(150):
            i, j = (int(x) for x in rng.integers(-n, n, size=2))
            v = values[int(rng.integers(len(values)))]
            add(f'matrix_delta/{q}/{i}/{j}/{v!r}', teneva.matrix_delta,
                q, i, j, v)
    for q, i, j in [(3, np.int64(5), np.int64(-2)), (3, 5., 1), (3, 1, 8),
            (3, -9, 1), (60, 2 ** 59 + 1, 2 ** 60 - 1), (60, -1, -2)]:
        add(f'matrix_delta/x/{q}/{i!r}/{j!r}', teneva.matrix_delta, q, i, j, 3.)
    add('matrix_delta/kw', teneva.matrix_delta, q=4, i=-3, j=5, v=7.)

    # The cores of the result should be independent arrays:
    Y = teneva.matrix_delta(6, 0, 0, 5.)
    Y[0][0, 0, 0, 0] = 9.
    out.append(('matrix_delta/independent', _norm(Y),
        [bool(np.shares_memory(Y[0], G)) for G in Y[1:]]))
    Y = teneva.vector_delta(6, -1, 5.)
    Y[0][0, 1, 0] = 9.
    out.append(('vector_delta/independent', _norm(Y),
        [bool(np.shares_memory(Y[0], G)) for G in Y[1:]]))

    # -------------------------- full tensors (composition with the package)
    for n in [[3, 4, 2], [2, 3, 2, 3]]:
        Y = teneva.const(n, -2.5, [[0] * len(n), [1] + [0] * (len(n) - 1)], [1] * len(n))
        out.append((f'full/const/{n}', _norm(teneva.full(Y))))
        Y = teneva.delta(n, [1] * len(n), 3.)
        out.append((f'full/delta/{n}', _norm(teneva.full(Y))))
        Y = teneva.rand_stab(n, 3, 1.E-2, seed=11)
        out.append((f'full/rand_stab/{n}', _norm(teneva.full(Y))))
        Y = teneva.rand_norm(n, 3, seed=11)
        out.append((f'full/rand_norm/{n}', _norm(teneva.full(Y))))
    out.append(('full/vector_delta', _norm(teneva.full(
        teneva.vector_delta(5, -7, 2.)))))

    return out


def worker(fpath):
    root = os.getcwd()
    sys.path.insert(0, root)
    import teneva
    fmod = os.path.realpath(teneva.__file__)
    assert fmod.startswith(os.path.realpath(root) + os.sep), fmod
    import warnings
    warnings.simplefilter('ignore')
    res = scenarios()
    with open(fpath, 'wb') as f:
        pickle.dump((fmod, res), f)


# ---------------------------------------------------------------------------
# Comparison part
# ---------------------------------------------------------------------------


def same(a, b):
    """Exact (bit-for-bit) comparison of the normalized results."""
    import numpy as np
    if type(a) is not type(b):
        return False
    if isinstance(a, np.ndarray):
        return a.dtype == b.dtype and a.shape == b.shape and \
            a.tobytes() == b.tobytes()
    if isinstance(a, (list, tuple)):
        return len(a) == len(b) and all(same(x, y) for x, y in zip(a, b))
    if isinstance(a, float) and a != a:
        return b != b
    return a == b


def close(a, b):
    """Weak comparison (np.allclose with tight tolerance) for the report."""
    import numpy as np
    if type(a) is not type(b):
        return False
    if isinstance(a, np.ndarray):
        if a.dtype != b.dtype or a.shape != b.shape:
            return False
        if a.dtype.kind in 'fc':
            return bool(np.allclose(a, b, rtol=1.E-14, atol=0.,
                equal_nan=True))
        return bool(np.array_equal(a, b))
    if isinstance(a, bytes):
        return True  # Raw bytes are checked only in the exact mode
    if isinstance(a, (list, tuple)):
        return len(a) == len(b) and all(close(x, y) for x, y in zip(a, b))
    if isinstance(a, float):
        return (a != a and b != b) or abs(a - b) <= 1.E-14 * abs(b)
    return a == b


def main():
    files = {}
    with tempfile.TemporaryDirectory(dir='/tmp/twinsC/C19') as tmp:
        for name, root in [('orig', ROOT_ORIG), ('twin', ROOT_TWIN)]:
            fpath = os.path.join(tmp, name + '.pkl')
            env = dict(os.environ)
            env.pop('PYTHONPATH', None)
            env['PYTHONDONTWRITEBYTECODE'] = '1'
            subprocess.run([sys.executable, os.path.abspath(__file__),
                '--worker', fpath], cwd=root, env=env, check=True)
            with open(fpath, 'rb') as f:
                files[name] = pickle.load(f)

    (fmod1, res1), (fmod2, res2) = files['orig'], files['twin']
    print(f'original   : {fmod1}')
    print(f'refactored : {fmod2}')
    if fmod1 == fmod2:
        print('FAIL: the same package was loaded twice')
        return 1

    bad = 0
    if [x[0] for x in res1] != [x[0] for x in res2]:
        print('FAIL: different scenario lists')
        return 1

    n_exc = 0
    n_weak = 0
    for x, y in zip(res1, res2):
        name = x[0]
        if isinstance(x[1], tuple) and len(x[1]) == 2 \
                and isinstance(x[1][0], tuple) and x[1][0][:1] == ('exc',):
            n_exc += 1
        if not same(x[1:], y[1:]):
            bad += 1
            weak = close(x[1:], y[1:])
            n_weak += weak
            if bad <= 20:
                print(f'MISMATCH ({"only bits" if weak else "values"}): {name}')
                print(f'    orig: {str(x[1:])[:300]}')
                print(f'    twin: {str(y[1:])[:300]}')

    print(f'scenarios: {len(res1)} (with exceptions: {n_exc}); '
        f'mismatches: {bad} (of them within rtol=1e-14: {n_weak})')
    if bad:
        print('FAIL')
        return 1
    print('OK: all the results agree bit-for-bit')
    return 0


if __name__ == '__main__':
    if len(sys.argv) == 3 and sys.argv[1] == '--worker':
        worker(sys.argv[2])
    else:
        sys.exit(main())
