"""Equivalence demonstration for the C20 refactoring (get / sample_tt / svd_incomplete).

The same deterministic scenario list is run in two subprocesses, one importing
the pristine package (cwd = /tmp/twinsA/C20/orig) and one importing the
refactored package (cwd = /tmp/wt/C20). Each dumps its results to a pickle; the
parent compares the two pickles. Exit code 0 iff everything agrees.

    /venv/bin/python /tmp/twinsA/C20/equiv.py
"""
import os
import pickle
import subprocess
import sys
import tempfile

import numpy as np


ORIG = '/tmp/twinsA/C20/orig'
TWIN = '/tmp/wt/C20'
RTOL = 1.E-11
ATOL = 1.E-13


# --------------------------------------------------------------------------
# Worker part (runs inside one of the two package trees)
# --------------------------------------------------------------------------


def _snapshot(x):
    """Deep copy of the (nested) argument for mutation checks."""
    if isinstance(x, np.ndarray):
        return x.copy()
    if isinstance(x, (list, tuple)):
        return type(x)(_snapshot(v) for v in x)
    return x


def _same(a, b):
    if isinstance(a, np.ndarray) or isinstance(b, np.ndarray):
        return (isinstance(a, np.ndarray) and isinstance(b, np.ndarray)
            and a.shape == b.shape and a.dtype == b.dtype
            and np.array_equal(a, b))
    if isinstance(a, (list, tuple)):
        return (type(a) is type(b) and len(a) == len(b)
            and all(_same(u, v) for u, v in zip(a, b)))
    return a == b


def _call(func, *args, **kwargs):
    """Call and record result or exception, plus whether args were mutated."""
    before = _snapshot(list(args))
    try:
        res = ('OK', func(*args, **kwargs))
    except Exception as e:
        res = ('EXC', type(e).__name__, str(e))
    mutated = [not _same(u, v) for u, v in zip(before, list(args))]
    return {'res': res, 'mutated': mutated}


def _tt_rand(rng, n, ranks):
    """Random TT-tensor with continuous cores; ranks has the length d+1."""
    return [rng.normal(size=(ranks[k], n[k], ranks[k+1]))
        for k in range(len(n))]


def _scen_get(teneva, out):
    rng = np.random.default_rng(12345)
    cases = [
        ([5, 6], [1, 3, 1]),
        ([4, 4, 4], [1, 1, 1, 1]),
        ([3, 7, 5, 4], [1, 2, 5, 3, 1]),
        ([6, 5, 4, 3, 2], [1, 6, 9, 9, 2, 1]),      # over-ranked
        ([3, 3, 3, 3, 3, 3], [1, 3, 3, 3, 3, 3, 1]),
        ([4, 5, 6], [2, 3, 4, 2]),                  # open boundary ranks
        ([7], [1, 1]),
        ([7], [3, 2]),
    ]
    for c, (n, ranks) in enumerate(cases):
        Y = _tt_rand(rng, n, ranks)
        d = len(n)
        for t in range(6):
            i = [int(rng.integers(k)) for k in n]
            for to_item in (True, False):
                key = ('get', c, t, to_item)
                out[key + ('list',)] = _call(teneva.get, Y, i,
                    _to_item=to_item)
                out[key + ('arr',)] = _call(teneva.get, Y, np.array(i),
                    _to_item=to_item)
                out[key + ('tuple',)] = _call(teneva.get, tuple(Y), tuple(i),
                    _to_item=to_item)
                out[key + ('float',)] = _call(teneva.get, Y,
                    np.array(i, dtype=float), _to_item=to_item)
                # Partial evaluation on the leading cores (as svd_incomplete):
                for k in range(1, d+1):
                    out[key + ('part', k)] = _call(teneva.get, Y[:k], i[:k],
                        _to_item=to_item)
                # Index longer / shorter than the tensor:
                out[key + ('long',)] = _call(teneva.get, Y[:max(1, d-1)], i,
                    _to_item=to_item)
                out[key + ('short',)] = _call(teneva.get, Y, i[:-1],
                    _to_item=to_item)
                # Out of range index:
                j = list(i)
                j[-1] = n[-1]
                out[key + ('oob',)] = _call(teneva.get, Y, j,
                    _to_item=to_item)
        # Batch (2D) input:
        I = np.array([[int(rng.integers(k)) for k in n] for _ in range(9)])
        for to_item in (True, False):
            out[('get', c, 'batch', to_item)] = _call(teneva.get, Y, I,
                _to_item=to_item)
            out[('get', c, 'batch-list', to_item)] = _call(teneva.get, Y,
                I.tolist(), _to_item=to_item)
        out[('get', c, 'default')] = _call(teneva.get, Y, I[0])
        out[('get', c, 'scalar-index')] = _call(teneva.get, Y, 0)


SHAPES = [
    [4, 4],
    [5, 7],
    [6, 6, 6],
    [5, 9, 6],
    [8, 5, 7, 6],
    [4, 5, 4, 6, 5],
    [4, 4, 4, 4, 4, 4],
    [12, 3, 10],
]


def _scen_sample_tt(teneva, out):
    for c, n in enumerate(SHAPES):
        for r in (1, 2, 3, 4, 5, 7):
            for seed in (0, 1, 42):
                key = ('sample_tt', c, r, seed)
                out[key + ('list',)] = _call(teneva.sample_tt, n, r, seed)
                out[key + ('arr',)] = _call(teneva.sample_tt, np.array(n),
                    r=r, seed=seed)
                # Generator as the seed: also the state after the call must
                # coincide (same number and order of random draws):
                gen = np.random.default_rng(seed + 100)
                res = _call(teneva.sample_tt, n, r, gen)
                res['after'] = gen.integers(10**9, size=4)
                out[key + ('gen',)] = res
        out[('sample_tt', c, 'default-r')] = _call(teneva.sample_tt, n,
            seed=5)
        out[('sample_tt', c, 'tuple')] = _call(teneva.sample_tt, tuple(n),
            3, 5)
    # Edge cases (outside of the quantifier, but cheap to compare):
    out[('sample_tt', 'd1')] = _call(teneva.sample_tt, [5], 3, 0)
    out[('sample_tt', 'd1-r1')] = _call(teneva.sample_tt, [5], 1, 0)
    out[('sample_tt', 'float-n')] = _call(teneva.sample_tt, [4., 5., 6.],
        2, 0)
    out[('sample_tt', 'npfloat-n')] = _call(teneva.sample_tt,
        np.array([4., 5., 6.]), 2, 0)
    out[('sample_tt', 'float-r')] = _call(teneva.sample_tt, [4, 5, 6],
        2., 0)
    out[('sample_tt', 'empty')] = _call(teneva.sample_tt, [], 2, 0)
    out[('sample_tt', 'mode1')] = _call(teneva.sample_tt, [4, 1, 5], 2, 0)


def _rank_profiles(d, rho):
    yield 'uniform', [1] + [rho] * (d-1) + [1]
    if d > 2 and rho > 1:
        yield 'mixed', [1] + [1 + (k % rho) for k in range(d-1)] + [1]
        yield 'dip', [1] + [rho if k % 2 else 1 for k in range(d-1)] + [1]


def _scen_svd_incomplete(teneva, out):
    rng = np.random.default_rng(777)
    for c, n in enumerate(SHAPES):
        d = len(n)
        for rho in (1, 2, 3, 4):
            for name, ranks in _rank_profiles(d, rho):
                # The tensor (continuous random cores, TT-rank <= rho):
                Z = _tt_rand(rng, n, ranks)
                for m in (rho, rho + 1):
                    if min(n) < m:
                        continue
                    for seed in (0, 3):
                        I, idx, idx_many = teneva.sample_tt(n, m, seed)
                        Y = teneva.get_many(Z, I)
                        caps = [rho, rho + 2, 1.E+12, max(1, rho - 1),
                            float(rho)]
                        for r in caps:
                            key = ('svdi', c, rho, name, m, seed, r)
                            res = _call(teneva.svd_incomplete, I, Y, idx,
                                idx_many, 1.E-10, r)
                            out[key] = res
                            if res['res'][0] == 'OK' and r >= rho:
                                # Sanity (the property itself): recovery.
                                Yr = res['res'][1]
                                err = teneva.accuracy(Yr, Z)
                                out[key + ('recovered',)] = bool(err < 1.E-6)
                        key = ('svdi', c, rho, name, m, seed)
                        out[key + ('default',)] = _call(
                            teneva.svd_incomplete, I, Y, idx, idx_many)
                        out[key + ('kw',)] = _call(teneva.svd_incomplete,
                            I=I, Y=Y, idx=idx, idx_many=idx_many, e=1.E-4,
                            r=rho + 1)
                        out[key + ('big-e',)] = _call(teneva.svd_incomplete,
                            I, Y, idx, idx_many, 1.E+1, rho + 1)

    # Over-ranked cores (redundant representation of a rank-2 tensor),
    # scaled data, other dtypes of the values and malformed inputs:
    n = [6, 7, 5, 6]
    Z = _tt_rand(rng, n, [1, 2, 2, 2, 1])
    Zbig = teneva.add(Z, teneva.mul(0., Z))          # ranks 4, same tensor
    I, idx, idx_many = teneva.sample_tt(n, 4, 11)
    for tag, Y in [
            ('over', teneva.get_many(Zbig, I)),
            ('scaled', 1.E+8 * teneva.get_many(Z, I)),
            ('tiny', 1.E-8 * teneva.get_many(Z, I)),
            ('f32', teneva.get_many(Z, I).astype(np.float32)),
            ('int', np.round(10 * teneva.get_many(Z, I)).astype(int)),
            ('zero', np.zeros(len(I))),
            ('const', np.ones(len(I)))]:
        for r in (1, 2, 3, 4, 6, 1.E+12):
            out[('svdi-x', tag, r)] = _call(teneva.svd_incomplete, I, Y, idx,
                idx_many, 1.E-10, r)
    Y = teneva.get_many(Z, I)
    out[('svdi-x', 'short-Y')] = _call(teneva.svd_incomplete, I, Y[:-3],
        idx, idx_many)
    out[('svdi-x', 'list-Y')] = _call(teneva.svd_incomplete, I, Y.tolist(),
        idx, idx_many)
    out[('svdi-x', 'list-idx')] = _call(teneva.svd_incomplete, I, Y,
        idx.tolist(), idx_many.tolist(), 1.E-10, 3)
    out[('svdi-x', 'bad-many')] = _call(teneva.svd_incomplete, I, Y, idx,
        idx_many + 1, 1.E-10, 3)
    out[('svdi-x', 'r0')] = _call(teneva.svd_incomplete, I, Y, idx,
        idx_many, 1.E-10, 0)


def worker(path):
    sys.path.insert(0, os.getcwd())
    import teneva
    root = os.path.dirname(os.path.dirname(os.path.abspath(teneva.__file__)))
    assert root == os.path.abspath(os.getcwd()), (root, os.getcwd())

    out = {'__root__': root}
    with np.errstate(all='ignore'):
        _scen_get(teneva, out)
        _scen_sample_tt(teneva, out)
        _scen_svd_incomplete(teneva, out)
    with open(path, 'wb') as f:
        pickle.dump(out, f)


# --------------------------------------------------------------------------
# Comparison part
# --------------------------------------------------------------------------


class Diff(Exception):
    pass


MAXDIFF = [0.]


def compare(a, b, where=''):
    if type(a) is not type(b):
        raise Diff(f'{where}: type {type(a).__name__} vs {type(b).__name__}')
    if isinstance(a, np.ndarray):
        if a.shape != b.shape:
            raise Diff(f'{where}: shape {a.shape} vs {b.shape}')
        if a.dtype != b.dtype:
            raise Diff(f'{where}: dtype {a.dtype} vs {b.dtype}')
        if a.dtype.kind in 'iub':
            if not np.array_equal(a, b):
                raise Diff(f'{where}: integer arrays differ')
        else:
            if not np.allclose(a, b, rtol=RTOL, atol=ATOL, equal_nan=True):
                raise Diff(f'{where}: values differ, max abs diff '
                    f'{np.max(np.abs(a - b)):.3e}')
            if a.size:
                with np.errstate(all='ignore'):
                    dlt = np.nanmax(np.abs(a - b)) if np.isfinite(
                        a).any() else 0.
                MAXDIFF[0] = max(MAXDIFF[0], float(dlt))
    elif isinstance(a, dict):
        if set(a) != set(b):
            raise Diff(f'{where}: keys differ: {set(a) ^ set(b)}')
        for k in a:
            compare(a[k], b[k], f'{where}/{k}')
    elif isinstance(a, (list, tuple)):
        if len(a) != len(b):
            raise Diff(f'{where}: length {len(a)} vs {len(b)}')
        for k, (u, v) in enumerate(zip(a, b)):
            compare(u, v, f'{where}[{k}]')
    elif isinstance(a, (float, np.floating)):
        if not np.isclose(a, b, rtol=RTOL, atol=ATOL, equal_nan=True):
            raise Diff(f'{where}: {a} vs {b}')
    else:
        if a != b:
            raise Diff(f'{where}: {a!r} vs {b!r}')


def main():
    tmp = tempfile.mkdtemp(prefix='equivC20_', dir='/tmp/twinsA/C20')
    files = {}
    for tag, cwd in (('orig', ORIG), ('twin', TWIN)):
        files[tag] = os.path.join(tmp, tag + '.pkl')
        env = dict(os.environ)
        env.pop('PYTHONPATH', None)
        subprocess.run([sys.executable, os.path.abspath(__file__),
            '--worker', files[tag]], cwd=cwd, env=env, check=True)
    res = {}
    for tag in files:
        with open(files[tag], 'rb') as f:
            res[tag] = pickle.load(f)
        os.remove(files[tag])
    os.rmdir(tmp)

    assert res['orig'].pop('__root__') == ORIG
    assert res['twin'].pop('__root__') == TWIN

    keys = sorted(set(res['orig']) | set(res['twin']), key=repr)
    bad = 0
    stat = {}
    for key in keys:
        try:
            if key not in res['orig'] or key not in res['twin']:
                raise Diff(f'{key}: missing in one of the runs')
            compare(res['orig'][key], res['twin'][key], str(key))
        except Diff as e:
            bad += 1
            if bad <= 25:
                print('DIFF', e)
        v = res['orig'].get(key)
        kind = 'flag'
        if isinstance(v, dict):
            kind = v['res'][0] + ('+mut' if any(v['mutated']) else '')
        stat[(key[0], kind)] = stat.get((key[0], kind), 0) + 1

    nrec = sum(1 for k, v in res['orig'].items() if k[-1] == 'recovered')
    nrec_ok = sum(1 for k, v in res['orig'].items()
        if k[-1] == 'recovered' and v)
    print('scenarios:', len(keys))
    for k in sorted(stat):
        print('   ', k, stat[k])
    print(f'recovery sanity (orig): {nrec_ok}/{nrec}')
    print(f'max abs difference over all float results: {MAXDIFF[0]:.3e}')
    print('RESULT:', 'EQUIVALENT' if bad == 0 else f'{bad} DIFFERENCES')
    return 0 if bad == 0 else 1


if __name__ == '__main__':
    if len(sys.argv) == 3 and sys.argv[1] == '--worker':
        worker(sys.argv[2])
    else:
        sys.exit(main())
