"""Equivalence demonstration for the C10 twin B refactoring.

Runs the same deterministic scenario list in two subprocesses (the pristine
copy of the package in /tmp/twinsB/C10/orig and the refactored worktree
/tmp/wt/C10), pickles the outcomes and compares them.

Refactored functions that are compared:
  teneva/tensors.py : rand, rand_custom, rand_norm, rand_stab
  teneva/anova.py   : ANOVA.build, ANOVA.build_1, ANOVA.cores_1, ANOVA.sample
                      (and through them anova / ANOVA.cores / ANOVA.__call__)
  teneva/cross.py   : cross (guards, info reset, sweeps, interruption)

Exit code 0: everything agrees; 1: some difference (or a worker failed).
"""
import contextlib
import hashlib
import io
import os
import pickle
import subprocess
import sys
import tempfile


ROOT_ORIG = '/tmp/twinsB/C10/orig'
ROOT_NEW = os.environ.get('EQUIV_ROOT_NEW', '/tmp/wt/C10')
RTOL = 1.E-13
ATOL = 1.E-14


# ---------------------------------------------------------------------------
# Worker part (is run inside one of the two package roots)
# ---------------------------------------------------------------------------


def worker(root, fout):
    sys.path.insert(0, root)
    os.chdir(root)
    import numpy as np
    import teneva
    assert os.path.dirname(os.path.abspath(teneva.__file__)) == \
        os.path.join(root, 'teneva'), teneva.__file__

    np.random.seed(20240927)    # the same initial state of the global generator
    out = {}
    import time
    t0 = time.time()

    def progress(text):
        if os.environ.get('EQUIV_VERBOSE'):
            print(f'[{os.path.basename(root)}] {time.time()-t0:8.1f}s '
                f'{len(out):6d} scenarios | {text}', file=sys.stderr, flush=True)

    def gstate():
        st = np.random.get_state()
        return hashlib.sha1(pickle.dumps((st[0], st[1].tobytes(), st[2:]))
            ).hexdigest()

    def genstate(g):
        return repr(g.bit_generator.state) if hasattr(g, 'bit_generator') \
            else None

    def run(name, fn):
        """Run scenario and store result or exception (+ global rng state)."""
        assert name not in out, name
        buf = io.StringIO()
        try:
            with contextlib.redirect_stdout(buf):
                res = ('ok', fn())
        except Exception as exc:
            res = ('exc', type(exc).__name__, str(exc))
        out[name] = {'res': res, 'gstate': gstate(), 'stdout': buf.getvalue()}

    # ----------------------------------------------------------- tensors ---

    shapes_ranks = [
        ([5], 1), ([5], 3), ([5], [1, 1]),
        ([4, 3], 1), ([4, 3], 2), ([4, 3], 7), ([4, 3], 2.),
        ([2, 3, 4], 1), ([2, 3, 4], [1, 2, 3, 1]), ([2, 3, 4], [1, 9, 11, 1]),
        ([2, 3, 4], [2, 3, 2, 3]),                  # outer ranks are not 1
        ([3] * 6, 4), ([3] * 6, [1, 3, 9, 27, 9, 3, 1]), ([3] * 6, True),
        (np.array([7, 1, 2, 1, 5]), [1, 7, 5, 2, 4, 1]),
        ((6, 5, 4, 3, 2, 1, 2, 3, 4, 5), 3),
        ([1, 1, 1], 1), ([1, 1, 1], 5),
        ([], 2), ([4, 0, 3], 2),
        ([2, 3, 4], [1, 2, 3, 1, 5, 6]),            # too many ranks
        # Invalid arguments (the same exception is expected):
        ([2, 3, 4], [1, 2, 1]), ([2, 3], [1, 1]), ([2, 3, 4], 'abc'),
        ([2, 3, 4], np.int64(2)), ([2, 3, 4], None), (5, 2), ([[2, 3, 4]], 2),
        ([[2, 3], [4, 5]], 2), ([2, -3, 4], 2), ([2, 3, 4], [1, 0, 2, 1]),
        ([2., 3.5, 4.], 2), ('xyz', 2),
    ]
    seeds = [0, 1, 42, 2**31, 12345678901234567890, True, np.int64(3), -1,
        1.5, 'seed']

    for k, (n, r) in enumerate(shapes_ranks):
        for seed in seeds[:4] if k > 6 else seeds:
            for pre in [None, 7]:
                if pre is not None:
                    np.random.seed(pre)
                    np.random.rand(11)
                tag = f'{k}|{n!r}|{r!r}|seed={seed!r}|pre={pre}'
                run(f'rand|{tag}',
                    lambda: teneva.rand(n, r, seed=seed))
                run(f'rand_ab|{tag}',
                    lambda: teneva.rand(n, r, -3., 0.5, seed))
                run(f'rand_norm|{tag}',
                    lambda: teneva.rand_norm(n, r, seed=seed))
                run(f'rand_norm_ms|{tag}',
                    lambda: teneva.rand_norm(n, r, 2., 0.1, seed))
                run(f'rand_stab|{tag}',
                    lambda: teneva.rand_stab(n, r, seed=seed))
                run(f'rand_stab_noise|{tag}',
                    lambda: teneva.rand_stab(n, r, 1.E-2, seed))

        # The provided generator is used (and only it):
        for make in [lambda: np.random.default_rng(5),
                     lambda: np.random.Generator(np.random.MT19937(5)),
                     lambda: np.random.RandomState(5)]:
            for fname in ['rand', 'rand_norm', 'rand_stab']:
                def fn():
                    g = make()
                    g.random(3)
                    Y1 = getattr(teneva, fname)(n, r, seed=g)
                    s1 = genstate(g)
                    Y2 = getattr(teneva, fname)(n, r, seed=g)
                    return Y1, s1, Y2, genstate(g), g.random(2)
                run(f'gen|{fname}|{k}|{n!r}|{r!r}|{make().__class__.__name__}'
                    f'|{type(getattr(make(), "bit_generator", 0)).__name__}',
                    fn)

        # Custom sampling functions:
        calls = []

        def f_arange(size):
            calls.append((type(size).__name__, int(size)))
            return np.arange(size) * 0.5 - 3.

        def f_list(size):
            return [float(i) ** 0.5 for i in range(size)]

        def f_long(size):
            return np.arange(size + 10, dtype=float)

        def f_short(size):
            return np.arange(max(size - 1, 0), dtype=float)

        def f_int(size):
            return np.arange(size, dtype=np.int32)

        def f_2d(size):
            return np.arange(size * 2, dtype=float).reshape(size, 2)

        def f_cmplx(size):
            return np.arange(size) * 1j

        for f in [f_arange, f_list, f_long, f_short, f_int, f_2d, f_cmplx]:
            run(f'rand_custom|{k}|{n!r}|{r!r}|{f.__name__}',
                lambda: (teneva.rand_custom(n, r, f), list(calls)))

        def fn():
            np.random.seed(99)
            Y = teneva.rand_custom(n, r)
            return Y, np.random.rand(2)
        run(f'rand_custom|{k}|{n!r}|{r!r}|default', fn)

    # Arguments are not changed:
    def fn():
        n = np.array([3, 4, 5])
        r = np.array([1, 2, 6, 1])
        res = [teneva.rand(n, r, seed=1), teneva.rand_norm(n, r, seed=1),
            teneva.rand_stab(n, r, seed=1),
            teneva.rand_custom(n, r, lambda s: np.ones(s))]
        return res, n, r
    run('tensors|args_unchanged', fn)

    def fn():
        # Returned cores of rand_custom are views into one vector or not:
        Y = teneva.rand([3, 4, 5], 2, seed=1)
        return [(G.flags['C_CONTIGUOUS'], G.flags['F_CONTIGUOUS'],
            G.flags['OWNDATA'], G.base is not None) for G in Y]
    run('tensors|flags', fn)

    progress('tensors done')
    # ------------------------------------------------------------- anova ---

    def data(d, n, m, seed, kind=0, dtype=int):
        rng = np.random.default_rng(seed)
        nn = [n] * d if isinstance(n, int) else n
        I = np.array([rng.choice(k, size=m) for k in nn]).T.astype(dtype)
        if kind == 0:
            y = np.sum(I, axis=1) * 1. + 0.1 * rng.normal(size=m)
        elif kind == 1:
            y = np.prod(np.sin(I + 1.), axis=1)
        elif kind == 2:
            y = np.zeros(m)
        else:
            y = rng.integers(-5, 5, size=m)
        return I, y

    def dump_anova(A):
        return {
            'order': A.order, 'dtype': str(A.dtype), 'd': A.d,
            'y_max': A.y_max, 'y_min': A.y_min, 'f0': A.f0,
            'domain': A.domain, 'shapes': A.shapes,
            'f1': [sorted(f.items()) for f in A.f1],
            'f1_keys': [list(f.keys()) for f in A.f1],
            'f2': [list(f.items()) for f in A.f2],
            'f1_arr': A.f1_arr, 'f2_arr': A.f2_arr if A.order > 1 else None,
        }

    cases = [
        (1, 4, 30, 0), (2, 3, 40, 0), (2, [5, 1], 40, 1), (3, 4, 100, 0),
        (3, [2, 5, 3], 20, 1), (4, 3, 300, 3), (5, [3, 2, 4, 2, 3], 500, 1),
        (6, 2, 200, 0), (3, 6, 12, 0), (3, 4, 50, 2), (8, 3, 900, 1),
    ]
    for c, (d, n, m, kind) in enumerate(cases):
        for dtype in [int, np.int32] if c < 5 else [int]:
            I, y = data(d, n, m, 100 + c, kind, dtype)
            for order in [1, 2]:
                tag = f'{c}|d={d}|n={n}|m={m}|kind={kind}|o={order}|' \
                    f'{np.dtype(dtype).name}'

                run(f'anova_build|{tag}', lambda: dump_anova(
                    teneva.ANOVA(I.copy(), y.copy(), order, seed=0)))

                for r in [1, 2, 3, 5]:
                    for seed in [0, 7, 2**40, True]:
                        for noise in [1.E-10, 0.5]:
                            def fn():
                                np.random.seed(r)
                                I_, y_ = I.copy(), y.copy()
                                Y = teneva.anova(I_, y_, r, order, noise,
                                    seed)
                                return Y, np.array_equal(I, I_), \
                                    np.array_equal(y, y_)
                            run(f'anova|{tag}|r={r}|seed={seed}|noise={noise}',
                                fn)

                def fn():
                    g = np.random.default_rng(3)
                    A = teneva.ANOVA(I, y, order, seed=g)
                    s0 = genstate(g)
                    def safe(fn_):
                        # (only_near fails in both packages for order = 2 and
                        # non-uniform shapes; the rest is still compared)
                        try:
                            return fn_()
                        except Exception as exc:
                            return ('exc', type(exc).__name__, str(exc))
                    res = [A.cores(), A.cores(3, rel_noise=0.1),
                        safe(lambda: A.cores(4, 1.E-2, True)),
                        A.cores_1(2, 0.3)]
                    s1 = genstate(g)
                    smp = [A.sample() for _ in range(5)]
                    smp += [A.sample(with_square=True) for _ in range(5)]
                    smp += [A.sample(xi) for xi in range(d)]
                    smp += [A.sample(eps=1.E+3), A.sample(d-1, 1.E+3, True)]
                    smp += [A.sample(-1), A.sample(0, with_square=True)]
                    s2 = genstate(g)
                    vals = [A(I[:7]), A(I[0]), A[I[1]], A.max(), A.max(min)]
                    return res, s0, s1, smp, s2, vals, g.random(2)
                run(f'anova_class|{tag}', fn)

                for seed in [0, 5, 11]:
                    def fn():
                        np.random.seed(1)
                        A = teneva.ANOVA(I, y, order, seed=seed)
                        s = [A.sample() for _ in range(20)]
                        s += [A.sample(with_square=True) for _ in range(20)]
                        return s, [type(v).__name__ for v in s[0]]
                    run(f'anova_sample|{tag}|seed={seed}', fn)

                def fn():
                    A = teneva.ANOVA(I, y, order, seed=1)
                    fpath = os.path.join(tempfile.mkdtemp(), 'anova')
                    A.save(fpath)
                    B = teneva.ANOVA(order=order, seed=1, fpath=fpath)
                    return dump_anova(B), B.cores(), B.sample(), \
                        teneva.anova(None, None, 3, order, seed=4,
                            fpath=fpath)
                run(f'anova_load|{tag}', fn)

    I, y = data(3, 4, 60, 5)
    run('anova_exc|order0', lambda: teneva.ANOVA(I, y, 0))
    run('anova_exc|order3', lambda: teneva.anova(I, y, order=3))
    run('anova_exc|nodata', lambda: teneva.ANOVA())
    run('anova_exc|noy', lambda: teneva.ANOVA(I))
    run('anova_exc|both', lambda: teneva.ANOVA(I, y, fpath='/tmp/nothing'))
    run('anova_exc|1d', lambda: teneva.ANOVA(I[:, 0], y))
    run('anova_exc|ylen', lambda: teneva.anova(I, y[:-5], seed=1))
    run('anova_exc|3d', lambda: dump_anova(teneva.ANOVA(
        np.stack([I, I], axis=2), y)))
    run('anova_exc|empty', lambda: dump_anova(teneva.ANOVA(I[:0], y[:0])))
    run('anova_exc|float', lambda: (dump_anova(teneva.ANOVA(I * 0.5, y)),
        teneva.anova(I * 0.5, y, 3, 2, seed=1)))
    run('anova_exc|lists', lambda: teneva.anova(I.tolist(), y.tolist(), 3, 2,
        seed=1))
    run('anova_exc|sample_xi', lambda: teneva.ANOVA(I, y, seed=1).sample(3))
    run('anova_exc|badseed', lambda: teneva.anova(I, y, seed='abc'))
    run('anova_exc|r0', lambda: teneva.anova(I, y, 0, seed=1))
    run('anova_exc|call3d', lambda: teneva.ANOVA(I, y, seed=1)(
        np.zeros((2, 2, 2))))
    run('anova_exc|unknown', lambda: teneva.ANOVA(I, y, seed=1)([9, 9, 9]))

    progress('anova done')
    # ------------------------------------------------------------- cross ---

    def make_f(kind, log=None):
        def f(I):
            if log is not None:
                log.append(np.array(I))
            I = np.asarray(I)
            if kind == 0:
                return np.sum(I, axis=1) * 1.
            if kind == 1:
                return np.sin(np.sum(I * I, axis=1) * 0.1)
            if kind == 2:
                return 1. / (1. + np.sum(I, axis=1))
            if kind == 3:
                return np.zeros(I.shape[0]) + 2.
            return list(np.cos(I[:, 0] * 1. - I[:, -1]))
        return f

    def clean(info):
        info = dict(info)
        t = info.pop('t', None)
        return list(info.items()), t is not None

    def strip_log(text):
        # Remove timings from the log:
        res = []
        for line in text.split('\n'):
            parts = [p for p in line.split('|') if 'time:' not in p]
            res.append('|'.join(parts))
        return res

    Y0s = {
        'd1': teneva.rand([6], 1, seed=1),
        'd2r1': teneva.rand([5, 4], 1, seed=1),
        'd3r1': teneva.rand([5, 6, 4], 1, seed=2),
        'd3r2': teneva.rand([5, 6, 4], 2, seed=3),
        'd3over': teneva.rand([3, 4, 3], 9, seed=4),
        'd4mix': teneva.rand([4, 7, 2, 5], [1, 3, 2, 4, 1], seed=5),
        'd6r3': teneva.rand([4] * 6, 3, seed=6),
        'd5n2': teneva.rand([2] * 5, 2, seed=7),
        'd4const': teneva.const([4, 5, 3, 4], 2.),
    }
    opts_list = [
        dict(m=1000), dict(m=200), dict(m=57), dict(m=1), dict(m=0, nswp=1),
        dict(e=1.E-6), dict(e=1.E-10, nswp=4), dict(nswp=0), dict(nswp=1),
        dict(nswp=3), dict(nswp=2, dr_max=0, dr_min=0),
        dict(nswp=2, dr_min=2, dr_max=3), dict(nswp=3, tau=1.01, tau0=1.01,
            k0=5), dict(m=5000, e=1.E-8), dict(m=2.5E+2),
        dict(nswp=50, m_cache_scale=1), dict(e=1.E-3, log=True),
        dict(m=300, log=True),
    ]

    for yname, Y0 in Y0s.items():
        for o, opts in enumerate(opts_list):
            for kind in ([0, 1, 2, 3, 4] if o < 4 else [1]):
                for wc in [False, True]:
                    tag = f'{yname}|{o}|{sorted(opts.items())}|f{kind}|c{wc}'

                    def fn():
                        np.random.seed(0)
                        Y0c = teneva.copy(Y0)
                        log = []
                        info = {'junk': 1, 'stop': 'old', 'm': 77}
                        cache = {} if wc else None
                        kw = dict(opts)
                        Y = teneva.cross(make_f(kind, log), Y0c, info=info,
                            cache=cache, **kw)
                        same = all(np.array_equal(a, b) and a is not b
                            for a, b in zip(Y0, Y0c))
                        data = teneva.cache_to_data(cache) if wc else None
                        return Y, clean(info), same, log, \
                            list(cache.items()) if wc else None, data
                    run(f'cross|{tag}', fn)
                    out[f'cross|{tag}']['stdout'] = strip_log(
                        out[f'cross|{tag}']['stdout'])

    progress('cross main done')
    # Default (shared) info dictionary and its reset:
    def fn():
        res = []
        dflt = teneva.cross.__defaults__
        info_dflt = [v for v in dflt if isinstance(v, dict)][0]
        for yname in ['d3r1', 'd4mix', 'd2r1']:
            for opts in [dict(m=100), dict(nswp=2), dict(e=1.E-4)]:
                Y = teneva.cross(make_f(1), Y0s[yname], **opts)
                res.append((Y, clean(info_dflt)))
                Y = teneva.cross(make_f(2), Y0s[yname], cache={}, **opts)
                res.append((Y, clean(info_dflt)))
        return res
    run('cross|default_info', fn)

    # Validation data, callback, custom func, interruptions:
    for yname in ['d3r1', 'd4mix', 'd6r3', 'd3over']:
        Y0 = Y0s[yname]
        n = teneva.shape(Y0)
        rng = np.random.default_rng(17)
        I_vld = np.array([rng.choice(k, size=50) for k in n]).T
        f = make_f(1)
        y_vld = f(I_vld)

        for o, opts in enumerate([
                dict(e_vld=1.E-2), dict(e_vld=1.E-30, nswp=3),
                dict(e_vld=1.E-6, m=400), dict(m=300), dict(nswp=2, log=True),
                dict(e_vld=1.E+5)]):
            for wc in [False, True]:
                def fn():
                    info = {}
                    cache = {(0,) * len(n): 123.} if wc else None
                    Y = teneva.cross(f, Y0, info=info, cache=cache,
                        I_vld=I_vld, y_vld=y_vld, **opts)
                    return Y, clean(info), \
                        list(cache.items()) if wc else None
                run(f'cross_vld|{yname}|{o}|c{wc}', fn)
                out[f'cross_vld|{yname}|{o}|c{wc}']['stdout'] = strip_log(
                    out[f'cross_vld|{yname}|{o}|c{wc}']['stdout'])

        for stop_at in [1, 2, 3, 5, 8, 13]:
            for wc in [False, True]:
                def fn():
                    cnt = [0]

                    def f_none(I):
                        cnt[0] += 1
                        if cnt[0] >= stop_at:
                            return None
                        return f(I)
                    info = {}
                    cache = {} if wc else None
                    Y = teneva.cross(f_none, Y0, nswp=5, info=info,
                        cache=cache, I_vld=I_vld, y_vld=y_vld)
                    return Y, clean(info), cnt[0]
                run(f'cross_none|{yname}|{stop_at}|c{wc}', fn)

        for m in [3, 10, 40, 90, 150, 333, 1000]:
            for wc in [False, True]:
                def fn():
                    info = {}
                    cache = {} if wc else None
                    Y = teneva.cross(f, Y0, m, info=info, cache=cache)
                    return Y, clean(info)
                run(f'cross_m|{yname}|{m}|c{wc}', fn)

        for cb_kind in [0, 1, 2, 3]:
            def fn():
                seen = []

                def cb(Y, info, opts):
                    seen.append((teneva.copy(Y), clean(info),
                        sorted(opts.keys()), teneva.copy(opts['Yold']),
                        [None if i is None else i.copy() for i in opts['Ir']],
                        [None if i is None else i.copy() for i in opts['Ic']]))
                    if cb_kind == 0:
                        return True
                    if cb_kind == 1:
                        return len(seen) >= 2
                    if cb_kind == 2:
                        return 1       # is not True
                    return None
                info = {}
                Y = teneva.cross(f, Y0, nswp=3, info=info, cb=cb, cache={})
                return Y, clean(info), seen
            run(f'cross_cb|{yname}|{cb_kind}', fn)

        def fn():
            calls = []

            def func(f_, Ig, Ir, Ic, info, cache):
                calls.append((Ig.copy(), None if Ir is None else Ir.copy(),
                    None if Ic is None else Ic.copy()))
                if len(calls) == 7:
                    info['stop'] = 'custom'
                    return None
                r1 = 1 if Ir is None else Ir.shape[0]
                r2 = 1 if Ic is None else Ic.shape[0]
                rng = np.random.default_rng(len(calls))
                return rng.normal(size=(r1, Ig.shape[0], r2))
            info = {}
            Y = teneva.cross(None, Y0, nswp=4, info=info, func=func)
            return Y, clean(info), calls
        run(f'cross_func|{yname}', fn)

    progress('cross vld/cb/func done')
    # Guards:
    Y0 = Y0s['d3r1']
    f = make_f(0)
    I_vld = np.array([[0, 0, 0], [1, 2, 3]])
    y_vld = f(I_vld)
    for a, kw in enumerate([
            dict(), dict(e_vld=1.), dict(I_vld=I_vld), dict(y_vld=y_vld),
            dict(I_vld=I_vld, y_vld=y_vld),
            dict(I_vld=I_vld, y_vld=y_vld, e_vld=1.E-3),
            dict(I_vld=I_vld, e_vld=1.), dict(y_vld=y_vld, e_vld=1.),
            dict(m=100, e_vld=1.), dict(m=100, I_vld=I_vld, e_vld=1.),
            dict(nswp=1, y_vld=y_vld, e_vld=1.), dict(e=1., e_vld=0.),
            dict(m=100, I_vld=I_vld), dict(m=0), dict(m='100'),
            dict(m='abc'), dict(m=[1]), dict(m=-5), dict(nswp=-1),
            dict(m=100, info=None), dict(m=100, cache=[]),
            dict(m=100, dr_min=3, dr_max=1), dict(e=0.), dict(e=0., nswp=2)]):
        def fn():
            info = {'keep': 'me'}
            kw_ = dict(kw)
            if 'info' not in kw_:
                kw_['info'] = info
            cnt = [0]

            def f_limited(I):
                # Some of the scenarios have no reachable stop criterion:
                cnt[0] += 1
                if cnt[0] > 300:
                    raise RuntimeError(f'Too many requests ({clean(info)})')
                return f(I)
            try:
                Y = teneva.cross(f_limited, Y0, **kw_)
            finally:
                state = clean(info)
            return Y, state, cnt[0]
        run(f'cross_guard|{a}|{sorted(kw.keys())}', fn)
        key = f'cross_guard|{a}|{sorted(kw.keys())}'
        out[key]['info_after'] = None

    for b, Y0bad in enumerate([[], None, [np.ones((1, 3, 2)), np.ones((3, 3, 1))],
            [np.ones((3, 2))], Y0s['d3r1'][0],
            [np.ones((2, 3, 1)), np.ones((1, 3, 2))]]):
        def fn():
            info = {}
            try:
                Y = teneva.cross(f, Y0bad, m=50, info=info)
            finally:
                state = clean(info)
            return Y, state
        run(f'cross_bad|{b}', fn)

    progress('all done')
    with open(fout, 'wb') as fh:
        pickle.dump(out, fh, protocol=pickle.HIGHEST_PROTOCOL)


# ---------------------------------------------------------------------------
# Comparison part
# ---------------------------------------------------------------------------


class Diff(Exception):
    pass


def compare(a, b, path, stats):
    import numpy as np

    if isinstance(a, np.ndarray) or isinstance(b, np.ndarray):
        if not (isinstance(a, np.ndarray) and isinstance(b, np.ndarray)):
            raise Diff(f'{path}: types {type(a)} / {type(b)}')
        if a.shape != b.shape:
            raise Diff(f'{path}: shapes {a.shape} / {b.shape}')
        if a.dtype != b.dtype:
            raise Diff(f'{path}: dtypes {a.dtype} / {b.dtype}')
        stats['arrays'] += 1
        if a.dtype == object:
            return compare(list(a.ravel()), list(b.ravel()), path, stats)
        if a.tobytes() == b.tobytes():
            return
        if np.array_equal(a, b, equal_nan=a.dtype.kind in 'fc'):
            return
        stats['inexact'] += 1
        if a.dtype.kind in 'fc' and np.allclose(a, b, rtol=RTOL, atol=ATOL,
                equal_nan=True):
            return
        raise Diff(f'{path}: values differ (max abs '
            f'{np.max(np.abs(a - b)) if a.size else 0})')

    if type(a) is not type(b):
        raise Diff(f'{path}: types {type(a).__name__} / {type(b).__name__}')

    if isinstance(a, dict):
        if list(a.keys()) != list(b.keys()):
            raise Diff(f'{path}: keys {list(a.keys())} / {list(b.keys())}')
        for k in a:
            compare(a[k], b[k], f'{path}.{k}', stats)
        return

    if isinstance(a, (list, tuple)):
        if len(a) != len(b):
            raise Diff(f'{path}: lengths {len(a)} / {len(b)}')
        for k, (x, y) in enumerate(zip(a, b)):
            compare(x, y, f'{path}[{k}]', stats)
        return

    if isinstance(a, (float, np.floating)):
        if a == b or (a != a and b != b):
            return
        stats['inexact'] += 1
        if abs(a - b) <= ATOL + RTOL * abs(b):
            return
        raise Diff(f'{path}: {a!r} / {b!r}')

    if a != b:
        raise Diff(f'{path}: {a!r} / {b!r}')


def main():
    tmp = tempfile.mkdtemp(prefix='equiv_C10_')
    files = {}
    procs = {}
    env = dict(os.environ)
    env.pop('PYTHONPATH', None)
    env['PYTHONDONTWRITEBYTECODE'] = '1'
    env['PYTHONHASHSEED'] = '0'
    for var in ['OMP_NUM_THREADS', 'OPENBLAS_NUM_THREADS', 'MKL_NUM_THREADS']:
        env[var] = '1'      # tiny matrices: threads only slow the things down
    for name, root in [('orig', ROOT_ORIG), ('new', ROOT_NEW)]:
        files[name] = os.path.join(tmp, name + '.pkl')
        procs[name] = subprocess.Popen([sys.executable, '-W', 'ignore',
            os.path.abspath(__file__), '--worker', root, files[name]],
            cwd=root, env=env)
    for name, proc in procs.items():
        if proc.wait() != 0:
            print(f'FAIL: worker "{name}" exited with code {proc.returncode}')
            return 1

    with open(files['orig'], 'rb') as fh:
        res_orig = pickle.load(fh)
    with open(files['new'], 'rb') as fh:
        res_new = pickle.load(fh)

    bad = 0
    if list(res_orig.keys()) != list(res_new.keys()):
        print('FAIL: scenario lists differ')
        return 1

    stats = {'arrays': 0, 'inexact': 0}
    n_exc = 0
    n_msg = 0
    for name in res_orig:
        a, b = res_orig[name], res_new[name]
        try:
            ra, rb = a['res'], b['res']
            if ra[0] != rb[0]:
                raise Diff(f'outcome {ra[:2]!r} / {rb[:2]!r}')
            if ra[0] == 'exc':
                n_exc += 1
                if ra[1] != rb[1]:
                    raise Diff(f'exceptions {ra[1:]!r} / {rb[1:]!r}')
                if ra[2] != rb[2]:
                    n_msg += 1
                    print(f'note: {name}: the same {ra[1]}, but the text is '
                        f'{ra[2]!r} / {rb[2]!r}')
            else:
                compare(ra[1], rb[1], 'result', stats)
            if a['gstate'] != b['gstate']:
                raise Diff('state of the global numpy generator differs')
            if a['stdout'] != b['stdout']:
                raise Diff(f'stdout {a["stdout"]!r} / {b["stdout"]!r}')
        except Diff as exc:
            bad += 1
            print(f'DIFF: {name}: {exc}')

    fams = {}
    for name in res_orig:
        fam = fams.setdefault(name.split('|')[0], [0, 0])
        fam[res_orig[name]['res'][0] == 'exc'] += 1
    for fam, (n_ok, n_ex) in fams.items():
        print(f'  {fam:16s}: {n_ok:5d} scenarios with a result, {n_ex:5d} '
            f'with an exception')
    print(f'scenarios: {len(res_orig)} (with exceptions: {n_exc}, of them '
        f'with a different message text: {n_msg}); arrays compared: '
        f'{stats["arrays"]}; not bit-identical (but allclose): '
        f'{stats["inexact"]}; differences: {bad}')
    if bad:
        print('FAIL')
        return 1
    print('OK: the refactored package agrees with the original one')
    return 0


if __name__ == '__main__':
    if len(sys.argv) == 4 and sys.argv[1] == '--worker':
        worker(sys.argv[2], sys.argv[3])
        sys.exit(0)
    sys.exit(main())
