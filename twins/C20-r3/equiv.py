"""Equivalence demonstration for the C20 twin (get / sample_tt / svd_incomplete).

Usage:  /venv/bin/python /tmp/twinsC/C20/equiv.py

The same deterministic scenario list is run in two subprocesses (the pristine
package from /tmp/twinsC/C20/orig and the refactored one from /tmp/wt/C20);
each dumps its results to a pickle and the two pickles are compared.
Exit code 0: everything agrees; 1: otherwise.
"""
import os
import pickle
import subprocess
import sys
import tempfile


ROOT_ORIG = '/tmp/twinsC/C20/orig'
ROOT_TWIN = '/tmp/wt/C20'
RTOL = 1.E-12
ATOL = 1.E-13


# ---------------------------------------------------------------------------
# Worker part (runs inside the subprocess with cwd = root of one package)
# ---------------------------------------------------------------------------


def _pack(x):
    """Turn a result into a picklable, comparable structure."""
    import numpy as np
    if isinstance(x, np.ndarray):
        return ('nd', str(x.dtype), tuple(x.shape), np.array(x, copy=True))
    if isinstance(x, np.generic):
        return ('ng', str(x.dtype), (), np.array(x))
    if isinstance(x, (list, tuple)):
        return (type(x).__name__, [_pack(v) for v in x])
    if isinstance(x, dict):
        return ('dict', [(k, _pack(x[k])) for k in sorted(x)])
    return ('py', type(x).__name__, x)


def _call(func, *args, **kwargs):
    try:
        return ('ok', _pack(func(*args, **kwargs)))
    except Exception as exc:
        return ('exc', type(exc).__name__, str(exc))


def _rand_tt(rng, n, ranks):
    import numpy as np
    return [rng.normal(size=(ranks[k], n[k], ranks[k+1]))
        for k in range(len(n))]


def worker(root, out):
    sys.path.insert(0, root)
    os.chdir(root)
    import numpy as np
    import teneva
    assert os.path.realpath(teneva.__file__).startswith(
        os.path.realpath(root) + os.sep), teneva.__file__

    res = {}

    # ----------------------------------------------------------------- get
    rng = np.random.default_rng(12345)
    cases = []
    for d in [1, 2, 3, 4, 6, 9]:
        for variant in range(4):
            n = [int(v) for v in rng.integers(1, 7, size=d)]
            if variant == 0:      # rank one
                ranks = [1] * (d + 1)
            elif variant == 1:    # constant rank
                ranks = [1] + [3] * (d - 1) + [1]
            elif variant == 2:    # over-ranked cores (rank > mode size)
                ranks = [1] + [int(v) for v in rng.integers(5, 12, size=d-1)] \
                    + [1]
            else:                 # non-unit boundary ranks
                ranks = [int(v) for v in rng.integers(1, 5, size=d+1)]
            cases.append((n, ranks))
    for num, (n, ranks) in enumerate(cases):
        Y = _rand_tt(rng, n, ranks)
        d = len(n)
        idxs = [[int(rng.integers(0, k)) for k in n] for _ in range(3)]
        for t, i in enumerate(idxs):
            for flag in [True, False, 1, 0, None, 'yes']:
                for kind in ['list', 'array', 'tuple', 'float']:
                    if kind == 'list':
                        arg = list(i)
                    elif kind == 'array':
                        arg = np.array(i)
                    elif kind == 'tuple':
                        arg = tuple(i)
                    else:
                        arg = np.array(i, dtype=float) + 0.25
                    Yc = [G.copy() for G in Y]
                    arg_before = np.array(arg, copy=True)
                    r = _call(teneva.get, Yc, arg, _to_item=flag)
                    mut = all(np.array_equal(a, b) for a, b in zip(Y, Yc))
                    mut = mut and np.array_equal(arg_before, np.array(arg))
                    res[('get', num, t, repr(flag), kind)] = (r, mut)
        # Default flag, positional call:
        res[('get-default', num)] = _call(teneva.get, Y, idxs[0])
        # Batch of multi-indices (dispatch to get_many):
        I = np.array(idxs)
        for flag in [True, False]:
            res[('get-batch', num, flag)] = _call(
                teneva.get, Y, I, _to_item=flag)
            res[('get-batch-list', num, flag)] = _call(
                teneva.get, Y, I.tolist(), _to_item=flag)
        # Exceptions: short / long / out of range / scalar / 3D / empty index:
        bad = [idxs[0][:-1], idxs[0] + [0], [k for k in n], 0, [],
            np.zeros((2, 2, d), dtype=int), [-1] * d]
        for t, i in enumerate(bad):
            for flag in [True, False]:
                res[('get-bad', num, t, flag)] = _call(
                    teneva.get, Y, i, _to_item=flag)
        res[('get-emptyY', num)] = _call(teneva.get, [], idxs[0])
        res[('get-noneY', num)] = _call(teneva.get, None, idxs[0])
        # The result for _to_item=False is the left interface vector (view
        # semantics for d = 1 are compared through the base flag):
        q = teneva.get(Y, idxs[0], _to_item=False)
        res[('get-view', num)] = (q.base is not None, q.flags['C_CONTIGUOUS'],
            q.flags['OWNDATA'])

    # ----------------------------------------------------------- sample_tt
    shapes = [[5], [4, 6], [6, 4], [3, 3, 3], [5, 7, 4, 6], [4] * 5,
        [8, 2, 9], [2] * 7, [10, 12, 11], [6, 6, 6, 6]]
    for num, n in enumerate(shapes):
        for r in [1, 2, 3, 4, 5, 7]:
            for seed in [None, 0, 1, 42, 2**31]:
                for kind in ['list', 'array', 'tuple']:
                    arg = {'list': list(n), 'array': np.array(n),
                        'tuple': tuple(n)}[kind]
                    if seed is None:
                        # Generator instance (shared state between all calls
                        # of sample_lhs); the final state is compared too.
                        gen = np.random.default_rng(777 + num + r)
                        rr = _call(teneva.sample_tt, arg, r, gen)
                        tail = gen.integers(0, 2**62, size=4)
                        res[('stt-gen', num, r, kind)] = (rr, _pack(tail))
                    else:
                        rr = _call(teneva.sample_tt, arg, r=r, seed=seed)
                        res[('stt', num, r, seed, kind)] = rr
                    same = np.array_equal(np.array(arg), np.array(n))
                    res[('stt-mut', num, r, seed, kind)] = same
        res[('stt-default', num)] = _call(teneva.sample_tt, n, seed=5)
    # Exceptions and corner cases of sample_tt:
    res[('stt-empty',)] = _call(teneva.sample_tt, [], 3, 0)
    res[('stt-float',)] = _call(teneva.sample_tt, [4., 5., 6.], 3, 0)
    res[('stt-float-arr',)] = _call(
        teneva.sample_tt, np.array([4., 5., 6.]), 3, 0)
    res[('stt-zero-mode',)] = _call(teneva.sample_tt, [4, 0, 5], 3, 0)
    res[('stt-zero-rank',)] = _call(teneva.sample_tt, [4, 4, 5], 0, 0)
    res[('stt-float-rank',)] = _call(teneva.sample_tt, [4, 4, 5], 2.7, 0)
    res[('stt-2d',)] = _call(teneva.sample_tt, np.ones((2, 2), dtype=int), 2, 0)
    res[('stt-scalar',)] = _call(teneva.sample_tt, 5, 2, 0)
    res[('stt-none',)] = _call(teneva.sample_tt, None, 2, 0)
    gen = np.random.default_rng(3)
    rr = _call(teneva.sample_tt, [4., 5., 6.], 3, gen)
    res[('stt-float-gen',)] = (rr, _pack(gen.integers(0, 2**62, size=4)))

    # ------------------------------------------------------ svd_incomplete
    rng = np.random.default_rng(2024)
    scen = []
    for d in [2, 3, 4, 5]:
        for rho in [1, 2, 3]:
            for m in [rho, rho + 1, rho + 3]:
                n = [int(v) for v in rng.integers(m, m + 4, size=d)]
                scen.append((n, [1] + [rho] * (d - 1) + [1], m))
    # Non-constant rank profiles and large modes:
    scen.append(([6, 7, 8, 6], [1, 2, 4, 3, 1], 4))
    scen.append(([5, 9, 5], [1, 3, 1, 1], 3))
    scen.append(([12, 12], [1, 5, 1], 6))
    scen.append(([4, 4, 4, 4, 4, 4], [1, 2, 2, 2, 2, 2, 1], 3))
    # Expected rank below the true rank / above the mode sizes (outside of
    # the quantifier; the behaviour still has to coincide):
    scen.append(([4, 5, 4], [1, 3, 3, 1], 2))
    scen.append(([3, 3, 3], [1, 2, 2, 1], 5))
    for num, (n, ranks, m) in enumerate(scen):
        Z = _rand_tt(rng, n, ranks)
        rho = max(ranks)
        for seed in [0, 7]:
            I, idx, idx_many = teneva.sample_tt(n, r=m, seed=seed)
            Yv = teneva.get_many(Z, I)
            caps = [None, rho, rho + 2, float(rho + 1), max(1, rho - 1), 1]
            for cap in caps:
                for e in [None, 1.E-10, 1.E-14, 1.E-2, 0.]:
                    kw = {}
                    if cap is not None:
                        kw['r'] = cap
                    if e is not None:
                        kw['e'] = e
                    Ic, Yc = I.copy(), Yv.copy()
                    ic, imc = idx.copy(), idx_many.copy()
                    rr = _call(teneva.svd_incomplete, Ic, Yc, ic, imc, **kw)
                    mut = (np.array_equal(Ic, I) and np.array_equal(Yc, Yv)
                        and np.array_equal(ic, idx)
                        and np.array_equal(imc, idx_many))
                    key = ('svdi', num, seed, repr(cap), repr(e))
                    res[key] = (rr, mut)
            # Positional call, noisy values, integer values, F-ordered index:
            res[('svdi-pos', num, seed)] = _call(
                teneva.svd_incomplete, I, Yv, idx, idx_many, 1.E-8, rho)
            noise = Yv + 1.E-3 * rng.normal(size=Yv.shape)
            res[('svdi-noise', num, seed)] = _call(
                teneva.svd_incomplete, I, noise, idx, idx_many, r=rho)
            res[('svdi-int', num, seed)] = _call(
                teneva.svd_incomplete, I, np.round(10 * Yv).astype(int),
                idx, idx_many, r=rho)
            res[('svdi-forder', num, seed)] = _call(
                teneva.svd_incomplete, np.asfortranarray(I), Yv, idx,
                idx_many, r=rho)
            res[('svdi-zero', num, seed)] = _call(
                teneva.svd_incomplete, I, np.zeros_like(Yv), idx, idx_many,
                r=rho)
            res[('svdi-lists', num, seed)] = _call(
                teneva.svd_incomplete, I, Yv, idx.tolist(),
                idx_many.tolist(), r=rho)
            # Contiguity / ownership of the resulting cores:
            cores = teneva.svd_incomplete(I, Yv, idx, idx_many, r=rho)
            res[('svdi-flags', num, seed)] = [(G.flags['C_CONTIGUOUS'],
                G.flags['WRITEABLE'], str(G.dtype)) for G in cores]
            # Exceptions: wrong number of values, list of indices, bad cap,
            # truncated block descriptions:
            res[('svdi-short', num, seed)] = _call(
                teneva.svd_incomplete, I, Yv[:-1], idx, idx_many, r=rho)
            res[('svdi-listI', num, seed)] = _call(
                teneva.svd_incomplete, I.tolist(), Yv, idx, idx_many, r=rho)
            res[('svdi-listY', num, seed)] = _call(
                teneva.svd_incomplete, I, Yv.tolist(), idx, idx_many, r=rho)
            res[('svdi-nan-cap', num, seed)] = _call(
                teneva.svd_incomplete, I, Yv, idx, idx_many, r=float('nan'))
            res[('svdi-zero-cap', num, seed)] = _call(
                teneva.svd_incomplete, I, Yv, idx, idx_many, r=0)
            res[('svdi-none-cap', num, seed)] = _call(
                teneva.svd_incomplete, I, Yv, idx, idx_many, r=None)
            res[('svdi-short-idx', num, seed)] = _call(
                teneva.svd_incomplete, I, Yv, idx[:-1], idx_many, r=rho)
            res[('svdi-short-many', num, seed)] = _call(
                teneva.svd_incomplete, I, Yv, idx, idx_many[:-1], r=rho)
            res[('svdi-bad-many', num, seed)] = _call(
                teneva.svd_incomplete, I, Yv, idx, idx_many + 1, r=rho)

            # The whole pipeline with the recovery error (the property):
            full = teneva.svd_incomplete(I, Yv, idx, idx_many, r=rho)
            It = np.array([[int(rng.integers(0, k)) for k in n]
                for _ in range(50)])
            ref = teneva.get_many(Z, It)
            err = np.max(np.abs(teneva.get_many(full, It) - ref))
            err = err / np.max(np.abs(ref))
            inq = num < len(scen) - 2  # the last two are not in the quantifier
            res[('svdi-err', num, seed, inq)] = _pack(np.array(err))

    with open(out, 'wb') as f:
        pickle.dump(res, f)


# ---------------------------------------------------------------------------
# Comparison part
# ---------------------------------------------------------------------------


class Stat:
    def __init__(self):
        self.arrays = 0
        self.bitwise = 0
        self.maxdiff = 0.


def _same(a, b, stat, path):
    """Return the list of textual differences between two packed results."""
    import numpy as np
    if type(a) != type(b):
        return [f'{path}: type {type(a)} vs {type(b)}']
    if isinstance(a, tuple) and len(a) == 4 and a[0] in ('nd', 'ng'):
        if not (isinstance(b, tuple) and len(b) == 4 and b[0] == a[0]):
            return [f'{path}: kind differs']
        if a[1] != b[1]:
            return [f'{path}: dtype {a[1]} vs {b[1]}']
        if a[2] != b[2]:
            return [f'{path}: shape {a[2]} vs {b[2]}']
        x, y = a[3], b[3]
        stat.arrays += 1
        if x.tobytes() == y.tobytes():
            stat.bitwise += 1
            return []
        if x.dtype.kind in 'fc':
            if np.allclose(x, y, rtol=RTOL, atol=ATOL, equal_nan=True):
                diff = np.nanmax(np.abs(x - y)) if x.size else 0.
                stat.maxdiff = max(stat.maxdiff, float(diff))
                return []
        elif np.array_equal(x, y):
            return []
        return [f'{path}: values differ']
    if isinstance(a, (tuple, list)):
        if len(a) != len(b):
            return [f'{path}: length {len(a)} vs {len(b)}']
        out = []
        for k, (u, v) in enumerate(zip(a, b)):
            out += _same(u, v, stat, f'{path}[{k}]')
        return out
    if isinstance(a, float) and a != a and b != b:
        return []
    if a != b:
        return [f'{path}: {a!r} vs {b!r}']
    return []


def main():
    tmp = tempfile.mkdtemp(prefix='equiv_C20_')
    outs = []
    procs = []
    for name, root in [('orig', ROOT_ORIG), ('twin', ROOT_TWIN)]:
        out = os.path.join(tmp, name + '.pkl')
        outs.append(out)
        env = dict(os.environ)
        env.pop('PYTHONPATH', None)
        env['PYTHONDONTWRITEBYTECODE'] = '1'
        procs.append(subprocess.Popen(
            [sys.executable, os.path.abspath(__file__), '--worker', root, out],
            cwd=root, env=env))
    codes = [p.wait() for p in procs]
    if any(codes):
        print('FAIL: worker exit codes', codes)
        return 1

    with open(outs[0], 'rb') as f:
        res_orig = pickle.load(f)
    with open(outs[1], 'rb') as f:
        res_twin = pickle.load(f)

    bad = []
    if list(res_orig.keys()) != list(res_twin.keys()):
        bad.append('scenario lists differ')
    stat = Stat()
    n_exc = 0
    for key in res_orig:
        if key not in res_twin:
            continue
        a, b = res_orig[key], res_twin[key]
        if isinstance(a, tuple) and a and a[0] == 'exc':
            n_exc += 1
        elif (isinstance(a, tuple) and a and isinstance(a[0], tuple)
                and a[0] and a[0][0] == 'exc'):
            n_exc += 1
        bad += _same(a, b, stat, repr(key))

    kinds = {}
    for key in res_orig:
        kinds[key[0]] = kinds.get(key[0], 0) + 1
    print('scenarios:', len(res_orig), kinds)
    print('scenarios ending in an (equal) exception:', n_exc)
    print(f'arrays compared: {stat.arrays}, bit-identical: {stat.bitwise}, '
        f'max abs diff of the others: {stat.maxdiff:.3e}')
    errs = [res_twin[k][3] for k in res_twin if k[0] == 'svdi-err' and k[3]]
    if errs:
        print('relative recovery error of the refactored svd_incomplete for '
            f'the scenarios of the quantifier (cap = rank): max over '
            f'{len(errs)} scenarios = {float(max(errs)):.3e}')
    if bad:
        print(f'FAIL: {len(bad)} differences')
        for line in bad[:40]:
            print('  ', line)
        return 1
    print('OK: the refactored functions agree with the original ones')
    return 0


if __name__ == '__main__':
    if len(sys.argv) == 4 and sys.argv[1] == '--worker':
        worker(sys.argv[2], sys.argv[3])
        sys.exit(0)
    sys.exit(main())
