"""Equivalence demonstration for the C02 refactoring (truncate / matrix_svd /
matrix_skeleton / add_many).

The same deterministic scenario list is executed in two subprocesses, one that
imports the pristine package (/tmp/twinsA/C02/orig) and one that imports the
refactored package (/tmp/wt/C02).  Every scenario records the result (arrays
with shape / dtype / values), the raised exception type, the emitted warning
categories and whether the arguments were mutated.  The two pickles are then
compared.  Exit code 0 if everything agrees and 1 otherwise.

Usage:  /venv/bin/python /tmp/twinsA/C02/equiv.py
"""
import os
import pickle
import subprocess
import sys
import tempfile
import warnings

import numpy as np


ROOT_ORIG = '/tmp/twinsA/C02/orig'
ROOT_NEW = '/tmp/wt/C02'
RTOL = 1.E-12
ATOL_REL = 1.E-13  # absolute tolerance relative to the largest |value|


# --------------------------------------------------------------------------
# Worker part (runs inside a subprocess with one of the two packages)
# --------------------------------------------------------------------------


def _freeze(x):
    """Turn a result into a picklable, package independent structure."""
    if isinstance(x, np.ndarray):
        return ('arr', x.shape, str(x.dtype), np.array(x, copy=True))
    if isinstance(x, (list, tuple)):
        return (type(x).__name__, [_freeze(v) for v in x])
    if isinstance(x, (np.generic,)):
        return ('npscalar', str(x.dtype), x.item())
    if isinstance(x, (int, float, bool, str)) or x is None:
        return ('py', type(x).__name__, x)
    return ('repr', repr(x))


def _snapshot(args):
    return pickle.dumps(_freeze(args))


def _run(func, args, kwargs):
    """Run one scenario and describe everything observable about it."""
    before = _snapshot([args, kwargs])
    with warnings.catch_warnings(record=True) as wlist:
        warnings.simplefilter('always')
        try:
            res = ('ok', _freeze(func(*args, **kwargs)))
        except Exception as exc:  # noqa
            res = ('exc', type(exc).__name__)
    after = _snapshot([args, kwargs])
    wrn = sorted(set(w.category.__name__ for w in wlist))
    return {'res': res, 'mutated': before != after, 'warnings': wrn,
        'args_after': pickle.loads(after)}


def _tt_rand(rng, n, r, scale=1., dtype=float):
    """Random TT-tensor with mode sizes n and inner ranks r (len(n)-1)."""
    d = len(n)
    rr = [1] + list(r) + [1]
    Y = []
    for k in range(d):
        G = rng.normal(size=(rr[k], n[k], rr[k+1]))
        if dtype is int:
            G = np.round(3 * G).astype(int)
        else:
            G = (G * scale**(1./d)).astype(dtype)
        Y.append(G)
    return Y


def _tt_spectrum(rng, n, r, decay):
    """TT-tensor with orthogonal-ish cores and decaying weights in the bonds."""
    Y = _tt_rand(rng, n, r)
    for k in range(len(n) - 1):
        q = Y[k].shape[2]
        w = decay ** np.arange(q)
        Y[k] = Y[k] * w[None, None, :]
    return Y


def _full(Y):
    Z = Y[0]
    for G in Y[1:]:
        Z = np.tensordot(Z, G, axes=1)
    return Z[0, ..., 0]


def _matrix_cases(rng):
    cases = []
    for (m, n) in [(1, 1), (1, 5), (5, 1), (4, 4), (3, 9), (9, 3), (12, 7),
                   (7, 12), (20, 20), (2, 30), (30, 2)]:
        A = rng.normal(size=(m, n))
        cases.append(('dense', A))
        q = max(1, min(m, n) // 2)
        B = rng.normal(size=(m, q)) @ rng.normal(size=(q, n))
        cases.append(('lowrank', B))
        U, _ = np.linalg.qr(rng.normal(size=(m, min(m, n))))
        V, _ = np.linalg.qr(rng.normal(size=(n, min(m, n))))
        s = 10. ** (-np.arange(min(m, n)))
        cases.append(('decay', (U * s) @ V.T))
        cases.append(('dupl', (U * np.ones(min(m, n))) @ V.T))
    cases.append(('zero', np.zeros((4, 6))))
    cases.append(('zero', np.zeros((6, 4))))
    cases.append(('tiny', 1.E-160 * rng.normal(size=(5, 8))))
    cases.append(('huge', 1.E+150 * rng.normal(size=(8, 5))))
    cases.append(('int', rng.integers(-4, 5, size=(5, 7))))
    cases.append(('f32', rng.normal(size=(6, 5)).astype(np.float32)))
    cases.append(('fortran', np.asfortranarray(rng.normal(size=(6, 9)))))
    cases.append(('view', rng.normal(size=(12, 14))[::2, ::2]))
    cases.append(('3d', rng.normal(size=(2, 3, 4))))
    cases.append(('1d', rng.normal(size=(5,))))
    cases.append(('nan', np.array([[1., np.nan], [2., 3.]])))
    return cases


def _thresholds(A):
    """Accuracies placed exactly at / just around every rank change."""
    try:
        s = np.linalg.svd(np.asarray(A, dtype=float), compute_uv=False)
    except Exception:
        return []
    out = []
    for t in np.sqrt(np.cumsum(s[::-1]**2)):
        if not np.isfinite(t) or t <= 0:
            continue
        out.extend([t, np.nextafter(t, 0.), np.nextafter(t, np.inf),
            t * (1 - 1.E-9), t * (1 + 1.E-9)])
    return [float(v) for v in out]


def scenarios(teneva):
    """Yield (name, func, args, kwargs); inputs are built deterministically."""
    rng = np.random.default_rng(20240202)

    # ---- matrix_svd / matrix_skeleton -----------------------------------
    for ic, (kind, A) in enumerate(_matrix_cases(rng)):
        e_list = [1.E-10, 1.E-3, 0.3, 0.999, 5., 0., -0.5]
        if A.ndim == 2 and np.all(np.isfinite(A)):
            e_list += _thresholds(A)
        r_list = [1.E+12, 1, 2, 3, 2.7, 0, -1, 10**6]
        for ie, e in enumerate(e_list):
            for r in (r_list if ie < 4 else [1.E+12, 2]):
                name = 'msvd[%d:%s,e=%r,r=%r]' % (ic, kind, e, r)
                yield name, teneva.matrix_svd, [A.copy(), e, r], {}
                for give_to in ['l', 'r', 'm', 'x']:
                    for rel in [False, True]:
                        if ie >= 4 and (give_to in 'rx'):
                            continue
                        name = 'mskel[%d:%s,e=%r,r=%r,%s,rel=%r]' % (
                            ic, kind, e, r, give_to, rel)
                        yield (name, teneva.matrix_skeleton,
                            [A.copy(), e, r],
                            {'rel': rel, 'give_to': give_to})
        # default arguments and keyword spelling
        yield 'msvd-def[%d]' % ic, teneva.matrix_svd, [A.copy()], {}
        yield 'mskel-def[%d]' % ic, teneva.matrix_skeleton, [A.copy()], {}
        yield ('msvd-kw[%d]' % ic, teneva.matrix_svd, [],
            {'A': A.copy(), 'r': 2, 'e': 1.E-2})
        if A.ndim == 2 and A.shape[0] == A.shape[1]:
            S = A + A.T
            for e in [1.E-10, 0.1] + _thresholds(S)[:10]:
                yield ('mskel-herm[%d,e=%r]' % (ic, e),
                    teneva.matrix_skeleton, [S.copy(), e, 1.E+12],
                    {'hermitian': True, 'give_to': 'l'})
    for bad_r in [float('inf'), float('nan'), None, 'a']:
        A = rng.normal(size=(4, 5))
        yield 'msvd-badr[%r]' % bad_r, teneva.matrix_svd, [A, 0.1, bad_r], {}
        yield ('mskel-badr[%r]' % bad_r, teneva.matrix_skeleton,
            [A, 0.1, bad_r], {})

    # ---- truncate ---------------------------------------------------------
    tts = []
    profiles = [
        ([4, 5], [3]), ([4, 5], [1]), ([2, 2], [7]),          # d = 2
        ([3, 4, 5], [2, 3]), ([3, 4, 5], [1, 1]), ([2, 2, 2], [6, 6]),
        ([5, 4, 3, 6], [3, 7, 2]), ([2, 3, 2, 3], [1, 5, 1]),
        ([4] * 5, [4, 9, 9, 4]), ([3] * 6, [2, 4, 8, 4, 2]),
        ([2] * 8, [2, 4, 6, 8, 6, 4, 2]), ([6, 1, 6], [3, 3]),
        ([7], []),                                             # d = 1
    ]
    for ip, (n, r) in enumerate(profiles):
        tts.append(('rand%d' % ip, _tt_rand(rng, n, r)))
    for ip, (n, r) in enumerate(profiles[3:11]):
        tts.append(('spec%d' % ip, _tt_spectrum(rng, n, r, 0.1)))
        tts.append(('flat%d' % ip, _tt_spectrum(rng, n, r, 1.0)))
    tts.append(('tiny', _tt_rand(rng, [3, 4, 3], [3, 3], scale=1.E-200)))
    tts.append(('huge', _tt_rand(rng, [3, 4, 3], [3, 3], scale=1.E+200)))
    tts.append(('scaled-stab', _tt_rand(rng, [3] * 6, [3] * 5, scale=1.E+290)))
    tts.append(('zero', [np.zeros((1, 3, 2)), np.zeros((2, 4, 3)),
        np.zeros((3, 2, 1))]))
    tts.append(('zerocore', [rng.normal(size=(1, 3, 2)), np.zeros((2, 4, 3)),
        rng.normal(size=(3, 2, 1))]))
    tts.append(('int', _tt_rand(rng, [3, 4, 3], [2, 5], dtype=int)))
    tts.append(('int-d1', _tt_rand(rng, [5], [], dtype=int)))
    tts.append(('f32', _tt_rand(rng, [3, 4, 3], [2, 5], dtype=np.float32)))
    tts.append(('fortran', [np.asfortranarray(G) for G in
        _tt_rand(rng, [3, 4, 5, 2], [4, 6, 2])]))
    # sum of two equal tensors: exactly rank deficient, over-ranked
    Y1 = _tt_rand(rng, [4, 3, 4, 3], [2, 3, 2])
    tts.append(('doubled', teneva.add(Y1, Y1)))
    tts.append(('cancel', teneva.sub(Y1, Y1)))
    tts.append(('empty', []))
    tts.append(('badranks', [rng.normal(size=(1, 3, 2)),
        rng.normal(size=(3, 3, 1))]))
    tts.append(('tuple', tuple(_tt_rand(rng, [3, 4, 3], [2, 2]))))

    flags = [(orth, stab, eigh) for orth in [True, False]
        for stab in [False, True] for eigh in [True, False]]

    for (kind, Y) in tts:
        d = len(Y)
        e_list = [1.E-10, 1.E-6, 1.E-2, 0.3, 0.9, 0.999]
        r_list = [1.E+12, 1, 2, 3, 4.5, 0]
        # accuracies around the rank changes of every unfolding
        e_thr = []
        try:
            if d >= 2 and kind not in ('empty', 'badranks'):
                F = _full([np.asarray(G, dtype=float) for G in Y])
                nrm = np.linalg.norm(F)
                for k in range(1, d):
                    M = F.reshape(int(np.prod(F.shape[:k])), -1)
                    for t in _thresholds(M)[:40]:
                        v = t * np.sqrt(d - 1) / nrm
                        if np.isfinite(v) and 0 < v < 1:
                            e_thr.append(float(v))
        except Exception:
            e_thr = []
        e_thr = sorted(set(e_thr))[:60]

        for (orth, stab, eigh) in flags:
            for e in e_list:
                for r in r_list:
                    name = 'trunc[%s,e=%r,r=%r,o=%d,s=%d,g=%d]' % (
                        kind, e, r, orth, stab, eigh)
                    yield (name, teneva.truncate,
                        [[G.copy() for G in Y], e, r, orth, stab, eigh], {})
            for e in e_thr:
                name = 'trunc-thr[%s,e=%r,o=%d,s=%d,g=%d]' % (
                    kind, e, orth, stab, eigh)
                yield (name, teneva.truncate, [[G.copy() for G in Y], e], {
                    'orth': orth, 'use_stab': stab, 'is_eigh': eigh})
        yield 'trunc-def[%s]' % kind, teneva.truncate, [Y], {}
        yield ('trunc-truthy[%s]' % kind, teneva.truncate, [Y, 0.1, 3],
            {'use_stab': 1, 'is_eigh': 0, 'orth': 'yes'})
        yield ('trunc-falsy[%s]' % kind, teneva.truncate, [Y, 0.1, 3],
            {'use_stab': None, 'is_eigh': [], 'orth': 0})

    # ---- add_many -----------------------------------------------------------
    for seed in range(6):
        rg = np.random.default_rng(1000 + seed)
        n = [[3, 4, 3], [2] * 6, [5, 5], [4, 3, 2, 3]][seed % 4]
        d = len(n)
        many = [_tt_rand(rg, n, list(rg.integers(1, 4, size=d-1)))
            for _ in range(9)]
        mixed = [2, 3.5] + many[:3] + [1.5] + many[3:6] + [-4]
        lead = many[:2] + [7] + many[2:5]
        # repeated terms: the running sum is over-ranked at every step
        rep = [many[0]] * 8 + [many[1]] * 8 + [many[0]] * 17
        for (kind, Ys) in [('tt', many), ('mixed', mixed), ('lead', lead),
                           ('rep', rep), ('one', many[:1]),
                           ('nums', [1, 2.5, 3]), ('onenum', [4])]:
            for e in [1.E-10, 1.E-3, 0.2]:
                for r in [1.E+12, 2, 1]:
                    for freq in [15, 1, 2, 3, 100]:
                        name = 'addm[%d:%s,e=%r,r=%r,f=%r]' % (
                            seed, kind, e, r, freq)
                        yield (name, teneva.add_many,
                            [list(Ys), e, r, freq], {})
            yield 'addm-def[%d:%s]' % (seed, kind), teneva.add_many, [Ys], {}
            yield ('addm-f0[%d:%s]' % (seed, kind), teneva.add_many,
                [Ys, 1.E-6, 5, 0], {})
            yield ('addm-tuple[%d:%s]' % (seed, kind), teneva.add_many,
                [tuple(Ys)], {'trunc_freq': 2, 'r': 3})
    yield 'addm-empty', teneva.add_many, [[]], {}
    yield 'addm-none', teneva.add_many, [None], {}

    # ---- callers of the refactored functions (indirect check) --------------
    for seed in range(4):
        rg = np.random.default_rng(2000 + seed)
        F = _full(_tt_spectrum(rg, [4, 3, 5, 2], [3, 4, 2], 0.2))
        for e in [1.E-10, 1.E-2, 0.5]:
            for r in [1.E+12, 2]:
                yield ('svd[%d,e=%r,r=%r]' % (seed, e, r), teneva.svd,
                    [F.copy(), e, r], {})
        G = rg.normal(size=(2, 16, 3))
        yield ('tt_to_qtt[%d]' % seed, teneva.core_tt_to_qtt,
            [G, 1.E-8, 100], {})


def worker(root, out):
    sys.path.insert(0, root)
    import teneva
    loc = os.path.realpath(teneva.__file__)
    if not loc.startswith(os.path.realpath(root) + os.sep):
        raise RuntimeError('Wrong package imported: %s' % loc)
    np.seterr(all='warn')
    res = []
    for name, func, args, kwargs in scenarios(teneva):
        res.append((name, _run(func, args, kwargs)))
    with open(out, 'wb') as f:
        pickle.dump(res, f)


# --------------------------------------------------------------------------
# Comparison part
# --------------------------------------------------------------------------


class Stat:
    arrays = 0
    bitwise = 0
    max_rel = 0.


def _cmp(a, b, path, errs):
    if type(a) is not type(b):
        errs.append('%s: type %r != %r' % (path, type(a), type(b)))
        return
    if isinstance(a, tuple) and len(a) == 4 and a[0] == 'arr':
        if b[0] != 'arr' or a[1] != b[1] or a[2] != b[2]:
            errs.append('%s: shape/dtype %r %r != %r %r' % (
                path, a[1], a[2], b[1], b[2]))
            return
        x, y = a[3], b[3]
        Stat.arrays += 1
        if x.tobytes() == y.tobytes():
            Stat.bitwise += 1
            return
        if x.dtype.kind in 'fc':
            fin = np.isfinite(x)
            if not np.array_equal(fin, np.isfinite(y)) or not np.array_equal(
                    x[~fin], y[~fin], equal_nan=True):
                errs.append('%s: non-finite pattern differs' % path)
                return
            scale = float(np.max(np.abs(x[fin]))) if fin.any() else 0.
            ok = np.allclose(x[fin], y[fin], rtol=RTOL, atol=ATOL_REL * scale)
            if scale > 0:
                Stat.max_rel = max(Stat.max_rel,
                    float(np.max(np.abs(x[fin] - y[fin]))) / scale)
            if not ok:
                errs.append('%s: values differ (max abs %e, scale %e)' % (
                    path, np.max(np.abs(x[fin] - y[fin])), scale))
        elif not np.array_equal(x, y):
            errs.append('%s: values differ' % path)
        return
    if isinstance(a, (tuple, list)):
        if len(a) != len(b):
            errs.append('%s: length %d != %d' % (path, len(a), len(b)))
            return
        for i, (u, v) in enumerate(zip(a, b)):
            _cmp(u, v, '%s/%d' % (path, i), errs)
        return
    if isinstance(a, float):
        if not (a == b or (a != a and b != b)
                or abs(a - b) <= RTOL * max(abs(a), abs(b))):
            errs.append('%s: %r != %r' % (path, a, b))
        return
    if a != b:
        errs.append('%s: %r != %r' % (path, a, b))


def main():
    tmp = tempfile.mkdtemp(prefix='equivC02_')
    outs = []
    for tag, root in [('orig', ROOT_ORIG), ('new', ROOT_NEW)]:
        out = os.path.join(tmp, tag + '.pkl')
        env = dict(os.environ)
        env['PYTHONPATH'] = root
        env['PYTHONWARNINGS'] = 'ignore::SyntaxWarning'
        env['PYTHONDONTWRITEBYTECODE'] = '1'
        proc = subprocess.run([sys.executable, os.path.abspath(__file__),
            '--worker', root, out], cwd=root, env=env)
        if proc.returncode != 0:
            print('Worker for %s failed' % tag)
            return 1
        outs.append(out)

    with open(outs[0], 'rb') as f:
        res_orig = pickle.load(f)
    with open(outs[1], 'rb') as f:
        res_new = pickle.load(f)

    errs = []
    if [n for n, _ in res_orig] != [n for n, _ in res_new]:
        errs.append('scenario lists differ')
    n_exc = n_mut = n_warn = 0
    kinds = {}
    for (name, a), (_, b) in zip(res_orig, res_new):
        e0 = len(errs)
        _cmp(a['res'], b['res'], name + ':res', errs)
        if a['mutated'] != b['mutated']:
            errs.append('%s: mutation flag %r != %r' % (
                name, a['mutated'], b['mutated']))
        _cmp(a['args_after'], b['args_after'], name + ':args', errs)
        if a['warnings'] != b['warnings']:
            errs.append('%s: warnings %r != %r' % (
                name, a['warnings'], b['warnings']))
        n_exc += a['res'][0] == 'exc'
        n_mut += bool(a['mutated'])
        n_warn += bool(a['warnings'])
        key = name.split('[')[0]
        kinds.setdefault(key, [0, 0])
        kinds[key][0] += 1
        kinds[key][1] += len(errs) > e0

    print('scenarios: %d (raising: %d, mutating args: %d, warning: %d)' % (
        len(res_orig), n_exc, n_mut, n_warn))
    for key in sorted(kinds):
        print('  %-14s %6d scenarios, %d mismatching' % (
            key, kinds[key][0], kinds[key][1]))
    print('arrays compared: %d, bitwise identical: %d, max rel. deviation '
        'of the others: %.3e' % (Stat.arrays, Stat.bitwise, Stat.max_rel))
    if errs:
        print('MISMATCHES: %d' % len(errs))
        for msg in errs[:400]:
            print('  ' + msg)
        return 1
    print('EQUIVALENT')
    return 0


if __name__ == '__main__':
    if len(sys.argv) == 4 and sys.argv[1] == '--worker':
        worker(sys.argv[2], sys.argv[3])
        sys.exit(0)
    sys.exit(main())
