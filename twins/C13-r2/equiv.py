"""Equivalence demonstration for the C13 twin B refactoring.

The same deterministic scenario list is run in two subprocesses, one importing
the pristine package (cwd = /tmp/twinsB/C13/orig) and one importing the
refactored package (cwd = /tmp/wt/C13). Each dumps its results into a pickle;
the parent process compares the two pickles (shapes, dtypes, values, exception
types / messages, mutation of the arguments, state of the random generator).

Exit code: 0 if everything agrees, 1 otherwise.

"""
import os
import pickle
import subprocess
import sys
import tempfile


ROOT_ORIG = '/tmp/twinsB/C13/orig'
ROOT_NEW = os.environ.get('EQUIV_ROOT_NEW', '/tmp/wt/C13')
RTOL = 1.E-12
ATOL = 1.E-14


# ----------------------------------------------------------------------------
# Worker part (runs inside the subprocess; imports "teneva" from the cwd)
# ----------------------------------------------------------------------------


def _worker(fpath_out):
    import warnings
    warnings.simplefilter('ignore')

    sys.path.insert(0, os.getcwd())
    import numpy as np
    import teneva
    from teneva.anova import ANOVA, _second_order_2_tt
    from teneva.anova_func import ANOVA_func

    root = os.path.realpath(os.getcwd())
    assert os.path.realpath(teneva.__file__).startswith(root + os.sep), \
        (teneva.__file__, root)

    res = {}

    def run(name, func):
        assert name not in res, name
        try:
            res[name] = ('ok', func())
        except Exception as exc:
            res[name] = ('exc', type(exc).__name__, str(exc))

    def dict_dump(dct):
        # Keeps the insertion order of the keys (it is part of the behaviour):
        return [(np.asarray(k), type(k).__name__, np.asarray(v),
            type(v).__name__) for k, v in dct.items()]

    def model_dump(mdl):
        return {
            'f0': np.asarray(mdl.f0),
            'f0_type': type(mdl.f0).__name__,
            'f1': [dict_dump(f) for f in mdl.f1],
            'f2': [dict_dump(f) for f in mdl.f2],
            'shapes': np.asarray(mdl.shapes),
            'domain': [np.asarray(dm) for dm in mdl.domain],
            'dtype': str(mdl.dtype),
            'y_min': mdl.y_min, 'y_max': mdl.y_max, 'd': mdl.d,
        }

    def tt_dump(Y):
        return [(np.array(G), G.flags['C_CONTIGUOUS']) for G in Y]

    def many_dump(Y_many):
        return [tt_dump(Y) for Y in Y_many]

    def func_additive(I, seed):
        rnd = np.random.default_rng(seed)
        d = I.shape[1]
        n_max = int(I.max()) + 1
        tabs = rnd.normal(size=(d, n_max))
        return 0.7 + sum(tabs[k, I[:, k]] for k in range(d))

    def func_generic(I, seed):
        rnd = np.random.default_rng(seed)
        w = rnd.normal(size=I.shape[1])
        return np.sin(I @ w) + 0.1 * (I[:, 0] * I[:, -1]) + 2.

    def data_make(shape, kind, seed, func, dtype=int):
        rnd = np.random.default_rng(seed)
        d = len(shape)
        if kind == 'full':
            I = np.array(np.unravel_index(np.arange(np.prod(shape)), shape)).T
        elif kind == 'full-shuffled':
            I = np.array(np.unravel_index(np.arange(np.prod(shape)), shape)).T
            I = I[rnd.permutation(len(I))]
        elif kind == 'sparse':
            m = max(3, int(np.prod(shape)) // 3)
            I = np.vstack([rnd.choice(k, size=m) for k in shape]).T
        elif kind == 'dups':
            m = 2 * int(np.prod(shape)) + 5
            I = np.vstack([rnd.choice(k, size=m) for k in shape]).T
        elif kind == 'gaps':
            # Not all indices of the modes are observed, values are shifted:
            m = 4 * max(shape)
            I = np.vstack([3 * rnd.choice(k, size=m) + 2 for k in shape]).T
        elif kind == 'tiny':
            I = np.vstack([rnd.choice(k, size=2) for k in shape]).T
        else:
            raise ValueError(kind)
        I = np.asarray(I, dtype=dtype)
        y = func(np.asarray(I, dtype=int), seed + 1)
        return I, np.asarray(y, dtype=float)

    shapes_all = [
        (2, 2), (3, 4), (5, 2), (7, 7), (1, 4), (4, 1),
        (2, 3, 4), (4, 4, 4), (3, 1, 5), (2, 2, 2, 2), (3, 5, 2, 4),
        (2, 3, 2, 3, 2), (4, 2, 3, 2, 2, 3),
    ]
    kinds_all = ['full', 'full-shuffled', 'sparse', 'dups', 'gaps', 'tiny']

    # --- 1. Model building (build_0 / build_1 / build_2) and TT-cores -------

    seed = 0
    for shape in shapes_all:
        for kind in kinds_all:
            for order in [1, 2]:
                for fname, func in [('add', func_additive),
                                    ('gen', func_generic)]:
                    seed += 1
                    tag = f'anova|{shape}|{kind}|o{order}|{fname}'
                    I, y = data_make(shape, kind, seed, func)
                    I0, y0 = I.copy(), y.copy()

                    try:
                        mdl = ANOVA(I, y, order, seed=seed)
                    except Exception as exc:
                        res[tag + '|init'] = ('exc', type(exc).__name__,
                            str(exc))
                        continue

                    run(tag + '|model', lambda: model_dump(mdl))
                    run(tag + '|args-unchanged', lambda: (
                        np.array_equal(I, I0), np.array_equal(y, y0)))
                    run(tag + '|f1_arr', lambda: [np.array(a)
                        for a in mdl.f1_arr])
                    run(tag + '|call', lambda: np.array(mdl(I[:7])))

                    for r in [2, 3, 5]:
                        for noise in [0., 1.E-10, 1.E-2]:
                            run(tag + f'|cores|r{r}|nz{noise}',
                                lambda: tt_dump(mdl.cores(r, noise)))
                    run(tag + '|cores|default', lambda: tt_dump(mdl.cores()))
                    run(tag + '|cores|rel', lambda: tt_dump(
                        mdl.cores(r=4, rel_noise=1.E-6)))
                    run(tag + '|cores|near', lambda: tt_dump(
                        mdl.cores(r=3, noise=1.E-8, only_near=True)))

                    if order == 2:
                        run(tag + '|cores_2', lambda: many_dump(
                            mdl.cores_2()))
                        run(tag + '|cores_2|r', lambda: many_dump(
                            mdl.cores_2(r=7)))
                        run(tag + '|cores_2|near', lambda: many_dump(
                            mdl.cores_2(2, True)))
                        run(tag + '|cores_2|near-kw', lambda: many_dump(
                            mdl.cores_2(only_near=True)))
                    else:
                        # No pair terms are stored for the order 1:
                        run(tag + '|cores_2', lambda: many_dump(
                            mdl.cores_2()))

                    # State of the generator after all draws:
                    run(tag + '|rand', lambda: mdl.rand.normal(size=3))
                    run(tag + '|sample', lambda: [np.asarray(v)
                        for v in mdl.sample()])

    # --- 2. Direct calls of the build methods (other dtypes, bad inputs) ----

    for dtype in [int, np.int32, np.uint8, float]:
        for order in [1, 2]:
            seed += 1
            tag = f'build|{np.dtype(dtype).name}|o{order}'
            I, y = data_make((3, 4, 2), 'dups', seed, func_generic, dtype)
            mdl = ANOVA(I, y, order, seed=seed)
            run(tag + '|model', lambda: model_dump(mdl))

            # Rebuild with the other data (the lists should be replaced):
            I2, y2 = data_make((3, 4, 2), 'sparse', seed + 100, func_additive,
                dtype)
            mdl.domain = [np.unique(I2[:, k]) for k in range(3)]
            run(tag + '|re-build_0', lambda: mdl.build_0(I2, y2))
            run(tag + '|re-build_1', lambda: mdl.build_1(I2, y2))
            run(tag + '|re-model', lambda: model_dump(mdl))

            # Lists instead of arrays for the values, wrong sizes:
            run(tag + '|build_1-bad-len', lambda: mdl.build_1(I2, y2[:-1]))
            run(tag + '|after-bad-len', lambda: [dict_dump(f)
                for f in mdl.f1])
            run(tag + '|build_1-bad-col', lambda: mdl.build_1(I2[:, :2], y2))
            run(tag + '|after-bad-col', lambda: [dict_dump(f)
                for f in mdl.f1])
            run(tag + '|build_1-list', lambda: mdl.build_1(I2, list(y2)))
            run(tag + '|build_1-nan', lambda: mdl.build_1(I2, y2 * np.nan))
            run(tag + '|after-nan', lambda: [dict_dump(f) for f in mdl.f1])

    for bad in ['order', 'none', 'both']:
        def init_bad():
            I, y = data_make((3, 3), 'full', 5, func_additive)
            if bad == 'order':
                return ANOVA(I, y, order=3)
            if bad == 'none':
                return ANOVA(I, None)
            return ANOVA(I, y, fpath='x')
        run(f'init-bad|{bad}', init_bad)

    # --- 3. The wrapper function --------------------------------------------

    for shape in [(3, 4), (4, 3, 5), (2, 3, 2, 4)]:
        for order in [1, 2]:
            for r in [2, 4]:
                seed += 1
                I, y = data_make(shape, 'full', seed, func_additive)
                run(f'wrap|{shape}|o{order}|r{r}', lambda: tt_dump(
                    teneva.anova(I, y, r, order, noise=1.E-12, seed=seed)))
                run(f'wrap|{shape}|o{order}|r{r}|gen', lambda: tt_dump(
                    teneva.anova(I, y, r, order,
                        seed=np.random.default_rng(seed))))

    # --- 4. Direct calls of _second_order_2_tt ------------------------------

    rnd = np.random.default_rng(12345)
    for shapes in [[3, 4], [2, 5, 3], [4, 1, 3, 2], [2, 3, 4, 2, 3],
                   np.array([3, 2, 4, 5]), (2, 2, 2, 2, 2, 2)]:
        d = len(shapes)
        for i in range(d):
            for j in range(d):
                if i == j:
                    continue
                for mkind in ['full', 'rank1', 'zero', 'const', 'int']:
                    n1, n2 = int(shapes[i]), int(shapes[j])
                    if mkind == 'full':
                        A = rnd.normal(size=(n1, n2))
                    elif mkind == 'rank1':
                        A = np.outer(rnd.normal(size=n1), rnd.normal(size=n2))
                    elif mkind == 'zero':
                        A = np.zeros((n1, n2))
                    elif mkind == 'const':
                        A = np.full((n1, n2), 2.5)
                    else:
                        A = rnd.integers(-3, 4, size=(n1, n2))
                    A0 = A.copy()
                    tag = f'so2tt|{list(shapes)}|{i}|{j}|{mkind}'
                    run(tag, lambda: tt_dump(
                        _second_order_2_tt(A, i, j, shapes)))
                    run(tag + '|arg', lambda: np.array_equal(A, A0))
    run('so2tt|same-index', lambda: tt_dump(
        _second_order_2_tt(rnd.normal(size=(3, 3)), 1, 1, [2, 3, 4])))
    run('so2tt|bad-matrix', lambda: tt_dump(
        _second_order_2_tt(np.ones(3), 0, 1, [3, 3])))

    # --- 5. Functional ANOVA ------------------------------------------------

    for d in [1, 2, 3, 4, 6]:
        for n in [2, 3, 5, 8]:
            for lamb in [0., 1.E-7, 1.E-2]:
                seed += 1
                rnd = np.random.default_rng(seed)
                a = -1. if d % 2 else list(-1. - rnd.random(d))
                b = +1. if d % 2 else list(+2. + rnd.random(d))
                m = [1, 5, 40][seed % 3]
                X = np.asarray(a) + rnd.random((m, d)) * (
                    np.asarray(b) - np.asarray(a))
                w = rnd.normal(size=d)
                if seed % 2:
                    y = 1.5 + np.sum(np.cos(X * w) + X**2, axis=1)
                else:
                    y = np.exp(-np.sum(X * w, axis=1)) * np.prod(X, axis=1)
                X0, y0 = X.copy(), y.copy()
                tag = f'func|d{d}|n{n}|l{lamb}'

                def cfs_dump(mdl):
                    return [np.asarray(c) for c in mdl.coeffs]

                mdl = ANOVA_func(X, y, n, a, b, lamb)
                run(tag + '|cores', lambda: tt_dump(mdl.cores()))
                run(tag + '|coeffs', lambda: cfs_dump(mdl))
                run(tag + '|cores-none', lambda: tt_dump(mdl.cores(None)))
                run(tag + '|cores-e', lambda: tt_dump(mdl.cores(e=1.E-3)))
                run(tag + '|coeffs-again', lambda: cfs_dump(mdl))
                run(tag + '|args', lambda: (np.array_equal(X, X0),
                    np.array_equal(y, y0)))
                run(tag + '|wrap', lambda: tt_dump(
                    teneva.anova_func(X, y, n, a, b, lamb)))
                run(tag + '|wrap-none', lambda: tt_dump(
                    teneva.anova_func(X, y, n, a, b, lamb, e=None)))

                # Values which produce exactly zero / negative coefficients:
                mdl = ANOVA_func(X, np.zeros(m), n, a, b, lamb)
                run(tag + '|zero', lambda: tt_dump(mdl.cores(None)))
                mdl = ANOVA_func(X, -3. * np.ones(m), n, a, b, lamb)
                run(tag + '|neg', lambda: tt_dump(mdl.cores(None)))

    run('func|n1', lambda: tt_dump(ANOVA_func(
        np.random.default_rng(1).random((9, 3)), np.arange(9.), 1).cores()))
    run('func|nan', lambda: tt_dump(ANOVA_func(
        np.random.default_rng(1).random((9, 3)), np.arange(9.) * np.nan,
        3).cores()))

    with open(fpath_out, 'wb') as f:
        pickle.dump(res, f)


# ----------------------------------------------------------------------------
# Comparison part
# ----------------------------------------------------------------------------


class Stat:
    def __init__(self):
        self.leaves = 0
        self.exact = 0
        self.errors = []


def _compare(a, b, path, stat):
    import numpy as np

    if type(a) is not type(b):
        stat.errors.append(f'{path}: types {type(a)} vs {type(b)}')
        return

    if isinstance(a, dict):
        if list(a.keys()) != list(b.keys()):
            stat.errors.append(f'{path}: different keys')
            return
        for k in a:
            _compare(a[k], b[k], f'{path}/{k}', stat)
        return

    if isinstance(a, (list, tuple)):
        if len(a) != len(b):
            stat.errors.append(f'{path}: lengths {len(a)} vs {len(b)}')
            return
        for k, (x, y) in enumerate(zip(a, b)):
            _compare(x, y, f'{path}[{k}]', stat)
        return

    stat.leaves += 1

    if isinstance(a, np.ndarray) or isinstance(a, np.generic):
        a, b = np.asarray(a), np.asarray(b)
        if a.shape != b.shape:
            stat.errors.append(f'{path}: shapes {a.shape} vs {b.shape}')
            return
        if a.dtype != b.dtype:
            stat.errors.append(f'{path}: dtypes {a.dtype} vs {b.dtype}')
            return
        if a.tobytes() == b.tobytes():
            stat.exact += 1
            return
        if a.dtype.kind in 'fc':
            if np.allclose(a, b, rtol=RTOL, atol=ATOL, equal_nan=True):
                return
        elif np.array_equal(a, b):
            return
        stat.errors.append(f'{path}: values differ')
        return

    if isinstance(a, float):
        if a == b or (a != a and b != b):
            stat.exact += 1
            return
        if abs(a - b) <= ATOL + RTOL * abs(b):
            return
        stat.errors.append(f'{path}: {a} vs {b}')
        return

    if a == b:
        stat.exact += 1
    else:
        stat.errors.append(f'{path}: {a!r} vs {b!r}')


def main():
    with tempfile.TemporaryDirectory() as tmp:
        out = {}
        for name, root in [('orig', ROOT_ORIG), ('new', ROOT_NEW)]:
            fpath = os.path.join(tmp, name + '.pickle')
            env = dict(os.environ)
            env.pop('PYTHONPATH', None)
            env['PYTHONDONTWRITEBYTECODE'] = '1'
            proc = subprocess.run([sys.executable, os.path.abspath(__file__),
                '--worker', fpath], cwd=root, env=env,
                stdout=subprocess.DEVNULL)
            if proc.returncode != 0:
                print(f'FAIL: worker "{name}" exited with {proc.returncode}')
                return 1
            with open(fpath, 'rb') as f:
                out[name] = pickle.load(f)

    res_o, res_n = out['orig'], out['new']

    stat = Stat()
    if list(res_o.keys()) != list(res_n.keys()):
        stat.errors.append('different sets of scenarios')
    else:
        for name in res_o:
            _compare(res_o[name], res_n[name], name, stat)

    n_exc = sum(1 for v in res_o.values() if v[0] == 'exc')
    print(f'scenarios          : {len(res_o)}')
    print(f'  raising (orig)   : {n_exc}')
    print(f'compared leaves    : {stat.leaves}')
    print(f'  bit-identical    : {stat.exact}')
    print(f'mismatches         : {len(stat.errors)}')
    for err in stat.errors[:40]:
        print('  ' + err)

    if stat.errors:
        print('RESULT: DIFFERENT')
        return 1
    print('RESULT: EQUIVALENT')
    return 0


if __name__ == '__main__':
    if len(sys.argv) == 3 and sys.argv[1] == '--worker':
        _worker(sys.argv[2])
        sys.exit(0)
    sys.exit(main())
