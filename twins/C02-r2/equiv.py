"""Equivalence demonstration for the C02 twin (truncate / matrix_svd / add_many).

Runs the same deterministic scenario list in two subprocesses, one importing
the pristine package (/tmp/twinsB/C02/orig) and one the refactored package
(/tmp/wt/C02), pickles the outcomes and compares them.

Exit status: 0 if every scenario agrees, 1 otherwise.
"""
import itertools
import os
import pickle
import subprocess
import sys
import tempfile
import warnings

ORIG = '/tmp/twinsB/C02/orig'
TWIN = '/tmp/wt/C02'
RTOL = 1.E-12


# ----------------------------------------------------------------------------
# Worker part (executed with cwd = root of one of the two packages)
# ----------------------------------------------------------------------------


def _pack(x):
    """Turn a result into a picklable, comparable structure."""
    import numpy as np
    if isinstance(x, np.ndarray):
        return ('arr', x.shape, str(x.dtype), np.ascontiguousarray(x).copy())
    if isinstance(x, (list, tuple)):
        return (type(x).__name__, [_pack(v) for v in x])
    if isinstance(x, np.generic):
        return ('npscalar', str(x.dtype), x.item())
    return ('py', type(x).__name__, x)


def _tt(rng, n, r, scale=1.):
    """Random TT-tensor with mode sizes n and inner ranks r."""
    import numpy as np
    rr = [1] + list(r) + [1]
    Y = [rng.normal(size=(rr[k], n[k], rr[k+1])) for k in range(len(n))]
    Y[0] = Y[0] * scale
    return Y


def _tt_spectrum(rng, n, r, decay):
    """TT-tensor whose cores are scaled to give a decaying spectrum."""
    import numpy as np
    Y = _tt(rng, n, r)
    for k in range(len(n) - 1):
        q = Y[k].shape[2]
        Y[k] = Y[k] * (decay ** np.arange(q))[None, None, :]
    return Y


def _thresholds(Y):
    """Relative accuracies at which some rank of the rounding changes."""
    import numpy as np
    d = len(Y)
    n = [G.shape[1] for G in Y]
    if d < 2 or np.prod(n) > 5000:
        return []
    full = Y[0]
    for G in Y[1:]:
        full = np.tensordot(full, G, 1)
    full = full.reshape(n)
    nrm = np.linalg.norm(full)
    if not nrm > 0:
        return []
    res = []
    for k in range(1, d):
        s = np.linalg.svd(full.reshape(int(np.prod(n[:k])), -1),
            compute_uv=False)
        tail = np.sqrt(np.cumsum(s[::-1]**2))[:-1]
        res.extend(list(tail / nrm * np.sqrt(d-1)))
    res = sorted(set(float(t) for t in res if 0 < t < 1))
    if len(res) > 6:
        idx = np.linspace(0, len(res) - 1, 6).astype(int)
        res = [res[i] for i in idx]
    return res


def _run(func, args, kwargs, watch):
    """Call func, record result or exception, and mutation of watched args."""
    import copy
    import numpy as np
    before = copy.deepcopy(watch)
    with warnings.catch_warnings(record=True) as wlist:
        warnings.simplefilter('always')
        try:
            out = ('ok', _pack(func(*args, **kwargs)))
        except Exception as err:
            out = ('exc', type(err).__name__, str(err))
    wcat = sorted(set(w.category.__name__ for w in wlist))
    return {'out': out, 'warn': wcat,
        'arg_before': _pack(before), 'arg_after': _pack(watch)}


def scenarios_matrix_svd(teneva):
    import numpy as np
    rng = np.random.default_rng(20202)
    mats = []
    for (m, n) in [(1, 1), (1, 7), (7, 1), (4, 4), (3, 9), (9, 3), (6, 20),
                   (20, 6), (12, 12), (5, 6), (6, 5)]:
        mats.append(('rand', rng.normal(size=(m, n))))
        q = max(1, min(m, n) // 2)
        mats.append(('lowrank',
            rng.normal(size=(m, q)) @ rng.normal(size=(q, n))))
        U, _ = np.linalg.qr(rng.normal(size=(m, min(m, n))))
        V, _ = np.linalg.qr(rng.normal(size=(n, min(m, n))))
        s = 10. ** (-np.arange(min(m, n)))
        mats.append(('decay', (U * s) @ V.T))
        mats.append(('flat', (U * np.ones(min(m, n))) @ V.T))
        mats.append(('zero', np.zeros((m, n))))
    more = []
    for name, A in mats[:12]:
        more.append((name + '*1e8', A * 1.E+8))
        more.append((name + '*1e-8', A * 1.E-8))
    mats += more
    mats.append(('f32', rng.normal(size=(5, 8)).astype(np.float32)))
    mats.append(('int', rng.integers(-3, 4, size=(6, 4))))
    mats.append(('fortran', np.asfortranarray(rng.normal(size=(7, 5)))))
    mats.append(('view', rng.normal(size=(10, 12))[::2, 1::3]))

    res = []
    for name, A in mats:
        s = np.linalg.svd(np.asarray(A, dtype=float), compute_uv=False)
        tails = np.sqrt(np.cumsum(s[::-1]**2))
        e_list = [1.E-14, 1.E-10, 1.E-6, 1.E-3, 1.E-1, 0.5, 0.99, 10., 0.]
        for t in tails[[0, len(tails) // 2, -1]]:
            e_list += [t * (1 - 1.E-9), t, t * (1 + 1.E-9)]
        for e in e_list:
            for r in [1.E+12, 1, 2, 3, 0, 2.7, 100]:
                A_arg = A.copy(order='K') if name != 'view' else A
                res.append((('matrix_svd', name, A.shape, float(e), r),
                    _run(teneva.matrix_svd, (A_arg, e, r), {}, [A_arg])))
    A = rng.normal(size=(4, 6))
    for r in [float('inf'), float('nan'), -3, None, '2']:
        res.append((('matrix_svd', 'bad-r', repr(r)),
            _run(teneva.matrix_svd, (A, 1.E-3, r), {}, [A])))
    for e in [float('nan'), float('inf'), -0.1, None]:
        res.append((('matrix_svd', 'bad-e', repr(e)),
            _run(teneva.matrix_svd, (A, e, 3), {}, [A])))
    res.append((('matrix_svd', 'defaults'),
        _run(teneva.matrix_svd, (A,), {}, [A])))
    res.append((('matrix_svd', 'kw'),
        _run(teneva.matrix_svd, (), {'A': A, 'r': 2, 'e': 0.1}, [A])))
    res.append((('matrix_svd', '1d'),
        _run(teneva.matrix_svd, (np.ones(4),), {}, [])))
    res.append((('matrix_svd', 'nan-matrix'),
        _run(teneva.matrix_svd, (np.full((3, 4), np.nan),), {}, [])))
    return res


def tensors(teneva):
    import numpy as np
    rng = np.random.default_rng(777)
    out = []
    out.append(('d2', _tt(rng, [5, 6], [3])))
    out.append(('d2-r1', _tt(rng, [4, 4], [1])))
    out.append(('d2-over', _tt(rng, [3, 4], [9])))
    out.append(('d3', _tt(rng, [4, 5, 6], [3, 4])))
    out.append(('d3-over', _tt(rng, [3, 3, 3], [7, 8])))
    out.append(('d3-r1', _tt(rng, [5, 4, 3], [1, 1])))
    out.append(('d3-mixed', _tt(rng, [6, 2, 7], [1, 5])))
    out.append(('d4', _tt(rng, [4, 3, 5, 4], [2, 6, 3])))
    out.append(('d4-n1', _tt(rng, [1, 4, 1, 5], [2, 3, 2])))
    out.append(('d5', _tt(rng, [3, 4, 3, 4, 3], [3, 5, 5, 2])))
    out.append(('d6-over', _tt(rng, [2] * 6, [4, 8, 12, 8, 4])))
    out.append(('d8', _tt(rng, [3] * 8, [2, 4, 5, 6, 5, 4, 2])))
    out.append(('big', _tt(rng, [4, 5, 4], [3, 3], scale=1.E+9)))
    out.append(('small', _tt(rng, [4, 5, 4], [3, 3], scale=1.E-9)))
    out.append(('decay', _tt_spectrum(rng, [6, 6, 6, 6], [5, 6, 5], 0.1)))
    out.append(('decay-slow', _tt_spectrum(rng, [5, 5, 5], [5, 5], 0.7)))
    Y = _tt(rng, [4, 5, 3, 4], [2, 3, 2])
    out.append(('doubled', teneva.add(Y, Y)))
    out.append(('diff-zero', teneva.sub(Y, Y)))
    out.append(('zero', [np.zeros((1, 3, 2)), np.zeros((2, 4, 2)),
        np.zeros((2, 3, 1))]))
    out.append(('d1', [rng.normal(size=(1, 5, 1))]))
    out.append(('fortran', [np.asfortranarray(G)
        for G in _tt(rng, [4, 3, 5], [3, 4])]))
    out.append(('f32', [G.astype(np.float32)
        for G in _tt(rng, [4, 3, 5], [3, 4])]))
    out.append(('int', [rng.integers(-2, 3, size=G.shape)
        for G in _tt(rng, [3, 4, 3], [2, 3])]))
    return out


def scenarios_truncate(teneva):
    import numpy as np
    res = []
    for name, Y in tensors(teneva):
        e_list = [1.E-14, 1.E-10, 1.E-5, 1.E-2, 0.1, 0.3, 0.9, 0.999999]
        for t in _thresholds(Y):
            e_list += [t * (1 - 1.E-9), t, t * (1 + 1.E-9)]
        r_list = [1.E+12, 1, 2, 3, 5, 0, 2.5]
        flags = list(itertools.product([True, False], repeat=3))
        for e in e_list:
            for r in r_list:
                for (orth, use_stab, is_eigh) in flags:
                    Y_arg = [G.copy(order='K') for G in Y]
                    key = ('truncate', name, float(e), r, orth, use_stab,
                        is_eigh)
                    res.append((key, _run(teneva.truncate, (Y_arg, e, r),
                        {'orth': orth, 'use_stab': use_stab,
                        'is_eigh': is_eigh}, [Y_arg])))
    Y = tensors(teneva)[3][1]
    res.append((('truncate', 'defaults'),
        _run(teneva.truncate, (Y,), {}, [Y])))
    res.append((('truncate', 'positional'),
        _run(teneva.truncate, (Y, 1.E-2, 2, True, True, False), {}, [Y])))
    res.append((('truncate', 'tuple-input'),
        _run(teneva.truncate, (tuple(Y), 1.E-2, 2), {}, [Y])))
    for orth, use_stab in itertools.product([True, False], repeat=2):
        res.append((('truncate', 'empty', orth, use_stab),
            _run(teneva.truncate, ([], 1.E-2, 2, orth, use_stab), {}, [])))
    for r in [float('inf'), float('nan'), None]:
        for is_eigh in [True, False]:
            res.append((('truncate', 'bad-r', repr(r), is_eigh),
                _run(teneva.truncate, (Y, 1.E-2, r),
                {'is_eigh': is_eigh}, [Y])))
    bad = [G.copy() for G in Y]
    bad[0] = bad[0][0]
    for orth in [True, False]:
        res.append((('truncate', 'bad-core0', orth),
            _run(teneva.truncate, (bad, 1.E-2, 2, orth), {}, [bad])))
    bad = [G.copy() for G in Y]
    bad[1] = bad[1][:-1]
    for orth in [True, False]:
        res.append((('truncate', 'rank-mismatch', orth),
            _run(teneva.truncate, (bad, 1.E-2, 2, orth), {}, [bad])))
    return res


def scenarios_add_many(teneva):
    import numpy as np
    rng = np.random.default_rng(4242)
    res = []
    n = [4, 3, 5, 4]

    def many(cnt, with_nums=False, scale=1.):
        Ys = [_tt(rng, n, rng.integers(1, 4, size=len(n) - 1), scale)
            for _ in range(cnt)]
        if with_nums:
            Ys[1::3] = [float(i) - 1.5 for i in range(len(Ys[1::3]))]
        return Ys

    sets = [
        ('one', many(1)),
        ('two', many(2)),
        ('five', many(5)),
        ('seventeen', many(17)),
        ('thirty-one', many(31)),
        ('with-nums', many(7, True)),
        ('num-first', [2.5] + many(4)),
        ('nums-then-tt', [1, 2., 3] + many(3)),
        ('only-nums', [1, 2.5, -3]),
        ('one-num', [4.]),
        ('big', many(6, scale=1.E+7)),
        ('same', [many(1)[0]] * 8),
    ]
    Y = many(1)[0]
    sets.append(('cancel', [Y, teneva.mul(-1., Y), many(1)[0]]))
    for name, Ys in sets:
        for e in [1.E-10, 1.E-4, 1.E-1, 0.5]:
            for r in [1.E+12, 1, 3]:
                for tf in [15, 1, 2, 3, 4, 100]:
                    arg = [([G.copy() for G in T] if isinstance(T, list)
                        else T) for T in Ys]
                    res.append((('add_many', name, e, r, tf),
                        _run(teneva.add_many, (arg, e, r, tf), {}, [arg])))
    Ys = sets[2][1]
    res.append((('add_many', 'defaults'),
        _run(teneva.add_many, (Ys,), {}, [Ys])))
    res.append((('add_many', 'tuple'),
        _run(teneva.add_many, (tuple(Ys), 1.E-3, 2, 2), {}, [Ys])))
    res.append((('add_many', 'kw'),
        _run(teneva.add_many, (), {'Y_many': Ys, 'trunc_freq': 2, 'r': 2,
        'e': 1.E-2}, [Ys])))
    res.append((('add_many', 'empty'),
        _run(teneva.add_many, ([],), {}, [])))
    for tf in [0, 0., -2, 2.5, None, np.int64(2), np.int64(0)]:
        res.append((('add_many', 'tf', repr(tf)),
            _run(teneva.add_many, (Ys, 1.E-3, 3, tf), {}, [Ys])))
        res.append((('add_many', 'tf-nums', repr(tf)),
            _run(teneva.add_many, ([1., 2, 3], 1.E-3, 3, tf), {}, [])))
    res.append((('add_many', 'shape-mismatch'),
        _run(teneva.add_many, ([Ys[0], _tt(rng, [4, 3, 5], [2, 2])],),
        {}, [])))
    return res


def worker(root, fpath):
    os.chdir(root)
    sys.path[:] = [p for p in sys.path if os.path.abspath(p or '.') not in
        (ORIG, TWIN, os.path.dirname(os.path.abspath(__file__)))]
    sys.path.insert(0, root)
    import teneva
    assert os.path.abspath(teneva.__file__).startswith(root + '/'), \
        teneva.__file__
    res = []
    res += scenarios_matrix_svd(teneva)
    res += scenarios_truncate(teneva)
    res += scenarios_add_many(teneva)
    with open(fpath, 'wb') as f:
        pickle.dump({'file': teneva.__file__, 'res': res}, f)


# ----------------------------------------------------------------------------
# Comparison part
# ----------------------------------------------------------------------------


class Stat:
    def __init__(self):
        self.bitwise = 0
        self.close = 0
        self.maxdiff = 0.
        self.errors = []


def _cmp(a, b, stat, path):
    """Compare two packed values; return True if they agree."""
    import numpy as np
    if a[0] != b[0]:
        stat.errors.append((path, 'kind %s vs %s' % (a[0], b[0])))
        return False
    if a[0] == 'arr':
        if a[1] != b[1] or a[2] != b[2]:
            stat.errors.append((path, 'shape/dtype %s %s vs %s %s' % (
                a[1], a[2], b[1], b[2])))
            return False
        x, y = a[3], b[3]
        if x.tobytes() == y.tobytes():
            stat.bitwise += 1
            return True
        scale = max(float(np.max(np.abs(x), initial=0.)), 1.E-300)
        ok = np.allclose(x, y, rtol=RTOL, atol=RTOL * scale, equal_nan=True)
        if ok:
            stat.close += 1
            with np.errstate(all='ignore'):
                stat.maxdiff = max(stat.maxdiff,
                    float(np.nanmax(np.abs(x - y)) / scale))
            return True
        stat.errors.append((path, 'values differ'))
        return False
    if a[0] in ('list', 'tuple'):
        if len(a[1]) != len(b[1]):
            stat.errors.append((path, 'length'))
            return False
        return all([_cmp(u, v, stat, path + (i,))
            for i, (u, v) in enumerate(zip(a[1], b[1]))])
    if a != b and not (a[0] == 'py' and a[2] != a[2] and b[2] != b[2]):
        stat.errors.append((path, '%r vs %r' % (a, b)))
        return False
    return True


def compare(res_o, res_t):
    stat = Stat()
    if len(res_o) != len(res_t):
        stat.errors.append(((), 'different number of scenarios'))
        return stat, 0, 0
    n_exc = 0
    n_mut = 0
    for (key_o, o), (key_t, t) in zip(res_o, res_t):
        if key_o != key_t and repr(key_o) != repr(key_t):
            stat.errors.append((key_o, 'scenario keys differ'))
            continue
        key = key_o
        if o['out'][0] != t['out'][0]:
            stat.errors.append((key, 'outcome %r vs %r' % (
                o['out'][:2], t['out'][:2])))
        elif o['out'][0] == 'exc':
            n_exc += 1
            if o['out'] != t['out']:
                stat.errors.append((key, 'exception %r vs %r' % (
                    o['out'], t['out'])))
        else:
            _cmp(o['out'][1], t['out'][1], stat, key + ('result',))
        if o['warn'] != t['warn']:
            stat.errors.append((key, 'warnings %r vs %r' % (
                o['warn'], t['warn'])))
        # Mutation behaviour of the arguments: same state afterwards in both
        # packages (and count the cases where the argument was changed)
        _cmp(o['arg_after'], t['arg_after'], stat, key + ('arg_after',))
        s2 = Stat()
        _cmp(o['arg_before'], o['arg_after'], s2, key)
        if s2.errors or s2.close:
            n_mut += 1
            s3 = Stat()
            _cmp(t['arg_before'], t['arg_after'], s3, key)
            if not (s3.errors or s3.close):
                stat.errors.append((key, 'only original mutates argument'))
        else:
            s3 = Stat()
            _cmp(t['arg_before'], t['arg_after'], s3, key)
            if s3.errors or s3.close:
                stat.errors.append((key, 'only twin mutates argument'))
    return stat, n_exc, n_mut


def main():
    tmp = tempfile.mkdtemp(prefix='equivC02_')
    paths = {}
    for tag, root in [('orig', ORIG), ('twin', TWIN)]:
        paths[tag] = os.path.join(tmp, tag + '.pkl')
        env = dict(os.environ)
        env.pop('PYTHONPATH', None)
        env['PYTHONDONTWRITEBYTECODE'] = '1'
        proc = subprocess.run([sys.executable, os.path.abspath(__file__),
            '--worker', root, paths[tag]], cwd=root, env=env)
        if proc.returncode != 0:
            print('worker failed for', tag)
            return 1
    data = {}
    for tag in paths:
        with open(paths[tag], 'rb') as f:
            data[tag] = pickle.load(f)
    print('original package :', data['orig']['file'])
    print('refactored package:', data['twin']['file'])
    if data['orig']['file'] == data['twin']['file']:
        print('both workers imported the same package')
        return 1

    stat, n_exc, n_mut = compare(data['orig']['res'], data['twin']['res'])
    names = {}
    for key, _ in data['orig']['res']:
        names[key[0]] = names.get(key[0], 0) + 1
    print('scenarios:', sum(names.values()), names)
    print('scenarios ending in an (identical) exception:', n_exc)
    print('scenarios where the argument is mutated (in both):', n_mut)
    print('arrays equal bit-for-bit:', stat.bitwise)
    print('arrays equal only up to rtol=%g: %d (max rel diff %.3e)' % (
        RTOL, stat.close, stat.maxdiff))
    print('disagreements:', len(stat.errors))
    for err in stat.errors[:30]:
        print('  ', err)
    return 1 if stat.errors else 0


if __name__ == '__main__':
    if len(sys.argv) == 4 and sys.argv[1] == '--worker':
        worker(sys.argv[2], sys.argv[3])
        sys.exit(0)
    sys.exit(main())
