"""Equivalence demonstration for the C13 refactoring (teneva/anova.py).

Refactored: ANOVA.build_2, ANOVA.cores_1, ANOVA.cores_2, _second_order_2_tt.

The same deterministic scenario list is run in two subprocesses, one importing
the pristine package (cwd = /tmp/twinsA/C13/orig) and one importing the
refactored package (cwd = /tmp/wt/C13). Each dumps its results into a pickle;
the parent compares the two pickles. Exit code 0 <=> everything agrees.

Usage: /venv/bin/python /tmp/twinsA/C13/equiv.py
"""
import itertools
import os
import pickle
import subprocess
import sys
import tempfile


ORIG = '/tmp/twinsA/C13/orig'
REFA = os.environ.get('EQUIV_REFA', '/tmp/wt/C13')
RTOL = 1.E-12
ATOL = 1.E-14


# ---------------------------------------------------------------------------
# Worker part (runs with cwd = root of the package to be imported)
# ---------------------------------------------------------------------------


def norm(obj):
    """Turn a result into a canonical picklable structure."""
    import numpy as np
    if isinstance(obj, np.ndarray):
        return ('nd', str(obj.dtype), tuple(obj.shape), np.array(obj))
    if isinstance(obj, np.generic):
        return ('npscalar', type(obj).__name__, obj.item())
    if isinstance(obj, dict):
        items = [(repr(k), type(k).__name__, norm(v)) for k, v in obj.items()]
        # insertion order is part of the behaviour (max() iterates over it)
        return ('dict', items)
    if isinstance(obj, (list, tuple)):
        return (type(obj).__name__, [norm(v) for v in obj])
    if isinstance(obj, (int, float, bool, str, type(None))):
        return ('py', type(obj).__name__, obj)
    return ('repr', type(obj).__name__, repr(obj))


def attempt(fn):
    try:
        return ('ok', norm(fn()))
    except Exception as e:  # noqa
        return ('exc', type(e).__name__, str(e))


def make_samples(kind, shapes, m, rng, idtype):
    import numpy as np
    d = len(shapes)
    if kind == 'grid':
        I = np.array(list(itertools.product(*[range(n) for n in shapes])))
    elif kind == 'sparse':
        I = np.vstack([rng.integers(0, n, size=m) for n in shapes]).T
    elif kind == 'dups':
        I = np.vstack([rng.integers(0, n, size=m) for n in shapes]).T
        I = np.vstack([I, I[: max(1, m // 2)], I[:1], I[:1]])
    elif kind == 'shifted':
        # index values that are not 0..n-1 (domain = observed values only)
        I = np.vstack([3 + 2 * rng.integers(0, n, size=m) for n in shapes]).T
    else:
        raise ValueError(kind)
    I = I.astype(idtype)
    return I


def make_values(vkind, I, rng):
    import numpy as np
    I = np.asarray(I, dtype=float)
    if vkind == 'additive':
        return 0.7 + sum(np.sin(0.9 * (k + 1) * I[:, k] + k)
            for k in range(I.shape[1]))
    if vkind == 'random':
        return rng.normal(size=I.shape[0]) * 10.
    if vkind == 'pair':
        y = 0.3 + sum(np.cos(I[:, k] + k) for k in range(I.shape[1]))
        for k in range(I.shape[1] - 1):
            y = y + 0.5 * I[:, k] * I[:, k + 1]
        return y
    if vkind == 'const':
        return np.full(I.shape[0], 2.5)
    if vkind == 'zeros':
        return np.zeros(I.shape[0])
    if vkind == 'intvals':
        return rng.integers(-5, 6, size=I.shape[0])
    if vkind == 'huge':
        return rng.normal(size=I.shape[0]) * 1.E+150
    raise ValueError(vkind)


def all_indices(an, cap=400):
    import numpy as np
    I = np.array(list(itertools.islice(itertools.product(*an.domain), cap)))
    return I


def worker(fout):
    sys.path[0] = os.getcwd()
    import numpy as np
    import teneva
    import importlib
    mod = importlib.import_module('teneva.anova')
    assert hasattr(mod, 'ANOVA') and hasattr(mod, '_second_order_2_tt')
    assert os.path.dirname(os.path.dirname(os.path.abspath(teneva.__file__))) \
        == os.path.abspath(os.getcwd()), teneva.__file__

    res = {'__file__': teneva.__file__}

    def put(name, fn):
        assert name not in res, name
        res[name] = attempt(fn)

    configs = [
        # (shapes, kinds)
        ((2, 2), ['grid', 'sparse', 'dups']),
        ((3, 4), ['grid', 'sparse', 'dups', 'shifted']),
        ((5, 1, 3), ['grid', 'sparse']),
        ((4, 4, 4), ['grid', 'sparse', 'dups', 'shifted']),
        ((2, 3, 4, 2), ['grid', 'sparse', 'dups']),
        ((3, 3, 3, 3, 3), ['sparse', 'dups']),
        ((2, 5, 2, 3, 2, 4), ['sparse']),
        ((6,), ['grid', 'sparse']),            # d = 1 (outside quantifier)
        ((7, 2, 2, 2, 2, 2, 2), ['sparse']),
    ]
    vkinds = ['additive', 'random', 'pair', 'const', 'zeros', 'intvals', 'huge']

    sc = 0
    for shapes, kinds in configs:
        for kind in kinds:
            for vi, vkind in enumerate(vkinds):
                sc += 1
                rng = np.random.default_rng(1000 + sc)
                idtype = [np.int64, np.int32, np.float64, np.uint8][sc % 4]
                m = [3, 12, 40, 150][sc % 4]
                I = make_samples(kind, shapes, m, rng, idtype)
                y = make_values(vkind, I, rng)
                I0, y0 = I.copy(), np.array(y, copy=True)
                d = len(shapes)

                for order in (1, 2):
                    tag = f'{shapes}/{kind}/{vkind}/o{order}'
                    seed = 7 * sc + order
                    try:
                        an = mod.ANOVA(I, y, order=order, seed=seed)
                    except Exception as e:
                        res[tag + '/init'] = ('exc', type(e).__name__, str(e))
                        continue

                    # --- build_0 / build_1 / build_2 results
                    put(tag + '/model', lambda: [an.f0, an.f1, an.f2,
                        an.shapes, an.domain, str(an.dtype), an.y_min, an.y_max])
                    put(tag + '/f_arr', lambda: [an.f1_arr, an.f2_arr])
                    put(tag + '/args_untouched', lambda: [
                        bool(np.array_equal(I, I0)), str(I.dtype),
                        bool(np.array_equal(y, y0)), str(np.asarray(y).dtype)])

                    # --- consumers of f1 / f2
                    put(tag + '/call_all', lambda: an(all_indices(an)))
                    put(tag + '/max', lambda: list(an.max()))
                    put(tag + '/min', lambda: list(an.max(min)))

                    # --- direct re-build (idempotence, same cache behaviour)
                    def rebuild():
                        an.build_1(I, np.asarray(y, dtype=float))
                        an.build_2(I, np.asarray(y, dtype=float))
                        return [an.f1, an.f2]
                    if order == 2 and vi % 3 == 0:
                        put(tag + '/rebuild', rebuild)

                    # --- cores_1: values, shapes, dtypes, random stream
                    rn_list = [(1, 1.E-10), (2, 1.E-10), (2, 0.), (2, 0),
                        (3, 1.E-3), (5, 0.5), (0, 1.E-10)]
                    for r, noise in (rn_list if vi < 3 else rn_list[1:3]):
                        def run_c1():
                            a = mod.ANOVA(I, y, order=order, seed=seed + r)
                            out = attempt(lambda: a.cores_1(r, noise))
                            after = a.rand.normal(size=3)
                            cached = hasattr(a, '_f1_arr')
                            return [out, after, cached]
                        put(tag + f'/cores_1/r{r}/n{noise!r}', run_c1)

                    put(tag + '/cores_1/defaults', lambda: mod.ANOVA(I, y,
                        order=order, seed=seed).cores_1())
                    put(tag + '/cores_1/kw', lambda: mod.ANOVA(I, y,
                        order=order, seed=seed).cores_1(noise=1.E-2, r=4))

                    # --- cores_2 (also on order-1 objects -> exception)
                    for only_near in (False, True, 0, 1):
                        def run_c2():
                            a = mod.ANOVA(I, y, order=order, seed=seed)
                            out = attempt(lambda: a.cores_2(2, only_near))
                            after = a.rand.normal(size=2)
                            return [out, after, hasattr(a, '_f2_arr')]
                        put(tag + f'/cores_2/near{only_near!r}', run_c2)
                    put(tag + '/cores_2/defaults', lambda: mod.ANOVA(I, y,
                        order=order, seed=seed).cores_2())

                    # --- full pipeline
                    if d <= 5:
                        for r in ([1, 2, 3, 6] if vi < 3 else [2]):
                            for kw in ({}, {'only_near': True},
                                    {'rel_noise': 1.E-3}, {'noise': 0.}):
                                def run_full():
                                    a = mod.ANOVA(I, y, order=order, seed=seed)
                                    Y = a.cores(r, **kw)
                                    full = teneva.full(Y) if d <= 4 else None
                                    return [Y, teneva.ranks(Y), full,
                                        a.rand.normal(size=2)]
                                put(tag + f'/cores/r{r}/{sorted(kw.items())}',
                                    run_full)
                        put(tag + '/anova_fn', lambda: teneva.anova(I, y, 3,
                            order, 1.E-6, seed))
                        put(tag + '/anova_fn_seedgen', lambda: teneva.anova(I, y,
                            r=2, order=order, seed=np.random.default_rng(5)))

                    # --- sample (consumer; uses rand)
                    if vi < 2:
                        put(tag + '/sample', lambda: [mod.ANOVA(I, y,
                            order=order, seed=seed).sample() for _ in range(2)])

    # --- build_2 / build_1 called in unusual states
    rng = np.random.default_rng(99)
    I = make_samples('sparse', (3, 4, 2), 30, rng, np.int64)
    y = make_values('random', I, rng)

    def b2_without_f1():
        a = mod.ANOVA(I, y, order=1, seed=0)
        a.f1 = []
        out = attempt(lambda: a.build_2(I, y))
        return [out, a.f2]
    put('edge/build_2_without_f1', b2_without_f1)

    def b2_short_f1():
        a = mod.ANOVA(I, y, order=1, seed=0)
        a.f1 = a.f1[:1]
        out = attempt(lambda: a.build_2(I, y))
        return [out, a.f2]
    put('edge/build_2_short_f1', b2_short_f1)

    def b2_on_order1():
        a = mod.ANOVA(I, y, order=1, seed=0)
        a.build_2(I, y)
        return [a.f2, a.f2_arr]
    put('edge/build_2_on_order1', b2_on_order1)

    def b2_list_y():
        a = mod.ANOVA(I, y, order=1, seed=0)
        return attempt(lambda: a.build_2(I, list(y)))
    put('edge/build_2_list_y', b2_list_y)

    def b2_other_data():
        a = mod.ANOVA(I, y, order=2, seed=0)
        J = I[::2]
        a.build_2(J, y[::2])   # some pairs become empty -> value 0
        return a.f2
    put('edge/build_2_subsampled', b2_other_data)

    def b2_nan():
        yy = y.copy()
        yy[::5] = np.nan
        a = mod.ANOVA(I, yy, order=2, seed=0)
        return [a.f0, a.f1, a.f2]
    put('edge/build_2_nan_values', b2_nan)

    put('edge/order0', lambda: mod.ANOVA(I, y, order=0))
    put('edge/order3', lambda: mod.ANOVA(I, y, order=3))
    put('edge/no_data', lambda: mod.ANOVA())

    def only_near_mismatch():
        # shapes (3, 4, 2): f2_arr[1] belongs to the pair (0, 2) but is used
        # for (1, 2) when only_near=True -> reshape error; keep the exception.
        a = mod.ANOVA(I, y, order=2, seed=0)
        return [attempt(lambda: a.cores_2(2, True)),
            attempt(lambda: a.cores(2, only_near=True))]
    put('edge/only_near_mismatch', only_near_mismatch)

    def shapes_as_list():
        a = mod.ANOVA(I, y, order=2, seed=3)
        a.shapes = [int(n) for n in a.shapes]
        return [a.cores_1(3, 0.1), a.cores_2(), a.cores(4)]
    put('edge/shapes_as_list', shapes_as_list)

    # --- _second_order_2_tt directly
    rng = np.random.default_rng(4242)
    mats = {
        'rand': lambda m, n: rng.normal(size=(m, n)),
        'rank1': lambda m, n: np.outer(rng.normal(size=m), rng.normal(size=n)),
        'zero': lambda m, n: np.zeros((m, n)),
        'ones': lambda m, n: np.ones((m, n)),
        'int': lambda m, n: rng.integers(-3, 4, size=(m, n)),
        'fortran': lambda m, n: np.asfortranarray(rng.normal(size=(m, n))),
        'tiny': lambda m, n: 1.E-13 * rng.normal(size=(m, n)),
    }
    shape_list = [(2, 2), (3, 5), (4, 1, 3), (2, 3, 4, 5), (3, 3, 3, 3, 3),
        (1, 1, 1), (5, 2, 6, 2, 4, 3)]
    for shapes in shape_list:
        d = len(shapes)
        for i in range(-1, d + 1):
            for j in range(-1, d + 1):
                for mk, mf in mats.items():
                    ii, jj = i % d, j % d
                    A = mf(shapes[ii], shapes[jj])
                    A0 = A.copy()

                    def run_so():
                        out = attempt(lambda: mod._second_order_2_tt(
                            A, i, j, shapes))
                        same = bool(np.array_equal(A, A0)) and \
                            A.flags['F_CONTIGUOUS'] == A0.flags['F_CONTIGUOUS']
                        return [out, same]
                    put(f'so2tt/{shapes}/{i},{j}/{mk}', run_so)

                    if mk == 'rand' and 0 <= i < j < d:
                        def run_so_full():
                            Y = mod._second_order_2_tt(A, i, j,
                                np.array(shapes))
                            return [Y, teneva.full(Y)]
                        put(f'so2tt_full/{shapes}/{i},{j}', run_so_full)
                        put(f'so2tt_kw/{shapes}/{i},{j}', lambda:
                            mod._second_order_2_tt(shapes=list(shapes), j=j,
                                i=i, A=A))

    put('so2tt/bad_matrix_1d', lambda: mod._second_order_2_tt(
        np.ones(3), 0, 1, (3, 3)))
    put('so2tt/nan_matrix', lambda: mod._second_order_2_tt(
        np.full((3, 3), np.nan), 0, 1, (3, 3)))
    put('so2tt/empty_shapes', lambda: mod._second_order_2_tt(
        np.ones((2, 2)), 0, 1, ()))

    with open(fout, 'wb') as f:
        pickle.dump(res, f, protocol=pickle.HIGHEST_PROTOCOL)


# ---------------------------------------------------------------------------
# Comparison part
# ---------------------------------------------------------------------------


class Stats:
    arrays = 0
    bitwise = 0
    maxrel = 0.


def compare(a, b, path, errs):
    import numpy as np
    if type(a) is not type(b):
        errs.append(f'{path}: type {type(a).__name__} vs {type(b).__name__}')
        return
    if isinstance(a, np.ndarray):
        Stats.arrays += 1
        if a.dtype != b.dtype or a.shape != b.shape:
            errs.append(f'{path}: {a.dtype}{a.shape} vs {b.dtype}{b.shape}')
            return
        if a.dtype == object:
            if not all(x == y for x, y in zip(a.ravel(), b.ravel())):
                errs.append(f'{path}: object arrays differ')
            return
        if a.tobytes() == b.tobytes():
            Stats.bitwise += 1
            return
        if not np.allclose(a, b, rtol=RTOL, atol=ATOL, equal_nan=True):
            errs.append(f'{path}: arrays differ, max abs diff '
                f'{np.nanmax(np.abs(a - b))}')
        return
    if isinstance(a, (tuple, list)):
        if len(a) != len(b):
            errs.append(f'{path}: len {len(a)} vs {len(b)}')
            return
        for k, (x, y) in enumerate(zip(a, b)):
            compare(x, y, f'{path}[{k}]', errs)
        return
    if isinstance(a, float):
        if a == b or (a != a and b != b):
            return
        if abs(a - b) <= ATOL + RTOL * abs(b):
            return
        errs.append(f'{path}: {a!r} vs {b!r}')
        return
    if a != b:
        errs.append(f'{path}: {a!r} vs {b!r}')


def main():
    tmp = tempfile.mkdtemp(prefix='equivC13_')
    outs, stdouts = [], []
    for name, cwd in (('orig', ORIG), ('refa', REFA)):
        fout = os.path.join(tmp, name + '.pkl')
        env = dict(os.environ, PYTHONDONTWRITEBYTECODE='1',
            PYTHONWARNINGS='ignore')
        env.pop('PYTHONPATH', None)
        p = subprocess.run([sys.executable, os.path.abspath(__file__),
            '--worker', fout], cwd=cwd, env=env, stdout=subprocess.PIPE)
        if p.returncode != 0:
            print(f'worker {name} failed with code {p.returncode}')
            return 1
        outs.append(fout)
        stdouts.append(p.stdout)

    with open(outs[0], 'rb') as f:
        ro = pickle.load(f)
    with open(outs[1], 'rb') as f:
        rr = pickle.load(f)

    fo, fr = ro.pop('__file__'), rr.pop('__file__')
    print('original  :', fo)
    print('refactored:', fr)
    if not fo.startswith(ORIG + '/') or not fr.startswith(REFA + '/'):
        print('wrong packages were imported')
        return 1

    errs = []
    print(f'worker stdout (printed warnings): {len(stdouts[0].splitlines())} '
        f'vs {len(stdouts[1].splitlines())} lines')
    if stdouts[0] != stdouts[1]:
        errs.append('printed output differs')
    if list(ro) != list(rr):
        errs.append('scenario lists differ')
    n_exc = 0
    for k in ro:
        if k not in rr:
            continue
        n_exc += str(ro[k]).count("'exc'") > 0
        compare(ro[k], rr[k], k, errs)

    print(f'scenarios: {len(ro)}; with exceptions inside: {n_exc}; '
        f'arrays compared: {Stats.arrays}; bitwise identical: {Stats.bitwise}')
    if errs:
        print(f'MISMATCHES: {len(errs)}')
        for e in errs[:40]:
            print('  ', e)
        return 1
    print('OK: original and refactored code agree on all scenarios')
    return 0


if __name__ == '__main__':
    if len(sys.argv) == 3 and sys.argv[1] == '--worker':
        worker(sys.argv[2])
        sys.exit(0)
    sys.exit(main())
