"""Equivalence demonstration for the C03 refactoring of teneva/svd.py.

Runs one deterministic scenario list in two subprocesses (pristine copy in
/tmp/twinsA/C03/orig and the refactored worktree /tmp/wt/C03), dumps the
results to pickles and compares them. Exit code 0 = everything agrees.
"""
import os
import pickle
import subprocess
import sys
import tempfile

import numpy as np


ROOT_ORIG = '/tmp/twinsA/C03/orig'
ROOT_NEW = '/tmp/wt/C03'
RTOL = 1.E-12
ATOL_REL = 1.E-13  # absolute tolerance relative to the magnitude of the data


# --------------------------------------------------------------------------
# Worker: executed in a subprocess with the package root as argv[2].
# --------------------------------------------------------------------------


def _pack(x):
    """Make a picklable, comparable description of a result."""
    if isinstance(x, np.ndarray):
        return ('arr', x.shape, str(x.dtype), np.array(x))
    if isinstance(x, (list, tuple)):
        return (type(x).__name__, [_pack(y) for y in x])
    if isinstance(x, (np.floating, np.integer)):
        return ('scalar', type(x).__name__, x.item())
    return ('obj', type(x).__name__, x)


def _call(func, *args, **kwargs):
    """Call func; report result or exception, and mutation of array args."""
    before = [np.array(a) if isinstance(a, np.ndarray) else None for a in args]
    flags = [(a.flags['C_CONTIGUOUS'], a.flags['F_CONTIGUOUS'], a.shape,
        str(a.dtype)) if isinstance(a, np.ndarray) else None for a in args]
    with np.errstate(all='ignore'):
        try:
            res = ('ok', _pack(func(*args, **kwargs)))
        except Exception as exc:
            res = ('exc', type(exc).__name__)
    same = []
    for a, b, f in zip(args, before, flags):
        if b is None:
            same.append(None)
        else:
            same.append(bool(np.array_equal(a, b, equal_nan=True)
                if a.dtype.kind in 'fc' else np.array_equal(a, b))
                and f == (a.flags['C_CONTIGUOUS'], a.flags['F_CONTIGUOUS'],
                    a.shape, str(a.dtype)))
    return res, same


def _aliases(res, arg):
    """True if any returned array shares memory with the argument."""
    out = []

    def walk(x):
        if isinstance(x, np.ndarray):
            out.append(bool(np.shares_memory(x, arg)))
        elif isinstance(x, (list, tuple)):
            for y in x:
                walk(y)
    walk(res)
    return out


def _rand_matrix(rng, m, n, rank=None, scale=1., decay=None):
    if rank is None:
        A = rng.normal(size=(m, n))
    else:
        A = rng.normal(size=(m, rank)) @ rng.normal(size=(rank, n))
    if decay is not None:
        U, s, V = np.linalg.svd(A, full_matrices=False)
        s = decay ** np.arange(len(s))
        A = (U * s) @ V
    return A * scale


def _rand_tt_full(teneva, rng, n, r, scale=1.):
    d = len(n)
    rr = [1] + list(r) + [1]
    Y = [rng.normal(size=(rr[i], n[i], rr[i+1])) for i in range(d)]
    return teneva.full(Y) * scale


def scenarios(teneva):
    out = {}

    def rec(name, func, *args, **kwargs):
        assert name not in out, name
        out[name] = _call(func, *args, **kwargs)

    # ------------------------------------------------------ matrix_skeleton
    rng = np.random.default_rng(12345)
    shapes = [(1, 1), (1, 7), (7, 1), (2, 2), (5, 5), (4, 9), (9, 4),
        (12, 30), (30, 12), (16, 16)]
    k = 0
    for (m, n) in shapes:
        for rank in [None, 1, 2, 3]:
            if rank is not None and rank > min(m, n):
                continue
            for scale in [1.E-6, 1., 1.E+6]:
                A = _rand_matrix(rng, m, n, rank, scale)
                for e in [1.E-14, 1.E-10, 1.E-3, 0.5, 3., 1.E+3]:
                    for r in [1, 2, 5, 100, 1.E+12, 2.7]:
                        for give_to in ['m', 'l', 'r']:
                            k += 1
                            if k % 7 not in (0, 3):  # thin out the grid
                                continue
                            for rel in [False, True]:
                                rec(f'msk/{m}x{n}/rk{rank}/s{scale}/e{e}/r{r}'
                                    f'/{give_to}/rel{rel}',
                                    teneva.matrix_skeleton, A, e * scale
                                    if not rel else e, r, rel=rel,
                                    give_to=give_to)

    # decaying spectra: rank selection really depends on e
    for (m, n) in [(8, 8), (10, 20), (20, 10)]:
        for decay in [0.5, 0.1, 0.9]:
            A = _rand_matrix(rng, m, n, decay=decay)
            for e in [1.E-8, 1.E-4, 1.E-2, 1.E-1, 0.3, 1., 2.]:
                for give_to in ['m', 'l', 'r', 'x', '', None]:
                    for rel in [False, True]:
                        rec(f'msk-decay/{m}x{n}/{decay}/e{e}/{give_to}/{rel}',
                            teneva.matrix_skeleton, A, e, 6, False, rel,
                            give_to)
                        rec(f'msk-decay-def/{m}x{n}/{decay}/e{e}/{give_to}'
                            f'/{rel}', teneva.matrix_skeleton, A, e=e,
                            rel=rel, give_to=give_to)

    # defaults, hermitian, dtypes, memory layouts, degenerate inputs
    A = _rand_matrix(rng, 6, 6)
    H = A + A.T
    rec('msk/default', teneva.matrix_skeleton, A)
    for give_to in ['m', 'l', 'r']:
        rec(f'msk/herm/{give_to}', teneva.matrix_skeleton, H, 1.E-2, 4,
            hermitian=True, give_to=give_to)
        rec(f'msk/herm-rel/{give_to}', teneva.matrix_skeleton, H, 1.E-1, 9,
            True, True, give_to)
        rec(f'msk/F/{give_to}', teneva.matrix_skeleton, np.asfortranarray(A),
            1.E-1, 4, give_to=give_to)
        rec(f'msk/view/{give_to}', teneva.matrix_skeleton,
            _rand_matrix(rng, 12, 14)[::2, 1::3], 1.E-1, 3, give_to=give_to)
        rec(f'msk/int/{give_to}', teneva.matrix_skeleton,
            rng.integers(-5, 5, size=(5, 8)), 1., 3, give_to=give_to)
        rec(f'msk/f32/{give_to}', teneva.matrix_skeleton,
            A.astype(np.float32), 1.E-1, 3, give_to=give_to)
        rec(f'msk/cplx/{give_to}', teneva.matrix_skeleton,
            A + 1j * A.T, 1.E-1, 3, give_to=give_to)
        rec(f'msk/zero/{give_to}', teneva.matrix_skeleton, np.zeros((4, 5)),
            1.E-10, 3, give_to=give_to)
        rec(f'msk/zero-rel/{give_to}', teneva.matrix_skeleton,
            np.zeros((4, 5)), 1.E-10, 3, rel=True, give_to=give_to)
        rec(f'msk/r0/{give_to}', teneva.matrix_skeleton, A, 1.E-10, 0,
            give_to=give_to)
        rec(f'msk/rneg/{give_to}', teneva.matrix_skeleton, A, 1.E-10, -3,
            give_to=give_to)
        rec(f'msk/e0/{give_to}', teneva.matrix_skeleton, A, 0., 4,
            give_to=give_to)
        rec(f'msk/ebig/{give_to}', teneva.matrix_skeleton, A, 1.E+30, 4,
            give_to=give_to)
    # exceptions
    rec('msk/exc/1d', teneva.matrix_skeleton, np.ones(5))
    rec('msk/exc/nan', teneva.matrix_skeleton, np.full((3, 3), np.nan))
    rec('msk/exc/inf', teneva.matrix_skeleton, np.full((3, 3), np.inf))
    rec('msk/exc/empty', teneva.matrix_skeleton, np.zeros((0, 3)))
    rec('msk/exc/empty-rel', teneva.matrix_skeleton, np.zeros((0, 3)),
        rel=True)
    rec('msk/exc/list', teneva.matrix_skeleton, [[1., 2.], [3., 4.]])
    rec('msk/exc/rnone', teneva.matrix_skeleton, A, 1.E-3, None)
    rec('msk/exc/rinf', teneva.matrix_skeleton, A, 1.E-3, np.inf)
    rec('msk/exc/rnan', teneva.matrix_skeleton, A, 1.E-3, np.nan)
    rec('msk/exc/enone', teneva.matrix_skeleton, A, None, 3)
    rec('msk/exc/estr', teneva.matrix_skeleton, A, 'a', 3)
    rec('msk/3d', teneva.matrix_skeleton, rng.normal(size=(3, 4, 5)),
        1.E-1, 2)
    rec('msk/3d-r', teneva.matrix_skeleton, rng.normal(size=(3, 4, 5)),
        1.E-1, 2, give_to='r')

    # ------------------------------------------------------------------ svd
    rng = np.random.default_rng(777)
    tensor_shapes = [
        (3, 4), (1, 5), (5, 1), (1, 1), (7, 7),
        (2, 3, 4), (4, 3, 2), (5, 1, 5), (1, 1, 1), (6, 6, 6),
        (2, 2, 2, 2), (3, 5, 2, 4), (4, 1, 3, 2),
        (2, 3, 2, 3, 2), (3, 3, 3, 3, 3), (2, 2, 2, 2, 2, 2),
        (2, 1, 3, 1, 2, 3, 2),
    ]
    for n in tensor_shapes:
        d = len(n)
        for scale in [1.E-6, 1., 1.E+6]:
            # full-rank spectra
            Yf = rng.normal(size=n) * scale
            # exact low rank, incl. rank 1 and over-ranked cores
            variants = {'full': Yf}
            for rk in [1, 2, 9]:
                variants[f'tt{rk}'] = _rand_tt_full(teneva, rng, n,
                    [rk] * (d - 1), scale)
            variants['ttmix'] = _rand_tt_full(teneva, rng, n,
                [1 + (i % 3) for i in range(d - 1)], scale)
            for vname, Yv in variants.items():
                for e in [1.E-12, 1.E-6, 1.E-2, 0.5, 5.]:
                    for r in [1, 2, 3, 1000, 1.E+12]:
                        rec(f'svd/{n}/s{scale}/{vname}/e{e}/r{r}',
                            teneva.svd, Yv, e * scale, r)
    Yf = rng.normal(size=(3, 4, 2, 5))
    rec('svd/default', teneva.svd, Yf)
    rec('svd/kw', teneva.svd, Y_full=Yf, r=2, e=1.E-3)
    rec('svd/F', teneva.svd, np.asfortranarray(Yf), 1.E-1, 4)
    rec('svd/transposed', teneva.svd, Yf.transpose(2, 0, 3, 1), 1.E-1, 4)
    rec('svd/strided', teneva.svd, rng.normal(size=(6, 8, 4))[::2, 1::2, ::3],
        1.E-1, 4)
    rec('svd/int', teneva.svd, rng.integers(-4, 5, size=(3, 4, 5)), 1., 3)
    rec('svd/f32', teneva.svd, Yf.astype(np.float32), 1.E-2, 3)
    rec('svd/cplx', teneva.svd, Yf + 1j * Yf[::-1], 1.E-2, 3)
    rec('svd/zero', teneva.svd, np.zeros((3, 4, 5)), 1.E-8, 3)
    rec('svd/d1', teneva.svd, rng.normal(size=(5,)), 1.E-8, 3)
    rec('svd/exc/d0', teneva.svd, np.array(3.))
    rec('svd/exc/list', teneva.svd, [[1., 2.], [3., 4.]])
    rec('svd/exc/nan', teneva.svd, np.full((2, 3, 4), np.nan))
    rec('svd/exc/emptymode', teneva.svd, np.zeros((3, 0, 4)))
    rec('svd/exc/emptyfirst', teneva.svd, np.zeros((0, 3, 4)))
    rec('svd/exc/emptylast', teneva.svd, np.zeros((3, 4, 0)))
    rec('svd/exc/rnone', teneva.svd, Yf, 1.E-3, None)
    rec('svd/exc/enone', teneva.svd, Yf, None, 3)

    # aliasing: the result must not share memory with the argument
    for name, Yv in [('d1', rng.normal(size=(5,))), ('d2', rng.normal(
            size=(3, 4))), ('d3', rng.normal(size=(3, 4, 5)))]:
        with np.errstate(all='ignore'):
            out[f'svd/alias/{name}'] = (('ok', ('obj', 'list',
                _aliases(teneva.svd(Yv, 1.E-3, 2), Yv))), [True])

    # ----------------------------------------------- svd_matrix, full_matrix
    rng = np.random.default_rng(4242)
    for q in [1, 2, 3, 4, 5]:
        N = 2**q
        mats = {
            'rand': rng.normal(size=(N, N)),
            'eye': np.eye(N),
            'lapl': 2 * np.eye(N) - np.eye(N, k=1) - np.eye(N, k=-1),
            'rank1': np.outer(rng.normal(size=N), rng.normal(size=N)),
            'arange': np.arange(N * N, dtype=float).reshape(N, N),
            'F': np.asfortranarray(rng.normal(size=(N, N))),
            'T': rng.normal(size=(N, N)).T,
            'int': rng.integers(-3, 4, size=(N, N)),
        }
        for mname, M in mats.items():
            for scale in [1.E-6, 1., 1.E+6]:
                if mname == 'int' and scale != 1.:
                    continue
                Ms = M * scale if mname != 'int' else M
                for e in [1.E-12, 1.E-4, 1.E-1, 2.]:
                    for r in [1, 3, 1.E+12]:
                        rec(f'svdm/q{q}/{mname}/s{scale}/e{e}/r{r}',
                            teneva.svd_matrix, Ms, e * scale, r)

                        def roundtrip(M_, e_, r_):
                            Y = teneva.svd_matrix(M_, e_, r_)
                            return [teneva.full_matrix(Y), teneva.full(Y)]
                        rec(f'svdm-rt/q{q}/{mname}/s{scale}/e{e}/r{r}',
                            roundtrip, Ms, e * scale, r)
    M = rng.normal(size=(8, 8))
    rec('svdm/default', teneva.svd_matrix, M)
    rec('svdm/kw', teneva.svd_matrix, Y_full=M, r=2, e=1.E-2)
    rec('svdm/exc/1x1', teneva.svd_matrix, np.ones((1, 1)))
    rec('svdm/exc/3x3', teneva.svd_matrix, np.ones((3, 3)))
    rec('svdm/exc/6x6', teneva.svd_matrix, np.ones((6, 6)))
    rec('svdm/exc/4x8', teneva.svd_matrix, np.ones((4, 8)))
    rec('svdm/exc/8x4', teneva.svd_matrix, np.ones((8, 4)))
    rec('svdm/exc/1d', teneva.svd_matrix, np.ones(4))
    rec('svdm/exc/1d-16', teneva.svd_matrix, np.ones(16))
    rec('svdm/exc/3d', teneva.svd_matrix, np.ones((4, 2, 2)))
    rec('svdm/exc/empty', teneva.svd_matrix, np.ones((0, 0)))
    rec('svdm/exc/list', teneva.svd_matrix, [[1., 2.], [3., 4.]])
    rec('svdm/exc/nan', teneva.svd_matrix, np.full((4, 4), np.nan))

    # ------------------------------- callers of the refactored functions
    rng = np.random.default_rng(99)
    for n, rk in [((4, 5, 6), 3), ((3, 3, 3, 3), 4), ((2, 6, 2, 5, 3), 5)]:
        rr = [1] + [rk] * (len(n) - 1) + [1]
        Y = [rng.normal(size=(rr[i], n[i], rr[i+1])) for i in range(len(n))]
        for e in [1.E-10, 1.E-1, 1.]:
            for r in [2, 1.E+12]:
                rec(f'truncate/{n}/e{e}/r{r}', teneva.truncate, Y, e, r)
    # svd_incomplete (uses matrix_skeleton with the default give_to)
    for n, rk, seed in [((5, 6, 7), 2, 1), ((4, 4, 4, 4), 3, 2)]:
        def incomplete(n_, rk_, seed_):
            rng_ = np.random.default_rng(seed_)
            Yt = _rand_tt_full(teneva, rng_, n_, [rk_] * (len(n_) - 1))
            I, idx, idx_many = teneva.sample_tt(n_, r=rk_, seed=seed_)
            y = np.array([Yt[tuple(i)] for i in I])
            return teneva.svd_incomplete(I, y, idx, idx_many, e=1.E-10,
                r=rk_ + 1)
        rec(f'svdinc/{n}/{rk}', incomplete, n, rk, seed)

    return out


def worker(path_out, root):
    sys.path.insert(0, root)
    os.chdir(root)
    import teneva
    here = os.path.realpath(os.path.dirname(teneva.__file__))
    want = os.path.realpath(os.path.join(root, 'teneva'))
    assert here == want, (here, want)
    res = scenarios(teneva)
    with open(path_out, 'wb') as f:
        pickle.dump(res, f)


# --------------------------------------------------------------------------
# Comparison
# --------------------------------------------------------------------------


def same(a, b, path, errs):
    if type(a) is not type(b):
        errs.append(f'{path}: type {type(a)} != {type(b)}')
        return
    if isinstance(a, tuple) and len(a) == 4 and a[0] == 'arr':
        if a[1] != b[1] or a[2] != b[2]:
            errs.append(f'{path}: shape/dtype {a[1:3]} != {b[1:3]}')
            return
        x, y = a[3], b[3]
        if x.size == 0:
            return
        if x.dtype.kind in 'fc':
            fin = np.isfinite(x)
            if not np.array_equal(fin, np.isfinite(y)) or not np.array_equal(
                    np.isnan(x), np.isnan(y)):
                errs.append(f'{path}: non-finite pattern differs')
                return
            mag = np.max(np.abs(x[fin])) if fin.any() else 0.
            # float32 data are compared with float32-sized tolerance
            eps = np.finfo(x.dtype).eps / np.finfo(np.float64).eps
            if not np.allclose(x[fin], y[fin], rtol=RTOL * eps,
                    atol=ATOL_REL * eps * mag):
                errs.append(f'{path}: values differ, max abs diff '
                    f'{np.max(np.abs(x[fin] - y[fin])):.3e} (mag {mag:.3e})')
        elif not np.array_equal(x, y):
            errs.append(f'{path}: values differ')
        return
    if isinstance(a, (tuple, list)):
        if len(a) != len(b):
            errs.append(f'{path}: len {len(a)} != {len(b)}')
            return
        for i, (x, y) in enumerate(zip(a, b)):
            same(x, y, f'{path}[{i}]', errs)
        return
    if isinstance(a, float) and a != a and b != b:
        return
    if a != b:
        errs.append(f'{path}: {a!r} != {b!r}')


def main():
    tmp = tempfile.mkdtemp(prefix='equivC03_', dir='/tmp/twinsA/C03')
    paths = {}
    for tag, root in [('orig', ROOT_ORIG), ('new', ROOT_NEW)]:
        paths[tag] = os.path.join(tmp, tag + '.pkl')
        env = dict(os.environ, PYTHONDONTWRITEBYTECODE='1', PYTHONPATH='')
        p = subprocess.run([sys.executable, '-W', 'ignore',
            os.path.abspath(__file__), '--worker', paths[tag], root],
            cwd=root, env=env)
        if p.returncode != 0:
            print(f'worker {tag} failed with code {p.returncode}')
            return 1
    with open(paths['orig'], 'rb') as f:
        R0 = pickle.load(f)
    with open(paths['new'], 'rb') as f:
        R1 = pickle.load(f)
    for p in paths.values():
        os.remove(p)
    os.rmdir(tmp)

    errs = []
    if list(R0.keys()) != list(R1.keys()):
        errs.append('scenario lists differ')
    n_ok = n_exc = 0
    for name in R0:
        if name not in R1:
            continue
        (res0, mut0), (res1, mut1) = R0[name], R1[name]
        if res0[0] == 'ok':
            n_ok += 1
        else:
            n_exc += 1
        same(res0, res1, name, errs)
        if mut0 != mut1:
            errs.append(f'{name}: mutation behaviour {mut0} != {mut1}')
        if any(m is False for m in mut0):
            print(f'note: {name}: the original mutates its argument')

    print(f'scenarios: {len(R0)} ({n_ok} returning, {n_exc} raising)')
    if errs:
        print(f'DIFFERENCES: {len(errs)}')
        for e in errs[:40]:
            print('  ' + e)
        return 1
    print('all scenarios agree')
    return 0


if __name__ == '__main__':
    if len(sys.argv) == 4 and sys.argv[1] == '--worker':
        worker(sys.argv[2], sys.argv[3])
        sys.exit(0)
    sys.exit(main())
