"""Equivalence demonstration for the C01 refactoring (mean / add / mul_scalar).

The same deterministic scenario list is executed in two subprocesses, one
importing the pristine package (/tmp/twinsA/C01/orig/teneva) and one importing
the refactored package (/tmp/wt/C01/teneva). Each dumps its results to a pickle
and the parent compares the two pickles.

Exit code: 0 if everything agrees, 1 otherwise.

Usage: /venv/bin/python /tmp/twinsA/C01/equiv.py
"""
import os
import pickle
import subprocess
import sys
import tempfile

import numpy as np


HERE = os.path.dirname(os.path.abspath(__file__))
DIR_ORIG = os.path.join(HERE, 'orig')
DIR_NEW = os.environ.get('EQUIV_NEW_ROOT', '/tmp/wt/C01')  # override: self-test
RTOL = 1.E-13
ATOL = 0.


# ---------------------------------------------------------------------------
# Worker part (runs with cwd = root of one of the two package copies)
# ---------------------------------------------------------------------------


def make_tt(rng, n, r, kind='float', scale=1.):
    """Build a TT-tensor with mode sizes n and inner ranks r (len(n)-1)."""
    rr = [1] + list(r) + [1]
    Y = []
    for k in range(len(n)):
        sh = (rr[k], n[k], rr[k+1])
        if kind == 'float':
            G = rng.normal(size=sh) * scale
        elif kind == 'f32':
            G = (rng.normal(size=sh) * scale).astype(np.float32)
        elif kind == 'int':
            G = rng.randint(-3, 4, size=sh).astype(np.int64)
        elif kind == 'intf':
            G = rng.randint(-3, 4, size=sh).astype(float)
        elif kind == 'zero':
            G = np.zeros(sh)
        elif kind == 'fortran':
            G = np.asfortranarray(rng.normal(size=sh) * scale)
        else:
            raise ValueError(kind)
        Y.append(G)
    return Y


PROFILES = [
    # (mode sizes, inner ranks)
    ([3, 4], [2]),
    ([3, 4], [1]),
    ([1, 1], [1]),
    ([2, 2], [5]),              # over-ranked
    ([5, 1, 3], [2, 3]),
    ([4, 3, 2], [1, 1]),
    ([2, 3, 2], [7, 9]),        # over-ranked
    ([3, 3, 3, 3], [2, 4, 2]),
    ([2, 5, 1, 4], [3, 1, 6]),
    ([6, 2, 3, 2, 4], [2, 3, 3, 2]),
    ([2, 2, 2, 2, 2, 2], [2, 4, 8, 4, 2]),
    ([3, 2, 3, 2, 3, 2, 3], [1, 5, 1, 5, 1, 5]),
    ([30, 25, 20], [4, 5]),     # longer mode sums
]
KINDS = ['float', 'int', 'intf', 'f32', 'zero', 'fortran']


def snapshot(x):
    """Deep copy of an argument (to detect mutation afterwards)."""
    if isinstance(x, list):
        return [snapshot(v) for v in x]
    if isinstance(x, np.ndarray):
        return x.copy()
    return x


def same_exact(a, b):
    if isinstance(a, list):
        return (isinstance(b, list) and len(a) == len(b)
            and all(same_exact(u, v) for u, v in zip(a, b)))
    if isinstance(a, np.ndarray):
        return (isinstance(b, np.ndarray) and a.dtype == b.dtype
            and a.shape == b.shape and a.tobytes() == b.tobytes())
    return type(a) is type(b) and (a == b or (a != a and b != b))


def aliases(res, args):
    """Does any array of the result share memory with any argument array?"""
    def arrays(x):
        if isinstance(x, np.ndarray):
            yield x
        elif isinstance(x, (list, tuple)):
            for v in x:
                yield from arrays(v)
    return any(np.shares_memory(u, v)
        for u in arrays(res) for v in arrays(args))


def call(func, *args, **kwargs):
    """Run func and record result / exception / mutation / aliasing."""
    before = snapshot(list(args)) + snapshot(list(kwargs.values()))
    with np.errstate(all='ignore'):
        try:
            res = func(*args, **kwargs)
            out = {'status': 'ok', 'res': res}
        except Exception as e:
            res = None
            out = {'status': 'exc', 'exc': type(e).__name__}
    after = list(args) + list(kwargs.values())
    out['mutated'] = not same_exact(before, after)
    out['aliased'] = aliases(res, after) if res is not None else False
    return out


def scenarios(teneva):
    """Yield (label, record) pairs; fully deterministic."""
    # ---- mean / sum -------------------------------------------------------
    for ip, (n, r) in enumerate(PROFILES):
        for kind in KINDS:
            rng = np.random.RandomState(1000 + ip)
            Y = make_tt(rng, n, r, kind)
            tag = f'p{ip}-{kind}'
            yield f'mean/def/{tag}', call(teneva.mean, Y)
            yield f'mean/nonorm/{tag}', call(teneva.mean, Y, norm=False)
            yield f'mean/norm0/{tag}', call(teneva.mean, Y, None, 0)
            yield f'sum/{tag}', call(teneva.sum, Y)
            P = [rng.uniform(size=k) for k in n]
            yield f'mean/P/{tag}', call(teneva.mean, Y, P)
            yield f'mean/Pkw/{tag}', call(teneva.mean, Y, P=P, norm=False)
            Pl = [list(p) for p in P]
            yield f'mean/Plist/{tag}', call(teneva.mean, Y, Pl)
            Plong = [rng.uniform(size=k+2) for k in n]
            yield f'mean/Plong/{tag}', call(teneva.mean, Y, Plong)
            Pint = [rng.randint(0, 3, size=k) for k in n]
            yield f'mean/Pint/{tag}', call(teneva.mean, Y, Pint)
            Pshort = [rng.uniform(size=k) for k in n]
            Pshort[-1] = Pshort[-1][:-1]
            yield f'mean/Pshort/{tag}', call(teneva.mean, Y, Pshort)
            yield f'mean/Pfew/{tag}', call(teneva.mean, Y, P[:-1])
            P2 = np.array([rng.uniform(size=max(n)) for k in n])
            yield f'mean/P2d/{tag}', call(teneva.mean, Y, P2)
    yield 'mean/empty', call(teneva.mean, [])
    yield 'mean/num', call(teneva.mean, 3.)
    yield 'sum/empty', call(teneva.sum, [])

    # ---- add (and sub, which is built on add) ------------------------------
    nums = [0, 1, -2, 2.5, -1.E-20, 0., np.float64(1.5), True]
    for ip, (n, r) in enumerate(PROFILES):
        for k1 in KINDS:
            for k2 in ['float', 'int', 'f32']:
                rng = np.random.RandomState(2000 + ip)
                r_other = list(rng.randint(1, 5, size=len(n)-1))
                Y1 = make_tt(rng, n, r, k1)
                Y2 = make_tt(rng, n, r_other, k2)
                tag = f'p{ip}-{k1}-{k2}'
                yield f'add/tt/{tag}', call(teneva.add, Y1, Y2)
                yield f'add/tt-rev/{tag}', call(teneva.add, Y2, Y1)
                yield f'add/self/{tag}', call(teneva.add, Y1, Y1)
                yield f'sub/tt/{tag}', call(teneva.sub, Y1, Y2)
            rng = np.random.RandomState(2500 + ip)
            Y1 = make_tt(rng, n, r, k1)
            for iv, v in enumerate(nums):
                tag = f'p{ip}-{k1}-v{iv}'
                yield f'add/tt-num/{tag}', call(teneva.add, Y1, v)
                yield f'add/num-tt/{tag}', call(teneva.add, v, Y1)
                yield f'sub/tt-num/{tag}', call(teneva.sub, Y1, v)
                yield f'sub/num-tt/{tag}', call(teneva.sub, v, Y1)
    for iv, v in enumerate(nums):
        for iw, w in enumerate(nums):
            yield f'add/num-num/{iv}-{iw}', call(teneva.add, v, w)
    # Arguments outside the quantifier (we only compare the exception type):
    rng = np.random.RandomState(2900)
    Ya = make_tt(rng, [3, 4, 5], [2, 2])
    Yb = make_tt(rng, [3, 3, 5], [2, 2])
    Yc = make_tt(rng, [3, 4], [2])
    yield 'add/bad-shape', call(teneva.add, Ya, Yb)
    yield 'add/bad-shape-rev', call(teneva.add, Yb, Ya)
    yield 'add/bad-len', call(teneva.add, Ya, Yc)
    yield 'add/bad-len-rev', call(teneva.add, Yc, Ya)
    yield 'add/np-int', call(teneva.add, Ya, np.int64(2))
    yield 'add/none', call(teneva.add, Ya, None)
    yield 'add/str', call(teneva.add, 'a', 'b')
    yield 'add/d1', call(teneva.add, [Ya[0][:, :, :1]], [Ya[0][:, :, 1:]])

    # ---- mul_scalar (and norm / accuracy built on it) ----------------------
    for ip, (n, r) in enumerate(PROFILES):
        for k1 in KINDS:
            for k2 in ['float', 'int', 'f32']:
                rng = np.random.RandomState(3000 + ip)
                r_other = list(rng.randint(1, 5, size=len(n)-1))
                Y1 = make_tt(rng, n, r, k1)
                Y2 = make_tt(rng, n, r_other, k2)
                tag = f'p{ip}-{k1}-{k2}'
                yield f'muls/{tag}', call(teneva.mul_scalar, Y1, Y2)
                yield f'muls/stab/{tag}', call(
                    teneva.mul_scalar, Y1, Y2, use_stab=True)
                yield f'muls/stab-pos/{tag}', call(
                    teneva.mul_scalar, Y2, Y1, True)
                yield f'muls/stab-falsy/{tag}', call(
                    teneva.mul_scalar, Y1, Y2, 0)
                yield f'muls/self/{tag}', call(teneva.mul_scalar, Y1, Y1)
                yield f'norm/{tag}', call(teneva.norm, Y1)
                yield f'norm/stab/{tag}', call(teneva.norm, Y1, use_stab=True)
                yield f'accuracy/{tag}', call(teneva.accuracy, Y1, Y2)
                yield f'accuracy/self/{tag}', call(teneva.accuracy, Y1, Y1)
    for isc, scale in enumerate([1.E+60, 1.E-60, 1.E+150, 1.E-150, 2.**40]):
        for ip, (n, r) in enumerate(PROFILES):
            rng = np.random.RandomState(3500 + ip)
            Y1 = make_tt(rng, n, r, 'float', scale)
            Y2 = make_tt(rng, n, r, 'float', 1. / scale)
            tag = f's{isc}-p{ip}'
            yield f'muls/scale/{tag}', call(teneva.mul_scalar, Y1, Y1)
            yield f'muls/scale-stab/{tag}', call(
                teneva.mul_scalar, Y1, Y1, use_stab=True)
            yield f'muls/scale-mix/{tag}', call(
                teneva.mul_scalar, Y1, Y2, use_stab=True)
            yield f'norm/scale/{tag}', call(teneva.norm, Y1, use_stab=True)
            yield f'accuracy/scale/{tag}', call(teneva.accuracy, Y1, Y2)
            yield f'accuracy/scale-rev/{tag}', call(teneva.accuracy, Y2, Y1)
    yield 'muls/empty', call(teneva.mul_scalar, [], [])
    yield 'muls/empty-stab', call(teneva.mul_scalar, [], [], use_stab=True)
    yield 'muls/bad-shape', call(teneva.mul_scalar, Ya, Yb)
    yield 'muls/bad-len', call(teneva.mul_scalar, Ya, Yc)
    yield 'muls/bad-len-rev', call(teneva.mul_scalar, Yc, Ya, True)
    yield 'muls/num', call(teneva.mul_scalar, 1., 2.)

    # ---- expression trees (add, sub, mul, outer, numbers, copy) ------------
    for ip, (n, r) in enumerate(PROFILES):
        for kind in ['float', 'int', 'intf']:
            rng = np.random.RandomState(4000 + ip)
            A = make_tt(rng, n, r, kind)
            B = make_tt(rng, n, list(rng.randint(1, 4, size=len(n)-1)), kind)
            C = make_tt(rng, n, [1] * (len(n)-1), kind)

            def tree():
                T = teneva.add(teneva.mul(A, B), 2)
                T = teneva.sub(T, teneva.mul(3, teneva.copy(C)))
                T = teneva.add(teneva.add(1.5, T), teneva.sub(B, A))
                O = teneva.outer(T, teneva.add(C, A))
                I = rng.randint(0, 10**6, size=(7, 2*len(n)))
                I = I % np.array(list(n) + list(n))
                return {
                    'T': T,
                    'O': O,
                    'full': teneva.full(T),
                    'sum': teneva.sum(O),
                    'mean': teneva.mean(O),
                    'get': teneva.get(O, I),
                    'dot': teneva.mul_scalar(T, A),
                    'norm': teneva.norm(O),
                    'acc': teneva.accuracy(T, A),
                    'acc_data': teneva.accuracy_on_data(
                        O, I, np.arange(7.) + 1.),
                    'shape': teneva.shape(O),
                    'ranks': teneva.ranks(O),
                    'size': teneva.size(O),
                    'erank': teneva.erank(T),
                }
            yield f'tree/p{ip}-{kind}', call(tree)

            def tree_nosub():
                # The same without "sub" (it raises for integer TT-cores):
                T = teneva.add(teneva.mul(A, B), 2)
                T = teneva.add(T, teneva.mul(-3, teneva.copy(C)))
                T = teneva.add(teneva.add(1, T), teneva.add(B, A))
                O = teneva.outer(T, teneva.add(C, A))
                i = [0] * len(O)
                return {
                    'T': T,
                    'O': O,
                    'full': teneva.full(T),
                    'sum': teneva.sum(O),
                    'sumT': teneva.sum(T),
                    'mean': teneva.mean(T),
                    'get': teneva.get(O, i),
                    'dot': teneva.mul_scalar(T, A),
                    'dot_stab': teneva.mul_scalar(O, O, use_stab=True),
                    'norm': teneva.norm(T),
                    'shape': teneva.shape(O),
                    'ranks': teneva.ranks(O),
                }
            yield f'tree-nosub/p{ip}-{kind}', call(tree_nosub)


def worker(path_out, expected_root):
    sys.path.insert(0, os.getcwd())
    import teneva
    root = os.path.realpath(os.path.dirname(os.path.dirname(teneva.__file__)))
    if root != os.path.realpath(expected_root):
        raise RuntimeError(f'Wrong teneva imported: {teneva.__file__}')
    results = list(scenarios(teneva))
    with open(path_out, 'wb') as f:
        pickle.dump(results, f)


# ---------------------------------------------------------------------------
# Parent part (compares the two dumps)
# ---------------------------------------------------------------------------


class Stat:
    def __init__(self):
        self.leaves = 0
        self.bit_equal = 0


def compare(a, b, stat, path=''):
    """Return list of human-readable differences between a and b."""
    if type(a) is not type(b):
        return [f'{path}: type {type(a).__name__} vs {type(b).__name__}']
    if isinstance(a, dict):
        if a.keys() != b.keys():
            return [f'{path}: dict keys differ']
        return sum([compare(a[k], b[k], stat, f'{path}.{k}') for k in a], [])
    if isinstance(a, (list, tuple)):
        if len(a) != len(b):
            return [f'{path}: length {len(a)} vs {len(b)}']
        return sum([compare(u, v, stat, f'{path}[{i}]')
            for i, (u, v) in enumerate(zip(a, b))], [])
    if isinstance(a, np.ndarray):
        if a.dtype != b.dtype:
            return [f'{path}: dtype {a.dtype} vs {b.dtype}']
        if a.shape != b.shape:
            return [f'{path}: shape {a.shape} vs {b.shape}']
        stat.leaves += 1
        if a.tobytes() == b.tobytes():
            stat.bit_equal += 1
            return []
        if not np.allclose(a, b, rtol=RTOL, atol=ATOL, equal_nan=True):
            return [f'{path}: values differ, max abs {np.max(np.abs(a-b))}']
        return []
    if isinstance(a, (float, np.floating, int, np.integer, bool, np.bool_)):
        stat.leaves += 1
        if a == b or (a != a and b != b):
            stat.bit_equal += 1
            return []
        if not np.allclose(a, b, rtol=RTOL, atol=ATOL, equal_nan=True):
            return [f'{path}: value {a!r} vs {b!r}']
        return []
    if a != b:
        return [f'{path}: {a!r} vs {b!r}']
    return []


def main():
    tmp = tempfile.mkdtemp(prefix='equiv_C01_')
    dumps = []
    for name, root in [('orig', DIR_ORIG), ('new', DIR_NEW)]:
        path = os.path.join(tmp, name + '.pkl')
        env = dict(os.environ, PYTHONDONTWRITEBYTECODE='1')
        env.pop('PYTHONPATH', None)
        subprocess.run([sys.executable, os.path.abspath(__file__),
            '--worker', path, root], cwd=root, env=env, check=True)
        with open(path, 'rb') as f:
            dumps.append(pickle.load(f))
    res_orig, res_new = dumps

    labels_orig = [label for label, _ in res_orig]
    labels_new = [label for label, _ in res_new]
    if labels_orig != labels_new:
        print('FAIL: scenario lists differ')
        return 1
    if len(set(labels_orig)) != len(labels_orig):
        print('FAIL: duplicated scenario labels')
        return 1

    stat = Stat()
    diffs = []
    n_exc = n_mut = n_alias = 0
    for (label, a), (_, b) in zip(res_orig, res_new):
        diffs.extend(compare(a, b, stat, label))
        n_exc += a['status'] == 'exc'
        n_mut += a['mutated']
        n_alias += a['aliased']

    print(f'scenarios           : {len(res_orig)}')
    print(f'  raising (orig)    : {n_exc}')
    print(f'  mutating (orig)   : {n_mut}')
    print(f'  aliasing (orig)   : {n_alias}')
    print(f'compared leaves     : {stat.leaves}')
    print(f'  bit-for-bit equal : {stat.bit_equal}')
    print(f'differences         : {len(diffs)}')
    for text in diffs[:50]:
        print('  ' + text)
    print('RESULT: ' + ('EQUIVALENT' if not diffs else 'DIFFERENT'))
    return 0 if not diffs else 1


if __name__ == '__main__':
    if len(sys.argv) == 4 and sys.argv[1] == '--worker':
        worker(sys.argv[2], sys.argv[3])
        sys.exit(0)
    sys.exit(main())
