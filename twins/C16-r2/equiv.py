"""Equivalence demonstration for the C16 twin B refactoring.

Refactored functions: teneva.core_stab, teneva.orthogonalize, teneva.truncate
(and, through them, the callers norm / mul_scalar / accuracy with use_stab).

The same deterministic list of scenarios is run in two subprocesses, one with
the pristine package (/tmp/twinsB/C16/orig) and one with the refactored
package (/tmp/wt/C16); each dumps its results into a pickle and the two
pickles are compared. Exit code 0 if everything agrees, 1 otherwise.

Usage: /venv/bin/python /tmp/twinsB/C16/equiv.py
"""
import os
import pickle
import subprocess
import sys
import tempfile
import warnings

import numpy as np


ROOT_ORIG = '/tmp/twinsB/C16/orig'
ROOT_NEW = '/tmp/wt/C16'
RTOL = 1.E-12


# ---------------------------------------------------------------------------
# Worker part (runs with one of the two packages)
# ---------------------------------------------------------------------------


def tt_rand(rng, n, r, scale_pow=None, dtype=float):
    """Random TT-tensor with mode sizes n, ranks r (len d+1) and 2^s scales."""
    d = len(n)
    Y = []
    for i in range(d):
        G = rng.standard_normal((r[i], n[i], r[i+1]))
        if scale_pow is not None:
            G = G * 2.**int(scale_pow[i])
        Y.append(G.astype(dtype))
    return Y


def tt_copy(Y):
    return [G.copy() for G in Y]


def pack(x):
    """Turn a result into a picklable, comparable description."""
    if isinstance(x, np.ndarray):
        return ('arr', x.dtype.str, x.shape, bool(x.flags['C_CONTIGUOUS']),
            bool(x.flags['F_CONTIGUOUS']), np.array(x))
    if isinstance(x, (list, tuple)):
        return (type(x).__name__, [pack(y) for y in x])
    if isinstance(x, np.generic):
        return ('npscalar', type(x).__name__, x.item())
    return ('py', type(x).__name__, x)


def run(func, *args, **kwargs):
    """Call func, return packed result or packed exception."""
    with warnings.catch_warnings():
        warnings.simplefilter('ignore')
        with np.errstate(all='ignore'):
            try:
                res = func(*args, **kwargs)
            except Exception as exc:
                return ('exc', type(exc).__name__, str(exc))
    return pack(res)


def scenarios(teneva):
    out = {}

    def call_tt(name, func, Ys, *args, **kwargs):
        """Run func(*Ys, ...) and also record whether arguments mutated."""
        Ys_ref = [tt_copy(Y) for Y in Ys]
        out[name] = run(func, *Ys, *args, **kwargs)
        same = all(
            len(Y) == len(Y_ref) and all(
                G.dtype == G_ref.dtype and G.shape == G_ref.shape and
                np.array_equal(G, G_ref, equal_nan=True)
                for G, G_ref in zip(Y, Y_ref))
            for Y, Y_ref in zip(Ys, Ys_ref))
        out[name + ' / args unchanged'] = ('py', 'bool', same)

    # --- core_stab ---------------------------------------------------------
    rng = np.random.default_rng(1)
    cores = {
        'normal': rng.standard_normal((3, 4, 5)),
        'matrix': rng.standard_normal((6, 6)),
        'rank1': rng.standard_normal((1, 7, 1)),
        'zero': np.zeros((2, 3, 2)),
        'tiny': rng.standard_normal((2, 3, 2)) * 1.E-120,
        'at_thr': np.full((1, 2, 1), 1.E-100),
        'denormal': np.full((1, 2, 1), 5.E-324),
        'huge': rng.standard_normal((2, 3, 2)) * 1.E+300,
        'max': np.full((1, 2, 1), np.finfo(float).max),
        'pow2': np.full((2, 2, 2), 2.**37),
        'pow2neg': -np.full((2, 2, 2), 2.**-41),
        'below_pow2': np.full((1, 3, 1), np.nextafter(8., 0.)),
        'ones': np.ones((2, 2, 2)),
        'nan': np.array([[[1., np.nan, 2.]]]),
        'inf': np.array([[[1., np.inf, 2.]]]),
        'int': np.arange(-5, 7).reshape(2, 3, 2),
        'float32': rng.standard_normal((2, 3, 2)).astype(np.float32) * 100,
        'complex': rng.standard_normal((2, 3, 2)) * (3+4j),
        'fortran': np.asfortranarray(rng.standard_normal((3, 4, 5)) * 77),
        'empty': np.zeros((0, 2, 1)),
        'scalar0d': np.array(12.5),
    }
    for nm, G in cores.items():
        for p0 in [None, 0, 5, -17]:
            for thr in [None, 0., 1.E-300, 1.]:
                kw = {}
                if p0 is not None:
                    kw['p0'] = p0
                if thr is not None:
                    kw['thr'] = thr
                G_ref = G.copy()
                key = f'core_stab {nm} p0={p0} thr={thr}'
                with warnings.catch_warnings():
                    warnings.simplefilter('ignore')
                    with np.errstate(all='ignore'):
                        try:
                            Q, p = teneva.core_stab(G, **kw)
                            out[key] = pack((Q, p))
                            out[key + ' / alias'] = ('py', 'bool', Q is G)
                        except Exception as exc:
                            out[key] = ('exc', type(exc).__name__, str(exc))
                out[key + ' / arg unchanged'] = ('py', 'bool',
                    np.array_equal(G, G_ref, equal_nan=True))
    for k in range(-1074, 1024, 7):
        # Rescaling by an exact power of two (whole double range):
        G = cores['normal'] * 2.**k if k > -1000 else \
            cores['normal'] * 2.**-500 * 2.**(k+500)
        out[f'core_stab pow {k}'] = run(teneva.core_stab, G, 3)
        out[f'core_stab pow {k} thr0'] = run(teneva.core_stab, G, thr=0.)
    out['core_stab positional'] = run(teneva.core_stab, cores['huge'], 2, 1.)
    out['core_stab list'] = run(teneva.core_stab, [[1., 2.], [3., 4.]])
    out['core_stab float'] = run(teneva.core_stab, 3.75)

    # --- TT-tensors --------------------------------------------------------
    def profiles():
        rng = np.random.default_rng(7)
        yield 'd2', [3, 4], [1, 2, 1], None
        yield 'd2_r1', [5, 2], [1, 1, 1], None
        yield 'd2_over', [2, 2], [1, 9, 1], None
        yield 'd3', [4, 3, 5], [1, 3, 2, 1], None
        yield 'd5_over', [2]*5, [1, 7, 3, 9, 2, 1], None
        yield 'd6', [3, 2, 4, 2, 3, 5], [1, 2, 5, 5, 4, 3, 1], None
        yield 'd7_r1', [3]*7, [1]*8, None
        yield 'd8_big_r', [2]*8, [1, 2, 4, 8, 16, 8, 4, 2, 1], None
        yield 'd8_over_all', [2]*8, [1] + [6]*7 + [1], None
        yield 'd10_scaled_up', [3]*10, [1] + [3]*9 + [1], [90]*10
        yield 'd10_scaled_dn', [3]*10, [1] + [3]*9 + [1], [-95]*10
        yield 'd12_mixed', [2, 3]*6, [1] + [2, 4]*5 + [2, 1], \
            rng.integers(-200, 200, 12)
        yield 'd40_ovf', [2]*40, [1] + [2]*39 + [1], [40]*40
        yield 'd40_unf', [2]*40, [1] + [2]*39 + [1], [-40]*40
        yield 'd300_r2', [2]*300, [1] + [2]*299 + [1], [100]*300
        yield 'd300_r2_dn', [2]*300, [1] + [2]*299 + [1], [-100]*300
        yield 'd1000_r3', [2]*1000, [1] + [3]*999 + [1], \
            rng.integers(-60, 0, 1000)
        yield 'd2000_r1_up', [2]*2000, [1]*2001, [14]*2000
        yield 'd2000_r1_dn', [2]*2000, [1]*2001, [-15]*2000
        yield 'd2500_r2_rand', [2]*2500, [1] + [2]*2499 + [1], \
            rng.integers(-10, 34, 2500)

    tensors = {}
    for seed, (nm, n, r, sp) in enumerate(profiles()):
        tensors[nm] = tt_rand(np.random.default_rng(100 + seed), n, r, sp)

    # --- orthogonalize -----------------------------------------------------
    for nm, Y in tensors.items():
        d = len(Y)
        ks = [None, 0, d-1, d//2, 1, -1, d, d+3, -d]
        if d > 100:
            ks = [None, 0, d//3, -1, d]
        for k in ks:
            for use_stab in [False, True]:
                call_tt(f'orth {nm} k={k} stab={use_stab}',
                    teneva.orthogonalize, [Y], k, use_stab)
    Y = tensors['d6']
    call_tt('orth kw', teneva.orthogonalize, [Y], use_stab=True, k=2)
    call_tt('orth default', teneva.orthogonalize, [Y])
    call_tt('orth stab=1', teneva.orthogonalize, [Y], 3, 1)
    call_tt('orth k float', teneva.orthogonalize, [Y], 2., True)
    call_tt('orth k npint', teneva.orthogonalize, [Y], np.int64(2), True)
    call_tt('orth d1', teneva.orthogonalize, [[np.ones((1, 4, 1)) * 3]], 0,
        True)
    call_tt('orth d1 none', teneva.orthogonalize, [[np.ones((1, 4, 1))]])
    call_tt('orth empty', teneva.orthogonalize, [[]])
    call_tt('orth empty k0', teneva.orthogonalize, [[]], 0, True)
    call_tt('orth zero tensor', teneva.orthogonalize,
        [[np.zeros((1, 3, 2)), np.zeros((2, 3, 2)), np.zeros((2, 3, 1))]],
        1, True)
    call_tt('orth tiny tensor', teneva.orthogonalize,
        [[G * 1.E-150 for G in tensors['d3']]], 1, True)
    call_tt('orth nan', teneva.orthogonalize,
        [[np.full((1, 2, 2), np.nan), np.ones((2, 2, 1))]], 1, True)
    call_tt('orth int cores', teneva.orthogonalize,
        [[np.arange(6).reshape(1, 3, 2) + 1, np.arange(8).reshape(2, 4, 1)]],
        0, True)
    call_tt('orth fortran cores', teneva.orthogonalize,
        [[np.asfortranarray(G) for G in tensors['d6']]], 3, True)
    call_tt('orth bad core', teneva.orthogonalize,
        [[np.ones((1, 3, 2)), np.ones((2, 3))]], 1, True)
    call_tt('orth bad ranks', teneva.orthogonalize,
        [[np.ones((1, 3, 2)), np.ones((3, 3, 1))]], 1, True)

    # --- truncate ----------------------------------------------------------
    for nm, Y in tensors.items():
        d = len(Y)
        if d > 100:
            cfgs = [
                dict(e=1.E-8, use_stab=True),
                dict(e=1.E-8, use_stab=False),
                dict(e=1.E-3, r=1, use_stab=True, is_eigh=False),
            ]
        else:
            cfgs = []
            for e in [1.E-10, 1.E-2, 0., 1.E+3]:
                for r in [None, 1, 2, 3.7]:
                    for orth in [True, False]:
                        for use_stab in [False, True]:
                            for is_eigh in [True, False]:
                                cfg = dict(e=e, orth=orth, use_stab=use_stab,
                                    is_eigh=is_eigh)
                                if r is not None:
                                    cfg['r'] = r
                                cfgs.append(cfg)
        for cfg in cfgs:
            key = 'trunc ' + nm + ' ' + ' '.join(
                f'{a}={b}' for a, b in cfg.items())
            call_tt(key, teneva.truncate, [Y], **cfg)
    Y = tensors['d6']
    YY = [np.concatenate([G, G], axis=2) if i < 5 else G
        for i, G in enumerate(Y)]
    YY = [np.concatenate([G, G], axis=0) if i > 0 else G
        for i, G in enumerate(YY)]
    call_tt('trunc doubled', teneva.truncate, [YY], 1.E-10)
    call_tt('trunc doubled stab', teneva.truncate, [YY], 1.E-10, 1.E+12, True,
        True)
    call_tt('trunc doubled skel', teneva.truncate, [YY], 1.E-6, 4, True, 1,
        False)
    call_tt('trunc default', teneva.truncate, [Y])
    call_tt('trunc d1', teneva.truncate, [[np.ones((1, 4, 1)) * 3]], 1.E-2)
    call_tt('trunc d1 stab', teneva.truncate, [[np.ones((1, 4, 1)) * 3]],
        use_stab=True)
    call_tt('trunc d1 noorth stab', teneva.truncate,
        [[np.ones((1, 4, 1)) * 3]], orth=False, use_stab=True)
    call_tt('trunc d1 int noorth stab', teneva.truncate,
        [[np.ones((1, 4, 1), dtype=int) * 3]], orth=False, use_stab=True)
    call_tt('trunc empty', teneva.truncate, [[]])
    call_tt('trunc empty noorth', teneva.truncate, [[]], orth=False)
    call_tt('trunc empty noorth stab', teneva.truncate, [[]], orth=False,
        use_stab=True)
    call_tt('trunc zero tensor', teneva.truncate,
        [[np.zeros((1, 3, 2)), np.zeros((2, 3, 2)), np.zeros((2, 3, 1))]],
        use_stab=True)
    call_tt('trunc int noorth', teneva.truncate,
        [[np.arange(6).reshape(1, 3, 2) + 1, np.arange(8).reshape(2, 4, 1)]],
        orth=False, use_stab=True)
    call_tt('trunc int orth', teneva.truncate,
        [[np.arange(6).reshape(1, 3, 2) + 1, np.arange(8).reshape(2, 4, 1)]],
        use_stab=True)
    call_tt('trunc fortran', teneva.truncate,
        [[np.asfortranarray(G) for G in YY]], 1.E-9, use_stab=True)
    call_tt('trunc bad core', teneva.truncate,
        [[np.ones((1, 3, 2)), np.ones((2, 3))]], orth=False)
    # Not a valid TT-tensor (rank mismatch, outside the quantifier): the
    # exception type is the same (ValueError), but the text is produced by
    # einsum in the original and by matmul in the refactored code:
    call_tt('trunc bad ranks [type only]', teneva.truncate,
        [[np.ones((1, 3, 2)), np.ones((3, 3, 1))]], orth=False)
    call_tt('trunc bad ranks orth', teneva.truncate,
        [[np.ones((1, 3, 2)), np.ones((3, 3, 1))]])
    call_tt('trunc nan', teneva.truncate,
        [[np.full((1, 2, 2), np.nan), np.ones((2, 2, 1))]], use_stab=True)

    # --- callers of core_stab: norm, mul_scalar, accuracy --------------------
    names = list(tensors)
    for nm in names:
        Y = tensors[nm]
        call_tt(f'norm stab {nm}', teneva.norm, [Y], use_stab=True)
        call_tt(f'norm plain {nm}', teneva.norm, [Y])
        Y2 = tt_rand(np.random.default_rng(999), [G.shape[1] for G in Y],
            [1] + [G.shape[2] for G in Y])
        call_tt(f'mul_scalar stab {nm}', teneva.mul_scalar, [Y, Y2], True)
        call_tt(f'mul_scalar plain {nm}', teneva.mul_scalar, [Y, Y2])
        call_tt(f'accuracy {nm}', teneva.accuracy, [Y, Y2])
        call_tt(f'accuracy rev {nm}', teneva.accuracy, [Y2, Y])
        Y3 = tt_copy(Y)
        Y3[0] = Y3[0] * (1. + 1.E-9)
        call_tt(f'accuracy near {nm}', teneva.accuracy, [Y3, Y])

    # Rounding denotes the same tensor (accuracy of truncate result):
    for nm in ['d8_over_all', 'd300_r2', 'd2000_r1_up', 'd2500_r2_rand']:
        Y = tensors[nm]
        with warnings.catch_warnings():
            warnings.simplefilter('ignore')
            Z = teneva.truncate(Y, 1.E-8, use_stab=True)
        call_tt(f'accuracy of truncate {nm}', teneva.accuracy, [Z, Y])

    return out


def worker(root, fpath):
    sys.path.insert(0, root)
    import teneva
    assert os.path.dirname(os.path.abspath(teneva.__file__)) == \
        os.path.join(root, 'teneva'), teneva.__file__
    res = scenarios(teneva)
    with open(fpath, 'wb') as f:
        pickle.dump(res, f)


# ---------------------------------------------------------------------------
# Comparison part
# ---------------------------------------------------------------------------


class Stat:
    n_arr = 0
    n_arr_bitwise = 0
    n_exc = 0
    max_rel = 0.


def compare(a, b, path, errs):
    if a[0] != b[0]:
        errs.append(f'{path}: kind {a[0]} vs {b[0]} ({a[1:3]} vs {b[1:3]})')
        return
    kind = a[0]
    if kind == 'exc':
        Stat.n_exc += 1
        if '[type only]' in path:
            a, b = a[:2], b[:2]
        if a[1:] != b[1:]:
            errs.append(f'{path}: exception {a[1:]} vs {b[1:]}')
    elif kind == 'arr':
        Stat.n_arr += 1
        if a[1:5] != b[1:5]:
            errs.append(f'{path}: array meta {a[1:5]} vs {b[1:5]}')
            return
        x, y = a[5], b[5]
        if np.array_equal(x, y, equal_nan=(x.dtype.kind in 'fc')):
            Stat.n_arr_bitwise += 1
            return
        with np.errstate(all='ignore'):
            ok = np.allclose(x, y, rtol=RTOL, atol=0., equal_nan=True)
            fin = np.isfinite(x) & np.isfinite(y) & (y != 0)
            if fin.any():
                rel = np.max(np.abs(x[fin] - y[fin]) / np.abs(y[fin]))
                Stat.max_rel = max(Stat.max_rel, float(rel))
        if not ok:
            errs.append(f'{path}: arrays differ')
    elif kind in ('list', 'tuple'):
        if len(a[1]) != len(b[1]):
            errs.append(f'{path}: length {len(a[1])} vs {len(b[1])}')
            return
        for i, (x, y) in enumerate(zip(a[1], b[1])):
            compare(x, y, f'{path}[{i}]', errs)
    else: # 'py' / 'npscalar'
        if a[1] != b[1]:
            errs.append(f'{path}: type {a[1]} vs {b[1]}')
            return
        x, y = a[2], b[2]
        if isinstance(x, float) and isinstance(y, float):
            same = (x == y) or (x != x and y != y) or (
                np.isfinite(x) and np.isfinite(y) and
                abs(x - y) <= RTOL * abs(y))
            if x != y and not (x != x and y != y):
                Stat.max_rel = max(Stat.max_rel, abs(x - y) / abs(y)
                    if y else np.inf)
        else:
            same = x == y
        if not same:
            errs.append(f'{path}: value {x!r} vs {y!r}')


def main():
    tmp = tempfile.mkdtemp(prefix='c16_equiv_')
    results = []
    for tag, root in [('orig', ROOT_ORIG), ('new', ROOT_NEW)]:
        fpath = os.path.join(tmp, tag + '.pkl')
        env = dict(os.environ)
        env.pop('PYTHONPATH', None)
        proc = subprocess.run(
            [sys.executable, os.path.abspath(__file__), '--worker', root,
                fpath], cwd=root, env=env)
        if proc.returncode != 0:
            print(f'Worker "{tag}" failed with code {proc.returncode}')
            return 1
        with open(fpath, 'rb') as f:
            results.append(pickle.load(f))

    res_orig, res_new = results
    errs = []
    if list(res_orig) != list(res_new):
        errs.append('Different scenario lists')
    for key in res_orig:
        if key in res_new:
            compare(res_orig[key], res_new[key], key, errs)

    print(f'Scenarios compared       : {len(res_orig)}')
    print(f'Arrays compared          : {Stat.n_arr}')
    print(f'  of them bit-identical  : {Stat.n_arr_bitwise}')
    print(f'Equal exceptions         : {Stat.n_exc}')
    print(f'Max rel. deviation seen  : {Stat.max_rel:.3e}')
    print(f'Mismatches               : {len(errs)}')
    for err in errs[:40]:
        print('  MISMATCH', err)
    return 1 if errs else 0


if __name__ == '__main__':
    if len(sys.argv) > 1 and sys.argv[1] == '--worker':
        worker(sys.argv[2], sys.argv[3])
        sys.exit(0)
    sys.exit(main())
