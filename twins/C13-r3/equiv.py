"""Equivalence demonstration for the C13 twin C refactoring.

Runs the same deterministic scenario list in two subprocesses (pristine copy
of the package vs. refactored worktree), pickles the outcomes and compares
them.  Exit code 0 = everything agrees, 1 = some difference.

Refactored functions that are compared:
  teneva/anova.py    : ANOVA.cores_2, _second_order_2_tt (and _core_one)
  teneva/act_many.py : add_many
(and, end to end, ANOVA.cores / anova which use them).
"""
import os
import pickle
import subprocess
import sys
import tempfile

import numpy as np


ORIG = '/tmp/twinsC/C13/orig'
TWIN = '/tmp/wt/C13'
RTOL = 1.E-13
ATOL = 1.E-14


# ---------------------------------------------------------------------------
# Worker part (executed in a subprocess with cwd = root of one package copy)
# ---------------------------------------------------------------------------


def _freeze(x):
    """Turn a result into a picklable, comparable structure."""
    if isinstance(x, np.ndarray):
        return ('nd', x.dtype.str, x.shape, bool(x.flags['C_CONTIGUOUS']),
            np.array(x))
    if isinstance(x, (list, tuple)):
        return (type(x).__name__, [_freeze(v) for v in x])
    if isinstance(x, dict):
        return ('dict', [(repr(k), _freeze(v)) for k, v in x.items()])
    if isinstance(x, (np.generic,)):
        return ('np', type(x).__name__, x.item())
    return ('py', type(x).__name__, x)


def _run(fn):
    try:
        return ('ok', _freeze(fn()))
    except Exception as exc:
        return ('exc', type(exc).__name__, str(exc))


def _samples(rng, shape, m, kind):
    d = len(shape)
    if kind == 'full':
        I = np.array(np.meshgrid(*[np.arange(n) for n in shape],
            indexing='ij')).reshape(d, -1).T
    elif kind == 'sparse':
        I = np.array([rng.integers(0, n, size=m) for n in shape]).T
    elif kind == 'dupl':
        I = np.array([rng.integers(0, n, size=m) for n in shape]).T
        I = np.vstack([I, I[: max(1, m // 2)], I[:1]])
    else:
        raise ValueError(kind)
    return I


def _values(rng, I, kind):
    if kind == 'additive':
        return np.sum([np.sin(0.7 * (k + 1) * I[:, k] + k)
            for k in range(I.shape[1])], axis=0) + 1.5
    if kind == 'pairs':
        y = np.sum(I, axis=1) * 0.1
        for k in range(I.shape[1] - 1):
            y = y + np.cos(I[:, k] * I[:, k + 1] + 0.3 * k)
        return y
    if kind == 'random':
        return rng.normal(size=I.shape[0]) * 10.
    if kind == 'const':
        return np.full(I.shape[0], 2.5)
    if kind == 'zero':
        return np.zeros(I.shape[0])
    if kind == 'int':
        return np.sum(I, axis=1)
    raise ValueError(kind)


def _aliasing(cores):
    """Pattern of shared memory between the cores of one TT-tensor."""
    out = []
    for a in range(len(cores)):
        for b in range(a + 1, len(cores)):
            out.append(bool(np.shares_memory(cores[a], cores[b])))
    return out


def worker(fout):
    sys.path.insert(0, os.getcwd())
    import teneva
    import teneva.anova
    mod_anova = sys.modules['teneva.anova']
    assert hasattr(mod_anova, '_second_order_2_tt')
    assert os.path.dirname(os.path.dirname(os.path.abspath(
        teneva.__file__))) == os.path.abspath(os.getcwd()), teneva.__file__

    res = {}

    # --- A: ANOVA end to end + cores_2 directly ----------------------------
    shapes = [(2, 2), (3, 4), (5, 2, 3), (2, 3, 4, 2), (4, 4, 4), (1, 3, 2),
        (3, 2, 2, 2, 3), (2, 2, 2, 2, 2, 2), (6, 5), (3, 1, 3, 1)]
    num = 0
    for shape in shapes:
        for skind in ('full', 'sparse', 'dupl'):
            for vkind in ('additive', 'pairs', 'random', 'const', 'zero',
                    'int'):
                num += 1
                rng = np.random.default_rng(1000 + num)
                m = int(rng.integers(3, 4 * int(np.prod(shape)) + 4))
                I = _samples(rng, shape, m, skind)
                y = _values(rng, I, vkind)
                for order in (1, 2):
                    for r in (2, 3, 5, 9):
                        noise = [0., 1.E-10, 1.E-3][(num + r) % 3]
                        seed = 7 * num + r
                        key = ('A', shape, skind, vkind, order, r)

                        def sc_cores():
                            I0, y0 = I.copy(), y.copy()
                            A = teneva.ANOVA(I, y, order=order, seed=seed)
                            Y = A.cores(r, noise)
                            nxt = A.rand.normal(size=3)
                            same = (np.array_equal(I, I0)
                                and np.array_equal(y, y0))
                            return [Y, nxt, same, A.shapes, A.f0]
                        res[key + ('cores',)] = _run(sc_cores)

                        if r == 2:
                            def sc_func():
                                return teneva.anova(I, y, r, order, noise,
                                    seed)
                            res[key + ('anova',)] = _run(sc_func)

                    if order != 2:
                        continue

                    for only_near in (False, True):
                        def sc_cores_2():
                            A = teneva.ANOVA(I, y, order=2, seed=seed)
                            f2_before = pickle.dumps(A.f2)
                            many = A.cores_2(3, only_near)
                            f2_same = pickle.dumps(A.f2) == f2_before
                            alias = [_aliasing(Y) for Y in many]
                            return [many, alias, f2_same, A.shapes,
                                [np.array(v) for v in A.f2_arr]]
                        res[('A2', shape, skind, vkind, only_near)] = _run(
                            sc_cores_2)

                        def sc_cores_full():
                            A = teneva.ANOVA(I, y, order=2, seed=seed)
                            return A.cores(4, 1.E-8, only_near, 1.E-9)
                        res[('A3', shape, skind, vkind, only_near)] = _run(
                            sc_cores_full)

    # order 0 / invalid order / keyword call of cores_2
    rng = np.random.default_rng(5)
    I = _samples(rng, (3, 4, 2), 30, 'sparse')
    y = _values(rng, I, 'pairs')
    res[('A4', 'badorder')] = _run(lambda: teneva.ANOVA(I, y, order=3))
    res[('A4', 'kw')] = _run(
        lambda: teneva.ANOVA(I, y, order=2, seed=1).cores_2(only_near=False))
    res[('A4', 'default')] = _run(
        lambda: teneva.ANOVA(I, y, order=2, seed=1).cores_2())
    # cores_2 on an order-1 object (f2 is empty -> IndexError)
    res[('A4', 'order1')] = _run(
        lambda: teneva.ANOVA(I, y, order=1, seed=1).cores_2())
    # d = 1 (outside of the quantifier, still must agree)
    res[('A4', 'd1')] = _run(
        lambda: teneva.ANOVA(I[:, :1], y, order=2, seed=1).cores_2())
    res[('A4', 'd1c')] = _run(
        lambda: teneva.ANOVA(I[:, :1], y, order=2, seed=1).cores(2))

    # --- B: _second_order_2_tt and _core_one directly ----------------------
    num = 0
    for shp in [(2, 2), (3, 4), (4, 3, 2), (2, 5, 3, 4), (3, 3, 3, 3, 3),
            (1, 2, 1, 2), (2, 3, 2, 3, 2, 3)]:
        d = len(shp)
        for i in range(d):
            for j in range(d):
                for mkind in ('rand', 'rank1', 'zero', 'fortran', 'int'):
                    num += 1
                    rng = np.random.default_rng(2000 + num)
                    n1, n2 = shp[min(i, j)], shp[max(i, j)]
                    if i > j:
                        mshape = (n2, n1)
                    else:
                        mshape = (n1, n2)
                    if mkind == 'rand':
                        A = rng.normal(size=mshape)
                    elif mkind == 'rank1':
                        A = np.outer(rng.normal(size=mshape[0]),
                            rng.normal(size=mshape[1]))
                    elif mkind == 'zero':
                        A = np.zeros(mshape)
                    elif mkind == 'fortran':
                        A = np.asfortranarray(rng.normal(size=mshape))
                    else:
                        A = rng.integers(-3, 4, size=mshape)
                    for shapes_kind in ('array', 'list', 'tuple'):
                        if shapes_kind == 'array':
                            shapes_arg = np.array(shp, dtype=int)
                        elif shapes_kind == 'list':
                            shapes_arg = list(shp)
                        else:
                            shapes_arg = tuple(shp)

                        def sc_so2():
                            A0 = A.copy(order='K')
                            s0 = pickle.dumps(shapes_arg)
                            Y = mod_anova._second_order_2_tt(A, i, j,
                                shapes_arg)
                            same = (np.array_equal(A, A0)
                                and A.flags['F_CONTIGUOUS']
                                    == A0.flags['F_CONTIGUOUS']
                                and pickle.dumps(shapes_arg) == s0)
                            return [Y, _aliasing(Y), same]
                        res[('B', shp, i, j, mkind, shapes_kind)] = _run(
                            sc_so2)

    # wrong matrix shape / non-matrix input -> same exceptions
    res[('B2', 'vec')] = _run(lambda: mod_anova._second_order_2_tt(
        np.arange(3.), 0, 1, [3, 3]))
    res[('B2', 'empty')] = _run(lambda: mod_anova._second_order_2_tt(
        np.zeros((0, 3)), 0, 1, [0, 3]))
    res[('B2', 'noshapes')] = _run(lambda: mod_anova._second_order_2_tt(
        np.ones((2, 3)), 0, 1, []))
    res[('B2', 'outside')] = _run(lambda: mod_anova._second_order_2_tt(
        np.ones((2, 3)), 5, 7, [2, 3, 4]))
    res[('B2', 'nan')] = _run(lambda: mod_anova._second_order_2_tt(
        np.full((2, 3), np.nan), 0, 1, [2, 3]))
    for n in (1, 2, 5):
        for r in (1, 2, 4):
            res[('B3', n, r)] = _run(lambda: mod_anova._core_one(n, r))

    # --- C: add_many ------------------------------------------------------
    num = 0
    for shp in [(3,), (2, 3), (4, 3, 2), (2, 2, 2, 2, 2), (5, 4, 3, 2),
            (3, 3, 3, 3, 3, 3)]:
        d = len(shp)
        for count in (1, 2, 3, 7, 16, 31):
            for rk in (1, 2, 4):
                num += 1
                rng = np.random.default_rng(3000 + num)

                def rand_tt(r):
                    rs = [1] + [r] * (d - 1) + [1]
                    return [rng.normal(size=(rs[k], shp[k], rs[k + 1]))
                        for k in range(d)]
                many = [rand_tt(1 + (rk + q) % 3 if rk > 1 else 1)
                    for q in range(count)]
                if rk == 4 and d > 1:
                    # over-ranked cores
                    many[-1] = rand_tt(3 * max(shp))
                for opts in [{}, {'e': 1.E-4}, {'r': 2}, {'r': 1},
                        {'trunc_freq': 1}, {'trunc_freq': 2, 'r': 3},
                        {'e': 0., 'trunc_freq': 3}, {'trunc_freq': 100},
                        {'trunc_freq': 0}, {'r': 2.5}, {'trunc_freq': -2}]:

                    def sc_add():
                        before = pickle.dumps(many)
                        Y = teneva.add_many(many, **opts)
                        same = pickle.dumps(many) == before
                        share = any(np.shares_memory(G, H)
                            for G in Y for Z in many for H in Z)
                        return [Y, same, share]
                    res[('C', shp, count, rk, repr(sorted(opts.items())))
                        ] = _run(sc_add)

                def sc_add_pos():
                    return teneva.add_many(tuple(many), 1.E-6, 3, 2)
                res[('C', shp, count, rk, 'positional-tuple')] = _run(
                    sc_add_pos)

    rng = np.random.default_rng(77)
    Y1 = [rng.normal(size=(1, 3, 2)), rng.normal(size=(2, 4, 1))]
    Y2 = [rng.normal(size=(1, 3, 1)), rng.normal(size=(1, 4, 1))]
    mixes = {
        'nums': [1, 2.5, 3],
        'ints': [1, 2, 3],
        'one-num': [4.],
        'one-tt': [Y1],
        'num-first': [2., Y1, Y2, 3],
        'num-mid': [Y1, 2., 3, Y2],
        'num-last': [Y1, Y2, -1.5],
        'many-nums-then-tt': [1.] * 20 + [Y1] + [2] * 20,
        'npfloat': [np.float64(2.), np.float64(3.)],
        'npint': [np.int64(2), np.int64(3)],
        'bool': [True, 2],
        'empty': [],
        'none': None,
        'mismatch': [Y1, [np.ones((1, 2, 1)), np.ones((1, 4, 1))]],
        'wrong-d': [Y1, [np.ones((1, 3, 1))]],
        'ndarray-nums': np.array([1., 2., 3.]),
        'str': ['a', 'b'],
    }
    for name, many in mixes.items():
        for opts in [{}, {'trunc_freq': 1}, {'trunc_freq': 0}, {'r': 1},
                {'e': 1.E-2, 'r': 2, 'trunc_freq': 2}]:
            def sc_mix():
                before = pickle.dumps(many)
                Y = teneva.add_many(many, **opts)
                return [Y, pickle.dumps(many) == before]
            res[('C2', name, repr(sorted(opts.items())))] = _run(sc_mix)

    # result of a single element must be a copy, not the same object
    def sc_copy():
        Y = teneva.add_many([Y1], e=0.)
        return [Y, any(G is H for G in Y for H in Y1)]
    res[('C3', 'copy')] = _run(sc_copy)

    # --- D: functional variant (not refactored, uses nothing changed;
    #        kept as a sanity check of the shared helpers) ----------------
    for d in (2, 3):
        for n in (2, 3, 5):
            rng = np.random.default_rng(4000 + 10 * d + n)
            X = rng.uniform(-2., 3., size=(40, d))
            y = np.sum(np.sin(X), axis=1) + 0.5
            for e in (None, 1.E-8):
                res[('D', d, n, e)] = _run(lambda: teneva.anova_func(
                    X, y, n, -2., 3., 1.E-6, e))

    with open(fout, 'wb') as f:
        pickle.dump(res, f, protocol=pickle.HIGHEST_PROTOCOL)


# ---------------------------------------------------------------------------
# Comparison part
# ---------------------------------------------------------------------------


def _same(a, b, path, errs):
    if type(a) is not type(b):
        errs.append('%s: type %r vs %r' % (path, type(a), type(b)))
        return
    if isinstance(a, np.ndarray):
        if a.shape != b.shape or a.dtype != b.dtype:
            errs.append('%s: shape/dtype %r %r vs %r %r' % (
                path, a.shape, a.dtype, b.shape, b.dtype))
        elif a.dtype.kind in 'fc':
            if not np.allclose(a, b, rtol=RTOL, atol=ATOL, equal_nan=True):
                errs.append('%s: values differ (max %g)' % (
                    path, np.max(np.abs(a - b))))
        elif not np.array_equal(a, b):
            errs.append('%s: values differ' % path)
        return
    if isinstance(a, (list, tuple)):
        if len(a) != len(b):
            errs.append('%s: length %d vs %d' % (path, len(a), len(b)))
            return
        for k, (u, v) in enumerate(zip(a, b)):
            _same(u, v, '%s[%d]' % (path, k), errs)
        return
    if isinstance(a, float):
        if not (a == b or (a != a and b != b)
                or abs(a - b) <= ATOL + RTOL * abs(b)):
            errs.append('%s: %r vs %r' % (path, a, b))
        return
    if a != b:
        errs.append('%s: %r vs %r' % (path, a, b))


def _bitwise(a, b):
    if isinstance(a, np.ndarray):
        return (isinstance(b, np.ndarray) and a.shape == b.shape
            and a.dtype == b.dtype and a.tobytes() == b.tobytes())
    if isinstance(a, (list, tuple)):
        return (type(a) is type(b) and len(a) == len(b)
            and all(_bitwise(u, v) for u, v in zip(a, b)))
    if isinstance(a, float) and isinstance(b, float):
        return a == b or (a != a and b != b)
    return type(a) is type(b) and a == b


def main():
    tmp = tempfile.mkdtemp(prefix='equiv_C13_')
    outs = []
    for name, cwd in (('orig', ORIG), ('twin', TWIN)):
        fout = os.path.join(tmp, name + '.pickle')
        env = dict(os.environ)
        env.pop('PYTHONPATH', None)
        env['PYTHONDONTWRITEBYTECODE'] = '1'
        proc = subprocess.run([sys.executable, os.path.abspath(__file__),
            '--worker', fout], cwd=cwd, env=env)
        if proc.returncode != 0:
            print('worker %s failed with code %d' % (name, proc.returncode))
            return 1
        with open(fout, 'rb') as f:
            outs.append(pickle.load(f))

    ref, new = outs
    errs = []
    if list(ref.keys()) != list(new.keys()):
        errs.append('scenario lists differ')

    n_ok = n_exc = n_bit = 0
    for key in ref:
        if key not in new:
            continue
        a, b = ref[key], new[key]
        if a[0] != b[0]:
            errs.append('%r: outcome %r vs %r' % (key, a[:2] if a[0] == 'exc'
                else a[0], b[:2] if b[0] == 'exc' else b[0]))
            continue
        if a[0] == 'exc':
            n_exc += 1
            if a != b:
                errs.append('%r: exception %r vs %r' % (key, a[1:], b[1:]))
            continue
        n_ok += 1
        n_err = len(errs)
        _same(a[1], b[1], repr(key), errs)
        if len(errs) == n_err and _bitwise(a[1], b[1]):
            n_bit += 1

    print('scenarios: %d (%d returned, %d raised the same exception); '
        'bit-for-bit identical returns: %d' % (len(ref), n_ok, n_exc, n_bit))
    if errs:
        print('DIFFERENCES: %d' % len(errs))
        for msg in errs[:40]:
            print('  ' + msg)
        return 1
    print('OK: original and refactored package agree on all scenarios')
    return 0


if __name__ == '__main__':
    if len(sys.argv) == 3 and sys.argv[1] == '--worker':
        worker(sys.argv[2])
        sys.exit(0)
    sys.exit(main())
