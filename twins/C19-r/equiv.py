"""Equivalence demonstration for the C19 refactoring of teneva/tensors.py.

The same deterministic list of scenarios is executed in two subprocesses, one
with the pristine package (cwd=/tmp/twinsA/C19/orig) and one with the refactored
package (cwd=/tmp/wt/C19). Every scenario records the result (dtype, shape,
memory layout, values of every TT-core), or the exception (type and message),
the state of the arguments after the call (mutation behaviour), the state of a
passed random Generator after the call (same random draws) and the categories
of the emitted warnings. The two dumps are then compared.

Usage:  /venv/bin/python /tmp/twinsA/C19/equiv.py      (exit 0 = all agree)

"""
import copy
import itertools
import os
import pickle
import shutil
import subprocess
import sys
import tempfile
import warnings


DIR_ORIG = '/tmp/twinsA/C19/orig'
DIR_TWIN = '/tmp/wt/C19'
RTOL = 1.E-14
ATOL = 0.


# --------------------------------------------------------------------------
# Worker part (runs inside the subprocess with cwd = root of a package copy)
# --------------------------------------------------------------------------


def _describe(x, np):
    """Convert a result / argument into a picklable, comparable structure."""
    if isinstance(x, np.ndarray):
        return ('arr', str(x.dtype), x.shape, bool(x.flags['C_CONTIGUOUS']),
            bool(x.flags['F_CONTIGUOUS']), bool(x.flags['OWNDATA']),
            bool(x.flags['WRITEABLE']), np.array(x))
    if isinstance(x, np.random.Generator):
        return ('rng', repr(x.bit_generator.state))
    if isinstance(x, (list, tuple)):
        return (type(x).__name__, [_describe(y, np) for y in x])
    if isinstance(x, dict):
        return ('dict', {k: _describe(y, np) for k, y in x.items()})
    if isinstance(x, np.generic):
        return ('npscalar', str(x.dtype), x.item() if x == x else 'nan')
    if isinstance(x, float) and x != x:
        return ('float', 'nan')
    if callable(x):
        return ('callable',)
    return (type(x).__name__, x)


def _sharing(Y, np):
    """Describe which cores share memory (rand_custom cuts one flat vector)."""
    if not isinstance(Y, list):
        return None
    if not all(isinstance(G, np.ndarray) for G in Y):
        return None
    res = []
    for G in Y:
        base = G.base
        res.append((base is None, None if base is None else base.ndim))
    same = [Y[i].base is not None and Y[i].base is Y[0].base
        for i in range(len(Y))]
    return (res, same)


def scenarios(np):
    """Build the deterministic list of (name, function name, args, kwargs)."""
    S = []

    def add(name, func, *args, **kwargs):
        S.append((f'{len(S):05d}:{name}', func, args, kwargs))

    shapes = [
        [2, 2], [3, 4], [1, 5], [5, 1], [1, 1], [2, 3, 4], [4, 1, 3],
        [3, 3, 3, 3], [2, 5, 3, 4, 2], [2, 2, 2, 2, 2, 2], [7] * 8,
        np.array([3, 4, 5]), (4, 3), [6],
    ]
    values = [
        1., -1., 0., 0, 3, -2, 42., -42.5, 1.E-20, -1.E-20, 1.E-16, -1.E-16,
        1.0000001E-16, -2.E-16, 1.E-300, 1.E+300, -1.E+300, 1.E-5, -7.E-9,
        np.float64(2.5), np.float32(-3.), np.int64(-4), float('nan'),
        float('inf'), float('-inf'), True, False,
    ]

    # ---------------------------------------------------------------- const
    for n in shapes:
        for v in values:
            add('const-plain', 'const', n, v)
        add('const-default', 'const', n)
        add('const-kw', 'const', n=n, v=-3.3)

    rs = np.random.RandomState(12345)
    for n in shapes:
        d = len(n)
        nn = [int(k) for k in n]
        for trial in range(12):
            m = [0, 1, 2, 3, 7, 25][trial % 6]
            I_zero = [[int(rs.randint(0, k)) for k in nn] for _ in range(m)]
            i_nz = [int(rs.randint(0, k)) for k in nn]
            v = values[int(rs.randint(0, len(values)))]
            kind = trial % 4
            if kind == 1:
                I_pass = np.array(I_zero, dtype=int).reshape(-1, d)
                i_pass = np.array(i_nz)
            elif kind == 2:
                I_pass = tuple(tuple(i) for i in I_zero)
                i_pass = tuple(i_nz)
            else:
                I_pass = I_zero
                i_pass = i_nz
            add('const-zero', 'const', n, v, I_pass)
            add('const-zero-prot', 'const', n, v, I_pass, i_pass)
            add('const-zero-prot-kw', 'const', n, v=v, I_zero=I_pass,
                i_non_zero=i_pass)
            # The protected index itself is requested to be zero (conflict):
            add('const-conflict', 'const', n, v, I_zero + [i_nz], i_nz)
            add('const-conflict-first', 'const', n, v, [i_nz] + I_zero, i_nz)
            # Items which differ from the protected index in one mode only:
            I_near = []
            for k in range(d):
                if nn[k] > 1:
                    i = list(i_nz)
                    i[k] = (i[k] + 1 + trial) % nn[k]
                    if i[k] != i_nz[k]:
                        I_near.append(i)
            add('const-near', 'const', n, v, I_near, i_nz)
            add('const-near-rev', 'const', n, v, I_near[::-1], i_nz)
            add('const-near-twice', 'const', n, v, I_near + I_near, i_nz)

    n = [4, 5, 6]
    add('const-empty-zero', 'const', n, 2., [])
    add('const-empty-zero-prot', 'const', n, 2., [], [1, 1, 1])
    add('const-neg-index', 'const', n, 2., [[-1, -1, -1], [-2, 0, 1]])
    add('const-neg-index-prot', 'const', n, 2., [[-1, -1, -1], [3, 0, 1]],
        [3, 4, 5])
    add('const-neg-index-prot2', 'const', n, 2., [[-1, -1, -1]], [-1, -1, -1])
    add('const-out-of-range', 'const', n, 2., [[0, 0, 0], [9, 9, 9]])
    add('const-out-of-range-prot', 'const', n, 2., [[0, 9, 0], [9, 9, 9]],
        [0, 1, 1])
    add('const-short-item', 'const', n, 2., [[0, 0, 0], [1], [1, 1, 1]])
    add('const-short-item-prot', 'const', n, 2., [[0, 0, 0], [1], [1, 1, 1]],
        [0, 0, 1])
    add('const-short-prot', 'const', n, 2., [[0, 0, 0], [0, 1, 1]], [0])
    add('const-long-item', 'const', n, 2., [[0, 1, 2, 3, 4]], [0, 1, 3])
    add('const-float-index', 'const', n, 2., [[0., 1., 2.]], [0, 1, 2])
    add('const-nan-prot', 'const', n, 2., [[0, 1, 2]],
        [float('nan'), 1, float('nan')])
    add('const-string-v', 'const', n, 'a')
    add('const-none-v', 'const', n, None)
    add('const-empty-n', 'const', [], 2.)
    add('const-empty-n-tiny', 'const', [], 0.)
    add('const-empty-n-zero', 'const', [], 0., [[]])
    add('const-int-n', 'const', 5, 2.)
    add('const-float-n', 'const', [2., 3.], 2.)
    add('const-complex-v', 'const', n, 1. + 2.j)
    add('const-d1-zero', 'const', [6], -8., [[1], [2], [1]], [0])
    add('const-d1-conflict', 'const', [6], -8., [[1], [0]], [0])
    add('const-all-ones', 'const', [1, 1, 1], 5., [[0, 0, 0]], None)
    add('const-all-ones-conflict', 'const', [1, 1, 1], 5., [[0, 0, 0]],
        [0, 0, 0])

    # ---------------------------------------------------------------- delta
    for n in [[2, 2], [3, 4], [1, 5], [2, 3, 2], [3, 2, 1, 2]]:
        nn = [int(k) for k in n]
        for i in itertools.product(*[range(-k, k) for k in nn]):
            add('delta-all-pos', 'delta', n, list(i), -2.5)
    for n in shapes:
        nn = [int(k) for k in n]
        for v in values:
            i = [int(rs.randint(-k, k)) for k in nn]
            add('delta-values', 'delta', n, i, v)
            add('delta-values-arr', 'delta', n, np.array(i), v)
        add('delta-default', 'delta', n, [0] * len(nn))
        add('delta-kw', 'delta', n=n, i=tuple([0] * len(nn)), v=4.)
    add('delta-out-of-range', 'delta', [3, 4, 5], [0, 4, 0], 2.)
    add('delta-out-of-range-neg', 'delta', [3, 4, 5], [0, -5, 0], 2.)
    add('delta-short-i', 'delta', [3, 4, 5], [0, 1], 2.)
    add('delta-long-i', 'delta', [3, 4, 5], [0, 1, 2, 3], 2.)
    add('delta-empty-n', 'delta', [], [], 2.)
    add('delta-empty-n-tiny', 'delta', [], [], 0.)
    add('delta-float-i', 'delta', [3, 4, 5], [0., 1., 2.], 2.)
    add('delta-string-v', 'delta', [3, 4, 5], [0, 1, 2], 'a')
    add('delta-int-n', 'delta', 5, [0], 2.)

    # ----------------------------------------------------------------- poly
    shifts = [0., 1., -2.5, 3, 0, 1.E+3, -1.E-7]
    powers = [2, 0, 1, 3, 5, -1, -2, 0.5, 2.5, 2., np.int64(3)]
    scales = [1., -1., 0., 2, 1.E-10, -3.5E+7, np.float64(0.25)]
    for n in shapes:
        d = len(n)
        add('poly-default', 'poly', n)
        for shift, power, scale in itertools.product(shifts, powers, scales):
            add('poly-scalar-shift', 'poly', n, shift, power, scale)
        sh = [float(rs.randint(-3, 4)) + 0.5 * j for j in range(d)]
        for power in powers:
            add('poly-list-shift', 'poly', n, sh, power, -1.5)
            add('poly-arr-shift', 'poly', n, np.array(sh), power, 2)
            add('poly-int-shift', 'poly', n, [int(s) for s in sh], power)
            add('poly-kw', 'poly', n=n, shift=tuple(sh), power=power,
                scale=0.1)
    add('poly-none-shift', 'poly', [3, 4, 5], None)
    add('poly-none-shift-empty', 'poly', [], None)
    add('poly-empty-n', 'poly', [], [])
    add('poly-empty-n-scalar', 'poly', [], 1.)
    add('poly-short-shift', 'poly', [3, 4, 5], [1., 2.])
    add('poly-long-shift', 'poly', [3, 4, 5], [1., 2., 3., 4.])
    add('poly-zero-mode', 'poly', [3, 0, 5], 1.)
    add('poly-float-n', 'poly', [3., 4.], 1.)
    add('poly-np-int-n', 'poly', np.array([3, 4, 2], dtype=np.int32), 1.)
    add('poly-string-power', 'poly', [3, 4, 5], 1., 'a')
    add('poly-none-scale', 'poly', [3, 4, 5], 1., 2, None)
    add('poly-neg-base-frac-power', 'poly', [3, 4, 5], -1.5, 0.5)
    add('poly-zero-base-neg-power', 'poly', [3, 4, 5], 0., -1)
    add('poly-huge', 'poly', [3, 4, 5], 1.E+200, 3, 1.E+200)
    add('poly-complex-scale', 'poly', [3, 4, 5], 1., 2, 1.j)

    # ---------------------------------------------------- random constructors
    ranks = {
        2: [1, 2, 5, 2.7, True, [1, 1, 1], [1, 3, 1], [1, 9, 1], [2, 3, 2],
            np.array([1, 4, 1]), (1, 2, 1), [1., 2., 1.]],
        3: [1, 2, 4, 3.2, [1, 1, 1, 1], [1, 2, 3, 1], [1, 7, 9, 1],
            [1, 1, 4, 1], [3, 2, 2, 3], np.array([1, 3, 2, 1])],
        4: [1, 3, [1, 2, 3, 2, 1], [1, 9, 1, 9, 1], [1, 1, 1, 1, 1]],
        5: [1, 2, 6, [1, 2, 4, 4, 2, 1], [1, 3, 1, 5, 2, 1]],
        6: [1, 2, [1, 2, 2, 3, 2, 2, 1]],
        8: [1, 3, [1, 2, 3, 4, 5, 4, 3, 2, 1]],
        1: [1, 3, [1, 1], [2, 3]],
    }
    bad_ranks = [np.int64(2), np.float64(2.), None, 'a', [1, 2], [1],
        [1, 2, 3, 4, 5, 6, 7, 8, 9, 10, 11, 12], [[1, 2], [2, 1]], -1, 0,
        [1, 0, 1], [1, -2, 1], 2.j]
    seeds = [0, 1, 42, 123456789]

    for n in shapes:
        d = len(n)
        for r in ranks[d]:
            for seed in seeds:
                add('rand', 'rand', n, r, seed=seed)
                add('rand-ab', 'rand', n, r, -3., 0.5, seed)
                add('rand-ab-kw', 'rand', n=n, r=r, a=2, b=2, seed=seed)
                add('rand-ab-swapped', 'rand', n, r, 1., -1., seed)
                add('rand-norm', 'rand_norm', n, r, seed=seed)
                add('rand-norm-ms', 'rand_norm', n, r, -1.5, 1.E-3, seed)
                add('rand-norm-kw', 'rand_norm', n=n, r=r, m=7, s=0, seed=seed)
                add('rand-stab', 'rand_stab', n, r, seed=seed)
                add('rand-stab-noise', 'rand_stab', n, r, 1.E-2, seed)
                add('rand-stab-noise1', 'rand_stab', n, r, noise=1., seed=seed)
                add('rand-stab-noise0', 'rand_stab', n=n, r=r, noise=0,
                    seed=seed)
                add('rand-custom-rs', 'rand_custom', n, r, ('f-rs', seed))
                add('rand-custom-kw', 'rand_custom', n=n, r=r,
                    f=('f-rs', seed))
            add('rand-gen', 'rand', n, r, seed=('gen', 7))
            add('rand-norm-gen', 'rand_norm', n, r, seed=('gen', 8))
            add('rand-stab-gen', 'rand_stab', n, r, seed=('gen', 9))
            add('rand-none', 'rand', n, r)
            add('rand-norm-none', 'rand_norm', n, r)
            add('rand-stab-none', 'rand_stab', n, r)
            add('rand-custom-default', 'rand_custom', n, r)
            add('rand-custom-list', 'rand_custom', n, r, ('f-list',))
            add('rand-custom-int', 'rand_custom', n, r, ('f-int',))
            add('rand-custom-more', 'rand_custom', n, r, ('f-more',))
            add('rand-custom-less', 'rand_custom', n, r, ('f-less',))
            add('rand-custom-2d', 'rand_custom', n, r, ('f-2d',))
            add('rand-custom-strided', 'rand_custom', n, r, ('f-strided',))
            add('rand-custom-type', 'rand_custom', n, r, ('f-type',))
            add('rand-custom-raise', 'rand_custom', n, r, ('f-raise',))
            add('rand-custom-complex', 'rand_custom', n, r, ('f-complex',))
        for r in bad_ranks:
            add('rand-bad-rank', 'rand', n, r, seed=('gen', 1))
            add('rand-norm-bad-rank', 'rand_norm', n, r, seed=('gen', 2))
            add('rand-stab-bad-rank', 'rand_stab', n, r, seed=('gen', 3))
            add('rand-custom-bad-rank', 'rand_custom', n, r, ('f-rs', 5))

    n = [3, 4, 5]
    add('rand-norm-neg-s', 'rand_norm', n, 2, 0., -1., ('gen', 4))
    add('rand-stab-neg-noise', 'rand_stab', n, 2, -1., ('gen', 4))
    add('rand-stab-nan-noise', 'rand_stab', n, 2, float('nan'), ('gen', 4))
    add('rand-stab-inf-noise', 'rand_stab', n, 2, float('inf'), ('gen', 4))
    add('rand-inf', 'rand', n, 2, 0., float('inf'), ('gen', 4))
    add('rand-bad-seed', 'rand', n, 2, seed='a')
    add('rand-float-seed', 'rand', n, 2, seed=1.5)
    add('rand-stab-bad-seed', 'rand_stab', n, 2, seed='a')
    add('rand-neg-seed', 'rand_norm', n, 2, seed=-1)
    for func in ['rand', 'rand_norm', 'rand_stab']:
        add(func + '-float-n', func, [3., 4.7, 5.2], 2, seed=3)
        add(func + '-zero-n', func, [3, 0, 5], 2, seed=3)
        add(func + '-neg-n', func, [3, -2, 5], 2, seed=('gen', 5))
        add(func + '-empty-n', func, [], 2, seed=('gen', 5))
        add(func + '-empty-n-list', func, [], [1], seed=('gen', 5))
        add(func + '-scalar-n', func, 4, 2, seed=('gen', 5))
        add(func + '-scalar-n-list', func, 4, [1, 1], seed=('gen', 5))
        add(func + '-2d-n', func, [[2, 3], [4, 5]], 2, seed=('gen', 5))
        add(func + '-string-n', func, 'abc', 2, seed=('gen', 5))
        add(func + '-none-n', func, None, 2, seed=('gen', 5))
        add(func + '-big', func, [3] * 40, 3, seed=11)
        add(func + '-big-ranks', func, [20, 21, 22], [1, 20, 22, 1], seed=11)
    add('rand-custom-float-n', 'rand_custom', [3., 4.7, 5.2], 2, ('f-rs', 1))
    add('rand-custom-empty-n', 'rand_custom', [], 2, ('f-rs', 1))
    add('rand-custom-empty-n-count', 'rand_custom', [], 2, ('f-type',))
    add('rand-custom-scalar-n', 'rand_custom', 4, 2, ('f-rs', 1))
    add('rand-custom-not-callable', 'rand_custom', n, 2, 'nope')

    # ------------------------------------- untouched QTT anchors (sanity run)
    for q in range(1, 5):
        for i in range(-(1 << q) - 2, (1 << q) + 2):
            add('vector-delta', 'vector_delta', q, i, -3.5)
            for j in range(-(1 << q) - 1, (1 << q) + 1, 3):
                add('matrix-delta', 'matrix_delta', q, i, j, 2.5)

    return S


def _materialize(x, np, gens):
    """Replace placeholders of non-picklable arguments by real objects."""
    if isinstance(x, tuple) and len(x) >= 1 and isinstance(x[0], str):
        tag = x[0]
        if tag == 'gen':
            g = np.random.default_rng(x[1])
            gens.append(g)
            return g
        if tag == 'f-rs':
            rs = np.random.RandomState(x[1])
            return lambda size: rs.randn(size)
        if tag == 'f-list':
            return lambda size: [0.5 * k - 3. for k in range(size)]
        if tag == 'f-int':
            return lambda size: np.arange(size) - 4
        if tag == 'f-more':
            return lambda size: np.arange(size + 5, dtype=float)
        if tag == 'f-less':
            return lambda size: np.arange(max(size - 1, 0), dtype=float)
        if tag == 'f-2d':
            return lambda size: np.arange(2. * size).reshape(size, 2)
        if tag == 'f-strided':
            return lambda size: np.arange(3. * size)[::3]
        if tag == 'f-type':
            return lambda size: np.array(
                [float(type(size) is np.int64), float(size)] + [0.] * size
                )[:size]
        if tag == 'f-raise':
            def f(size):
                raise RuntimeError(f'called with {size!r} {type(size)}')
            return f
        if tag == 'f-complex':
            return lambda size: np.arange(size) * (1. + 1.j)
    return x


def worker(fpath):
    cwd = os.getcwd()
    sys.path.insert(0, cwd)
    import numpy as np
    with warnings.catch_warnings():
        warnings.simplefilter('ignore')
        import teneva
    assert os.path.dirname(os.path.abspath(teneva.__file__)) == \
        os.path.join(cwd, 'teneva'), teneva.__file__

    out = {'__file__': teneva.__file__}
    for name, func, args, kwargs in scenarios(np):
        gens = []
        args_in = [_materialize(copy.deepcopy(a), np, gens) for a in args]
        kwargs_in = {k: _materialize(copy.deepcopy(a), np, gens)
            for k, a in kwargs.items()}
        deterministic = not (
            (func in ('rand', 'rand_norm', 'rand_stab')
                and 'seed' not in kwargs
                and len(args) < (4 if func == 'rand_stab' else 5))
            or name.endswith('rand-custom-default'))
        if name.endswith('rand-custom-default'):
            np.random.seed(2024)
            deterministic = True
        rec = {'func': func, 'deterministic': deterministic}
        with warnings.catch_warnings(record=True) as wlist:
            warnings.simplefilter('always')
            try:
                Y = getattr(teneva, func)(*args_in, **kwargs_in)
            except Exception as e:
                rec['exc'] = (type(e).__name__, str(e))
            else:
                rec['res'] = _describe(Y, np)
                rec['sharing'] = _sharing(Y, np)
                # The tensor itself (for small ones), as the user sees it:
                try:
                    if isinstance(Y, list) and 0 < len(Y) <= 12 and \
                            all(G.ndim == 3 for G in Y):
                        total = 1  # (python int: no overflow)
                        for G in Y:
                            total *= int(G.shape[1])
                        if total <= 4096:
                            rec['full'] = _describe(teneva.full(Y), np)
                except Exception as e:
                    rec['full'] = ('exc', type(e).__name__)
        rec['warn'] = sorted(set(w.category.__name__ for w in wlist))
        rec['args_after'] = _describe(list(args_in), np)
        rec['kwargs_after'] = _describe(kwargs_in, np)
        rec['gens_after'] = [_describe(g, np) for g in gens]
        out[name] = rec

    with open(fpath, 'wb') as f:
        pickle.dump(out, f)


# --------------------------------------------------------------------------
# Comparison part
# --------------------------------------------------------------------------


class Stat:
    def __init__(self):
        self.arrays = 0
        self.inexact = 0
        self.maxrel = 0.


def _same(a, b, np, stat, values=True):
    """Deep comparison of two described structures."""
    if type(a) != type(b):
        return f'type {type(a)} vs {type(b)}'
    if isinstance(a, tuple) and len(a) > 0 and a[0] == 'arr':
        if not (isinstance(b, tuple) and len(b) == len(a) and b[0] == 'arr'):
            return 'array vs non-array'
        if a[1:7] != b[1:7]:
            return f'array meta {a[1:7]} vs {b[1:7]}'
        if not values:
            return None
        x, y = a[7], b[7]
        stat.arrays += 1
        if x.dtype == object:
            return None if repr(x) == repr(y) else 'object arrays differ'
        if not np.array_equal(x, y, equal_nan=True):
            stat.inexact += 1
            with np.errstate(all='ignore'):
                if not np.allclose(x, y, rtol=RTOL, atol=ATOL,
                        equal_nan=True):
                    return f'array values differ (max abs diff ' + \
                        f'{np.nanmax(np.abs(x - y))})'
                rel = np.nanmax(np.abs(x - y) / np.maximum(np.abs(x), 1e-300))
                stat.maxrel = max(stat.maxrel, float(rel))
            # The signs of zeros and the positions of nan / inf must agree:
            if not np.array_equal(np.signbit(x), np.signbit(y)):
                return 'signs differ'
        elif x.dtype.kind == 'f' and \
                not np.array_equal(np.signbit(x), np.signbit(y)):
            return 'signs of zeros differ'
        return None
    if isinstance(a, (tuple, list)):
        if len(a) != len(b):
            return f'length {len(a)} vs {len(b)}'
        for k, (x, y) in enumerate(zip(a, b)):
            msg = _same(x, y, np, stat, values)
            if msg:
                return f'[{k}] {msg}'
        return None
    if isinstance(a, dict):
        if sorted(a) != sorted(b):
            return f'keys {sorted(a)} vs {sorted(b)}'
        for k in a:
            msg = _same(a[k], b[k], np, stat, values)
            if msg:
                return f'[{k!r}] {msg}'
        return None
    if a != b:
        return f'{a!r} vs {b!r}'
    return None


def main():
    import numpy as np

    tmp = tempfile.mkdtemp(prefix='dump_', dir=os.path.dirname(
        os.path.abspath(__file__)))
    try:
        dumps = _run_workers(tmp)
    finally:
        shutil.rmtree(tmp, ignore_errors=True)
    if dumps is None:
        return 1
    return _compare(dumps, np)


def _run_workers(tmp):
    dumps = []
    for tag, cwd in [('orig', DIR_ORIG), ('twin', DIR_TWIN)]:
        fpath = os.path.join(tmp, tag + '.pkl')
        env = dict(os.environ)
        env.pop('PYTHONPATH', None)
        env['PYTHONHASHSEED'] = '0'
        env['PYTHONDONTWRITEBYTECODE'] = '1'
        res = subprocess.run(
            [sys.executable, os.path.abspath(__file__), '--worker', fpath],
            cwd=cwd, env=env)
        if res.returncode != 0:
            print(f'FAIL : worker "{tag}" crashed')
            return None
        with open(fpath, 'rb') as f:
            dumps.append(pickle.load(f))
    return dumps


def _compare(dumps, np):
    A, B = dumps
    print('orig package :', A.pop('__file__'))
    print('twin package :', B.pop('__file__'))

    if sorted(A) != sorted(B):
        print('FAIL : scenario lists differ')
        return 1

    stat = Stat()
    bad = 0
    count = {}
    for name in sorted(A):
        a, b = A[name], B[name]
        func = a['func']
        c = count.setdefault(func, {'ok': 0, 'exc': 0, 'bad': 0})
        msgs = []
        if ('exc' in a) != ('exc' in b):
            msgs.append(f'exception {a.get("exc")} vs {b.get("exc")}')
        elif 'exc' in a:
            if a['exc'] != b['exc']:
                msgs.append(f'exception {a["exc"]} vs {b["exc"]}')
        else:
            values = a['deterministic']
            for key in ['res', 'full']:
                if (key in a) != (key in b):
                    msgs.append(f'{key} is missing')
                elif key in a:
                    msg = _same(a[key], b[key], np, stat, values)
                    if msg:
                        msgs.append(f'{key}: {msg}')
            if a['sharing'] != b['sharing']:
                msgs.append(f'sharing {a["sharing"]} vs {b["sharing"]}')
        for key in ['args_after', 'kwargs_after', 'gens_after']:
            msg = _same(a[key], b[key], np, stat)
            if msg:
                msgs.append(f'{key}: {msg}')
        if a['warn'] != b['warn']:
            msgs.append(f'warnings {a["warn"]} vs {b["warn"]}')

        if msgs:
            bad += 1
            c['bad'] += 1
            if bad <= 40:
                print(f'DIFF : {name} : ' + ' ; '.join(msgs))
        elif 'exc' in a:
            c['exc'] += 1
        else:
            c['ok'] += 1

    print()
    for func in sorted(count):
        c = count[func]
        print(f'{func:<14s} | agree (result): {c["ok"]:6d} | ' +
            f'agree (same exception): {c["exc"]:5d} | differ: {c["bad"]:4d}')
    print()
    print(f'scenarios: {len(A)}, compared arrays: {stat.arrays}, ' +
        f'not bitwise identical (but within rtol={RTOL}): {stat.inexact}, ' +
        f'max rel. deviation: {stat.maxrel:.2e}')

    if bad:
        print(f'FAIL : {bad} scenarios differ')
        return 1
    print('OK : the refactored functions agree with the original ones')
    return 0


if __name__ == '__main__':
    if len(sys.argv) == 3 and sys.argv[1] == '--worker':
        worker(sys.argv[2])
        sys.exit(0)
    sys.exit(main())
