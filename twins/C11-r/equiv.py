"""Equivalence demonstration for the C11 refactoring.

Refactored: teneva.svd.matrix_skeleton, teneva.svd.matrix_svd, teneva.vis.show.

The same deterministic scenario list is executed in two subprocesses, one with
the pristine package (/tmp/twinsA/C11/orig) and one with the refactored package
(/tmp/wt/C11); each dumps its records to a pickle and the pickles are compared.

Usage:  /venv/bin/python /tmp/twinsA/C11/equiv.py        (exit 0 = all agree)
"""
import contextlib
import io
import os
import pickle
import subprocess
import sys
import warnings


ROOT_ORIG = '/tmp/twinsA/C11/orig'
ROOT_NEW = '/tmp/wt/C11'
HERE = os.path.dirname(os.path.abspath(__file__))


# ---------------------------------------------------------------------------
# Worker part (runs inside one of the two package roots)
# ---------------------------------------------------------------------------


def _pack(x):
    """Turn a result into a picklable, comparable structure."""
    import numpy as np
    if isinstance(x, np.ndarray):
        return ('nd', str(x.dtype), tuple(x.shape), np.array(x, copy=True))
    if isinstance(x, (list, tuple)):
        return (type(x).__name__, [_pack(v) for v in x])
    if isinstance(x, dict):
        # Wall-clock entries of the info dictionaries ('t') are not compared.
        return ('dict', sorted((str(k), _pack(v)) for k, v in x.items()
                               if str(k) != 't'))
    if isinstance(x, (np.floating, np.integer, np.bool_)):
        return ('npscalar', str(x.dtype), x.item())
    if x is None or isinstance(x, (int, float, str, bool)):
        return ('py', type(x).__name__, x)
    return ('repr', repr(x))


def _run(fn, args_maker):
    """Run fn(*args, **kwargs); record result / exception / stdout / mutation."""
    import numpy as np
    args, kwargs = args_maker()
    before = _pack([args, kwargs])
    out = io.StringIO()
    rec = {}
    with warnings.catch_warnings(record=True) as wlist:
        warnings.simplefilter('always')
        try:
            with contextlib.redirect_stdout(out), np.errstate(all='warn'):
                res = fn(*args, **kwargs)
            rec['status'] = 'ok'
            rec['result'] = _pack(res)
        except Exception as exc:  # noqa
            rec['status'] = 'exc'
            rec['result'] = (type(exc).__name__, str(exc))
    rec['warn'] = sorted(set(w.category.__name__ for w in wlist))
    rec['stdout'] = out.getvalue()
    rec['args_before'] = before
    rec['args_after'] = _pack([args, kwargs])
    return rec


def _matrices():
    """Named deterministic matrix makers (the degenerate families included)."""
    import numpy as np

    def rnd(m, n, seed, rank=None, scale=1., dtype=float):
        def make():
            rng = np.random.default_rng(seed)
            if rank is None:
                A = rng.standard_normal((m, n))
            else:
                A = rng.standard_normal((m, rank)) @ \
                    rng.standard_normal((rank, n))
            return (A * scale).astype(dtype)
        return make

    res = {}
    shapes = [(1, 1), (1, 5), (5, 1), (2, 2), (3, 7), (7, 3), (6, 6), (4, 12),
              (12, 4), (9, 10), (16, 2), (2, 16), (1, 32), (20, 20)]
    for (m, n) in shapes:
        for seed in (0, 1):
            res[f'rand_{m}x{n}_s{seed}'] = rnd(m, n, seed)
        res[f'zero_{m}x{n}'] = lambda m=m, n=n: np.zeros((m, n))
        res[f'const_{m}x{n}'] = lambda m=m, n=n: np.full((m, n), 2.5)
        res[f'rank1_{m}x{n}'] = rnd(m, n, 7, rank=1)
        if min(m, n) > 2:
            res[f'rank2_{m}x{n}'] = rnd(m, n, 8, rank=2)
    res['tiny_5x6'] = rnd(5, 6, 3, scale=1.E-200)
    res['small_5x6'] = rnd(5, 6, 3, scale=1.E-9)
    res['huge_6x5'] = rnd(6, 5, 4, scale=1.E+150)
    res['f32_5x8'] = rnd(5, 8, 5, dtype=np.float32)
    res['f32_8x5_rank2'] = rnd(8, 5, 5, rank=2, dtype=np.float32)
    res['int_4x6'] = lambda: np.arange(24).reshape(4, 6)
    res['int_6x4_zero'] = lambda: np.zeros((6, 4), dtype=int)
    res['fortran_5x7'] = lambda: np.asfortranarray(rnd(5, 7, 6)())
    res['strided_4x5'] = lambda: rnd(8, 10, 9)()[::2, ::2]
    res['neg0_3x4'] = lambda: -np.zeros((3, 4))
    res['repeated_rows_6x4'] = lambda: np.tile(rnd(1, 4, 2)(), (6, 1))
    res['repeated_cols_4x6'] = lambda: np.tile(rnd(4, 1, 2)(), (1, 6))
    res['diag_5x5'] = lambda: np.diag([3., 2., 1., 0., 0.])
    res['eye_4x4'] = lambda: np.eye(4)
    res['sym_6x6'] = lambda: (lambda B: B + B.T)(rnd(6, 6, 11)())
    res['sym_rank1_5x5'] = lambda: (lambda v: v @ v.T)(rnd(5, 1, 12)())
    res['sym_zero_4x4'] = lambda: np.zeros((4, 4))
    return res


def _bad_matrices():
    import numpy as np
    return {
        'vec': lambda: np.arange(5.),
        'cube': lambda: np.ones((2, 3, 4)),
        'scalar': lambda: np.float64(3.),
        'list2d': lambda: [[1., 2.], [3., 4.]],
        'empty_0x4': lambda: np.zeros((0, 4)),
        'empty_4x0': lambda: np.zeros((4, 0)),
        'nan_3x4': lambda: np.full((3, 4), np.nan),
        'inf_4x3': lambda: np.full((4, 3), np.inf),
        'onenan_4x4': lambda: (lambda A: (A.__setitem__((1, 2), np.nan), A)[1])(
            np.ones((4, 4))),
        'complex_3x4': lambda: np.ones((3, 4)) * (1 + 2j),
        'none': lambda: None,
    }


def _tensors(teneva):
    """Named deterministic TT-tensor makers (degenerate families included)."""
    import numpy as np

    def over(n, r, seed):
        # Ranks exceed what a core can carry.
        def make():
            rng = np.random.default_rng(seed)
            rr = [1] + [r] * (len(n) - 1) + [1]
            return [rng.standard_normal((rr[k], n[k], rr[k+1]))
                    for k in range(len(n))]
        return make

    def zero(n, r):
        def make():
            rr = [1] + [r] * (len(n) - 1) + [1]
            return [np.zeros((rr[k], n[k], rr[k+1])) for k in range(len(n))]
        return make

    res = {
        'rand_d4_r3': lambda: teneva.rand([4, 5, 6, 3], 3, seed=1),
        'rand_d2_r2': lambda: teneva.rand([4, 5], 2, seed=2),
        'rand_d2_r1': lambda: teneva.rand([3, 3], 1, seed=3),
        'rand_d5_r1': lambda: teneva.rand([3] * 5, 1, seed=4),
        'rand_modes1': lambda: teneva.rand([1, 1, 1], 2, seed=5),
        'rand_mixed1': lambda: teneva.rand([1, 4, 1, 3], 3, seed=6),
        'rand_profile': lambda: teneva.rand([4, 4, 4, 4], [1, 2, 5, 3, 1],
                                           seed=7),
        'over_d3_r7': over([2, 3, 2], 7, 8),
        'over_d4_r9': over([2, 2, 2, 2], 9, 9),
        'over_d2_r6': over([2, 3], 6, 10),
        'zero_d3_r2': zero([3, 4, 5], 2),
        'zero_d2_r1': zero([3, 4], 1),
        'zero_d4_r4': zero([2, 2, 2, 2], 4),
        'const_d4': lambda: teneva.const([3, 4, 5, 2], 1.5),
        'const_d2': lambda: teneva.const([3, 4], -2.),
        'const_zero': lambda: teneva.const([3, 4, 2], 0.),
        'delta_d3': lambda: teneva.delta([3, 4, 5], [1, 2, 3], 2.),
        'sum_same': lambda: teneva.add(teneva.rand([3, 4, 3], 2, seed=11),
                                       teneva.rand([3, 4, 3], 2, seed=11)),
        'diff_same': lambda: teneva.sub(teneva.rand([3, 4, 3], 2, seed=12),
                                        teneva.rand([3, 4, 3], 2, seed=12)),
        'd1': lambda: [np.arange(4.).reshape(1, 4, 1)],
        'd1_mode1': lambda: [np.ones((1, 1, 1))],
        'qtt_d6': lambda: teneva.rand([2] * 6, 3, seed=13),
        'f32_d3': lambda: [G.astype(np.float32)
                           for G in teneva.rand([3, 4, 3], 2, seed=14)],
        'int_d3': lambda: [np.ones((1, 3, 2), dtype=int),
                           np.ones((2, 3, 2), dtype=int),
                           np.ones((2, 3, 1), dtype=int)],
    }
    return res


def _bad_tensors(teneva):
    import numpy as np
    Y = lambda: teneva.rand([3, 4, 5], 2, seed=1)  # noqa
    return {
        'not_list_tuple': lambda: tuple(Y()),
        'not_list_array': lambda: np.ones((1, 3, 1)),
        'none': lambda: None,
        'empty': lambda: [],
        'core_2d': lambda: [Y()[0], np.ones((2, 4)), Y()[2]],
        'core_4d': lambda: [Y()[0], np.ones((2, 4, 2, 1)), Y()[2]],
        'core_list': lambda: [Y()[0], Y()[1].tolist(), Y()[2]],
        'core_first_2d_and_bad_rank': lambda: [np.ones((2, 3)), Y()[1], Y()[2]],
        'first_rank_2': lambda: [np.ones((2, 3, 2)), Y()[1], Y()[2]],
        'mismatch_mid': lambda: [Y()[0], np.ones((3, 4, 2)), Y()[2]],
        'mismatch_then_2d': lambda: [Y()[0], np.ones((3, 4, 2)),
                                     np.ones((2, 5))],
        'twod_then_mismatch': lambda: [Y()[0], np.ones((2, 4)),
                                       np.ones((7, 5, 1))],
        'last_rank_2': lambda: [Y()[0], Y()[1], np.ones((2, 5, 2))],
        'd1_last_rank_3': lambda: [np.ones((1, 4, 3))],
        'zero_size_mode': lambda: [np.ones((1, 0, 2)), np.ones((2, 3, 1))],
    }


def scenarios():
    """Return the ordered list of (name, function, args_maker)."""
    import numpy as np
    import teneva

    sc = []

    def add(name, fn, maker):
        sc.append((name, fn, maker))

    mats = _matrices()
    bads = _bad_matrices()

    e_list = [0., 1.E-10, 1.E-2, 1., 1.E+3, -1.E-2]
    r_list = [1, 2, 3, 1.E+12, 0, -3, 2.7, 100]

    # --- matrix_svd ---------------------------------------------------------
    for name, mk in mats.items():
        add(f'matrix_svd/{name}/default', teneva.matrix_svd,
            lambda mk=mk: ((mk(),), {}))
        for e in e_list:
            for r in r_list:
                add(f'matrix_svd/{name}/e={e}/r={r}', teneva.matrix_svd,
                    lambda mk=mk, e=e, r=r: ((mk(), e, r), {}))
        add(f'matrix_svd/{name}/kw', teneva.matrix_svd,
            lambda mk=mk: ((), {'A': mk(), 'r': 2, 'e': 1.E-3}))
    for name, mk in list(bads.items()):
        add(f'matrix_svd/bad/{name}', teneva.matrix_svd,
            lambda mk=mk: ((mk(),), {}))
        add(f'matrix_svd/bad/{name}/r=1', teneva.matrix_svd,
            lambda mk=mk: ((mk(), 1.E-2, 1), {}))
    for r in [None, np.inf, -np.inf, np.nan, '3', np.int64(2), np.float32(1.5),
              True, [2]]:
        for e in [1.E-10, None, 'x', np.nan, np.inf, np.float32(0.1)]:
            add(f'matrix_svd/badarg/r={r!r}/e={e!r}', teneva.matrix_svd,
                lambda r=r, e=e: ((mats['rand_3x7_s0'](), e, r), {}))
            add(f'matrix_svd/badarg_tall/r={r!r}/e={e!r}', teneva.matrix_svd,
                lambda r=r, e=e: ((mats['rank2_7x3'](), e, r), {}))

    # --- matrix_skeleton ----------------------------------------------------
    for name, mk in mats.items():
        add(f'matrix_skeleton/{name}/default', teneva.matrix_skeleton,
            lambda mk=mk: ((mk(),), {}))
        herm_list = [False, True] if name.split('_')[0] in (
            'sym', 'eye', 'diag') or name.endswith('1x1') else [False]
        for e in e_list:
            for r in r_list:
                for rel in (False, True):
                    for give_to in ('m', 'l', 'r', 'x', None):
                        for herm in herm_list:
                            add(f'matrix_skeleton/{name}/e={e}/r={r}/rel={rel}'
                                f'/give_to={give_to}/herm={herm}',
                                teneva.matrix_skeleton,
                                lambda mk=mk, e=e, r=r, rel=rel, g=give_to,
                                h=herm: ((mk(), e, r, h, rel, g), {}))
        add(f'matrix_skeleton/{name}/kw', teneva.matrix_skeleton,
            lambda mk=mk: ((mk(),), {'give_to': 'r', 'rel': True, 'r': 2}))
    for name, mk in list(bads.items()):
        for rel in (False, True):
            for give_to in ('m', 'l', 'r'):
                add(f'matrix_skeleton/bad/{name}/rel={rel}/{give_to}',
                    teneva.matrix_skeleton,
                    lambda mk=mk, rel=rel, g=give_to:
                    ((mk(),), {'rel': rel, 'give_to': g}))
    add('matrix_skeleton/bad/nonsym_hermitian', teneva.matrix_skeleton,
        lambda: ((mats['rand_6x6_s0'](),), {'hermitian': True}))
    add('matrix_skeleton/bad/rect_hermitian', teneva.matrix_skeleton,
        lambda: ((mats['rand_3x7_s0'](),), {'hermitian': True}))
    for r in [None, np.inf, -np.inf, np.nan, '3', np.int64(2), np.float32(1.5),
              True, [2]]:
        for e in [1.E-10, None, 'x', np.nan, np.inf, np.float32(0.1)]:
            for rel in (False, True):
                add(f'matrix_skeleton/badarg/r={r!r}/e={e!r}/rel={rel}',
                    teneva.matrix_skeleton,
                    lambda r=r, e=e, rel=rel:
                    ((mats['rand_3x7_s0'](), e, r), {'rel': rel}))

    # --- show ---------------------------------------------------------------
    tens = _tensors(teneva)
    for name, mk in tens.items():
        add(f'show/{name}', teneva.show, lambda mk=mk: ((mk(),), {}))
    for n, r in [([10] * 12, 11), ([100, 2, 1000, 3], 123), ([7] * 3, 1),
                 ([2, 10000], 4), ([123456, 2, 2], 2), ([2] * 30, 2),
                 ([3, 3], 1000)]:
        add(f'show/wide/n={n[:4]}/d={len(n)}/r={r}', teneva.show,
            lambda n=n, r=r: (([np.zeros((1 if k == 0 else r, n[k],
                                          1 if k == len(n) - 1 else r))
                                for k in range(len(n))],), {}))
    for name, mk in _bad_tensors(teneva).items():
        add(f'show/bad/{name}', teneva.show, lambda mk=mk: ((mk(),), {}))

    # --- callers of the refactored functions (public API) -------------------
    for name, mk in tens.items():
        if name in ('d1', 'd1_mode1'):
            flags = [(True, False, True)]
        else:
            flags = [(o, s, g) for o in (True, False) for s in (True, False)
                     for g in (True, False)]
        for (orth, stab, eigh) in flags:
            for e, r in [(1.E-10, 1.E+12), (0., 1.E+12), (1.E-2, 2), (1., 1),
                         (1.E+6, 1.E+12), (1.E-10, 0)]:
                add(f'truncate/{name}/orth={orth}/stab={stab}/eigh={eigh}'
                    f'/e={e}/r={r}', teneva.truncate,
                    lambda mk=mk, e=e, r=r, o=orth, s=stab, g=eigh:
                    ((mk(), e, r), {'orth': o, 'use_stab': s, 'is_eigh': g}))

    def full_of(mk):
        return lambda: teneva.full(mk())
    fulls = {k: full_of(v) for k, v in tens.items()
             if k not in ('qtt_d6', 'd1', 'd1_mode1')}
    fulls['zeros_3x4x5'] = lambda: np.zeros((3, 4, 5))
    fulls['ones_2x2'] = lambda: np.ones((2, 2))
    fulls['ones_1x1x1'] = lambda: np.ones((1, 1, 1))
    fulls['randfull_4x3x5'] = lambda: np.random.default_rng(3) \
        .standard_normal((4, 3, 5))
    fulls['vec_5'] = lambda: np.arange(5.)
    for name, mk in fulls.items():
        for e, r in [(1.E-10, 1.E+12), (0., 1.E+12), (1.E-1, 2), (10., 1),
                     (1.E-10, 0)]:
            add(f'svd/{name}/e={e}/r={r}', teneva.svd,
                lambda mk=mk, e=e, r=r: ((mk(), e, r), {}))

    for name in ['zeros', 'eye', 'rand', 'const']:
        for q in (1, 2, 3):
            def mkm(name=name, q=q):
                N = 2**q
                if name == 'zeros':
                    return np.zeros((N, N))
                if name == 'eye':
                    return np.eye(N)
                if name == 'const':
                    return np.full((N, N), 3.)
                return np.random.default_rng(q).standard_normal((N, N))
            for e, r in [(1.E-10, 1.E+12), (1.E-1, 2)]:
                add(f'svd_matrix/{name}/q={q}/e={e}/r={r}', teneva.svd_matrix,
                    lambda mkm=mkm, e=e, r=r: ((mkm(), e, r), {}))

    # QTT conversion (matrix_svd inside core_tt_to_qtt):
    for name, mkG in {
        'rand_2x8x3': lambda: np.random.default_rng(1).standard_normal(
            (2, 8, 3)),
        'rand_1x4x1': lambda: np.random.default_rng(2).standard_normal(
            (1, 4, 1)),
        'zero_2x8x2': lambda: np.zeros((2, 8, 2)),
        'const_3x16x2': lambda: np.ones((3, 16, 2)),
        'rand_5x2x5': lambda: np.random.default_rng(3).standard_normal(
            (5, 2, 5)),
        'mode1_2x1x2': lambda: np.ones((2, 1, 2)),
        'bad_2x6x2': lambda: np.ones((2, 6, 2)),
    }.items():
        for e, r in [(0., 1.E+12), (1.E-8, 1.E+12), (1.E-1, 2), (0., 1)]:
            add(f'core_tt_to_qtt/{name}/e={e}/r={r}', teneva.core_tt_to_qtt,
                lambda mkG=mkG, e=e, r=r: ((mkG(), e, r), {}))
    for name, mk in {
        'rand_d3_n8': lambda: teneva.rand([8, 4, 8], 3, seed=1),
        'zero_d2_n4': lambda: [np.zeros((1, 4, 2)), np.zeros((2, 4, 1))],
        'const_d3_n4': lambda: teneva.const([4, 4, 4], 2.),
        'rank1_d4_n2': lambda: teneva.rand([2] * 4, 1, seed=2),
    }.items():
        for e, r in [(1.E-14, 1.E+12), (1.E-2, 2)]:
            add(f'tt_to_qtt/{name}/e={e}/r={r}', teneva.tt_to_qtt,
                lambda mk=mk, e=e, r=r: ((mk(), e, r), {}))

    # Sums of many tensors (truncate inside add_many):
    for name, mkmany in {
        'rand_x20': lambda: [teneva.rand([3, 4, 3], 2, seed=s)
                             for s in range(20)],
        'same_x17': lambda: [teneva.rand([3, 4, 3], 2, seed=1)
                             for _ in range(17)],
        'zeros_x5': lambda: [[np.zeros((1, 3, 2)), np.zeros((2, 3, 1))]
                             for _ in range(5)],
        'cancel_x2': lambda: [teneva.rand([3, 3, 3], 2, seed=1),
                              teneva.mul(-1., teneva.rand([3, 3, 3], 2,
                                                          seed=1))],
        'const_x4_d2': lambda: [teneva.const([2, 2], 1.) for _ in range(4)],
        'mode1_x3': lambda: [teneva.rand([1, 1, 1], 1, seed=s)
                             for s in range(3)],
    }.items():
        for e, r, tf in [(1.E-10, 1.E+12, 15), (1.E-4, 3, 1), (1.E-10, 1, 2)]:
            add(f'add_many/{name}/e={e}/r={r}/tf={tf}', teneva.add_many,
                lambda mk=mkmany, e=e, r=r, tf=tf: ((mk(), e, r, tf), {}))

    # ANOVA (matrix_skeleton inside the second order variant):
    def anova_data(kind, seed):
        rng = np.random.default_rng(seed)
        n = [4, 5, 3]
        I = np.vstack([rng.integers(0, k, size=60) for k in n]).T
        if kind == 'repeated':
            I[:] = I[0]
            I[:, :] = np.array([[1, 2, 0]])
        if kind == 'zero':
            y = np.zeros(60)
        elif kind == 'const':
            y = np.full(60, 3.)
        else:
            y = np.sin(I.sum(axis=1)) + 0.1 * I[:, 0] * I[:, 1]
        return I, y
    for kind in ('rand', 'zero', 'const', 'repeated'):
        for order in (1, 2):
            for r in (1, 2, 3):
                add(f'anova/{kind}/order={order}/r={r}', teneva.anova,
                    lambda kind=kind, order=order, r=r:
                    (anova_data(kind, 1) + (r, order), {'seed': 5}))

    # TT-ALS adaptive (matrix_skeleton inside _optimize_core_adaptive):
    def als_args(kind, seed):
        I, y = anova_data(kind, seed)
        Y0 = teneva.rand([4, 5, 3], 2, seed=2)
        return (I, y, Y0), {'nswp': 3, 'r': 3, 'e_adap': 1.E-3, 'info': {}}
    for kind in ('rand', 'zero', 'const', 'repeated'):
        add(f'als_adaptive/{kind}', teneva.als,
            lambda kind=kind: als_args(kind, 3))

    # svd_incomplete via sample_tt (matrix_skeleton inside):
    def inc_args(kind):
        n = [5, 6, 5, 4]
        I, idx, idx_many = teneva.sample_tt(n, r=2, seed=1)
        if kind == 'zero':
            y = np.zeros(I.shape[0])
        elif kind == 'const':
            y = np.ones(I.shape[0])
        else:
            y = np.cos(I @ np.arange(1, 5))
        return (I, y, idx, idx_many), {'e': 1.E-10, 'r': 3}
    for kind in ('rand', 'zero', 'const'):
        add(f'svd_incomplete/{kind}', teneva.svd_incomplete,
            lambda kind=kind: inc_args(kind))

    return sc


def worker(root, fpath):
    root = os.path.realpath(root)
    os.chdir(root)
    sys.path.insert(0, root)
    import numpy as np
    with warnings.catch_warnings():
        warnings.simplefilter('ignore')
        import teneva
    assert os.path.realpath(teneva.__file__).startswith(root + os.sep), \
        teneva.__file__

    np.random.seed(12345)
    records = []
    for name, fn, maker in scenarios():
        records.append((name, _run(fn, maker)))
    # The global random state must have been consumed in the same way:
    records.append(('global_rng_state_after',
                    {'status': 'ok', 'result': _pack(float(np.random.rand())),
                     'warn': [], 'stdout': '', 'args_before': None,
                     'args_after': None}))
    with open(fpath, 'wb') as f:
        pickle.dump({'root': root, 'file': teneva.__file__,
                     'records': records}, f)


# ---------------------------------------------------------------------------
# Comparison part
# ---------------------------------------------------------------------------


class Stat:
    def __init__(self):
        self.arrays = 0
        self.bitwise = 0
        self.max_err = 0.


def _cmp(a, b, path, errs, stat):
    import numpy as np
    if type(a) is not type(b):
        errs.append(f'{path}: type {type(a)} vs {type(b)}')
        return
    if isinstance(a, tuple) and len(a) == 4 and a[0] == 'nd':
        if not (isinstance(b, tuple) and len(b) == 4 and b[0] == 'nd'):
            errs.append(f'{path}: ndarray vs {b[0]!r}')
            return
        if a[1] != b[1]:
            errs.append(f'{path}: dtype {a[1]} vs {b[1]}')
            return
        if a[2] != b[2]:
            errs.append(f'{path}: shape {a[2]} vs {b[2]}')
            return
        x, y = a[3], b[3]
        stat.arrays += 1
        if x.tobytes() == y.tobytes():
            stat.bitwise += 1
            return
        if x.dtype.kind not in 'fc':
            errs.append(f'{path}: non-float arrays differ')
            return
        eps = np.finfo(x.dtype).eps
        fin = np.isfinite(x)
        if not np.array_equal(fin, np.isfinite(y)) or \
                not np.array_equal(x[~fin], y[~fin], equal_nan=True):
            errs.append(f'{path}: non-finite pattern differs')
            return
        scale = max(1., float(np.max(np.abs(x[fin]))) if fin.any() else 1.)
        if fin.any():
            err = float(np.max(np.abs(x[fin] - y[fin]))) / scale
            stat.max_err = max(stat.max_err, err / eps)
            if not np.allclose(x[fin], y[fin], rtol=64 * eps,
                               atol=64 * eps * scale):
                errs.append(f'{path}: values differ, rel err {err:.3e}')
        return
    if isinstance(a, (tuple, list)):
        if len(a) != len(b):
            errs.append(f'{path}: len {len(a)} vs {len(b)}')
            return
        for i, (u, v) in enumerate(zip(a, b)):
            _cmp(u, v, f'{path}[{i}]', errs, stat)
        return
    if isinstance(a, float):
        if a != b and not (a != a and b != b):
            if abs(a - b) > 1.E-13 * max(1., abs(a)):
                errs.append(f'{path}: {a!r} vs {b!r}')
        return
    if a != b:
        errs.append(f'{path}: {a!r} vs {b!r}')


def main():
    f_orig = os.path.join(HERE, 'res_orig.pkl')
    f_new = os.path.join(HERE, 'res_new.pkl')
    for root, fpath in [(ROOT_ORIG, f_orig), (ROOT_NEW, f_new)]:
        if os.path.exists(fpath):
            os.remove(fpath)
        env = dict(os.environ)
        env.pop('PYTHONPATH', None)
        env['PYTHONDONTWRITEBYTECODE'] = '1'
        p = subprocess.run([sys.executable, os.path.abspath(__file__),
                            '--worker', root, fpath], cwd=root, env=env)
        if p.returncode != 0 or not os.path.exists(fpath):
            print(f'FAIL: worker for {root} failed (code {p.returncode})')
            return 1

    with open(f_orig, 'rb') as f:
        D1 = pickle.load(f)
    with open(f_new, 'rb') as f:
        D2 = pickle.load(f)
    print('orig package :', D1['file'])
    print('new package  :', D2['file'])
    if D1['file'] == D2['file']:
        print('FAIL: the same package was loaded twice')
        return 1

    R1, R2 = D1['records'], D2['records']
    if [n for n, _ in R1] != [n for n, _ in R2]:
        print('FAIL: scenario lists differ')
        return 1

    stat = Stat()
    n_bad = 0
    count = {}
    n_exc = 0
    n_mut = 0
    for (name, a), (_, b) in zip(R1, R2):
        errs = []
        for key in ('status', 'warn', 'stdout'):
            if a[key] != b[key]:
                errs.append(f'{key}: {a[key]!r} vs {b[key]!r}')
        if a['status'] == b['status']:
            _cmp(a['result'], b['result'], 'result', errs, stat)
        _cmp(a['args_before'], b['args_before'], 'args_before', errs, stat)
        _cmp(a['args_after'], b['args_after'], 'args_after', errs, stat)
        grp = name.split('/')[0]
        count[grp] = count.get(grp, 0) + 1
        n_exc += a['status'] == 'exc'
        if a['args_before'] is not None:
            e0 = []
            _cmp(a['args_before'], a['args_after'], 'mut', e0, Stat())
            n_mut += bool(e0)
        if errs:
            n_bad += 1
            if n_bad <= 25:
                print(f'MISMATCH {name}')
                for e in errs[:5]:
                    print('    ', e)

    print(f'scenarios: {len(R1)}  ' + ', '.join(
        f'{k}={v}' for k, v in count.items()))
    print(f'  raising scenarios (same exception type+message required): '
          f'{n_exc}')
    print(f'  scenarios where the original mutates its arguments: {n_mut}')
    print(f'  arrays compared: {stat.arrays}, bitwise identical: '
          f'{stat.bitwise}, max deviation of the others: '
          f'{stat.max_err:.2f} eps')
    if n_bad:
        print(f'FAIL: {n_bad} scenario(s) disagree')
        return 1
    print('OK: original and refactored package agree on every scenario')
    return 0


if __name__ == '__main__':
    if len(sys.argv) == 4 and sys.argv[1] == '--worker':
        worker(sys.argv[2], sys.argv[3])
        sys.exit(0)
    sys.exit(main())
