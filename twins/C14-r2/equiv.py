"""Equivalence demonstration for the C14 twin (teneva/sample.py refactoring).

The same deterministic scenario list is executed in two subprocesses, one with
the pristine package (cwd=/tmp/twinsB/C14/orig) and one with the refactored
package (cwd=/tmp/wt/C14). Each dumps its records to a pickle; the pickles are
then compared record by record (values, shapes, dtypes, contiguity, exception
types and messages, mutation of arguments, state of a passed-in generator after
the call). Exit code 0 = all agree, 1 = otherwise.

Usage:  /venv/bin/python /tmp/twinsB/C14/equiv.py
"""
import os
import pickle
import subprocess
import sys
import tempfile

import numpy as np


ORIG = '/tmp/twinsB/C14/orig'
TWIN = '/tmp/wt/C14'
PY = '/venv/bin/python'


WORKER = r'''
import pickle, sys, warnings, copy
import numpy as np
warnings.simplefilter('ignore')
import teneva
import teneva.sample as S

out_path = sys.argv[1]
records = []


def pack(x):
    if isinstance(x, tuple):
        return ('tuple', [pack(v) for v in x])
    if isinstance(x, np.ndarray):
        return ('arr', x.copy(), str(x.dtype), x.shape,
            bool(x.flags['C_CONTIGUOUS']))
    return ('obj', repr(type(x)), x)


def mkseed(kind, s):
    if kind == 'int':
        return s, None
    g = np.random.default_rng(s)
    return g, g


def run(name, func, args, kwargs, seed_kind, s, seed_pos=None, mut=()):
    seed, gen = mkseed(seed_kind, s)
    kwargs = dict(kwargs)
    args = list(args)
    if seed_pos is None:
        kwargs['seed'] = seed
    else:
        args.insert(seed_pos, seed)
    before = [copy.deepcopy(args[i]) for i in mut]
    try:
        res = ('ok', pack(func(*args, **kwargs)))
    except Exception as e:
        res = ('exc', type(e).__name__, str(e))
    same = []
    for b, i in zip(before, mut):
        a = args[i]
        if isinstance(b, list) and len(b) and isinstance(b[0], np.ndarray):
            same.append(len(a) == len(b) and all(
                x.shape == y.shape and x.dtype == y.dtype
                and np.array_equal(x, y, equal_nan=True)
                for x, y in zip(a, b)))
        else:
            same.append(type(a) is type(b) and
                np.array_equal(np.asarray(a), np.asarray(b)))
    tail = None if gen is None else gen.random(3).tolist()
    records.append((name, res, same, tail))


def tt(n, r, seed, scale=1., nonneg=False):
    """Random TT-tensor with the rank profile r (len(r) == len(n)+1)."""
    g = np.random.default_rng(seed)
    Y = []
    for k in range(len(n)):
        G = g.normal(size=(r[k], n[k], r[k+1])) * scale
        Y.append(np.abs(G) if nonneg else G)
    return Y


# ---------------------------------------------------------------- sample_lhs
shapes = [[5], [3, 4], [7, 2, 5], [4, 4, 4, 4], [1, 6, 1], [2]*7,
    np.array([5, 9, 3]), np.array([10, 11]), [3.0, 5.9, 4.2], (6, 5),
    [20, 3, 8, 2, 13], []]
counts = [1, 2, 3, 5, 6, 12, 17, 40, 100, 1.E+2, 7.9, 0]
for ni, n in enumerate(shapes):
    for m in counts:
        for kind in ['int', 'gen']:
            for s in [0, 42]:
                run(f'lhs/{ni}/{m}/{kind}/{s}', teneva.sample_lhs, [n, m], {},
                    kind, s, mut=(0,))
run('lhs/pos', teneva.sample_lhs, [[4, 5, 6], 9], {}, 'int', 3, seed_pos=2)
run('lhs/pos-gen', teneva.sample_lhs, [[4, 5, 6], 9], {}, 'gen', 3, seed_pos=2)
run('lhs/zero-mode', teneva.sample_lhs, [[4, 0, 6], 9], {}, 'int', 3)

# ------------------------------------------------------------------ sample_tt
shapes = [[5], [3, 4], [7, 2, 5], [4, 4, 4, 4], [1, 6, 1], [2]*6,
    np.array([5, 9, 3]), np.array([10, 11]), (6, 5, 2), [3, 2, 4, 2, 3],
    [1, 1], [], [3.0, 4.0], np.array([3.0, 4.0, 2.0])]
for ni, n in enumerate(shapes):
    for r in [1, 2, 3, 4, 5, 7, 2.0, 3.7]:
        for kind in ['int', 'gen']:
            for s in [0, 7]:
                run(f'tt/{ni}/{r}/{kind}/{s}', teneva.sample_tt, [n],
                    {'r': r}, kind, s, mut=(0,))
run('tt/default-r', teneva.sample_tt, [[4, 5, 6]], {}, 'int', 1)
run('tt/pos', teneva.sample_tt, [[4, 5, 6], 3], {}, 'gen', 1, seed_pos=2)

# ------------------------------------------------------------- sample_square
profiles = [
    ([4, 5], [1, 3, 1]),
    ([4, 5], [1, 1, 1]),
    ([6, 3, 4], [1, 2, 3, 1]),
    ([6, 3, 4], [1, 1, 1, 1]),
    ([2, 2, 2, 2, 2], [1, 2, 4, 4, 2, 1]),
    ([2, 2, 2, 2], [1, 5, 9, 5, 1]),           # over-ranked cores
    ([3, 3, 3], [1, 7, 7, 1]),                 # over-ranked cores
    ([5, 1, 5], [1, 3, 3, 1]),                 # mode of size one
    ([10, 12, 8, 9], [1, 4, 5, 3, 1]),
    ([3, 4, 3, 4, 3, 4], [1, 2, 3, 4, 3, 2, 1]),
    ([7], [1, 1]),                             # d = 1 (outside quantifier)
]
for pi, (n, r) in enumerate(profiles):
    for scale in [1., 1.E-6, 1.E+5]:
        Y = tt(n, r, 100 + pi, scale)
        for m in [1, 2, 5, 13, 4.0]:
            for unique in [True, False]:
                for kind in ['int', 'gen']:
                    for s in [0, 11]:
                        run(f'sq/{pi}/{scale}/{m}/{unique}/{kind}/{s}',
                            teneva.sample_square, [Y, m, unique],
                            {'max_rep': 5}, kind, s, mut=(0,))

# flag combinations: m_fact, max_rep (restarts and the failure path), float_cf
Y = tt([2, 2], [1, 2, 1], 5)
for m in [3, 4, 5, 9]:
    for m_fact in [1, 2, 5]:
        for max_rep in [-1, 0, 1, 3, 6]:
            for kind in ['int', 'gen']:
                run(f'sq/small/{m}/{m_fact}/{max_rep}/{kind}',
                    teneva.sample_square, [Y, m, True],
                    {'m_fact': m_fact, 'max_rep': max_rep}, kind, 2, mut=(0,))
                run(f'sq/small-nu/{m}/{m_fact}/{max_rep}/{kind}',
                    teneva.sample_square, [Y, m, False],
                    {'m_fact': m_fact, 'max_rep': max_rep}, kind, 2, mut=(0,))
Y = tt([3, 4, 3], [1, 2, 2, 1], 6)
for m in [2, 30, 36, 37]:
    for m_fact in [1, 3, 8]:
        for kind in ['int', 'gen']:
            run(f'sq/mid/{m}/{m_fact}/{kind}', teneva.sample_square, [Y, m],
                {'m_fact': m_fact, 'max_rep': 4}, kind, 8, mut=(0,))
# default max_rep / m_fact (enough distinct entries, so no deep restarts)
Y = tt([6, 7, 5], [1, 3, 3, 1], 12)
for m in [1, 3, 20, 60]:
    for kind in ['int', 'gen']:
        run(f'sq/default/{m}/{kind}', teneva.sample_square, [Y, m], {},
            kind, 21, mut=(0,))
        run(f'sq/default-kw/{m}/{kind}', teneva.sample_square, [Y],
            {'m': m, 'unique': False}, kind, 21, mut=(0,))
Y = tt([4, 5, 3], [1, 3, 2, 1], 9)
for cf in [None, 1, 2, 3, 2.0, 1.5]:
    for unique in [True, False]:
        for m in [1, 6]:
            for kind in ['int', 'gen']:
                run(f'sq/cf/{cf}/{unique}/{m}/{kind}', teneva.sample_square,
                    [Y, m, unique], {'float_cf': cf}, kind, 4, mut=(0,))
# positional seed / m_fact / max_rep
run('sq/pos', teneva.sample_square, [Y, 5, True, 3, 2, 7], {}, 'int', 0,
    seed_pos=3)
run('sq/pos-gen', teneva.sample_square, [Y, 5, False, 3, 2], {}, 'gen', 0,
    seed_pos=3)
# zero tensor (NaN probabilities), one zero core, first core with r1 != 1
Z = [np.zeros((1, 3, 2)), np.zeros((2, 4, 1))]
run('sq/zero', teneva.sample_square, [Z, 3], {}, 'gen', 1, mut=(0,))
Z = tt([3, 4, 5], [1, 2, 2, 1], 3); Z[1] = Z[1] * 0
run('sq/zero-core', teneva.sample_square, [Z, 3], {}, 'gen', 1, mut=(0,))
Z = tt([3, 4], [2, 2, 1], 3)
run('sq/r0=2', teneva.sample_square, [Z, 3], {}, 'gen', 1, mut=(0,))
# sparse tensor: few non-zero entries, so unique sampling must restart / fail
Z = [np.zeros((1, 4, 1)), np.zeros((1, 4, 1)), np.zeros((1, 4, 1))]
Z[0][0, 1, 0] = 1.; Z[1][0, 2, 0] = 2.; Z[1][0, 0, 0] = 1.; Z[2][0, 3, 0] = 1.
for m in [1, 2, 3]:
    for kind in ['int', 'gen']:
        run(f'sq/sparse/{m}/{kind}', teneva.sample_square, [Z, m],
            {'max_rep': 3}, kind, 5, mut=(0,))

# -------------------------------------------------------- _sample_core_first
for t in range(60):
    g = np.random.default_rng(1000 + t)
    n, r = int(g.integers(1, 15)), int(g.integers(1, 8))
    Q = g.normal(size=(n, r)) * 10.**g.uniform(-6, 6)
    if t % 7 == 0:
        Q = np.asfortranarray(Q)
    I = teneva._range(n)
    m = int(g.integers(1, 50))
    rand = np.random.default_rng(t)
    Q0, I0 = Q.copy(), I.copy()
    try:
        a, b = S._sample_core_first(Q, I, m, rand)
        res = ('ok', pack((a, b)))
    except Exception as e:
        res = ('exc', type(e).__name__, str(e))
    records.append((f'cf/{t}', res,
        [np.array_equal(Q, Q0), np.array_equal(I, I0)],
        rand.random(3).tolist()))
rand = np.random.default_rng(0)
try:
    res = ('ok', pack(S._sample_core_first(np.zeros((4, 2)),
        teneva._range(4), 3, rand)))
except Exception as e:
    res = ('exc', type(e).__name__, str(e))
records.append(('cf/zero', res, [], rand.random(3).tolist()))

# ------------------------------------------ sample (untouched, sanity check)
for pi, (n, r) in enumerate(profiles[:-1]):
    Y = tt(n, r, 300 + pi, nonneg=True)
    for m in [1, 4, 9]:
        for kind in ['int', 'gen']:
            run(f'smp/{pi}/{m}/{kind}', teneva.sample, [Y, m], {}, kind, 3,
                mut=(0,))

with open(out_path, 'wb') as f:
    pickle.dump(records, f)
'''


def same_packed(a, b, path, errs):
    if a[0] != b[0]:
        errs.append(f'{path}: kind {a[0]} != {b[0]}')
        return
    if a[0] == 'tuple':
        if len(a[1]) != len(b[1]):
            errs.append(f'{path}: tuple lengths differ')
            return
        for k, (x, y) in enumerate(zip(a[1], b[1])):
            same_packed(x, y, f'{path}[{k}]', errs)
    elif a[0] == 'arr':
        _, x, dx, sx, cx = a
        _, y, dy, sy, cy = b
        if dx != dy:
            errs.append(f'{path}: dtype {dx} != {dy}')
        if sx != sy:
            errs.append(f'{path}: shape {sx} != {sy}')
            return
        if cx != cy:
            errs.append(f'{path}: C-contiguity {cx} != {cy}')
        if x.dtype.kind in 'iub':
            ok = np.array_equal(x, y)
        else:
            ok = np.allclose(x, y, rtol=1.E-13, atol=0., equal_nan=True)
        if not ok:
            errs.append(f'{path}: values differ')
    else:
        if a[1] != b[1] or a[2] != b[2]:
            errs.append(f'{path}: objects differ: {a[1:]} vs {b[1:]}')


def main():
    tmp = tempfile.mkdtemp(prefix='c14equiv_')
    worker = os.path.join(tmp, 'worker.py')
    with open(worker, 'w') as f:
        f.write(WORKER)

    outs = []
    for tag, cwd in [('orig', ORIG), ('twin', TWIN)]:
        out = os.path.join(tmp, tag + '.pkl')
        env = dict(os.environ)
        env.pop('PYTHONPATH', None)
        env['PYTHONDONTWRITEBYTECODE'] = '1'
        # cwd first on sys.path so that `import teneva` takes the local tree:
        code = ("import sys, runpy; sys.path.insert(0, %r); "
            "sys.argv = [%r, %r]; "
            "runpy.run_path(%r, run_name='__main__')" % (cwd, worker, out,
            worker))
        p = subprocess.run([PY, '-c', code], cwd=cwd, env=env,
            capture_output=True, text=True)
        if p.returncode != 0:
            print(f'worker {tag} failed:\n{p.stdout}\n{p.stderr}')
            return 1
        outs.append(out)

    # Make sure the two workers really imported different trees:
    chk = []
    for cwd in [ORIG, TWIN]:
        p = subprocess.run([PY, '-c', 'import sys; sys.path.insert(0, %r); '
            'import teneva; print(teneva.__file__)' % cwd], cwd=cwd,
            capture_output=True, text=True)
        chk.append(p.stdout.strip())
    if not (chk[0].startswith(ORIG) and chk[1].startswith(TWIN)):
        print('wrong packages imported:', chk)
        return 1

    with open(outs[0], 'rb') as f:
        A = pickle.load(f)
    with open(outs[1], 'rb') as f:
        B = pickle.load(f)

    errs = []
    if len(A) != len(B):
        errs.append(f'number of records {len(A)} != {len(B)}')
    n_ok = n_exc = 0
    for ra, rb in zip(A, B):
        name = ra[0]
        if ra[0] != rb[0]:
            errs.append(f'{name}: scenario names differ')
            continue
        if ra[1][0] != rb[1][0]:
            errs.append(f'{name}: outcome {ra[1][0]} {ra[1][1:] if ra[1][0] == "exc" else ""}'
                f' != {rb[1][0]} {rb[1][1:] if rb[1][0] == "exc" else ""}')
        elif ra[1][0] == 'exc':
            n_exc += 1
            if ra[1][1:] != rb[1][1:]:
                errs.append(f'{name}: exception {ra[1][1:]} != {rb[1][1:]}')
        else:
            n_ok += 1
            same_packed(ra[1][1], rb[1][1], name, errs)
        if ra[2] != rb[2]:
            errs.append(f'{name}: argument mutation {ra[2]} != {rb[2]}')
        if not all(ra[2]):
            # not an error by itself, but report it once per scenario
            pass
        if ra[3] != rb[3]:
            errs.append(f'{name}: generator state after the call differs')

    print(f'scenarios: {len(A)} (returned: {n_ok}, raised: {n_exc})')
    if errs:
        print(f'DIFFERENCES: {len(errs)}')
        for e in errs[:60]:
            print('  ', e)
        return 1
    print('all scenarios agree')
    return 0


if __name__ == '__main__':
    sys.exit(main())
