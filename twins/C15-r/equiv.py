"""Equivalence demonstration for the C15 refactoring (optima / optima_func).

Usage:  /venv/bin/python /tmp/twinsA/C15/equiv.py

The same deterministic scenario list is run in two subprocesses, one importing
the pristine package (cwd=/tmp/twinsA/C15/orig) and one importing the
refactored package (cwd=/tmp/wt/C15). Each dumps its results to a pickle; the
two pickles are then compared (values, shapes, dtypes, exceptions, mutation of
the arguments). Exit code 0 if everything agrees, 1 otherwise.
"""
import os
import pickle
import shutil
import subprocess
import sys
import tempfile
import warnings

import numpy as np


ORIG = '/tmp/twinsA/C15/orig'
REFA = '/tmp/wt/C15'
PY = '/venv/bin/python'


# ----------------------------------------------------------------------------
# Worker part (runs inside one of the two source trees)
# ----------------------------------------------------------------------------


def _cores(rng, n, r, kind='normal'):
    """Build TT-cores with the shape n and the ranks r (len(r) == d+1)."""
    Y = []
    for i in range(len(n)):
        sh = (r[i], n[i], r[i+1])
        if kind == 'normal':
            G = rng.normal(size=sh)
        elif kind == 'pos':
            G = rng.uniform(0.1, 1., size=sh)
        elif kind == 'neg':
            G = -rng.uniform(0.1, 1., size=sh)
        elif kind == 'int':       # a lot of exact ties
            G = rng.integers(-2, 3, size=sh).astype(float)
        elif kind == 'pm1':       # all the items have the same modulus
            G = rng.choice([-1., 1.], size=sh)
        elif kind == 'const':
            G = np.ones(sh) * 0.5
        elif kind == 'big':
            G = rng.normal(size=sh) * 1.E+20
        elif kind == 'small':
            G = rng.normal(size=sh) * 1.E-20
        elif kind == 'zero':
            G = np.zeros(sh)
        elif kind == 'intdtype':
            G = rng.integers(-2, 3, size=sh)
        else:
            raise NotImplementedError(kind)
        Y.append(G)
    return Y


def _tensors():
    """Deterministic list of (name, TT-tensor)."""
    rng = np.random.default_rng(150015)
    res = []
    shapes = [
        ([2, 2], [[1, 1, 1], [1, 2, 1], [1, 5, 1]]),
        ([3, 4], [[1, 1, 1], [1, 3, 1], [1, 7, 1]]),
        ([4, 3, 2], [[1, 1, 1, 1], [1, 2, 3, 1], [1, 6, 6, 1], [1, 1, 4, 1]]),
        ([2, 2, 2, 2], [[1, 1, 1, 1, 1], [1, 2, 4, 2, 1], [1, 3, 3, 3, 1]]),
        ([5, 1, 3, 2], [[1, 2, 2, 2, 1], [1, 1, 1, 1, 1]]),
        ([3, 3, 3, 3, 3], [[1, 1, 1, 1, 1, 1], [1, 3, 4, 4, 3, 1],
                           [1, 5, 2, 7, 2, 1]]),
        ([2, 3, 2, 3, 2, 3], [[1, 2, 3, 4, 3, 2, 1]]),
    ]
    kinds = ['normal', 'pos', 'neg', 'int', 'pm1', 'const', 'big', 'small']
    for n, rs in shapes:
        for r in rs:
            for kind in kinds:
                name = f'n={n} r={r} {kind}'
                res.append((name, _cores(rng, n, r, kind)))
    res.append(('zero-3d', _cores(rng, [3, 2, 3], [1, 2, 2, 1], 'zero')))
    res.append(('intdtype', _cores(rng, [3, 2, 3], [1, 2, 2, 1], 'intdtype')))
    # A tensor with one dominating item and a tensor with the repeated maximum:
    Y = _cores(rng, [4, 4, 4], [1, 1, 1, 1], 'pos')
    Y[1][0, 2, 0] = 50.
    res.append(('spike', Y))
    Y = _cores(rng, [4, 4, 4], [1, 1, 1, 1], 'const')
    Y[0][0, 1, 0] = Y[0][0, 3, 0] = 2.
    Y[2][0, 0, 0] = Y[2][0, 2, 0] = -2.
    res.append(('ties-rank1', Y))
    # Non-contiguous cores (views):
    Y = [np.asfortranarray(G) for G in _cores(rng, [3, 4, 2], [1, 3, 2, 1])]
    res.append(('fortran', Y))
    return res


def _qtt_tensors():
    rng = np.random.default_rng(1515)
    res = []
    for n, rs in [
            ([2, 2], [[1, 1, 1], [1, 2, 1]]),
            ([4, 4], [[1, 1, 1], [1, 3, 1], [1, 6, 1]]),
            ([4, 4, 4], [[1, 1, 1, 1], [1, 2, 2, 1], [1, 5, 5, 1]]),
            ([8, 8], [[1, 1, 1], [1, 4, 1]]),
            ([2, 2, 2, 2], [[1, 2, 3, 2, 1]]),
            ([1, 1], [[1, 1, 1]]),
            ([4, 2], [[1, 2, 1]]),      # invalid (modes are not equal)
            ([3, 3], [[1, 2, 1]]),      # invalid (not a power of two)
            ([6, 6, 6], [[1, 2, 2, 1]]),
            ]:
        for r in rs:
            for kind in ['normal', 'pos', 'int', 'const']:
                res.append((f'q n={n} r={r} {kind}', _cores(rng, n, r, kind)))
    return res


def _func_tensors():
    rng = np.random.default_rng(51)
    res = []
    for n, rs in [
            ([2, 2], [[1, 1, 1], [1, 2, 1]]),
            ([3, 4], [[1, 1, 1], [1, 3, 1]]),
            ([4, 3, 5], [[1, 1, 1, 1], [1, 2, 3, 1], [1, 6, 6, 1]]),
            ([1, 3, 2], [[1, 1, 1, 1], [1, 2, 2, 1]]),
            ([5, 5, 5, 5], [[1, 1, 1, 1, 1], [1, 2, 3, 2, 1]]),
            ([7, 6], [[1, 1, 1], [1, 4, 1]]),
            ]:
        for r in rs:
            for kind in ['normal', 'pos', 'int', 'const']:
                res.append((f'f n={n} r={r} {kind}', _cores(rng, n, r, kind)))
    return res


def _pack(x):
    """Convert the result into a comparable (picklable) structure."""
    if isinstance(x, tuple):
        return ('tuple', [_pack(v) for v in x])
    if isinstance(x, list):
        return ('list', [_pack(v) for v in x])
    if isinstance(x, np.ndarray):
        return ('ndarray', str(x.dtype), x.shape, np.array(x))
    if isinstance(x, np.generic):
        return ('npscalar', str(x.dtype), x.item())
    return (type(x).__name__, x)


def _call(func, *args, **kwargs):
    """Run func; return the packed result or the packed exception."""
    with warnings.catch_warnings(record=True) as wlist:
        warnings.simplefilter('always')
        try:
            out = ('ok', _pack(func(*args, **kwargs)))
        except Exception as e:
            out = ('exc', type(e).__name__, str(e))
    wcat = sorted(set(w.category.__name__ + ':' + str(w.message)
        for w in wlist))
    return out, wcat


def _copy(Y):
    return [G.copy(order='K') for G in Y]


def worker(fpath):
    sys.path.insert(0, os.getcwd())
    with warnings.catch_warnings():
        warnings.simplefilter('ignore')
        import teneva
    assert os.path.dirname(os.path.dirname(os.path.abspath(teneva.__file__))) \
        == os.path.abspath(os.getcwd()), teneva.__file__
    from teneva import optima, optima_func

    res = {}

    def put(key, func, Y, *args, **kwargs):
        Yc = _copy(Y)
        out = _call(func, Yc, *args, **kwargs)
        # The state of the argument after the call (mutation behaviour):
        res[key] = (out, _pack(Yc))

    ks = [1, 2, 3, 5, 16, 100, 5000]

    # --- optima_tt_beam / optima_tt_max / optima_tt
    for name, Y in _tensors():
        for k in ks:
            for l2r in [True, False]:
                for ret_all in [False, True]:
                    put(('beam', name, k, l2r, ret_all),
                        optima.optima_tt_beam, Y, k, l2r, ret_all)
                    put(('beam-kw', name, k, l2r, ret_all),
                        optima.optima_tt_beam, Y, k=k, l2r=l2r,
                        ret_all=ret_all)
                for p in [None, 0, 3, -7, 2.5]:
                    put(('beam-noorth', name, k, l2r, p),
                        optima.optima_tt_beam, Y, k, l2r, True, False, p)
                put(('beam-orth-p', name, k, l2r),
                    optima.optima_tt_beam, Y, k, l2r, False, True, 11)
            put(('max', name, k), optima.optima_tt_max, Y, k)
            put(('tt', name, k), optima.optima_tt, Y, k)
        put(('beam-def', name), optima.optima_tt_beam, Y)
        put(('max-def', name), optima.optima_tt_max, Y)
        put(('tt-def', name), optima.optima_tt, Y)
        put(('beam-k0', name), optima.optima_tt_beam, Y, 0, True, True)
        put(('beam-kfloat', name), optima.optima_tt_beam, Y, 2.5)
        put(('beam-npint', name), optima.optima_tt_beam, Y, np.int64(3),
            False, True)

    # Malformed inputs (the same exceptions are expected):
    rng = np.random.default_rng(7)
    Ybad = [rng.normal(size=(2, 3, 2)), rng.normal(size=(2, 3, 1))]
    put(('beam-bad-l', 0), optima.optima_tt_beam, Ybad, 3, True, False, False)
    put(('beam-bad-r', 0), optima.optima_tt_beam, Ybad[::-1], 3, False, False,
        False)
    put(('beam-d1', 0), optima.optima_tt_beam, [rng.normal(size=(1, 4, 1))], 2)
    put(('beam-d1r', 0), optima.optima_tt_beam, [rng.normal(size=(1, 4, 1))],
        2, False, True)
    put(('beam-empty', 0), optima.optima_tt_beam, [], 2)
    put(('max-empty', 0), optima.optima_tt_max, [], 2)

    # --- optima_qtt (not changed itself, but it is built on optima_tt)
    for name, Y in _qtt_tensors():
        for k in [1, 2, 7, 100, 5000]:
            put(('qtt', name, k), optima.optima_qtt, Y, k)
        put(('qtt-def', name), optima.optima_qtt, Y)
        put(('qtt-er', name), optima.optima_qtt, Y, 10, 1.E-3, 2)

    # --- optima_func_tt_beam
    for name, A in _func_tensors():
        for k in [1, 2, 3, 10]:
            for k_loc in [None, 1, 2, 50]:
                for ret_all in [False, True]:
                    put(('func', name, k, k_loc, ret_all),
                        optima_func.optima_func_tt_beam, A, k, k_loc, ret_all)
        put(('func-def', name), optima_func.optima_func_tt_beam, A)
        put(('func-kw', name), optima_func.optima_func_tt_beam, A, k_loc=3,
            ret_all=True)
    put(('func-empty', 0), optima_func.optima_func_tt_beam, [], 2)

    # --- _find_poly_max (direct)
    rng = np.random.default_rng(99)
    polys = []
    for deg in [0, 1, 2, 3, 5, 8, 12]:
        for _ in range(4):
            polys.append(rng.normal(size=deg+1))
        polys.append(rng.integers(-2, 3, size=deg+1).astype(float))
        polys.append(np.ones(deg+1))
    polys.append(np.array([0., 0., 1.]))          # x^2 (root at the 0)
    polys.append(np.array([1., 0., -1.]))         # root in the middle
    polys.append(np.array([0., -3., 0., 4.]))     # T_3 in the power basis
    polys.append(np.array([0., 0., 0.]))
    polys.append(np.array([2.]))
    clips = [None, [-1, 1], [-1., 1.], [0, 1], [-0.5, 0.25], [1, 1],
        [-np.inf, 1], [-1, np.inf], [-np.inf, np.inf], [-3, 7], [2, -2],
        (-1, 1), np.array([-1., 1.])]
    for ip, p in enumerate(polys):
        for ic, clip in enumerate(clips):
            for cheb in [True, False]:
                for take_abs in [True, False]:
                    for k_max in [None, 0, 1, 2, 3, 100, -1, np.int64(2)]:
                        for ret_vals in [True, False]:
                            for aslist in [False, True]:
                                if aslist and (ic > 2 or k_max not in [None, 2]):
                                    continue
                                pc = list(p) if aslist else p.copy()
                                kw = dict(cheb=cheb, take_abs=take_abs,
                                    k_max=k_max, ret_vals=ret_vals)
                                if clip is not None:
                                    kw['clip'] = clip if not isinstance(
                                        clip, list) else list(clip)
                                key = ('poly', ip, ic, cheb, take_abs,
                                    repr(k_max), ret_vals, aslist)
                                out = _call(optima_func._find_poly_max, pc,
                                    **kw)
                                res[key] = (out, _pack(pc),
                                    _pack(kw.get('clip')))
    # The mutable default argument must stay intact:
    res[('poly-default-clip',)] = _pack(
        optima_func._find_poly_max.__defaults__)
    res[('beam-defaults',)] = _pack(optima.optima_tt_beam.__defaults__)

    with open(fpath, 'wb') as f:
        pickle.dump(res, f)


# ----------------------------------------------------------------------------
# Comparison part
# ----------------------------------------------------------------------------


def same(a, b, path=''):
    """Strict structural comparison; the floats are compared by allclose."""
    if type(a) != type(b):
        return False, f'{path}: type {type(a)} vs {type(b)}'
    if isinstance(a, (tuple, list)):
        if len(a) != len(b):
            return False, f'{path}: len {len(a)} vs {len(b)}'
        if len(a) == 4 and a[0] == 'ndarray':
            if a[1] != b[1] or a[2] != b[2]:
                return False, f'{path}: array meta {a[1:3]} vs {b[1:3]}'
            x, y = a[3], b[3]
            if x.dtype.kind in 'fc':
                ok = np.allclose(x, y, rtol=1.E-12, atol=0., equal_nan=True)
            else:
                ok = np.array_equal(x, y)
            return (True, '') if ok else (False, f'{path}: array values')
        for i, (u, v) in enumerate(zip(a, b)):
            ok, msg = same(u, v, f'{path}/{i}')
            if not ok:
                return ok, msg
        return True, ''
    if isinstance(a, float):
        if np.isnan(a) and np.isnan(b):
            return True, ''
        ok = a == b or abs(a - b) <= 1.E-12 * max(abs(a), abs(b))
        return (True, '') if ok else (False, f'{path}: float {a} vs {b}')
    return (True, '') if a == b else (False, f'{path}: {a!r} vs {b!r}')


def bitwise(a, b):
    return pickle.dumps(a) == pickle.dumps(b)


def main():
    tmp = tempfile.mkdtemp(prefix='equiv_tmp_', dir='/tmp/twinsA/C15')
    files = {}
    for tag, cwd in [('orig', ORIG), ('refa', REFA)]:
        fpath = os.path.join(tmp, tag + '.pkl')
        env = dict(os.environ)
        env.pop('PYTHONPATH', None)
        env['PYTHONDONTWRITEBYTECODE'] = '1'
        proc = subprocess.run([PY, os.path.abspath(__file__), '--worker',
            fpath], cwd=cwd, env=env)
        if proc.returncode != 0:
            print(f'Worker "{tag}" failed')
            return 1
        files[tag] = fpath

    with open(files['orig'], 'rb') as f:
        res_o = pickle.load(f)
    with open(files['refa'], 'rb') as f:
        res_r = pickle.load(f)
    shutil.rmtree(tmp, ignore_errors=True)

    bad = 0
    if set(res_o) != set(res_r):
        print('Different scenario sets')
        bad += 1

    n_exc = 0
    n_bit = 0
    for key in res_o:
        if key not in res_r:
            continue
        ok, msg = same(res_o[key], res_r[key])
        if not ok:
            bad += 1
            if bad < 30:
                print('MISMATCH', key, msg)
        n_bit += bitwise(res_o[key], res_r[key])
        v = res_o[key]
        if isinstance(v, tuple) and isinstance(v[0], tuple) \
                and isinstance(v[0][0], tuple) and v[0][0][0] == 'exc':
            n_exc += 1

    print(f'scenarios: {len(res_o)} | with exception: {n_exc} | '
        f'bitwise identical: {n_bit} | mismatches: {bad}')
    print('EQUIVALENT' if bad == 0 else 'NOT EQUIVALENT')
    return 0 if bad == 0 else 1


if __name__ == '__main__':
    if len(sys.argv) == 3 and sys.argv[1] == '--worker':
        worker(sys.argv[2])
        sys.exit(0)
    sys.exit(main())
