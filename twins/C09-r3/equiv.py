"""Equivalence demonstration for the C09 twin (round C).

Refactored functions: teneva.act_one.copy, teneva.act_two.sub (with the new
private helper act_two._negated) and teneva.func.func_gets (with the new
private helper func._gets_basis and a per-call memo table).

The same deterministic scenario list is run in two subprocesses, one with the
pristine package (/tmp/twinsC/C09/orig) and one with the refactored package
(/tmp/wt/C09). Every scenario records the result (values, dtypes, shapes,
memory layout flags, python types), the raised exception (type and text), the
mutation status of every argument and the aliasing of the result to the
arguments. The two records are then compared.

Usage:  /venv/bin/python /tmp/twinsC/C09/equiv.py      (exit 0 = all agree)

"""
import os
import pickle
import subprocess
import sys
import tempfile


ROOT_ORIG = '/tmp/twinsC/C09/orig'
ROOT_TWIN = '/tmp/wt/C09'
RTOL = 1.E-13


# ---------------------------------------------------------------------------
# Worker part (runs inside the subprocess; cwd is the root of the package)
# ---------------------------------------------------------------------------


def _worker(fpath):
    import warnings
    import numpy as np

    root = os.getcwd()
    sys.path.insert(0, root)
    import teneva
    assert os.path.realpath(teneva.__file__).startswith(
        os.path.realpath(root) + os.sep), teneva.__file__

    warnings.simplefilter('ignore')

    # --- encoding of arbitrary values -------------------------------------

    def enc(x):
        if isinstance(x, np.ndarray):
            return ('nd', type(x).__name__, str(x.dtype), x.shape,
                bool(x.flags['C_CONTIGUOUS']), bool(x.flags['F_CONTIGUOUS']),
                bool(x.flags['WRITEABLE']), bool(x.flags['OWNDATA']),
                np.array(x, order='C', subok=False))
        if isinstance(x, np.generic):
            return ('ng', type(x).__name__, x.item())
        if isinstance(x, (list, tuple)):
            return (type(x).__name__, [enc(v) for v in x])
        if isinstance(x, dict):
            return ('dict', [(k, enc(v)) for k, v in x.items()])
        if x is None or isinstance(x, (bool, int, float, str)):
            return ('py', type(x).__name__, x)
        return ('repr', type(x).__name__)

    def arrays_of(x):
        if isinstance(x, np.ndarray):
            return [x]
        if isinstance(x, (list, tuple)):
            res = []
            for v in x:
                res.extend(arrays_of(v))
            return res
        return []

    def aliased(res, args):
        A = arrays_of(res)
        B = arrays_of(list(args))
        for a in A:
            for b in B:
                if np.shares_memory(a, b):
                    return True
        # Identity of the containers (a returned list must be a new one):
        for arg in args:
            if isinstance(arg, list) and res is arg:
                return True
        return False

    def run(name, func, *args, **kwargs):
        before = enc(list(args) + list(kwargs.values()))
        rec = {'name': name}
        try:
            res = func(*args, **kwargs)
        except BaseException as e:
            rec['exc'] = (type(e).__name__, str(e))
            res = None
        else:
            rec['exc'] = None
            rec['res'] = enc(res)
            all_args = list(args) + list(kwargs.values())
            rec['alias'] = aliased(res, all_args)
            rec['same_obj'] = [res is a for a in all_args]
        after = enc(list(args) + list(kwargs.values()))
        rec['args_before'] = before
        rec['args_after'] = after
        # Write into the result and check that the arguments keep their value:
        if res is not None:
            for G in arrays_of(res):
                if G.flags['WRITEABLE'] and G.size > 0 and G.dtype.kind in 'fi':
                    G += 7
            rec['args_after_write'] = enc(list(args) + list(kwargs.values()))
        out.append(rec)

    # --- generators of the inputs ------------------------------------------

    def tt(rng, n, r, layout='C', dtype=float, scale=1.):
        """TT-tensor with the mode sizes n and the ranks r (len(n)+1 items)."""
        Y = []
        for k in range(len(n)):
            sh = (r[k], n[k], r[k+1])
            G = rng.normal(size=sh) * scale
            if dtype is int:
                G = np.round(G * 5).astype(int)
            elif dtype is not float:
                G = G.astype(dtype)
            lay = layout[k % len(layout)] if isinstance(layout, (list, tuple)) \
                else layout
            if lay == 'F':
                G = np.asfortranarray(G)
            elif lay == 'V':   # non-contiguous view into a larger block
                B = np.zeros((sh[0]*2, sh[1]*2 + 1, sh[2]*2), dtype=G.dtype)
                B[::2, 1::2, ::2] = G
                G = B[::2, 1::2, ::2]
            elif lay == 'T':   # transposed view
                G = np.ascontiguousarray(G.transpose(2, 1, 0)).transpose(2, 1, 0)
            elif lay == 'R':   # read-only
                G = G.copy()
                G.flags.writeable = False
            Y.append(G)
        return Y

    PROFILES = [
        # (n, r)
        ([5], [1, 1]),
        ([4, 4], [1, 1, 1]),
        ([4, 4], [1, 3, 1]),
        ([3, 6], [1, 9, 1]),                     # over-ranked
        ([4, 5, 6], [1, 2, 3, 1]),
        ([4, 4, 4], [1, 1, 1, 1]),               # rank 1
        ([3, 3, 3], [1, 7, 8, 1]),               # over-ranked
        ([2, 2, 2, 2, 2], [1, 2, 4, 4, 2, 1]),
        ([5, 5, 3, 5, 5], [1, 3, 3, 3, 3, 1]),
        ([6, 1, 6, 2, 6, 1], [1, 2, 2, 3, 2, 2, 1]),
        ([4, 7, 4, 7, 4, 7, 4], [1, 2, 3, 4, 4, 3, 2, 1]),
    ]
    LAYOUTS = ['C', 'F', 'V', 'T', 'R', ['C', 'F', 'V', 'T']]

    out = []
    rng = np.random.default_rng(20240909)

    # --- scenarios: copy -----------------------------------------------------

    for v in [None, 0, 1, -3, 2.5, -0., float('nan'), float('inf'), True,
            False, np.float64(1.5), np.float32(2.5), np.int64(4), 1+2j,
            'text', (), []]:
        run('copy/scalar', teneva.copy, v)

    A = rng.normal(size=(3, 4, 5))
    for arr in [A, np.asfortranarray(A), A[::2, 1:, ::-1], A.T, A[0], A[:, 0],
            A.astype(np.float32), (A * 10).astype(int), np.array(3.),
            np.zeros((0, 3)), np.array([1, 2, 3]), A > 0, A.astype(complex),
            np.arange(6).reshape(2, 3).view(np.matrix) if hasattr(np, 'matrix')
            else np.arange(6).reshape(2, 3),
            np.ma.masked_array(A[0], mask=A[0] > 0)]:
        run('copy/array', teneva.copy, arr)
    ro = A.copy()
    ro.flags.writeable = False
    run('copy/array-ro', teneva.copy, ro)

    for n, r in PROFILES:
        for lay in LAYOUTS:
            run('copy/tt', teneva.copy, tt(rng, n, r, lay))
        run('copy/tt-int', teneva.copy, tt(rng, n, r, 'C', int))
        run('copy/tt-f32', teneva.copy, tt(rng, n, r, 'F', np.float32))
        run('copy/tt-tuple', teneva.copy, tuple(tt(rng, n, r, 'V')))
    Y = tt(rng, [3, 4, 5], [1, 2, 2, 1])
    run('copy/tt-shared-core', teneva.copy, [Y[0], Y[1], Y[1], Y[2]])
    run('copy/list-bad-1', teneva.copy, [Y[0], 1., Y[1]])
    run('copy/list-bad-2', teneva.copy, [1, 2, 3])
    run('copy/list-of-lists', teneva.copy, [[1, 2], [3, [4]]])
    run('copy/list-none', teneva.copy, [None])
    run('copy/dict', teneva.copy, {'a': 1})
    run('copy/gen', teneva.copy, (G for G in Y))
    run('copy/nested', teneva.copy, [Y, Y])

    # --- scenarios: sub (and accuracy, which calls it) -----------------------

    NUMS = [0, 1, -2, 3.5, -0.25, 0., -0., 1.E-20, 1.E+30, True, float('nan'),
        float('inf')]
    for a in NUMS:
        for b in [0, 2, -1.5, True, float('inf')]:
            run('sub/num-num', teneva.sub, a, b)
    run('sub/npnum-npnum', teneva.sub, np.float64(2.), np.float64(3.))
    run('sub/num-npint', teneva.sub, 2., np.int64(3))
    run('sub/none-num', teneva.sub, None, 1.)
    run('sub/num-none', teneva.sub, 1., None)

    for seed, (n, r) in enumerate(PROFILES):
        r2 = [1] + [max(1, q - 1) for q in r[1:-1]] + [1]
        r3 = [1] + [q + 2 for q in r[1:-1]] + [1]
        for lay in LAYOUTS:
            Y1 = tt(rng, n, r, lay)
            for rr in [r, r2, r3]:
                Y2 = tt(rng, n, rr, lay)
                run('sub/tt-tt', teneva.sub, Y1, Y2)
            run('sub/tt-self', teneva.sub, Y1, Y1)
            for v in NUMS:
                run('sub/tt-num', teneva.sub, Y1, v)
                run('sub/num-tt', teneva.sub, v, Y1)
        Y1 = tt(rng, n, r)
        run('sub/tt-ttint', teneva.sub, Y1, tt(rng, n, r2, 'C', int))
        run('sub/ttint-tt', teneva.sub, tt(rng, n, r2, 'F', int), Y1)
        run('sub/ttint-num', teneva.sub, tt(rng, n, r2, 'F', int), 2)
        run('sub/num-ttint', teneva.sub, 2, tt(rng, n, r2, 'V', int))
        run('sub/tt-ttf32', teneva.sub, Y1, tt(rng, n, r3, 'C', np.float32))
        run('sub/tt-ttcplx', teneva.sub, Y1, tt(rng, n, r, 'C', complex))
        run('sub/tt-tuple', teneva.sub, Y1, tuple(tt(rng, n, r3, 'T')))
        run('sub/tuple-tt', teneva.sub, tuple(tt(rng, n, r3, 'T')), Y1)
        run('sub/tt-npnum', teneva.sub, Y1, np.float64(1.5))
        run('sub/tt-ro', teneva.sub, Y1, tt(rng, n, r, 'R'))
        run('accuracy/tt-tt', teneva.accuracy, Y1, tt(rng, n, r2, 'F'))
        run('accuracy/tt-near', teneva.accuracy, Y1,
            [G * (1. + 1.E-9 * (i == 0)) for i, G in enumerate(Y1)])
        run('accuracy/huge', teneva.accuracy,
            tt(rng, n, r, 'C', float, 1.E+60), tt(rng, n, r, 'C', float, 1.E-60))

    # Mismatched / degenerate inputs (the same exceptions are expected):
    Y1 = tt(rng, [3, 4, 5], [1, 2, 2, 1])
    run('sub/bad-shape', teneva.sub, Y1, tt(rng, [3, 5, 5], [1, 2, 2, 1]))
    run('sub/bad-d', teneva.sub, Y1, tt(rng, [3, 4], [1, 2, 1]))
    run('sub/bad-d2', teneva.sub, tt(rng, [3, 4], [1, 2, 1]), Y1)
    run('sub/empty-2', teneva.sub, Y1, [])
    run('sub/empty-1', teneva.sub, [], Y1)
    run('sub/empty-num', teneva.sub, [], 1.)
    run('sub/num-empty', teneva.sub, 1., [])
    run('sub/tt-array', teneva.sub, Y1, rng.normal(size=(3, 4, 5)))
    run('sub/tt-array1d', teneva.sub, Y1, rng.normal(size=(3, )))
    run('sub/tt-str', teneva.sub, Y1, 'abc')
    run('sub/tt-cplxnum', teneva.sub, Y1, 1+1j)
    run('sub/tt-none', teneva.sub, Y1, None)
    run('sub/none-tt', teneva.sub, None, Y1)
    run('sub/tt-listnum', teneva.sub, Y1, [1., 2., 3.])

    # --- scenarios: call sites of copy / sub ---------------------------------

    for n, r in PROFILES[2:8]:
        Y1 = tt(rng, n, r, ['F', 'V'])
        Y2 = tt(rng, n, r, 'T')
        run('site/mul-num', teneva.mul, Y1, 2.5)
        run('site/num-mul', teneva.mul, -3, Y2)
        run('site/outer', teneva.outer, Y1, Y2)
        run('site/truncate', teneva.truncate, Y1, 1.E-8)
        run('site/orthogonalize', teneva.orthogonalize, Y1, len(n) // 2)

    # --- scenarios: func_gets ------------------------------------------------

    for n, r in PROFILES:
        d = len(n)
        for lay in ['C', 'F', 'V', ['T', 'C']]:
            A = tt(rng, n, r, lay)
            m_list = [None, 1, 2, 3, 7, 8., 9.7, n, list(n)[::-1],
                [k + (i % 2) for i, k in enumerate(n)],
                [k + 3 for k in n], np.array(n) * 2,
                np.array(n, dtype=float) + 1., [5] * d, tuple([6] * d),
                [3 + i for i in range(d)], [4] * (d + 1), [4] * max(d - 1, 0),
                0, -1, [0] * d, [[5] * d], 'x', True]
            for m in m_list:
                for kind in ['cheb', 'sin']:
                    run('func_gets/' + kind, teneva.func_gets, A, m, kind)
            run('func_gets/default', teneva.func_gets, A)
            run('func_gets/kw', teneva.func_gets, A, m=4, kind='sin')
            run('func_gets/bad-kind', teneva.func_gets, A, 5, 'uni')
            run('func_gets/bad-kind2', teneva.func_gets, A, None, None)
        run('func_gets/int', teneva.func_gets, tt(rng, n, r, 'C', int), 5)
        run('func_gets/f32', teneva.func_gets,
            tt(rng, n, r, 'F', np.float32), None, 'sin')
        run('func_gets/cplx', teneva.func_gets,
            tt(rng, n, r, 'C', complex), [4] * d, 'cheb')
        run('func_gets/tuple', teneva.func_gets, tuple(tt(rng, n, r)), 6)
    run('func_gets/empty', teneva.func_gets, [])
    run('func_gets/empty-m', teneva.func_gets, [], 4)
    run('func_gets/empty-sin', teneva.func_gets, [], None, 'sin')
    # Round trip through the interpolation (func_int -> func_gets):
    for n, r in PROFILES[1:9]:
        Y = tt(rng, n, r)
        for kind in ['cheb', 'sin']:
            try:
                A = teneva.func_int(Y, kind)
            except BaseException as e:
                continue
            run('func_gets/roundtrip-' + kind, teneva.func_gets, A, None, kind)
            run('func_gets/roundtrip2-' + kind, teneva.func_gets, A,
                [2 * k + 1 for k in n], kind)

    with open(fpath, 'wb') as f:
        pickle.dump(out, f)


# ---------------------------------------------------------------------------
# Comparison part
# ---------------------------------------------------------------------------


def _same(a, b, path, errs, stat):
    import numpy as np

    if type(a) is not type(b):
        errs.append(f'{path}: type {type(a).__name__} vs {type(b).__name__}')
        return
    if isinstance(a, tuple) and len(a) > 0 and a[0] == 'nd':
        if a[1:8] != b[1:8]:
            errs.append(f'{path}: array meta {a[1:8]} vs {b[1:8]}')
            return
        x, y = a[8], b[8]
        stat['arrays'] += 1
        if x.dtype.kind in 'fc':
            if np.array_equal(x, y, equal_nan=True):
                stat['exact'] += 1
            elif not np.allclose(x, y, rtol=RTOL, atol=0., equal_nan=True):
                errs.append(f'{path}: values differ '
                    f'(max abs {np.nanmax(np.abs(x - y))})')
        else:
            if x.dtype == object:
                ok = repr(x.tolist()) == repr(y.tolist())
            else:
                ok = np.array_equal(x, y)
            if ok:
                stat['exact'] += 1
            else:
                errs.append(f'{path}: values differ')
        return
    if isinstance(a, (list, tuple)):
        if len(a) != len(b):
            errs.append(f'{path}: length {len(a)} vs {len(b)}')
            return
        for i, (u, v) in enumerate(zip(a, b)):
            _same(u, v, f'{path}[{i}]', errs, stat)
        return
    if isinstance(a, dict):
        if sorted(a) != sorted(b):
            errs.append(f'{path}: keys {sorted(a)} vs {sorted(b)}')
            return
        for k in a:
            _same(a[k], b[k], f'{path}.{k}', errs, stat)
        return
    if isinstance(a, float):
        import math
        if a != b and not (math.isnan(a) and math.isnan(b)):
            if not math.isclose(a, b, rel_tol=RTOL, abs_tol=0.):
                errs.append(f'{path}: {a!r} vs {b!r}')
        elif math.copysign(1., a) != math.copysign(1., b):
            errs.append(f'{path}: sign of zero {a!r} vs {b!r}')
        return
    if isinstance(a, complex):
        if a != b and not (a != a and b != b):
            errs.append(f'{path}: {a!r} vs {b!r}')
        return
    if a != b:
        errs.append(f'{path}: {a!r} vs {b!r}')


def main():
    py = sys.executable
    here = os.path.abspath(__file__)
    files = []
    with tempfile.TemporaryDirectory() as tmp:
        for tag, root in [('orig', ROOT_ORIG), ('twin', ROOT_TWIN)]:
            fpath = os.path.join(tmp, tag + '.pkl')
            env = dict(os.environ)
            env.pop('PYTHONPATH', None)
            env['PYTHONDONTWRITEBYTECODE'] = '1'
            res = subprocess.run([py, here, '--worker', fpath], cwd=root,
                env=env, capture_output=True, text=True)
            if res.returncode != 0:
                print(f'Worker "{tag}" failed:\n{res.stdout}\n{res.stderr}')
                return 1
            with open(fpath, 'rb') as f:
                files.append(pickle.load(f))

    R1, R2 = files
    if len(R1) != len(R2):
        print(f'Different number of scenarios: {len(R1)} vs {len(R2)}')
        return 1

    errs = []
    stat = {'arrays': 0, 'exact': 0}
    n_exc = 0
    n_alias = 0
    n_mut = 0
    groups = {}
    for i, (a, b) in enumerate(zip(R1, R2)):
        e = []
        _same(a, b, f'#{i} {a["name"]}', e, stat)
        errs.extend(e)
        g = a['name'].split('/')[0]
        groups[g] = groups.get(g, 0) + 1
        n_exc += a['exc'] is not None
        n_alias += bool(a.get('alias'))
        e2 = []
        _same(a['args_before'], a['args_after'], 'x', e2, {'arrays': 0,
            'exact': 0})
        n_mut += len(e2) > 0

    print(f'Scenarios            : {len(R1)}  {groups}')
    print(f'  raising (both)     : {n_exc}')
    print(f'  aliasing (orig)    : {n_alias}')
    print(f'  mutating (orig)    : {n_mut}')
    print(f'Arrays compared      : {stat["arrays"]} '
        f'(bit-for-bit equal: {stat["exact"]})')
    if errs:
        print(f'DIFFERENCES: {len(errs)}')
        for e in errs[:40]:
            print('  ' + e)
        return 1
    print('All scenarios agree')
    return 0


if __name__ == '__main__':
    if len(sys.argv) == 3 and sys.argv[1] == '--worker':
        _worker(sys.argv[2])
        sys.exit(0)
    sys.exit(main())
