"""Equivalence demonstration for the C04 twin B refactoring.

The same deterministic scenario list is run in two subprocesses, one with the
pristine package (cwd=/tmp/twinsB/C04/orig) and one with the refactored package
(cwd=/tmp/wt/C04). Each dumps a pickle with the full observable outcome of each
call (returned values, dtypes, shapes, memory layout flags, exceptions, and the
mutation behaviour of the argument); the two pickles are then compared.

Exit code 0 if everything agrees, 1 otherwise.
"""
import os
import pickle
import subprocess
import sys
import tempfile


ORIG = '/tmp/twinsB/C04/orig'
TWIN = '/tmp/wt/C04'
PY = '/venv/bin/python'


# ---------------------------------------------------------------------------
# Worker part (runs inside one of the two package roots)
# ---------------------------------------------------------------------------


def _make_tensors():
    import numpy as np

    out = []

    def rand_tt(rng, n, r, scale=1., dtype=float):
        d = len(n)
        r = [1] + list(r) + [1]
        Y = []
        for j in range(d):
            G = rng.standard_normal((r[j], n[j], r[j+1])) * scale
            Y.append(G.astype(dtype))
        return Y

    rng = np.random.default_rng(12345)

    # Generic random tensors with various d / shapes / ranks:
    out.append(('d2', rand_tt(rng, [3, 4], [2])))
    out.append(('d2-rank1', rand_tt(rng, [5, 2], [1])))
    out.append(('d3', rand_tt(rng, [4, 3, 5], [2, 3])))
    out.append(('d4', rand_tt(rng, [3, 4, 2, 5], [3, 5, 2])))
    out.append(('d5-rank1', rand_tt(rng, [2, 3, 4, 3, 2], [1, 1, 1, 1])))
    out.append(('d6', rand_tt(rng, [2, 3, 2, 4, 3, 2], [2, 4, 5, 4, 2])))
    out.append(('d7-const', rand_tt(rng, [3]*7, [3]*6)))

    # Over-ranked cores (rank larger than r*n on either side):
    out.append(('over-1', rand_tt(rng, [2, 2, 2], [7, 9])))
    out.append(('over-2', rand_tt(rng, [2, 3, 2, 3], [5, 40, 6])))
    out.append(('over-3', rand_tt(rng, [3, 2, 2, 2, 3], [10, 3, 30, 8])))

    # Mode size 1:
    out.append(('mode1-a', rand_tt(rng, [1, 3, 1, 4], [2, 3, 3])))
    out.append(('mode1-b', rand_tt(rng, [1, 1, 1], [3, 2])))
    out.append(('mode1-c', rand_tt(rng, [4, 1, 1, 5], [4, 6, 3])))

    # Rank-deficient cores:
    Y = rand_tt(rng, [4, 5, 4, 3], [4, 5, 3])
    A = rng.standard_normal((4 * 5, 2)) @ rng.standard_normal((2, 5))
    Y[1] = A.reshape(4, 5, 5)
    Y[2][1] = Y[2][0] * 2.
    Y[2][3] = 0.
    out.append(('deficient-a', Y))

    Y = rand_tt(rng, [3, 3, 3, 3, 3], [3, 6, 6, 3])
    Y[2][:] = np.outer(rng.standard_normal(18), rng.standard_normal(6)).reshape(
        6, 3, 6, order='F')
    Y[3][:, :, 1] = Y[3][:, :, 0]
    out.append(('deficient-b', Y))

    Y = rand_tt(rng, [3, 4, 3], [3, 3])
    Y[1][:] = 0.
    out.append(('zero-core', Y))

    Y = rand_tt(rng, [2, 3, 2, 2], [2, 2, 2])
    for G in Y:
        G[:] = 0.
    out.append(('zero-tensor', Y))

    # Huge and tiny scales:
    out.append(('huge', rand_tt(rng, [3, 4, 3, 2], [3, 4, 2], scale=1.E+60)))
    out.append(('huge-one', rand_tt(rng, [3, 4, 3], [3, 4])))
    out[-1][1][1] *= 1.E+200
    out.append(('tiny', rand_tt(rng, [3, 4, 3, 2], [3, 4, 2], scale=1.E-60)))
    out.append(('tiny-thr', rand_tt(rng, [3, 2, 3], [2, 2], scale=1.E-101)))
    out.append(('mixed', rand_tt(rng, [2, 3, 4, 3, 2], [2, 3, 3, 2])))
    out[-1][1][0] *= 1.E+120
    out[-1][1][3] *= 1.E-120
    out[-1][1][4] *= 1.E+30

    # Memory layouts: Fortran-ordered and non-contiguous cores:
    Y = rand_tt(rng, [3, 4, 5, 2], [3, 4, 3])
    out.append(('fortran', [np.asfortranarray(G) for G in Y]))
    Y = rand_tt(rng, [6, 8, 6], [6, 4])
    out.append(('strided', [G[::1, ::2, ::1] if j != 1 else G[::2, ::2, ::2]
        for j, G in enumerate([Y[0], rng.standard_normal((12, 8, 8)), Y[2]])]))
    Y = rand_tt(rng, [3, 4, 3, 2], [3, 4, 2])
    out.append(('transposed', [G.transpose(2, 1, 0).copy().transpose(2, 1, 0)
        for G in Y]))

    # Other dtypes:
    out.append(('float32', rand_tt(rng, [3, 4, 3], [2, 3], dtype=np.float32)))
    out.append(('complex', [G + 1j * H for G, H in zip(
        rand_tt(rng, [3, 2, 4], [3, 2]), rand_tt(rng, [3, 2, 4], [3, 2]))]))

    # Aliased cores (the same array object in two places):
    G = rng.standard_normal((1, 3, 1))
    out.append(('aliased', [G, G, G]))
    G = rng.standard_normal((2, 2, 2))
    out.append(('aliased-mid', [rng.standard_normal((1, 2, 2)), G, G,
        rng.standard_normal((2, 2, 1))]))

    # Many seeds with random shapes / ranks:
    for seed in range(25):
        rng_s = np.random.default_rng(1000 + seed)
        d = int(rng_s.integers(2, 7))
        n = [int(v) for v in rng_s.integers(1, 6, size=d)]
        r = [int(v) for v in rng_s.integers(1, 9, size=d-1)]
        scale = float(10. ** rng_s.integers(-40, 41))
        out.append((f'seed-{seed}', rand_tt(rng_s, n, r, scale=scale)))

    return out


def _describe_array(A):
    import numpy as np
    if not isinstance(A, np.ndarray):
        return ('obj', type(A).__name__, repr(A))
    return ('arr', A.shape, str(A.dtype), bool(A.flags['C_CONTIGUOUS']),
        bool(A.flags['F_CONTIGUOUS']), np.array(A, order='C').tobytes(),
        np.array(A, order='C'))


def _call(func, Y0, args, kwargs):
    """Run func(Y, *args, **kwargs) on a fresh copy; record all observables."""
    import numpy as np

    # Fresh argument with the same layouts / aliasing as in the template:
    memo = {}
    Y = []
    for G in Y0:
        if id(G) not in memo:
            if G.flags['C_CONTIGUOUS'] or G.flags['F_CONTIGUOUS']:
                H = np.array(G, order='K')
            else:
                # Non-contiguous view of a larger fresh buffer:
                buf = np.zeros(tuple(2 * s for s in G.shape), dtype=G.dtype)
                H = buf[::2, ::2, ::2]
                H[...] = G
            memo[id(G)] = H
        Y.append(memo[id(G)])

    cores_before = list(Y)
    bytes_before = [np.array(G, order='C').tobytes() for G in cores_before]
    flags_before = [(G.flags['C_CONTIGUOUS'], G.flags['F_CONTIGUOUS'],
        G.strides) for G in cores_before]

    rec = {}
    try:
        res = func(Y, *args, **kwargs)
        rec['exc'] = None
    except Exception as e:
        res = None
        rec['exc'] = (type(e).__name__, str(e))

    # Result:
    if res is None:
        rec['res'] = None
    else:
        is_pair = isinstance(res, tuple)
        Z = res[0] if is_pair else res
        rec['res_kind'] = (type(res).__name__, type(Z).__name__)
        rec['res_is_arg'] = Z is Y
        rec['res'] = [_describe_array(G) for G in Z]
        rec['res_shares_core'] = [any(G is H for H in cores_before) for G in Z]
        if is_pair:
            rec['p'] = (type(res[1]).__name__, res[1], len(res))

    # Mutation of the argument:
    rec['arg_len'] = len(Y)
    rec['arg_same_obj'] = [any(G is H for H in cores_before) and G is H0
        for G, H0 in zip(Y, cores_before)]
    rec['arg_after'] = [_describe_array(G) for G in Y]
    rec['old_cores_untouched'] = [
        np.array(G, order='C').tobytes() == b and
        (G.flags['C_CONTIGUOUS'], G.flags['F_CONTIGUOUS'], G.strides) == f
        for G, b, f in zip(cores_before, bytes_before, flags_before)]
    return rec


def worker(fpath):
    sys.path.insert(0, os.getcwd())
    import numpy as np
    import teneva
    root = os.path.realpath(os.getcwd())
    assert os.path.realpath(teneva.__file__).startswith(root + os.sep), \
        (teneva.__file__, root)

    results = {}
    for name, Y0 in _make_tensors():
        d = len(Y0)

        # Full orthogonalization:
        ks = list(range(d)) + [None, -1, d, d + 3, -d, np.int64(d - 1),
            np.int32(0)]
        for k in ks:
            for use_stab in [False, True]:
                key = (name, 'orthogonalize', repr(k), use_stab)
                results[key] = _call(teneva.orthogonalize, Y0, (),
                    dict(k=k, use_stab=use_stab))
        results[(name, 'orthogonalize', 'default')] = _call(
            teneva.orthogonalize, Y0, (), {})
        results[(name, 'orthogonalize', 'positional')] = _call(
            teneva.orthogonalize, Y0, (d // 2, 1), {})

        # Single steps:
        for fname in ['orthogonalize_left', 'orthogonalize_right']:
            func = getattr(teneva, fname)
            for i in list(range(-2, d + 2)) + [None, np.int64(1),
                    np.int64(d - 2)]:
                for inplace in [False, True]:
                    key = (name, fname, repr(i), inplace)
                    results[key] = _call(func, Y0, (i,), dict(inplace=inplace))
            results[(name, fname, 'default')] = _call(func, Y0, (d // 2,), {})
            results[(name, fname, 'positional')] = _call(func, Y0,
                (d // 2, True), {})

        # Chains of single in-place steps (as the sweeps in other modules):
        def chain(Y):
            for i in range(d - 1):
                teneva.orthogonalize_left(Y, i, inplace=True)
            for i in range(d - 1, 0, -1):
                teneva.orthogonalize_right(Y, i, inplace=True)
            return Y
        results[(name, 'chain')] = _call(chain, Y0, (), {})

        # The stabilization helper itself on the resulting cores:
        def stab(Y):
            Z, p = teneva.orthogonalize(Y, 0, use_stab=True)
            Z[0], p = teneva.core_stab(Z[0], p)
            return Z, p
        results[(name, 'stab-last')] = _call(stab, Y0, (), {})

    # Degenerate arguments outside of the main domain (same exceptions):
    one = [np.ones((1, 3, 1))]
    for fname in ['orthogonalize', 'orthogonalize_left', 'orthogonalize_right']:
        for a in [None, 0, 1, -1]:
            for flag in [False, True]:
                results[('one-core', fname, repr(a), flag)] = _call(
                    getattr(teneva, fname), one, (a, flag), {})
    for flag in [False, True]:
        results[('empty', 'orthogonalize', flag)] = _call(
            teneva.orthogonalize, [], (None, flag), {})

    with open(fpath, 'wb') as f:
        pickle.dump(results, f)


# ---------------------------------------------------------------------------
# Comparison part
# ---------------------------------------------------------------------------


def _cmp_arrays(a, b, stat):
    import numpy as np
    if a[0] != b[0]:
        return 'kind differs'
    if a[0] == 'obj':
        return None if a[1:] == b[1:] else 'object differs'
    if a[1] != b[1]:
        return f'shape differs {a[1]} vs {b[1]}'
    if a[2] != b[2]:
        return f'dtype differs {a[2]} vs {b[2]}'
    if a[3:5] != b[3:5]:
        return f'memory layout differs {a[3:5]} vs {b[3:5]}'
    stat['arrays'] += 1
    if a[5] == b[5]:
        stat['bitwise'] += 1
        return None
    A, B = a[6], b[6]
    with np.errstate(all='ignore'):
        scale = max(np.max(np.abs(A[np.isfinite(A)]), initial=0.), 1.E-300)
        if not np.allclose(A, B, rtol=1.E-13, atol=1.E-13 * scale,
                equal_nan=True):
            return 'values differ'
    return None


def compare(res_a, res_b):
    stat = {'arrays': 0, 'bitwise': 0, 'calls': 0, 'exceptions': 0}
    bad = []
    if list(res_a.keys()) != list(res_b.keys()):
        bad.append(('keys', 'scenario lists differ'))
        return bad, stat
    for key in res_a:
        a, b = res_a[key], res_b[key]
        stat['calls'] += 1
        if a['exc'] is not None:
            stat['exceptions'] += 1
        if set(a.keys()) != set(b.keys()):
            bad.append((key, 'record fields differ'))
            continue
        for fld in a:
            if fld in ('res', 'arg_after'):
                if (a[fld] is None) != (b[fld] is None):
                    bad.append((key, f'{fld}: None vs value'))
                    continue
                if a[fld] is None:
                    continue
                if len(a[fld]) != len(b[fld]):
                    bad.append((key, f'{fld}: lengths differ'))
                    continue
                for j, (x, y) in enumerate(zip(a[fld], b[fld])):
                    msg = _cmp_arrays(x, y, stat)
                    if msg:
                        bad.append((key, f'{fld}[{j}]: {msg}'))
            elif a[fld] != b[fld]:
                bad.append((key, f'{fld}: {a[fld]!r} vs {b[fld]!r}'))
    return bad, stat


def main():
    if len(sys.argv) == 3 and sys.argv[1] == '--worker':
        worker(sys.argv[2])
        return 0

    tmp = tempfile.mkdtemp(prefix='c04-equiv-')
    files = {}
    env = dict(os.environ)
    env.pop('PYTHONPATH', None)
    env['PYTHONDONTWRITEBYTECODE'] = '1'
    for tag, root in [('orig', ORIG), ('twin', TWIN)]:
        files[tag] = os.path.join(tmp, tag + '.pkl')
        proc = subprocess.run([PY, os.path.abspath(__file__), '--worker',
            files[tag]], cwd=root, env=env)
        if proc.returncode != 0:
            print(f'FAIL: worker "{tag}" crashed')
            return 1

    with open(files['orig'], 'rb') as f:
        res_a = pickle.load(f)
    with open(files['twin'], 'rb') as f:
        res_b = pickle.load(f)

    bad, stat = compare(res_a, res_b)
    print(f"calls compared      : {stat['calls']}")
    print(f"  ending in exception: {stat['exceptions']}")
    print(f"arrays compared     : {stat['arrays']}")
    print(f"  bitwise identical : {stat['bitwise']}")
    if bad:
        print(f'MISMATCHES: {len(bad)}')
        for key, msg in bad[:40]:
            print('  ', key, '->', msg[:300])
        return 1
    print('OK: original and refactored packages agree')
    return 0


if __name__ == '__main__':
    sys.exit(main())
