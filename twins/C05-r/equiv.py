"""Equivalence demonstration for the C05 refactoring (TT-cross anchors).

Usage:  /venv/bin/python /tmp/twinsA/C05/equiv.py

The script runs the same deterministic list of scenarios in two subprocesses,
one which imports the pristine package (/tmp/twinsA/C05/orig/teneva) and one
which imports the refactored package (/tmp/wt/C05/teneva). Each subprocess
dumps its results into a pickle, and then the two pickles are compared
(np.allclose with tight tolerance, equal shapes / dtypes / python types, equal
exceptions, equal mutation of the arguments, of info and of the cache, equal
sequences of the oracle requests and equal printed logs up to the timing).

Exit code is 0 if everything agrees and 1 otherwise.

"""
import contextlib
import io
import os
import pickle
import re
import subprocess
import sys
import tempfile


ROOT_ORIG = '/tmp/twinsA/C05/orig'
ROOT_TWIN = os.environ.get('EQUIV_TWIN_ROOT', '/tmp/wt/C05')
RTOL = 1.E-11
ATOL = 1.E-12


# ---------------------------------------------------------------------------
# Worker part (it is run in the subprocess, the package root is sys.argv[2])
# ---------------------------------------------------------------------------


def _tt_rand(rng, n, r):
    """Random TT-tensor with the shape n and the rank profile r (len d+1)."""
    import numpy as np
    return [rng.uniform(-1., 1., size=(r[i], n[i], r[i+1]))
        for i in range(len(n))]


def _ranks(d, r):
    if isinstance(r, int):
        return [1] + [r] * (d-1) + [1]
    return [1] + list(r) + [1]


def _snap(x):
    """Deep snapshot of the (possibly nested) value for the later compare."""
    import numpy as np
    if isinstance(x, np.ndarray):
        return x.copy()
    if isinstance(x, dict):
        return {'__dict__': [(_snap(k), _snap(v)) for k, v in x.items()]}
    if isinstance(x, (list, tuple)):
        return {'__seq__': type(x).__name__, 'items': [_snap(v) for v in x]}
    if isinstance(x, np.generic):
        return {'__npscalar__': type(x).__name__, 'value': x.item()}
    return x


def _snap_cache(cache):
    """Cache as the ordered list (the insertion order is compared too)."""
    if cache is None:
        return None
    out = []
    for key, val in cache.items():
        out.append((tuple(int(k) for k in key),
            tuple(type(k).__name__ for k in key), type(val).__name__, val))
    return out


def _snap_info(info):
    info = dict(info)
    info.pop('t', None)
    return _snap(info)


def _mask_time(text):
    return re.sub(r'time:\s*[-+0-9.eE]+', 'time: <t>', text)


class Oracle:
    """Element oracle for the TT-tensor, which records all the requests."""

    def __init__(self, teneva, Y, none_after=None, as_list=False):
        self.teneva = teneva
        self.Y = Y
        self.calls = []
        self.none_after = none_after
        self.as_list = as_list

    def __call__(self, I):
        import numpy as np
        self.calls.append(np.array(I, copy=True))
        if self.none_after is not None and len(self.calls) > self.none_after:
            return None
        y = self.teneva.get_many(self.Y, I)
        return list(y) if self.as_list else y


class _Timeout(BaseException):
    pass


def _alarm(signum, frame):
    raise _Timeout()


def _guard(fn):
    """Run fn and return its result or the description of the exception."""
    import signal
    signal.signal(signal.SIGALRM, _alarm)
    signal.alarm(120)
    try:
        return {'ok': fn()}
    except Exception as exc:
        return {'exc': type(exc).__name__, 'msg': str(exc)}
    except _Timeout:
        print('worker: TIMEOUT of the scenario (it is a failure)', flush=True)
        return {'timeout': os.getcwd()} # Differs for two packages => FAIL
    finally:
        signal.alarm(0)


def scenarios_iter(teneva, np, out):
    from teneva.cross import _iter
    rng = np.random.default_rng(101)
    shapes = [(1, 2, 1), (1, 5, 1), (1, 4, 3), (3, 4, 1), (2, 3, 2), (3, 5, 4),
        (4, 2, 3), (1, 2, 5), (5, 2, 1), (2, 2, 7), (7, 2, 2), (6, 3, 6),
        (1, 1, 1), (2, 1, 2), (3, 1, 2), (4, 6, 9), (9, 6, 4)]
    opts_list = [
        {},
        {'tau0': 1.05, 'k0': 100},
        {'tau': 1.1, 'dr_min': 0, 'dr_max': 0},
        {'tau': 1.1, 'dr_min': 1, 'dr_max': 1},
        {'tau': 1.1, 'dr_min': 1, 'dr_max': 3},
        {'tau': 1.01, 'dr_min': 0, 'dr_max': 2, 'tau0': 1.01, 'k0': 3},
        {'tau': 1.5, 'dr_min': 2, 'dr_max': 2, 'k0': 1},
    ]
    num = 0
    for (r1, n, r2) in shapes:
        for ltr in [True, False]:
            for with_I in [False, True]:
                for io_, opts in enumerate(opts_list):
                    for kind in ['rand', 'lowrank', 'fortran']:
                        Z = rng.normal(size=(r1, n, r2))
                        if kind == 'lowrank':
                            # Rank deficient unfolding (over-ranked core):
                            u = rng.normal(size=(r1, n, 1))
                            v = rng.normal(size=(1, 1, r2))
                            Z = u * v
                        if kind == 'fortran':
                            Z = np.asfortranarray(Z)
                        Ig = np.arange(n, dtype=int).reshape(-1, 1)
                        I = None
                        if with_I:
                            r_old = r1 if ltr else r2
                            q = int(rng.integers(1, 4))
                            I = rng.integers(0, 7, size=(r_old, q))
                        Z0, Ig0 = Z.copy(), Ig.copy()
                        I0 = None if I is None else I.copy()

                        def run():
                            G, R, I_new = _iter(Z, Ig, I, ltr=ltr, **opts)
                            return _snap((G, R, I_new))

                        res = _guard(run)
                        res['mut'] = (np.array_equal(Z, Z0),
                            np.array_equal(Ig, Ig0),
                            I is None or np.array_equal(I, I0))
                        out[f'iter/{num}/{r1}x{n}x{r2}/ltr={ltr}/I={with_I}'
                            f'/o={io_}/{kind}'] = res
                        num += 1

    # Positional call (as it was in the original cross) vs keyword defaults:
    Z = rng.normal(size=(3, 4, 2))
    Ig = np.arange(4, dtype=int).reshape(-1, 1)
    I = rng.integers(0, 5, size=(3, 2))
    out['iter/positional'] = _guard(lambda: _snap(
        _iter(Z, Ig, I, 1.1, 1, 2, 1.05, 100, ltr=True)))
    out['iter/positional_all'] = _guard(lambda: _snap(
        _iter(Z, Ig, None, 1.1, 1, 2, 1.05, 100, False)))
    # Wrong input (exception should be the same):
    out['iter/bad_shape'] = _guard(lambda: _snap(
        _iter(rng.normal(size=(3, 4)), Ig, None)))


def scenarios_func(teneva, np, out):
    from teneva.cross import _func, _func_eval
    rng = np.random.default_rng(202)
    num = 0

    def info_new(m=0, m_cache=0, m_max=None):
        return {'m': m, 'm_cache': m_cache, 'm_max': m_max, 'stop': None,
            'extra': 'keep'}

    cases = [
        # (n, r1, q1, r2, q2) -- q = number of columns of the index set
        (3, None, 0, None, 0),
        (4, None, 0, 2, 1),
        (4, 3, 1, None, 0),
        (2, 1, 1, 1, 1),
        (3, 2, 2, 4, 1),
        (5, 4, 1, 3, 3),
        (1, 2, 1, 2, 1),
        (6, 1, 3, 5, 2),
    ]
    for (n, r1, q1, r2, q2) in cases:
        d = q1 + 1 + q2
        nn = [5] * q1 + [n] + [6] * q2
        Yt = _tt_rand(rng, nn, _ranks(d, 2))
        Ig = np.arange(n, dtype=int).reshape(-1, 1)
        Ir = None if r1 is None else rng.integers(0, 5, size=(r1, q1))
        Ic = None if r2 is None else rng.integers(0, 6, size=(r2, q2))
        if Ir is not None and r1 > 1:
            Ir[-1] = Ir[0] # Duplicated multi-indices inside the batch
        m_full = n * (r1 or 1) * (r2 or 1)

        for mode in ['nocache', 'cache_empty', 'cache_part', 'cache_full']:
            for m_max in [None, m_full, m_full - 1, m_full + 3, 1]:
                for none_after in [None, 0]:
                    for as_list in [False, True]:
                        f = Oracle(teneva, Yt, none_after, as_list)
                        info = info_new(m=2, m_cache=1, m_max=m_max)
                        cache = None
                        if mode != 'nocache':
                            cache = {}
                        if mode in ['cache_part', 'cache_full']:
                            f0 = Oracle(teneva, Yt)
                            _func(f0, Ig, Ir, Ic, info_new(), cache)
                            if mode == 'cache_part':
                                for key in list(cache.keys())[::2]:
                                    del cache[key]
                            cache[(99,) * d] = 123.
                        args0 = (Ig.copy(),
                            None if Ir is None else Ir.copy(),
                            None if Ic is None else Ic.copy())

                        def run():
                            if cache is None and num % 2:
                                # Default value for the cache argument:
                                Z = _func(f, Ig, Ir, Ic, info)
                            else:
                                Z = _func(f, Ig, Ir, Ic, info, cache)
                            return _snap(Z)

                        res = _guard(run)
                        res['info'] = _snap_info(info)
                        res['cache'] = _snap_cache(cache)
                        res['calls'] = _snap(f.calls)
                        res['mut'] = (np.array_equal(Ig, args0[0]),
                            Ir is None or np.array_equal(Ir, args0[1]),
                            Ic is None or np.array_equal(Ic, args0[2]))
                        out[f'func/{num}/n={n}/r={r1},{r2}/{mode}/m={m_max}'
                            f'/none={none_after}/list={as_list}'] = res
                        num += 1

    # Direct calls of _func_eval (explicit index batches, incl. repeats):
    Yt = _tt_rand(rng, [3, 4, 5], _ranks(3, [2, 3]))
    batches = [
        np.array([[0, 0, 0]]),
        np.array([[0, 1, 2], [0, 1, 2], [2, 3, 4]]),
        np.array([[2, 3, 4], [1, 1, 1], [0, 0, 0], [1, 1, 1], [2, 0, 4]]),
        rng.integers(0, 3, size=(40, 3)),
    ]
    for ib, I in enumerate(batches):
        for mode in ['nocache', 'cache']:
            for m_max in [None, 2, 100]:
                for bad in [None, 'short', 'none', 'col']:
                    cache = None if mode == 'nocache' else {(0, 0, 0): -7.}
                    info = info_new(m=0, m_cache=0, m_max=m_max)
                    calls = []

                    def f(J):
                        calls.append(np.array(J, copy=True))
                        y = teneva.get_many(Yt, J)
                        if bad == 'short':
                            return y[:-1]
                        if bad == 'none':
                            return None
                        if bad == 'col':
                            return y.reshape(-1, 1)
                        return y

                    I0 = I.copy()
                    res = _guard(lambda: _snap(_func_eval(f, I, info, cache)))
                    res['info'] = _snap_info(info)
                    res['cache'] = _snap_cache(cache)
                    res['calls'] = _snap(calls)
                    res['mut'] = bool(np.array_equal(I, I0))
                    out[f'func_eval/{ib}/{mode}/m={m_max}/bad={bad}'] = res


def scenarios_info(teneva, np, out):
    from teneva.utils import _info_appr
    from time import perf_counter as tpc
    vals = [-1, -1., 0., 1.E-9, 1.E-3, 5., float('inf'), float('nan'),
        np.float64(1.E-5)]
    lims = [None, 0., 1.E-6, 1.E-3, 10., float('inf')]
    num = 0
    for stop in [None, 'm', 'conv', 'cb', 'func']:
        for e_val in vals:
            for ev_val in vals:
                for e in lims:
                    for e_vld in lims:
                        for nswp_cur, nswp in [(0, None), (0, 0), (3, 3),
                                (2, 3), (4, 3)]:
                            if stop is not None and num % 7:
                                num += 1
                                continue
                            info = {'stop': stop, 'e': e_val, 'e_vld': ev_val,
                                'nswp': nswp_cur, 'r': 2.5, 'm': 100,
                                'm_cache': 20, 'with_cache': bool(num % 2)}
                            if num % 5 == 0:
                                del info['with_cache']
                            if num % 11 == 0:
                                del info['m']
                            log = (num % 3 == 0)
                            buf = io.StringIO()

                            def run():
                                with contextlib.redirect_stdout(buf):
                                    if log:
                                        return _info_appr(info, tpc(), nswp, e,
                                            e_vld, True)
                                    elif num % 2:
                                        return _info_appr(info, tpc(), nswp, e,
                                            e_vld)
                                    else:
                                        return _info_appr(info, tpc(), nswp, e,
                                            e_vld, log=False)

                            res = _guard(run)
                            res['has_t'] = isinstance(info.get('t'), float)
                            res['info'] = _snap_info(info)
                            res['keys'] = list(info.keys())
                            res['out'] = _mask_time(buf.getvalue())
                            out[f'info/{num}'] = res
                            num += 1

    # Missing items in the info (the exception should be the same):
    for k, info in enumerate([
            {'stop': None},
            {'stop': None, 'e': 1., 'nswp': 1},
            {'stop': None, 'e_vld': 1., 'nswp': 1},
            {'stop': None, 'e_vld': 1., 'e': -1},
            {'stop': None, 'e_vld': None, 'e': 1., 'nswp': 0, 'r': 1.},
            {'e_vld': 1., 'e': 1., 'nswp': 0, 'r': 1.},
            {'stop': 'm', 'e_vld': 1., 'e': 1., 'nswp': 0},
            ]):
        for (nswp, e, e_vld, log) in [(None, None, None, False),
                (1, 1., 1., False), (1, None, None, True), (None, 1., None, True),
                (None, None, 2., True), (1, 1., 1., True)]:
            info_ = dict(info)
            buf = io.StringIO()

            def run():
                with contextlib.redirect_stdout(buf):
                    return _info_appr(info_, tpc(), nswp, e, e_vld, log)

            res = _guard(run)
            res['info'] = _snap_info(info_)
            res['out'] = _mask_time(buf.getvalue())
            out[f'info_bad/{k}/{nswp}/{e}/{e_vld}/{log}'] = res


def scenarios_cross(teneva, np, out):
    rng = np.random.default_rng(303)

    tensors = [
        # (shape, exact TT-ranks)
        ([4, 5], 1),
        ([6, 5], 3),
        ([3, 4, 5], 2),
        ([5, 4, 6], [1, 3]),
        ([2, 2, 2, 2], [2, 3, 2]),
        ([5, 6, 4, 5], 2),
        ([4, 4, 4, 4, 4], [2, 3, 3, 2]),
        ([3, 7, 2, 5, 4], 1),
        ([2, 3, 2, 3, 2, 3], 2),
    ]
    # (initial rank, dr_min, dr_max, nswp)
    settings = [
        ('rho', 0, 0, 2),
        ('rho', 0, 0, 0),
        (1, 1, 1, 4),
        (1, 1, 3, 3),
        (1, 0, 2, 3),
        (2, 2, 2, 2),
        ('over', 0, 0, 1),
        ('over', 1, 1, 2),
        (1, 0, 0, 1),
    ]
    num = 0
    for it, (n, r) in enumerate(tensors):
        d = len(n)
        r_full = _ranks(d, r)
        Yt = _tt_rand(rng, n, r_full)
        I_vld = np.vstack([rng.integers(0, k, size=50) for k in n]).T
        y_vld = teneva.get_many(Yt, I_vld)

        for iset, (r0, dr_min, dr_max, nswp) in enumerate(settings):
            if r0 == 'rho':
                r0_full = r_full
            elif r0 == 'over':
                r0_full = [1] + [q + 2 for q in r_full[1:-1]] + [1]
            else:
                r0_full = _ranks(d, r0)
            Y0 = _tt_rand(rng, n, r0_full)

            for with_cache in [False, True]:
                for with_vld in [False, True]:
                    for extra in ['', 'log', 'cb', 'm', 'e', 'e_vld', 'none',
                            'scale', 'pos']:
                        if extra and (num + it + iset) % 3:
                            num += 1
                            continue
                        if extra == 'e_vld' and not with_vld:
                            num += 1
                            continue

                        f = Oracle(teneva, Yt,
                            none_after=(d + 2 if extra == 'none' else None))
                        info = {'old': 'item'}
                        cache = {} if with_cache else None
                        Y0_in = [G.copy() for G in Y0]
                        seen = []
                        kw = dict(nswp=nswp, dr_min=dr_min, dr_max=dr_max,
                            info=info, cache=cache)
                        if with_vld:
                            kw.update(I_vld=I_vld, y_vld=y_vld)
                        if extra == 'log':
                            kw['log'] = True
                        if extra == 'cb':
                            def cb(Y, info_, opts):
                                seen.append((_snap(Y), _snap_info(info_),
                                    _snap(opts['Ir']), _snap(opts['Ic']),
                                    _snap(opts['Yold']),
                                    opts['cache'] is cache))
                                if info_['nswp'] == 2:
                                    return True
                            kw['cb'] = cb
                            kw['nswp'] = nswp + 2
                        if extra == 'm':
                            kw['m'] = 3 * sum(n) * max(r_full)**2
                            kw['nswp'] = None
                        if extra == 'e':
                            kw['e'] = 1.E-10
                            kw['nswp'] = 6
                        if extra == 'e_vld':
                            kw['e_vld'] = 1.E-8
                            kw['nswp'] = 6
                        if extra == 'scale':
                            kw['m_cache_scale'] = 0.5
                            kw['nswp'] = nswp + 3
                        if extra == 'pos':
                            kw['tau'] = 1.2
                            kw['tau0'] = 1.01
                            kw['k0'] = 5

                        buf = io.StringIO()

                        def run():
                            with contextlib.redirect_stdout(buf):
                                Y = teneva.cross(f, Y0_in, **kw)
                            return _snap(Y)

                        res = _guard(run)
                        res['info'] = _snap_info(info)
                        res['cache'] = _snap_cache(cache)
                        res['calls'] = _snap(f.calls)
                        res['cb'] = seen
                        res['out'] = _mask_time(buf.getvalue())
                        res['mut'] = all(np.array_equal(A, B)
                            for A, B in zip(Y0, Y0_in))
                        out[f'cross/{num}/t={it}/s={iset}/cache={with_cache}'
                            f'/vld={with_vld}/{extra}'] = res
                        num += 1

    # Cache transparency inside one package (also compared between packages):
    n, r = [5, 4, 6, 3], [2, 3, 2]
    Yt = _tt_rand(rng, n, _ranks(4, r))
    Y0 = _tt_rand(rng, n, _ranks(4, 1))
    for dr in [(1, 1), (1, 2)]:
        res = {}
        for with_cache in [False, True]:
            f = Oracle(teneva, Yt)
            info = {}
            cache = {} if with_cache else None
            Y = teneva.cross(f, Y0, nswp=5, dr_min=dr[0], dr_max=dr[1],
                info=info, cache=cache, m_cache_scale=1.E+10)
            res[with_cache] = (_snap(Y), _snap_info(info), _snap_cache(cache),
                float(teneva.accuracy(Y, Yt)))
        out[f'cross_transp/{dr}'] = res

    # Positional arguments m, e, nswp:
    f = Oracle(teneva, Yt)
    info = {}
    out['cross/positional'] = _guard(lambda: _snap(
        teneva.cross(f, Y0, None, 1.E-12, 3, 1.1, 1, 2, 1.05, 100, info)))
    out['cross/positional/info'] = _snap_info(info)
    out['cross/positional/calls'] = _snap(f.calls)

    # Custom "func" argument (it replaces the inner function _func):
    from teneva.cross import _func
    asked = []

    def func(f_, Ig, Ir, Ic, info_, cache_):
        asked.append(_snap((Ig, Ir, Ic)))
        return _func(f_, Ig, Ir, Ic, info_, cache_)

    f = Oracle(teneva, Yt)
    info = {}
    out['cross/func'] = _guard(lambda: _snap(
        teneva.cross(f, Y0, nswp=2, func=func, info=info)))
    out['cross/func/info'] = _snap_info(info)
    out['cross/func/asked'] = asked

    # Wrong arguments (the same exceptions are expected):
    f = Oracle(teneva, Yt)
    I_vld = np.zeros((3, 4), dtype=int)
    y_vld = teneva.get_many(Yt, I_vld)
    bad = {
        'nothing': {},
        'only_vld': {'I_vld': I_vld, 'y_vld': y_vld},
        'only_I_vld': {'I_vld': I_vld},
        'e_vld_no_data': {'nswp': 1, 'e_vld': 1.E-3},
        'e_vld_no_y': {'nswp': 1, 'e_vld': 1.E-3, 'I_vld': I_vld},
        'e_vld_only': {'e_vld': 1.E-3},
        'ok_e_vld': {'e_vld': 1.E-3, 'I_vld': I_vld, 'y_vld': y_vld,
            'dr_max': 2},
        # NOTE: {'m': 0} alone is not used (m=0 means "no limit" and then no
        # stop criterion remains, i.e., it is the infinite loop in both).
        'm_zero_nswp': {'m': 0, 'nswp': 1},
        'm_small': {'m': 7},
        'm_float': {'m': 333.7},
    }
    for name, kw in bad.items():
        info = {}
        res = _guard(lambda: _snap(teneva.cross(f, Y0, info=info, **kw)))
        res['info'] = _snap_info(info)
        out[f'cross_bad/{name}'] = res

    # The mutable default value of info should be used as before:
    f = Oracle(teneva, Yt)
    Y = teneva.cross(f, Y0, nswp=1)
    import inspect
    info_def = inspect.signature(teneva.cross).parameters['info'].default
    out['cross/default_info'] = (_snap(Y), _snap_info(info_def))

    def sig(fn):
        return [(p.name, str(p.kind), 'mutable-dict' if p.name == 'info'
            and isinstance(p.default, dict) else repr(p.default))
            for p in inspect.signature(fn).parameters.values()]

    mod = sys.modules['teneva.cross']
    out['signatures'] = {
        'cross': sig(teneva.cross),
        '_func': sig(mod._func),
        '_func_eval': sig(mod._func_eval),
        '_iter': sig(mod._iter),
        '_info_appr': sig(teneva._info_appr),
    }


def scenarios_users(teneva, np, out):
    """Other users of the shared helper _info_appr (als)."""
    rng = np.random.default_rng(404)
    n = [4, 5, 3, 4]
    Yt = _tt_rand(rng, n, _ranks(4, 2))
    I_trn = np.vstack([rng.integers(0, k, size=400) for k in n]).T
    y_trn = teneva.get_many(Yt, I_trn)
    I_vld = np.vstack([rng.integers(0, k, size=40) for k in n]).T
    y_vld = teneva.get_many(Yt, I_vld)
    Y0 = _tt_rand(rng, n, _ranks(4, 2))
    for k, kw in enumerate([
            {'nswp': 3},
            {'nswp': 20, 'e': 1.E-6},
            {'nswp': 20, 'e_vld': 1.E-4, 'I_vld': I_vld, 'y_vld': y_vld},
            {'nswp': 4, 'log': True, 'I_vld': I_vld, 'y_vld': y_vld},
            ]):
        info = {}
        buf = io.StringIO()

        def run():
            with contextlib.redirect_stdout(buf):
                return _snap(teneva.als(I_trn, y_trn, Y0, info=info, **kw))

        res = _guard(run)
        res['info'] = _snap_info(info)
        res['out'] = _mask_time(buf.getvalue())
        out[f'als/{k}'] = res


def worker(root, fpath):
    sys.path[:] = [root] + [p for p in sys.path
        if p not in ('', root, os.path.dirname(os.path.abspath(__file__)))]
    os.chdir(root)
    import warnings
    warnings.filterwarnings('ignore')
    import numpy as np
    import teneva
    assert os.path.dirname(os.path.abspath(teneva.__file__)) == \
        os.path.join(root, 'teneva'), teneva.__file__
    # NOTE: the name teneva.cross is the function (it shadows the module):
    for name in ['teneva.cross', 'teneva.utils']:
        assert sys.modules[name].__file__.startswith(root + '/teneva/')

    out = {}
    np.seterr(all='ignore')
    from time import perf_counter as tpc
    for fn in [scenarios_iter, scenarios_func, scenarios_info,
            scenarios_cross, scenarios_users]:
        t = tpc()
        k = len(out)
        fn(teneva, np, out)
        print(f'worker[{root}]: {fn.__name__:<16} : {len(out)-k:-6d} '
            f'scenarios, {tpc()-t:-7.1f} sec', flush=True)
    with open(fpath, 'wb') as fh:
        pickle.dump(out, fh)
    print(f'worker[{root}]: {len(out)} scenarios dumped')


# ---------------------------------------------------------------------------
# Comparison part
# ---------------------------------------------------------------------------


class Stat:
    def __init__(self):
        self.arrays = 0
        self.bitwise = 0
        self.maxdiff = 0.


def compare(a, b, path, errs, stat):
    import numpy as np
    if type(a) is not type(b):
        errs.append(f'{path}: type {type(a).__name__} vs {type(b).__name__}')
        return
    if isinstance(a, np.ndarray):
        stat.arrays += 1
        if a.shape != b.shape:
            errs.append(f'{path}: shape {a.shape} vs {b.shape}')
            return
        if a.dtype != b.dtype:
            errs.append(f'{path}: dtype {a.dtype} vs {b.dtype}')
            return
        if a.dtype.kind in 'fc':
            if np.array_equal(a, b, equal_nan=True):
                stat.bitwise += 1
            elif not np.allclose(a, b, rtol=RTOL, atol=ATOL, equal_nan=True):
                errs.append(f'{path}: values differ '
                    f'(max abs diff {np.max(np.abs(a - b)):.3e})')
            else:
                stat.maxdiff = max(stat.maxdiff, float(np.max(np.abs(a - b))))
        else:
            if np.array_equal(a, b):
                stat.bitwise += 1
            else:
                errs.append(f'{path}: integer arrays differ')
        return
    if isinstance(a, dict):
        if list(a.keys()) != list(b.keys()):
            errs.append(f'{path}: keys {list(a.keys())} vs {list(b.keys())}')
            return
        for key in a:
            compare(a[key], b[key], f'{path}/{key}', errs, stat)
        return
    if isinstance(a, (list, tuple)):
        if len(a) != len(b):
            errs.append(f'{path}: len {len(a)} vs {len(b)}')
            return
        for k, (x, y) in enumerate(zip(a, b)):
            compare(x, y, f'{path}[{k}]', errs, stat)
        return
    if isinstance(a, float):
        if a != a and b != b:
            return
        if a == b:
            return
        if abs(a - b) <= ATOL + RTOL * abs(b):
            stat.maxdiff = max(stat.maxdiff, abs(a - b))
            return
        errs.append(f'{path}: float {a!r} vs {b!r}')
        return
    if a != b:
        errs.append(f'{path}: {a!r} vs {b!r}')


def main():
    import numpy as np
    tmp = tempfile.mkdtemp(prefix='equiv_C05_')
    files = {}
    procs = {}
    for name, root in [('orig', ROOT_ORIG), ('twin', ROOT_TWIN)]:
        fpath = os.path.join(tmp, name + '.pkl')
        env = dict(os.environ)
        env.pop('PYTHONPATH', None)
        env['PYTHONDONTWRITEBYTECODE'] = '1'
        # Small matrices only: the threaded BLAS just slows everything down
        # (and the single thread makes the runs reproducible bit-for-bit):
        for var in ['OMP_NUM_THREADS', 'OPENBLAS_NUM_THREADS',
                'MKL_NUM_THREADS', 'NUMEXPR_NUM_THREADS']:
            env[var] = '1'
        procs[name] = subprocess.Popen([sys.executable,
            os.path.abspath(__file__), '--worker', root, fpath],
            cwd=root, env=env)
        files[name] = fpath
    for name, proc in procs.items():
        if proc.wait() != 0:
            print(f'FAIL: worker for "{name}" exited with {proc.returncode}')
            return 1

    with open(files['orig'], 'rb') as fh:
        res_orig = pickle.load(fh)
    with open(files['twin'], 'rb') as fh:
        res_twin = pickle.load(fh)

    errs = []
    stat = Stat()
    if list(res_orig.keys()) != list(res_twin.keys()):
        errs.append('The lists of scenarios differ')
    else:
        for key in res_orig:
            compare(res_orig[key], res_twin[key], key, errs, stat)

    # Sanity of the scenario list itself (computed on the original package):
    n_exc = sum(1 for v in res_orig.values()
        if isinstance(v, dict) and 'exc' in v)
    stops = {}
    for key, v in res_orig.items():
        if key.startswith('cross/') and isinstance(v, dict) and 'info' in v:
            for kk, vv in v['info']['__dict__']:
                if kk == 'stop':
                    stops[vv] = stops.get(vv, 0) + 1
    for dr, v in res_orig.items():
        if not dr.startswith('cross_transp/'):
            continue
        (Y_a, info_a, _, err_a), (Y_b, info_b, cache_b, err_b) = \
            v[False], v[True]
        errs_t = []
        compare(Y_a, Y_b, dr + '(no cache vs cache)', errs_t, Stat())
        if errs_t or err_a > 1.E-8 or err_b > 1.E-8:
            errs.append(f'{dr}: scenario is not as expected ({errs_t[:1]}, '
                f'{err_a:.1e}, {err_b:.1e})')

    print(f'scenarios        : {len(res_orig)}')
    print(f'  with exception : {n_exc}')
    print(f'  cross stops    : {stops}')
    print(f'arrays compared  : {stat.arrays} (bitwise equal: {stat.bitwise})')
    print(f'max abs diff     : {stat.maxdiff:.3e}')
    if errs:
        print(f'FAIL: {len(errs)} differences')
        for err in errs[:40]:
            print('  ' + err)
        return 1
    print('OK: original and refactored packages agree on all scenarios')
    return 0


if __name__ == '__main__':
    if len(sys.argv) == 4 and sys.argv[1] == '--worker':
        worker(sys.argv[2], sys.argv[3])
        sys.exit(0)
    sys.exit(main())
