"""Equivalence demonstration for the C15 twin (optimum search refactoring).

Usage:  /venv/bin/python /tmp/twinsC/C15/equiv.py

The same deterministic list of scenarios is run in two subprocesses, one with
cwd = pristine copy of the package (/tmp/twinsC/C15/orig) and one with cwd =
refactored work tree (/tmp/wt/C15). Every subprocess dumps its results into a
pickle and the two pickles are compared. Exit code 0 if everything agrees and
1 otherwise.

"""
import os
import pickle
import subprocess
import sys
import tempfile


ROOT_ORIG = '/tmp/twinsC/C15/orig'
ROOT_TWIN = '/tmp/wt/C15'
RTOL = 1.E-13


# ---------------------------------------------------------------------------
# Worker (runs inside one of the two package roots)
# ---------------------------------------------------------------------------


def _worker(fpath):
    import warnings
    sys.path.insert(0, os.getcwd())
    import numpy as np
    import teneva
    from teneva import optima as mo
    from teneva import optima_func as mf

    assert os.path.realpath(teneva.__file__).startswith(
        os.path.realpath(os.getcwd())), teneva.__file__

    warnings.simplefilter('ignore')
    np.seterr(all='ignore')

    res = []

    def snap(x):
        # Deep snapshot of the (possibly nested) argument
        if isinstance(x, np.ndarray):
            return x.copy()
        if isinstance(x, (list, tuple)):
            return type(x)(snap(y) for y in x)
        return x

    def run(name, func, *args, **kwargs):
        # Result (or exception) + state of all arguments after the call
        try:
            out = ('OK', snap(func(*args, **kwargs)))
        except Exception as exc:
            out = ('EXC', type(exc).__name__, str(exc))
        res.append((name, out, snap(list(args)), snap(sorted(kwargs.items(),
            key=lambda kv: kv[0]))))

    # ---------------- family of the TT-tensors
    tensors = []

    def add(name, Y):
        tensors.append((name, Y))

    profiles = [
        ([3, 4], 1), ([3, 4], 2), ([3, 4], [1, 7, 1]),       # d = 2
        ([2, 2, 2], 1), ([2, 2, 2], [1, 5, 5, 1]),           # over-ranked
        ([4, 3, 5], 2), ([4, 3, 5], [1, 3, 2, 1]),
        ([5, 1, 4], 2),                                      # mode of size 1
        ([3, 3, 3, 3], 3), ([2, 5, 3, 4, 2], [1, 2, 4, 3, 2, 1]),
        ([4]*6, 2), ([3]*7, 1),
    ]
    for n, r in profiles:
        for seed in (0, 1, 2):
            add(f'rand n={n} r={r} s={seed}', teneva.rand(n, r, seed=seed))
        add(f'rand+ n={n} r={r}', teneva.rand(n, r, a=0.5, b=1.5, seed=7))
        add(f'rand- n={n} r={r}', teneva.rand(n, r, a=-2., b=-0.1, seed=8))
        add(f'big n={n} r={r}', teneva.rand(n, r, a=-1.E+40, b=1.E+40, seed=9))
        add(f'tiny n={n} r={r}', teneva.rand(n, r, a=-1.E-40, b=1.E-40, seed=9))
    for n in ([3, 4], [2, 2, 2], [4, 3, 5], [3]*5):
        for v in (1., -2.5, 0.):
            add(f'const n={n} v={v}', teneva.const(n, v))
        # ties: cores with the values from the small set
        rng = np.random.default_rng(11)
        Y = teneva.rand(n, 2, seed=3)
        Y = [rng.integers(-1, 2, size=G.shape).astype(float) for G in Y]
        add(f'ties n={n}', Y)
        Y = [rng.integers(-1, 2, size=G.shape) for G in Y]
        add(f'intcores n={n}', Y)
        # sum of the two constant tensors (rank 2, constant values)
        add(f'const2 n={n}', teneva.add(teneva.const(n, 1.), teneva.const(n, 2.)))
        # non contiguous cores
        Y = teneva.rand(n, 3, seed=4)
        Y = [np.asfortranarray(G) for G in Y]
        add(f'fortran n={n}', Y)

    # ---------------- optima_tt_beam
    for name, Y in tensors:
        for k in (1, 2, 3, 10, 1000):
            for l2r in (True, False):
                for ret_all in (False, True):
                    run(f'beam|{name}|k={k} l2r={l2r} all={ret_all}',
                        mo.optima_tt_beam, teneva.copy(Y), k, l2r, ret_all)
        for k in (1, 4, 1000):
            for l2r in (True, False, 1, 0):
                for p in (None, 0, 3, -2.5, np.float64(1.5)):
                    run(f'beam-noorth|{name}|k={k} l2r={l2r} p={p}',
                        mo.optima_tt_beam, teneva.copy(Y), k=k, l2r=l2r,
                        ret_all=True, to_orth=False, p=p)
                    run(f'beam-orth-p|{name}|k={k} l2r={l2r} p={p}',
                        mo.optima_tt_beam, teneva.copy(Y), k=k, l2r=l2r,
                        ret_all=False, to_orth=True, p=p)

    # ---------------- optima_tt_max / optima_tt (callers of the beam)
    for name, Y in tensors:
        for k in (1, 2, 5, 1000):
            run(f'max|{name}|k={k}', mo.optima_tt_max, teneva.copy(Y), k)
            run(f'tt|{name}|k={k}', mo.optima_tt, teneva.copy(Y), k)

    # ---------------- optima_qtt
    qtt = []
    for n, r in [([2, 2], 1), ([4, 4], 2), ([8, 8], [1, 9, 1]), ([4, 4, 4], 2),
            ([2, 2, 2, 2], 3), ([8, 8, 8], 1), ([16, 16], 3), ([1, 1], 1),
            ([4, 4, 4, 4], [1, 2, 5, 2, 1])]:
        for seed in (0, 1):
            qtt.append((f'rand n={n} r={r} s={seed}',
                teneva.rand(n, r, seed=seed)))
        qtt.append((f'rand+ n={n} r={r}',
            teneva.rand(n, r, a=0.1, b=1., seed=5)))
        for v in (1., -3., 0.):
            qtt.append((f'const n={n} v={v}', teneva.const(n, v)))
    for n in ([4, 8], [8, 4, 4], [3, 3], [6, 6, 6], [5, 4], [4, 4, 3], [12, 12]):
        qtt.append((f'invalid n={n}', teneva.rand(n, 2, seed=0)))
    for name, Y in qtt:
        for k in (1, 3, 100, 5000):
            run(f'qtt|{name}|k={k}', mo.optima_qtt, teneva.copy(Y), k)
        run(f'qtt|{name}|default', mo.optima_qtt, teneva.copy(Y))
        run(f'qtt|{name}|e,r', mo.optima_qtt, teneva.copy(Y), 7, 1.E-4, 3)
        run(f'qtt|{name}|kw', mo.optima_qtt, teneva.copy(Y), r=2, e=1.E-2, k=2)

    # ---------------- _find_poly_max
    rng = np.random.default_rng(42)
    polys = []
    for deg in (0, 1, 2, 3, 5, 8, 13):
        for _ in range(4):
            polys.append(rng.normal(size=deg+1))
        polys.append(np.ones(deg+1))
        polys.append(np.zeros(deg+1))
        polys.append(rng.integers(-2, 3, size=deg+1).astype(float))
    polys.append(np.array([0., 0., 1.]))             # x^2: root on the grid
    polys.append(np.array([1., 0., -1.]))
    polys.append(np.array([0., -3., 0., 1.]))        # roots of dp are -1, +1
    polys.append(np.array([0., 0., 0., 0., 1.]))     # multiple root
    polys.append(np.array([1., 0., 1., 0., 0.]))     # leading zeros
    clips = [None, [-1, 1], [-1., 1.], (-1, 1), [-np.inf, np.inf],
        [-np.inf, 1], [0, np.inf], [0, 0], [-0.5, 2], [2, 3], [1, -1],
        np.array([-1., 1.]), [0.5]]
    for ip, p in enumerate(polys):
        for ic, clip in enumerate(clips):
            for cheb in (True, False):
                for take_abs in (True, False):
                    for k_max in (None, 1, 3, 100):
                        for ret_vals in (True, False):
                            kw = dict(cheb=cheb, take_abs=take_abs,
                                k_max=k_max, ret_vals=ret_vals)
                            if clip is not None:
                                kw['clip'] = snap(clip)
                            pp = p.copy() if ip % 2 else list(p)
                            run(f'poly|{ip}|{ic}|{cheb}{take_abs}{k_max}'
                                f'{ret_vals}', mf._find_poly_max, pp, **kw)
    # the default (module-level list) of the clip is the same after all calls
    res.append(('poly|default-clip', ('OK',
        snap(mf._find_poly_max.__defaults__[0])), [], []))

    # ---------------- optima_func_tt_beam
    for n, r in [([3, 4], 1), ([3, 4], 2), ([5, 5, 5], 1), ([4, 6, 3], 2),
            ([2, 2, 2], [1, 4, 4, 1]), ([7, 3, 4, 5], 3), ([1, 3], 1),
            ([6]*5, 1), ([4]*5, 2)]:
        for seed in (0, 1, 2):
            A = teneva.rand(n, r, seed=seed)
            for k, k_loc in [(1, None), (3, None), (10, None), (5, 1),
                    (5, 2), (2, 7), (100, 100)]:
                for ret_all in (False, True):
                    run(f'func|n={n} r={r} s={seed}|k={k} k_loc={k_loc} '
                        f'all={ret_all}', mf.optima_func_tt_beam,
                        teneva.copy(A), k, k_loc, ret_all)
            run(f'func|n={n} r={r} s={seed}|default',
                mf.optima_func_tt_beam, teneva.copy(A))
        A = teneva.const(n, 2.)
        run(f'func|const n={n}', mf.optima_func_tt_beam, A, k=3, ret_all=True)
        A = teneva.const(n, 0.)
        run(f'func|zero n={n}', mf.optima_func_tt_beam, A, k=3, ret_all=True)

    with open(fpath, 'wb') as f:
        pickle.dump(res, f)


# ---------------------------------------------------------------------------
# Comparison
# ---------------------------------------------------------------------------


class Stat:
    exact = 0
    close = 0


def _same(a, b, path, errs):
    import numpy as np

    if type(a) is not type(b):
        errs.append(f'{path}: type {type(a).__name__} != {type(b).__name__}')
        return

    if isinstance(a, (list, tuple)):
        if len(a) != len(b):
            errs.append(f'{path}: len {len(a)} != {len(b)}')
            return
        for i, (x, y) in enumerate(zip(a, b)):
            _same(x, y, f'{path}[{i}]', errs)
        return

    if isinstance(a, (np.ndarray, np.generic)):
        a_, b_ = np.asarray(a), np.asarray(b)
        if a_.dtype != b_.dtype:
            errs.append(f'{path}: dtype {a_.dtype} != {b_.dtype}')
            return
        if a_.shape != b_.shape:
            errs.append(f'{path}: shape {a_.shape} != {b_.shape}')
            return
        if a_.dtype.kind in 'fc':
            if np.array_equal(a_, b_, equal_nan=True):
                Stat.exact += 1
            elif np.allclose(a_, b_, rtol=RTOL, atol=0., equal_nan=True):
                Stat.close += 1
            else:
                errs.append(f'{path}: values differ')
        elif not np.array_equal(a_, b_):
            errs.append(f'{path}: values differ')
        else:
            Stat.exact += 1
        return

    if isinstance(a, float):
        if not (a == b or (a != a and b != b)):
            errs.append(f'{path}: {a!r} != {b!r}')
        return

    if a != b:
        errs.append(f'{path}: {a!r} != {b!r}')


def _main():
    tmp = tempfile.mkdtemp(prefix='equiv_C15_')
    files = {}
    for tag, root in (('orig', ROOT_ORIG), ('twin', ROOT_TWIN)):
        files[tag] = os.path.join(tmp, f'{tag}.pkl')
        env = dict(os.environ)
        env.pop('PYTHONPATH', None)
        proc = subprocess.run([sys.executable, os.path.abspath(__file__),
            '--worker', files[tag]], cwd=root, env=env)
        if proc.returncode != 0:
            print(f'worker "{tag}" failed with code {proc.returncode}')
            return 1

    with open(files['orig'], 'rb') as f:
        res_orig = pickle.load(f)
    with open(files['twin'], 'rb') as f:
        res_twin = pickle.load(f)

    if len(res_orig) != len(res_twin):
        print(f'different number of scenarios: {len(res_orig)} {len(res_twin)}')
        return 1

    n_bad = 0
    n_exc = 0
    kinds = {}
    for (name1, out1, args1, kw1), (name2, out2, args2, kw2) in zip(
            res_orig, res_twin):
        errs = []
        if name1 != name2:
            errs.append(f'names differ: {name1} / {name2}')
        _same(out1, out2, 'out', errs)
        _same(args1, args2, 'args', errs)
        _same(kw1, kw2, 'kwargs', errs)
        n_exc += out1[0] == 'EXC'
        kind = name1.split('|')[0]
        kinds[kind] = kinds.get(kind, 0) + 1
        if errs:
            n_bad += 1
            if n_bad <= 20:
                print(f'MISMATCH {name1}')
                for err in errs[:5]:
                    print(f'    {err}')

    print(f'scenarios: {len(res_orig)} ({kinds}); with exception in both: '
        f'{n_exc}; arrays bit-identical: {Stat.exact}; arrays only close '
        f'(rtol {RTOL}): {Stat.close}; mismatches: {n_bad}')
    if n_bad:
        print('FAIL')
        return 1
    print('OK: the refactored functions agree with the original ones')
    return 0


if __name__ == '__main__':
    if len(sys.argv) == 3 and sys.argv[1] == '--worker':
        _worker(sys.argv[2])
        sys.exit(0)
    sys.exit(_main())
