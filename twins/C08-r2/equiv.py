"""Equivalence demonstration for the C08 (round B) refactoring.

Runs the same deterministic scenario list in two subprocesses, one importing
the pristine package (cwd=/tmp/twinsB/C08/orig), one importing the refactored
package (cwd=/tmp/wt/C08); each dumps its results to a pickle; the two pickles
are then compared (bitwise for arrays, plus dtype / shape / exception type and
message / mutation of the arguments).  Exit code 0 = all agree, 1 otherwise.
"""
import os
import pickle
import subprocess
import sys
import tempfile

ORIG = '/tmp/twinsB/C08/orig'
NEW = os.environ.get('EQUIV_C08_NEW', '/tmp/wt/C08')  # override: negative control
PY = '/venv/bin/python'


# ----------------------------------------------------------------------------
# Worker part (executed inside each of the two trees)
# ----------------------------------------------------------------------------

def _matrices():
    """Deterministic list of (name, A) with tall / square / wide matrices."""
    import numpy as np
    out = []
    rng = np.random.default_rng(12345)

    shapes = [(2, 1), (3, 1), (7, 1), (3, 2), (4, 3), (5, 4), (6, 5), (9, 8),
              (8, 3), (12, 4), (20, 5), (33, 7), (50, 10), (64, 2), (100, 6),
              (200, 12), (41, 40), (300, 3)]
    for (n, r) in shapes:
        out.append((f'gauss-{n}x{r}', rng.normal(size=(n, r))))
        out.append((f'unif-{n}x{r}', rng.uniform(-1, 1, size=(n, r))))

    # Conditioning up to 1e8:
    for (n, r) in [(6, 5), (15, 4), (40, 8), (90, 10), (9, 8)]:
        for cond in [1e2, 1e5, 1e8]:
            U, _ = np.linalg.qr(rng.normal(size=(n, r)))
            V, _ = np.linalg.qr(rng.normal(size=(r, r)))
            s = np.logspace(0, -np.log10(cond), r)
            out.append((f'cond{cond:.0e}-{n}x{r}', (U * s) @ V.T))

    # Zero rows and duplicated rows (still full column rank):
    for (n, r) in [(10, 3), (25, 5), (7, 2), (40, 6)]:
        A = rng.normal(size=(n, r))
        A[::3] = 0.
        out.append((f'zerorows-{n}x{r}', A))
        A = rng.normal(size=(n, r))
        A[1::2] = A[0:-1:2][:A[1::2].shape[0]]
        out.append((f'duprows-{n}x{r}', A))
        A = rng.normal(size=(n, r))
        A[n//2:] = A[:n - n//2] * -1.
        A[-1] = 0.
        out.append((f'negdup-{n}x{r}', A))
        A = np.zeros((n, r))
        A[:r] = np.eye(r)
        A[r:2*r] = np.eye(r)[:max(0, min(r, n - r))]
        out.append((f'eyes-{n}x{r}', A))

    # Integer-valued entries (many ties in |B|), scaled rows, other layouts:
    for (n, r) in [(12, 3), (30, 4), (16, 5)]:
        out.append((f'ints-{n}x{r}',
            rng.integers(-2, 3, size=(n, r)).astype(float) + 3 * np.eye(n, r)))
        out.append((f'scaled-{n}x{r}',
            rng.normal(size=(n, r)) * np.logspace(-4, 4, n)[:, None]))
        out.append((f'fortran-{n}x{r}',
            np.asfortranarray(rng.normal(size=(n, r)))))
        out.append((f'view-{n}x{r}', rng.normal(size=(2*n, 2*r))[::2, ::2]))
        out.append((f'transposed-{n}x{r}', rng.normal(size=(r, n)).T))
        out.append((f'float32-{n}x{r}',
            rng.normal(size=(n, r)).astype(np.float32)))
        out.append((f'intdtype-{n}x{r}',
            rng.integers(-5, 6, size=(n, r)) + 7 * np.eye(n, r, dtype=int)))

    # Square and wide (must be rejected by maxvol, trivial in _maxvol):
    for (n, r) in [(1, 1), (3, 3), (6, 6), (2, 5), (4, 9), (1, 4)]:
        out.append((f'nottall-{n}x{r}', rng.normal(size=(n, r))))

    return out


def _enc(x):
    """Encode a value into a plain comparable structure."""
    import numpy as np
    if isinstance(x, np.ndarray):
        return ('nd', str(x.dtype), x.shape, np.ascontiguousarray(x).tobytes(),
            bool(x.flags.writeable))
    if isinstance(x, np.generic):
        return ('np', str(x.dtype), x.tobytes())
    if isinstance(x, (tuple, list)):
        return (type(x).__name__, [_enc(y) for y in x])
    if isinstance(x, dict):
        return ('dict', [(k, _enc(x[k])) for k in sorted(x, key=str)
            if k not in ('t',)])
    if isinstance(x, (int, float, str, bool)) or x is None:
        return (type(x).__name__, x)
    return ('repr', repr(x))


def _call(func, A, *args, **kwargs):
    """Call func on a copy of A; record result / exception and mutation."""
    import numpy as np
    A_in = np.array(A, order='K', copy=True) if A.flags.c_contiguous or \
        A.flags.f_contiguous else A.copy()
    A_ref = A_in.copy()
    try:
        res = ('ok', _enc(func(A_in, *args, **kwargs)))
    except Exception as exc:
        res = ('exc', type(exc).__name__, str(exc))
    same = A_in.shape == A_ref.shape and A_in.dtype == A_ref.dtype and \
        A_in.tobytes() == A_ref.tobytes()
    return (res, ('arg-unchanged', bool(same)))


def worker(fpath):
    sys.path.insert(0, os.getcwd())
    import numpy as np
    import teneva
    assert os.path.dirname(os.path.dirname(os.path.abspath(teneva.__file__))) \
        == os.path.abspath(os.getcwd()), teneva.__file__

    res = {'__file__': os.path.abspath(teneva.__file__)}
    mats = _matrices()

    es = [1.01, 1.05, 1.1, 1.5, 2., 10., 1.]
    ks = [0, 1, 2, 3, 10, 100, 1000]

    # --- maxvol
    for name, A in mats:
        res[('maxvol', name, 'default')] = _call(teneva.maxvol, A)
        for e in es:
            for k in ks:
                res[('maxvol', name, e, k)] = _call(teneva.maxvol, A, e, k)
        res[('maxvol', name, 'kw')] = _call(teneva.maxvol, A, k=7, e=1.02)

    # --- maxvol_rect
    for name, A in mats:
        n, r = A.shape
        res[('rect', name, 'default')] = _call(teneva.maxvol_rect, A)
        drs = [(0, None), (0, 0), (0, 1), (1, 1), (1, 2), (0, 3), (2, 5),
               (1, None), (3, None), (0, n), (0, max(n - r, 0)),
               (max(n - r, 0), max(n - r, 0)), (max(n - r, 0), None),
               (n - r + 1, None), (n - r + 1, n - r + 1), (2, 1), (3, 0),
               (-1, 2), (0, -1), (-2, -1), (-1, None), (5, 2), (0, 10 * n)]
        for (dr_min, dr_max) in drs:
            for (e, e0, k0) in [(1.1, 1.05, 10), (1.01, 1.01, 100),
                                (2., 1.5, 1), (1.3, 1.05, 0), (50., 1.05, 3),
                                (1., 1.05, 10)]:
                res[('rect', name, dr_min, dr_max, e, e0, k0)] = _call(
                    teneva.maxvol_rect, A, e, dr_min, dr_max, e0, k0)
        res[('rect', name, 'kw')] = _call(teneva.maxvol_rect, A, dr_max=2,
            e=1.2, k0=5, dr_min=1, e0=1.03)

    # --- _maxvol (dispatch)
    for name, A in mats:
        n, r = A.shape
        res[('_maxvol', name, 'default')] = _call(teneva._maxvol, A)
        for (dr_min, dr_max) in [(0, 0), (0, 1), (1, 1), (1, 2), (0, 3),
                                 (2, 5), (0, n), (n, n), (3, 1000), (2, 1),
                                 (4, 0), (1, 0), (-1, 2), (0, -1), (-3, -2)]:
            for (tau, tau0, k0) in [(1.1, 1.05, 100), (1.01, 1.01, 1000),
                                    (3., 2., 1), (1.2, 1.05, 0)]:
                res[('_maxvol', name, dr_min, dr_max, tau, tau0, k0)] = _call(
                    teneva._maxvol, A, tau, dr_min, dr_max, tau0, k0)
        res[('_maxvol', name, 'kw')] = _call(teneva._maxvol, A, dr_max=2,
            tau0=1.02, k0=20)
        res[('_maxvol', name, 'None')] = _call(teneva._maxvol, A, 1.1, 0, None)

    # --- non-2D / bad inputs (same exceptions)
    for nm, X in [('1d', np.arange(5.)), ('3d', np.ones((4, 2, 2)))]:
        for fn_name in ['maxvol', 'maxvol_rect', '_maxvol']:
            res[('bad', nm, fn_name)] = _call(getattr(teneva, fn_name), X)

    # --- callers of the anchors (end to end, seeds fixed)
    def f_many(I):
        return np.sum(np.sin(0.3 * I + 1.), axis=1) + 1. / (1. + np.sum(I**2, axis=1))

    for (d, n, r0, dr_min, dr_max, seed) in [
            (3, 5, 1, 0, 0, 1), (4, 6, 2, 0, 0, 2), (4, 6, 2, 1, 2, 3),
            (5, 4, 3, 0, 1, 4), (6, 3, 5, 1, 1, 5), (3, 9, 12, 0, 0, 6),
            (4, [3, 5, 4, 6], [1, 2, 7, 3, 1], 1, 3, 7), (2, 8, 1, 0, 2, 8)]:
        try:
            Y0 = teneva.rand([n] * d if isinstance(n, int) else n, r0, seed=seed)
            info, cache = {}, {}
            Y = teneva.cross(f_many, Y0, m=3000, e=None, nswp=3, tau=1.1,
                dr_min=dr_min, dr_max=dr_max, tau0=1.05, k0=100,
                info=info, cache=cache)
            val = ('ok', _enc(Y), _enc(info), len(cache),
                _enc(sorted(cache.items())[:50]), _enc(Y0))
        except Exception as exc:
            val = ('exc', type(exc).__name__, str(exc))
        res[('cross', d, str(n), str(r0), dr_min, dr_max, seed)] = val

    for (d, n, r0, seed) in [(3, 5, 1, 11), (4, 6, 3, 12), (5, 4, 4, 13),
                             (3, 4, 9, 14), (6, 3, 2, 15)]:
        Y = teneva.rand([n] * d, r0, seed=seed)
        for k in [1, 3, 10]:
            try:
                val = ('ok', _enc(teneva.optima_tt(Y, k)))
            except Exception as exc:
                val = ('exc', type(exc).__name__, str(exc))
            res[('optima_tt', d, n, r0, seed, k)] = val
        G = Y[1]
        r1, nn, r2 = G.shape
        rng = np.random.default_rng(seed)
        for ltr in [True, False]:
            R = rng.normal(size=(r1, r1)) if ltr else rng.normal(size=(r2, r2))
            try:
                val = ('ok', _enc(teneva.core_dot_maxvol(G, R, None, ltr)))
            except Exception as exc:
                val = ('exc', type(exc).__name__, str(exc))
            res[('core_dot_maxvol', d, n, r0, seed, ltr)] = val

    with open(fpath, 'wb') as f:
        pickle.dump(res, f)


# ----------------------------------------------------------------------------
# Driver part
# ----------------------------------------------------------------------------

def main():
    tmp = tempfile.mkdtemp(prefix='equivC08_')
    files = {}
    for tag, cwd in [('orig', ORIG), ('new', NEW)]:
        fpath = os.path.join(tmp, tag + '.pkl')
        env = dict(os.environ)
        env.pop('PYTHONPATH', None)
        env['PYTHONDONTWRITEBYTECODE'] = '1'
        for var in ['OMP_NUM_THREADS', 'OPENBLAS_NUM_THREADS',
                    'MKL_NUM_THREADS']:
            env[var] = '1'
        proc = subprocess.run([PY, '-W', 'ignore', os.path.abspath(__file__),
            '--worker', fpath],
            cwd=cwd, env=env)
        if proc.returncode != 0:
            print(f'worker "{tag}" failed with code {proc.returncode}')
            return 1
        with open(fpath, 'rb') as f:
            files[tag] = pickle.load(f)

    a, b = files['orig'], files['new']
    fa, fb = a.pop('__file__'), b.pop('__file__')
    print('orig package :', fa)
    print('new  package :', fb)
    if fa == fb or not fa.startswith(ORIG) or not fb.startswith(NEW):
        print('ERROR: packages were not loaded from the two different trees')
        return 1

    bad = 0
    if set(a) != set(b):
        print('ERROR: different scenario sets')
        bad += 1
    n_ok = n_exc = n_mut = 0
    for key in a:
        if key not in b:
            continue
        if a[key] != b[key]:
            bad += 1
            if bad <= 20:
                print('MISMATCH:', key)
                print('   orig:', repr(a[key])[:300])
                print('   new :', repr(b[key])[:300])
        head = a[key][0]
        head = head[0] if isinstance(head, tuple) else head
        n_ok += head == 'ok'
        n_exc += head == 'exc'
        if isinstance(a[key][-1], tuple) and a[key][-1][0] == 'arg-unchanged':
            n_mut += not a[key][-1][1]

    e2e = [k for k in a if k[0] in ('cross', 'optima_tt', 'core_dot_maxvol')]
    print(f'end-to-end scenarios: {len(e2e)}, of which raised: '
        f'{sum(a[k][0] == "exc" for k in e2e)}')
    print(f'scenarios: {len(a)} (returned: {n_ok}, raised: {n_exc}, '
        f'argument mutated in orig: {n_mut}); mismatches: {bad}')
    if bad:
        print('NOT EQUIVALENT')
        return 1
    print('EQUIVALENT (bitwise identical results, same exceptions, '
        'same argument mutation)')
    return 0


if __name__ == '__main__':
    if len(sys.argv) == 3 and sys.argv[1] == '--worker':
        worker(sys.argv[2])
        sys.exit(0)
    sys.exit(main())
