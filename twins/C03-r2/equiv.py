"""Equivalence demonstration for the C03 twin B refactoring.

The refactored functions are teneva.svd, teneva.svd_matrix (teneva/svd.py) and
teneva.full_matrix (teneva/transformation.py). The same deterministic list of
scenarios is run in two subprocesses, one importing the pristine package
(/tmp/twinsB/C03/orig) and one importing the refactored one (/tmp/wt/C03); each
dumps its results into a pickle, and the two pickles are compared here.

Exit code 0: everything agrees; 1: some difference (or a worker failed).

"""
import os
import pickle
import shutil
import subprocess
import sys
import tempfile


ROOT_ORIG = '/tmp/twinsB/C03/orig'
ROOT_TWIN = '/tmp/wt/C03'


# ---------------------------------------------------------------------------
# Worker part (runs with the package root as the first item of sys.path)
# ---------------------------------------------------------------------------


def _digest(x, layout=True):
    """Picklable, comparable description of a result (arrays keep all bits)."""
    import numpy as np
    if isinstance(x, np.ndarray):
        return ('arr', type(x).__name__, x.shape, str(x.dtype),
            bool(x.flags['C_CONTIGUOUS']) if layout else None,
            bool(x.flags['F_CONTIGUOUS']) if layout else None,
            np.array(x, order='C', subok=False))
    if isinstance(x, (list, tuple)):
        return (type(x).__name__, [_digest(v, layout) for v in x])
    return ('obj', type(x).__name__, repr(x))


def _call(func, args, kwargs):
    """Call func and record result / exception and the mutation of the args."""
    import copy
    import numpy as np
    import warnings

    before = copy.deepcopy((args, kwargs))
    with warnings.catch_warnings():
        warnings.simplefilter('ignore')
        try:
            out = ('ok', _digest(func(*args, **kwargs)))
        except Exception as exc:
            out = ('exc', type(exc).__name__, str(exc))
    # State of the arguments after the call (to compare the side effects) and
    # whether they were changed at all:
    after = _digest(list(args) + [kwargs[k] for k in sorted(kwargs)])
    # (the deep copy may have another memory layout, hence values only here)
    vals_after = _digest(list(args) + [kwargs[k] for k in sorted(kwargs)],
        layout=False)
    vals_before = _digest(list(before[0]) +
        [before[1][k] for k in sorted(before[1])], layout=False)
    return {'out': out, 'args_after': after,
        'args_untouched': _same(vals_after, vals_before)}


def _same(a, b, tol=None):
    """Structural comparison of two digests (bitwise if tol is None)."""
    import numpy as np
    if type(a) is not type(b):
        return False
    if isinstance(a, np.ndarray):
        if a.shape != b.shape or a.dtype != b.dtype:
            return False
        if tol is None:
            return bool(np.array_equal(a, b, equal_nan=True)) \
                if a.dtype.kind in 'fc' else bool(np.array_equal(a, b))
        scale = max(float(np.max(np.abs(a))), float(np.max(np.abs(b)))) \
            if a.size else 0.
        return bool(np.allclose(a, b, rtol=tol, atol=tol * scale,
            equal_nan=True))
    if isinstance(a, (list, tuple)):
        return len(a) == len(b) and all(_same(u, v, tol) for u, v in zip(a, b))
    if isinstance(a, dict):
        return sorted(a) == sorted(b) and all(_same(a[k], b[k], tol) for k in a)
    return a == b


def _tt_random(rng, n, r, scale=1.):
    """Random TT-tensor with the given modes n and ranks r (len(n) + 1)."""
    Y = [rng.standard_normal((r[i], n[i], r[i+1])) for i in range(len(n))]
    Y[0] = Y[0] * scale
    return Y


def _tt_full(Y):
    import numpy as np
    Z = Y[0]
    for G in Y[1:]:
        Z = np.tensordot(Z, G, 1)
    return Z[0, ..., 0]


def scenarios():
    """Deterministic list of (name, function name, args, kwargs)."""
    import numpy as np
    res = []

    shapes = [(2, 2), (5, 3), (1, 7), (7, 1), (3, 4, 5), (4, 1, 3), (1, 1, 1),
        (2, 3, 2, 3), (6, 2, 5, 2), (2, 2, 2, 2, 2), (3, 2, 4, 2, 3),
        (2, 3, 2, 2, 3, 2), (9, 8, 7)]
    scales = [1.E-6, 1.E-3, 1., 1.E+3, 1.E+6]
    accs = [1.E-14, 1.E-10, 1.E-6, 1.E-2, 0.5, 30., 1.E+7]
    caps = [1, 2, 3, 5, 1.E+12, 2.7, 1000]

    # --- svd: full-rank spectra, all scales / accuracies / caps:
    num = 0
    for n in shapes:
        for scale in scales:
            num += 1
            rng = np.random.default_rng(1000 + num)
            A = rng.standard_normal(n) * scale
            for j, e in enumerate(accs):
                r = caps[(num + j) % len(caps)]
                res.append((f'svd-full-{n}-{scale}-{e}-{r}', 'svd', (A, e, r), {}))
                res.append((f'svd-full-kw-{n}-{scale}-{e}-{r}', 'svd', (A,),
                    {'e': e * scale, 'r': r}))
            res.append((f'svd-full-def-{n}-{scale}', 'svd', (A,), {}))

    # --- svd: exact low TT-rank (incl. rank 1 and over-ranked cores):
    profiles = [
        ((4, 5, 6), (1, 1, 1, 1)),
        ((4, 5, 6), (1, 2, 3, 1)),
        ((4, 5, 6), (1, 9, 9, 1)),      # over-ranked (exceeds unfolding size)
        ((3, 3, 3, 3), (1, 2, 2, 2, 1)),
        ((3, 3, 3, 3), (1, 3, 1, 3, 1)),
        ((2, 2, 2, 2, 2, 2), (1, 2, 3, 4, 3, 2, 1)),
        ((2, 2, 2, 2, 2, 2), (1, 5, 5, 5, 5, 5, 1)),
        ((6, 7), (1, 2, 1)),
        ((6, 7), (1, 1, 1)),
        ((5, 1, 5), (1, 2, 2, 1)),
    ]
    for p, (n, rk) in enumerate(profiles):
        for scale in scales:
            rng = np.random.default_rng(5000 + 10 * p + int(np.log10(scale)))
            A = _tt_full(_tt_random(rng, n, rk, scale))
            for e in [1.E-12 * scale, 1.E-8 * scale, 1.E-10, 1.E-1]:
                for r in [1, 2, 4, 1.E+12]:
                    res.append((f'svd-exact-{n}-{rk}-{scale}-{e}-{r}', 'svd',
                        (A,), {'e': e, 'r': r}))

    # --- svd: memory layouts, dtypes, degenerate inputs, wrong inputs:
    rng = np.random.default_rng(77)
    A = rng.standard_normal((4, 3, 5, 2))
    res.append(('svd-fortran', 'svd', (np.asfortranarray(A), 1.E-8, 4), {}))
    res.append(('svd-transposed', 'svd', (A.transpose(2, 0, 3, 1), 1.E-8, 4), {}))
    res.append(('svd-strided', 'svd', (A[::2, :, ::2, :], 1.E-3), {}))
    res.append(('svd-neg-stride', 'svd', (A[::-1, :, :, ::-1], 1.E-3, 3), {}))
    res.append(('svd-float32', 'svd', (A.astype(np.float32), 1.E-3, 3), {}))
    res.append(('svd-int', 'svd', ((A * 10).astype(int), 1.E-3, 3), {}))
    res.append(('svd-complex', 'svd', (A + 1j * A[::-1], 1.E-3, 3), {}))
    res.append(('svd-zeros', 'svd', (np.zeros((3, 4, 2)), 1.E-8, 3), {}))
    res.append(('svd-ones', 'svd', (np.ones((3, 4, 2)) * 1.E+6, 1.E-8), {}))
    res.append(('svd-const-tiny', 'svd', (np.ones((2, 2, 2)) * 1.E-6,), {}))
    res.append(('svd-d1', 'svd', (rng.standard_normal(5),), {}))
    res.append(('svd-d0', 'svd', (np.array(3.),), {}))
    res.append(('svd-zero-mode-first', 'svd', (np.zeros((0, 3, 2)),), {}))
    res.append(('svd-zero-mode-mid', 'svd', (np.zeros((3, 0, 2)),), {}))
    res.append(('svd-zero-mode-last', 'svd', (np.zeros((3, 2, 0)),), {}))
    res.append(('svd-nan', 'svd', (np.full((2, 3, 2), np.nan),), {}))
    res.append(('svd-inf', 'svd', (np.full((2, 3, 2), np.inf),), {}))
    res.append(('svd-list-input', 'svd', ([[1., 2.], [3., 4.]],), {}))
    res.append(('svd-none-input', 'svd', (None,), {}))
    res.append(('svd-r0', 'svd', (A, 1.E-8, 0), {}))
    res.append(('svd-r-neg', 'svd', (A, 1.E-8, -3), {}))
    res.append(('svd-r-none', 'svd', (A, 1.E-8, None), {}))
    res.append(('svd-r-nan', 'svd', (A, 1.E-8, np.nan), {}))
    res.append(('svd-r-inf', 'svd', (A, 1.E-8, np.inf), {}))
    res.append(('svd-e-str', 'svd', (A, 'a', 3), {}))
    res.append(('svd-e-zero', 'svd', (A, 0., 3), {}))
    res.append(('svd-e-neg', 'svd', (A, -1., 3), {}))
    res.append(('svd-bad-kw', 'svd', (A,), {'give_to': 'l'}))

    # --- svd_matrix: sizes 2^q, scales, accuracies, caps; wrong shapes:
    for q in range(0, 6):
        for scale in scales:
            rng = np.random.default_rng(9000 + 10 * q + int(np.log10(scale)))
            M = rng.standard_normal((2**q, 2**q)) * scale
            # Low QTT-rank matrix (Kronecker-like structure plus shift):
            L = np.add.outer(np.arange(2**q), 2. * np.arange(2**q)) * scale
            for e in [1.E-12, 1.E-6 * scale, 1.E-1, 10.]:
                for r in [1, 2, 3, 7, 1.E+12]:
                    res.append((f'svdm-rand-{q}-{scale}-{e}-{r}', 'svd_matrix',
                        (M, e, r), {}))
                    res.append((f'svdm-low-{q}-{scale}-{e}-{r}', 'svd_matrix',
                        (L,), {'e': e, 'r': r}))
            res.append((f'svdm-def-{q}-{scale}', 'svd_matrix', (M,), {}))
            res.append((f'svdm-F-{q}-{scale}', 'svd_matrix',
                (np.asfortranarray(M), 1.E-8), {}))
            res.append((f'svdm-T-{q}-{scale}', 'svd_matrix', (M.T, 1.E-8, 4), {}))
    rng = np.random.default_rng(99)
    res.append(('svdm-eye', 'svd_matrix', (np.eye(16),), {}))
    res.append(('svdm-zeros', 'svd_matrix', (np.zeros((8, 8)),), {}))
    res.append(('svdm-3x3', 'svd_matrix', (rng.standard_normal((3, 3)),), {}))
    res.append(('svdm-6x6', 'svd_matrix', (rng.standard_normal((6, 6)),), {}))
    res.append(('svdm-4x8', 'svd_matrix', (rng.standard_normal((4, 8)),), {}))
    res.append(('svdm-8x4', 'svd_matrix', (rng.standard_normal((8, 4)),), {}))
    res.append(('svdm-4x16', 'svd_matrix', (rng.standard_normal((4, 16)),), {}))
    res.append(('svdm-0x0', 'svd_matrix', (np.zeros((0, 0)),), {}))
    res.append(('svdm-1d', 'svd_matrix', (rng.standard_normal(16),), {}))
    res.append(('svdm-3d', 'svd_matrix', (rng.standard_normal((4, 2, 2)),), {}))
    res.append(('svdm-list', 'svd_matrix', ([[1., 2.], [3., 4.]],), {}))
    res.append(('svdm-int', 'svd_matrix',
        (np.arange(64).reshape(8, 8), 1.E-8, 3), {}))
    res.append(('svdm-complex', 'svd_matrix',
        (rng.standard_normal((8, 8)) * (1 + 2j), 1.E-8, 3), {}))

    # --- full_matrix: QTT-matrices with various rank profiles, both orders:
    qtt_profiles = [
        (1, 1), (1, 1, 1), (1, 4, 1), (1, 1, 1, 1), (1, 2, 3, 1), (1, 4, 16, 1),
        (1, 20, 20, 1), (1, 2, 2, 2, 1), (1, 4, 16, 4, 1), (1, 7, 1, 7, 1),
        (1, 3, 3, 3, 3, 1), (1, 2, 5, 9, 5, 2, 1),
    ]
    for p, rk in enumerate(qtt_profiles):
        for scale in [1.E-6, 1., 1.E+6]:
            rng = np.random.default_rng(20000 + 10 * p + int(np.log10(scale)))
            Y = _tt_random(rng, [4] * (len(rk) - 1), rk, scale)
            res.append((f'fm-{rk}-{scale}', 'full_matrix', (Y,), {}))
            res.append((f'fm-F-{rk}-{scale}', 'full_matrix', (Y, 'F'), {}))
            res.append((f'fm-C-{rk}-{scale}', 'full_matrix', (Y,), {'order': 'C'}))
            res.append((f'fm-A-{rk}-{scale}', 'full_matrix', (Y,), {'order': 'A'}))
    rng = np.random.default_rng(31)
    res.append(('fm-empty', 'full_matrix', ([],), {}))
    res.append(('fm-none', 'full_matrix', (None,), {}))
    res.append(('fm-mode3', 'full_matrix',
        (_tt_random(rng, [3, 3], (1, 2, 1)),), {}))
    res.append(('fm-mode2', 'full_matrix',
        (_tt_random(rng, [2, 2, 2, 2], (1, 2, 2, 2, 1)),), {}))
    res.append(('fm-mode-mixed', 'full_matrix',
        (_tt_random(rng, [4, 2, 8], (1, 2, 2, 1)),), {}))
    res.append(('fm-bad-order', 'full_matrix',
        (_tt_random(rng, [4, 4], (1, 2, 1)), 'X'), {}))
    res.append(('fm-open-ranks', 'full_matrix',
        (_tt_random(rng, [4, 4], (2, 2, 3)),), {}))
    res.append(('fm-tuple', 'full_matrix',
        (tuple(_tt_random(rng, [4, 4, 4], (1, 3, 3, 1))),), {}))
    res.append(('fm-int', 'full_matrix',
        ([np.arange(8).reshape(1, 4, 2), np.arange(8).reshape(2, 4, 1)],), {}))
    res.append(('fm-complex', 'full_matrix',
        ([G * (1 - 1j) for G in _tt_random(rng, [4, 4], (1, 2, 1))],), {}))

    # --- Round trips svd_matrix -> full_matrix (computed by the package itself):
    for q in range(1, 6):
        rng = np.random.default_rng(40000 + q)
        M = rng.standard_normal((2**q, 2**q)) * 10.**rng.integers(-6, 7)
        for e, r in [(1.E-12, 1.E+12), (1.E-3, 3), (1., 1)]:
            res.append((f'roundtrip-{q}-{e}-{r}', '_roundtrip', (M, e, r), {}))

    # --- Matrix factorisations (not refactored; used by svd) as a sanity check:
    for j, (m, n) in enumerate([(5, 5), (3, 8), (8, 3), (1, 4), (4, 1)]):
        rng = np.random.default_rng(50000 + j)
        A = rng.standard_normal((m, n)) * 10.**(3 * (j - 2))
        for give_to in ['m', 'l', 'r']:
            for rel in [False, True]:
                res.append((f'skel-{m}x{n}-{give_to}-{rel}', 'matrix_skeleton',
                    (A, 1.E-2, 3), {'give_to': give_to, 'rel': rel}))
        res.append((f'msvd-{m}x{n}', 'matrix_svd', (A, 1.E-2, 3), {}))

    return res


def worker(root, fpath):
    sys.path.insert(0, root)
    os.chdir(root)
    import numpy as np
    import teneva
    assert os.path.abspath(teneva.__file__).startswith(root + os.sep), \
        (teneva.__file__, root)

    def _roundtrip(M, e, r):
        return teneva.full_matrix(teneva.svd_matrix(M, e, r))

    result = {'__file__': teneva.__file__}
    for num, (name, fname, args, kwargs) in enumerate(scenarios()):
        name = f'{num:05d}-{name}'
        func = _roundtrip if fname == '_roundtrip' else getattr(teneva, fname)
        assert name not in result, name
        result[name] = _call(func, args, kwargs)

    # Direct check of the two axis permutations through the public functions
    # (one-hot matrices make every misplaced index visible):
    for q in range(1, 5):
        for (i, j) in [(0, 0), (1, 0), (0, 1), (2**q - 1, 2**q - 2),
                (2**q // 2, 1), (2**q - 1, 2**q - 1)]:
            M = np.zeros((2**q, 2**q))
            M[i, j] = 1.
            result[f'onehot-{q}-{i}-{j}'] = _call(_roundtrip, (M, 1.E-12, 4), {})
            result[f'onehot-tt-{q}-{i}-{j}'] = _call(teneva.svd_matrix, (M,), {})

    with open(fpath, 'wb') as f:
        pickle.dump(result, f)


# ---------------------------------------------------------------------------
# Driver part
# ---------------------------------------------------------------------------


def main():
    tmp = tempfile.mkdtemp(prefix='equiv_C03_')
    files = {}
    for tag, root in [('orig', ROOT_ORIG), ('twin', ROOT_TWIN)]:
        files[tag] = os.path.join(tmp, tag + '.pkl')
        env = dict(os.environ)
        env.pop('PYTHONPATH', None)
        proc = subprocess.run([sys.executable, os.path.abspath(__file__),
            '--worker', root, files[tag]], cwd=root, env=env)
        if proc.returncode != 0:
            print(f'Worker "{tag}" failed with code {proc.returncode}')
            return 1

    with open(files['orig'], 'rb') as f:
        res_orig = pickle.load(f)
    with open(files['twin'], 'rb') as f:
        res_twin = pickle.load(f)
    shutil.rmtree(tmp, ignore_errors=True)

    file_orig = res_orig.pop('__file__')
    file_twin = res_twin.pop('__file__')
    print(f'original package : {file_orig}')
    print(f'refactored package: {file_twin}')
    if file_orig == file_twin:
        print('ERROR: the same package was loaded twice')
        return 1

    if sorted(res_orig) != sorted(res_twin):
        print('ERROR: different scenario lists')
        return 1

    bad, bitwise, n_exc, n_ok, n_untouched = [], 0, 0, 0, 0
    for name in res_orig:
        a, b = res_orig[name], res_twin[name]
        n_exc += a['out'][0] == 'exc'
        n_ok += a['out'][0] == 'ok'
        n_untouched += bool(a['args_untouched'])
        if _same(a, b):
            bitwise += 1
            continue
        # Not bitwise identical: kinds / shapes / dtypes / flags / exceptions
        # and mutation must still agree, numbers up to a tight tolerance:
        if _same(a, b, tol=1.E-13):
            continue
        bad.append(name)
        print(f'MISMATCH in scenario {name}:')
        print(f'    orig: {str(a["out"])[:300]}')
        print(f'    twin: {str(b["out"])[:300]}')

    total = len(res_orig)
    print(f'scenarios: {total} (returned: {n_ok}, raised: {n_exc}; '
        f'arguments left untouched in {n_untouched})')
    print(f'bitwise identical: {bitwise}; within rtol 1e-13 only: '
        f'{total - bitwise - len(bad)}; mismatches: {len(bad)}')
    if bad:
        print('FAIL')
        return 1
    print('OK: the refactored functions agree with the original ones')
    return 0


if __name__ == '__main__':
    if len(sys.argv) == 4 and sys.argv[1] == '--worker':
        worker(sys.argv[2], sys.argv[3])
        sys.exit(0)
    sys.exit(main())
