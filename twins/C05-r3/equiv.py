"""Equivalence demonstration for the C05 twin (TT-cross anchors).

The same deterministic scenario list is executed in two subprocesses, one that
imports the pristine package (/tmp/twinsC/C05/orig) and one that imports the
refactored package (/tmp/wt/C05).  Each dumps its results to a pickle; the two
pickles are then compared (values with a tight tolerance, shapes, dtypes,
exceptions, mutation of arguments, info / cache dictionaries, order and
content of every oracle request, printed log lines).

Exit code 0 when everything agrees, 1 otherwise.
"""
import contextlib
import io
import os
import pickle
import re
import subprocess
import sys
import tempfile

import numpy as np


ROOT_ORIG = '/tmp/twinsC/C05/orig'
ROOT_TWIN = '/tmp/wt/C05'
RTOL = 1.E-12
ATOL = 1.E-13


# --------------------------------------------------------------------------
# Worker part (runs with one of the two packages)
# --------------------------------------------------------------------------


def _pack(x):
    """Turn a result into a picklable, comparable description."""
    if isinstance(x, np.ndarray):
        return ('nd', x.shape, str(x.dtype), bool(x.flags['C_CONTIGUOUS']),
            bool(x.flags['F_CONTIGUOUS']), np.array(x))
    if isinstance(x, (list, tuple)):
        return (type(x).__name__, [_pack(v) for v in x])
    if isinstance(x, dict):
        return ('dict', [(_pack_key(k), _pack(v)) for k, v in x.items()])
    if isinstance(x, (np.floating, np.integer, np.bool_)):
        return ('np', type(x).__name__, x.item())
    if x is None or isinstance(x, (bool, int, float, str)):
        return ('py', type(x).__name__, x)
    return ('repr', repr(x))


def _pack_key(k):
    if isinstance(k, tuple):
        return ('tuple', tuple(int(v) for v in k),
            tuple(type(v).__name__ for v in k))
    return ('key', k)


def _info_clean(info):
    return {k: v for k, v in info.items() if k != 't'}


_TIME = re.compile(r'time:\s*[-+0-9.eE]+')


def _log_clean(text):
    return _TIME.sub('time: *', text)


def _run(fn):
    """Run fn, capture stdout and the exception (if any)."""
    out = io.StringIO()
    try:
        with contextlib.redirect_stdout(out):
            res = fn()
        exc = None
    except Exception as err:
        res = None
        exc = (type(err).__name__, str(err))
    return res, exc, _log_clean(out.getvalue())


class Oracle:
    """Element oracle of an exact TT-tensor; records every request."""

    def __init__(self, teneva, Y, none_after=None, short=False):
        self.teneva = teneva
        self.Y = Y
        self.calls = []
        self.none_after = none_after
        self.short = short

    def __call__(self, I):
        self.calls.append(_pack(I))
        if self.none_after is not None and len(self.calls) > self.none_after:
            return None
        y = self.teneva.get_many(self.Y, I)
        if self.short:
            y = y[:-1]
        return y


def _tt_rand(rng, n, r):
    d = len(n)
    if isinstance(r, int):
        r = [1] + [r] * (d - 1) + [1]
    return [rng.normal(size=(r[i], n[i], r[i+1])) for i in range(d)]


def scenarios_cross(teneva):
    res = []
    shapes = [
        ([4, 5], 2), ([3, 3, 3], 1), ([5, 4, 6], 2), ([4, 4, 4, 4], 3),
        ([6, 3, 5, 4, 3], 2), ([2, 2, 2, 2, 2, 2], 2), ([7, 2, 6], [1, 3, 2, 1]),
        ([3, 8, 3, 4], [1, 2, 4, 3, 1]),
    ]
    growth = [(0, 0), (1, 1), (0, 2), (1, 3), (2, 2)]
    num = 0
    for (n, rho) in shapes:
        for r0 in (1, 2, 'rho', 5):
            for (dr_min, dr_max) in growth:
                for nswp in (0, 1, 3, 6):
                    num += 1
                    if num % 3 == 0 and nswp > 1:
                        continue
                    seed = 1000 + num
                    variants = [
                        dict(cache=False, vld=False),
                        dict(cache=True, vld=False),
                        dict(cache=True, vld=True),
                        dict(cache=False, vld=True),
                    ]
                    v = variants[num % 4]
                    res.append(dict(kind='cross', n=n, rho=rho, r0=r0,
                        dr_min=dr_min, dr_max=dr_max, nswp=nswp, seed=seed,
                        **v))
    # other stop criteria, callbacks, logs, budget, interrupted oracle
    extra = [
        dict(n=[5, 4, 6], rho=2, r0=1, dr_min=1, dr_max=1, nswp=None, e=1e-8,
            cache=False, vld=False, log=True),
        dict(n=[5, 4, 6], rho=2, r0=1, dr_min=1, dr_max=1, nswp=None, e=1e-8,
            cache=True, vld=True, log=True),
        dict(n=[5, 4, 6, 3], rho=2, r0=2, dr_min=0, dr_max=0, nswp=None,
            e=1e-10, cache=True, vld=False, log=True, m_cache_scale=1),
        dict(n=[5, 4, 6, 3], rho=2, r0=2, dr_min=0, dr_max=0, nswp=50,
            cache=True, vld=False, m_cache_scale=2),
        dict(n=[4, 4, 4, 4], rho=3, r0=1, dr_min=1, dr_max=2, nswp=None,
            m=500, cache=False, vld=False, log=True),
        dict(n=[4, 4, 4, 4], rho=3, r0=1, dr_min=1, dr_max=2, nswp=None,
            m=500, cache=True, vld=True),
        dict(n=[4, 4, 4, 4], rho=3, r0=1, dr_min=1, dr_max=2, nswp=None,
            m=3, cache=True, vld=False),
        dict(n=[4, 4, 4, 4], rho=3, r0=1, dr_min=1, dr_max=2, nswp=None,
            m=700.5, cache=False, vld=False),
        dict(n=[6, 5, 4], rho=2, r0=1, dr_min=1, dr_max=1, nswp=None,
            e_vld=1e-9, cache=False, vld=True, log=True),
        dict(n=[6, 5, 4], rho=2, r0=1, dr_min=1, dr_max=1, nswp=None,
            e_vld=1e-9, e=1e-3, cache=True, vld=True, log=True),
        dict(n=[6, 5, 4], rho=2, r0=2, dr_min=1, dr_max=1, nswp=10,
            none_after=4, cache=False, vld=False, log=True),
        dict(n=[6, 5, 4], rho=2, r0=2, dr_min=1, dr_max=1, nswp=10,
            none_after=7, cache=True, vld=True),
        dict(n=[6, 5, 4], rho=2, r0=2, dr_min=1, dr_max=1, nswp=10,
            none_after=0, cache=True, vld=False),
        dict(n=[6, 5, 4], rho=2, r0=2, dr_min=1, dr_max=1, nswp=8,
            cb='stop3', cache=True, vld=False, log=True),
        dict(n=[6, 5, 4], rho=2, r0=2, dr_min=1, dr_max=1, nswp=4,
            cb='truthy', cache=False, vld=True),
        dict(n=[6, 5, 4], rho=2, r0=2, dr_min=2, dr_max=1, nswp=4,
            cache=False, vld=False),                      # dr_min > dr_max
        dict(n=[6, 5, 4], rho=2, r0=2, dr_min=1, dr_max=1, nswp=None,
            cache=False, vld=False),                      # ValueError
        dict(n=[6, 5, 4], rho=2, r0=2, dr_min=1, dr_max=1, nswp=None,
            cache=False, vld=True),                       # ValueError
        dict(n=[6, 5, 4], rho=2, r0=2, dr_min=1, dr_max=1, nswp=2,
            e_vld=1e-3, cache=False, vld=False),          # ValueError
        dict(n=[6, 5, 4], rho=2, r0=2, dr_min=1, dr_max=1, nswp=3,
            short=True, cache=True, vld=False),           # IndexError in f
        dict(n=[6, 5, 4], rho=2, r0=2, dr_min=1, dr_max=1, nswp=3,
            short=True, cache=False, vld=False),
        dict(n=[6, 5, 4], rho=2, r0=2, dr_min=1, dr_max=1, nswp=3,
            prefill=True, cache=True, vld=False, log=True),
        dict(n=[3, 4], rho=1, r0=1, dr_min=0, dr_max=0, nswp=2,
            prefill=True, cache=True, vld=True, log=True),
        dict(n=[9, 9], rho=4, r0=1, dr_min=1, dr_max=1, nswp=7,
            cache=True, vld=True, log=True),
    ]
    for k, sc in enumerate(extra):
        sc = dict(sc)
        sc.setdefault('seed', 5000 + k)
        sc['kind'] = 'cross'
        res.append(sc)
    return res


def run_cross(teneva, sc):
    rng = np.random.default_rng(sc['seed'])
    n, rho = sc['n'], sc['rho']
    d = len(n)
    Yt = _tt_rand(rng, n, rho)
    r0 = sc['r0']
    if r0 == 'rho':
        r0 = rho
    Y0 = _tt_rand(rng, n, r0)      # over-ranked cores allowed (r0 > n)
    Y0_ref = [G.copy() for G in Y0]

    I_vld = y_vld = None
    if sc.get('vld'):
        I_vld = np.vstack([rng.integers(0, k, size=40) for k in n]).T
        y_vld = teneva.get_many(Yt, I_vld)
    I_vld_ref = None if I_vld is None else I_vld.copy()
    y_vld_ref = None if y_vld is None else y_vld.copy()

    f = Oracle(teneva, Yt, sc.get('none_after'), sc.get('short', False))
    cache = {} if sc.get('cache') else None
    if sc.get('prefill'):
        for _ in range(60):
            i = tuple(int(rng.integers(0, k)) for k in n)
            cache[i] = float(teneva.get(Yt, np.array(i)))

    cb_log = []
    cb = None
    if sc.get('cb') == 'stop3':
        def cb(Y, info, opts):
            cb_log.append((_pack(_info_clean(info)), _pack(opts['Ir']),
                _pack(opts['Ic']), _pack(opts['Yold'])))
            return info['nswp'] >= 3
    elif sc.get('cb') == 'truthy':
        def cb(Y, info, opts):
            cb_log.append(_pack(_info_clean(info)))
            return 1           # truthy, but not True: must not stop

    info = {'user': 'kept'}
    kw = dict(m=sc.get('m'), e=sc.get('e'), nswp=sc.get('nswp'),
        dr_min=sc['dr_min'], dr_max=sc['dr_max'], info=info, cache=cache,
        I_vld=I_vld, y_vld=y_vld, e_vld=sc.get('e_vld'), cb=cb,
        log=sc.get('log', False))
    if 'm_cache_scale' in sc:
        kw['m_cache_scale'] = sc['m_cache_scale']

    Y, exc, out = _run(lambda: teneva.cross(f, Y0, **kw))

    same_args = all(np.array_equal(a, b) for a, b in zip(Y0, Y0_ref))
    if I_vld is not None:
        same_args = same_args and np.array_equal(I_vld, I_vld_ref)
        same_args = same_args and np.array_equal(y_vld, y_vld_ref)

    err = None
    if Y is not None:
        err = float(teneva.accuracy(Y, Yt))
    return dict(Y=_pack(Y), exc=exc, out=out, info=_pack(_info_clean(info)),
        info_keys=list(info.keys()), has_t=('t' in info),
        cache=_pack(cache), calls=f.calls, cb_log=cb_log,
        same_args=same_args, err_to_target=('py', 'float', err))


def scenarios_func_eval():
    res = []
    num = 0
    for w in (1, 2, 3, 5):
        for size in (1, 4, 17):
            for dup in (False, True):
                for mode in ('none', 'empty', 'part', 'full'):
                    for m_max in (None, 0, 5, 1000):
                        for m0 in (0, 3):
                            for beh in ('ok', 'none', 'short', 'list'):
                                num += 1
                                if num % 5 not in (0, 1):
                                    continue
                                res.append(dict(kind='func_eval', w=w,
                                    size=size, dup=dup, mode=mode,
                                    m_max=m_max, m0=m0, beh=beh,
                                    seed=20000 + num))
    return res


def run_func_eval(teneva, sc):
    from teneva.cross import _func_eval
    rng = np.random.default_rng(sc['seed'])
    w, size = sc['w'], sc['size']
    I = rng.integers(0, 4, size=(size, w))
    if sc['dup'] and size > 1:
        I[size // 2:] = I[:size - size // 2]
    I_ref = I.copy()

    if sc['mode'] == 'none':
        cache = None
    else:
        cache = {}
        rows = []
        if sc['mode'] == 'part':
            rows = [I[k] for k in range(0, size, 2)]
        elif sc['mode'] == 'full':
            rows = list(I)
        for row in rows:
            cache[tuple(int(v) for v in row)] = float(rng.normal())
        for _ in range(3):
            cache[tuple(int(v) for v in rng.integers(4, 9, size=w))] = 7.5

    calls = []

    def f(J):
        calls.append(_pack(J))
        y = np.sin(np.sum(J * np.arange(1, J.shape[1] + 1), axis=1) + 0.5)
        if sc['beh'] == 'none':
            return None
        if sc['beh'] == 'short':
            return y[:-1]
        if sc['beh'] == 'list':
            return [float(v) for v in y]
        return y

    info = {'m': sc['m0'], 'm_cache': 2, 'm_max': sc['m_max'], 'stop': None,
        'other': 'x'}
    y, exc, out = _run(lambda: _func_eval(f, I, info, cache))
    return dict(y=_pack(y), exc=exc, out=out, info=_pack(info),
        cache=_pack(cache), calls=calls,
        same_args=bool(np.array_equal(I, I_ref)))


def scenarios_iter():
    res = []
    num = 0
    for (r1, n, r2) in [(1, 4, 1), (1, 5, 3), (3, 5, 1), (2, 3, 2), (3, 4, 5),
                        (4, 2, 9), (9, 2, 4), (1, 1, 1), (2, 6, 2), (5, 5, 5)]:
        for ltr in (True, False):
            for with_I in (False, True):
                for (dr_min, dr_max) in [(0, 0), (1, 1), (0, 3), (2, 2)]:
                    for defaults in (False, True):
                        num += 1
                        res.append(dict(kind='iter', r1=r1, n=n, r2=r2,
                            ltr=ltr, with_I=with_I, dr_min=dr_min,
                            dr_max=dr_max, defaults=defaults,
                            layout=('C', 'F', 'view')[num % 3],
                            seed=30000 + num))
    return res


def run_iter(teneva, sc):
    from teneva.cross import _iter
    rng = np.random.default_rng(sc['seed'])
    r1, n, r2 = sc['r1'], sc['n'], sc['r2']
    Z = rng.normal(size=(r1, n, r2))
    if sc['layout'] == 'F':
        Z = np.asfortranarray(Z)
    elif sc['layout'] == 'view':
        Z = rng.normal(size=(r1, n, 2 * r2))[:, :, ::2]
    Ig = np.arange(n, dtype=int).reshape(-1, 1)
    I = None
    if sc['with_I']:
        k = r1 if sc['ltr'] else r2
        I = rng.integers(0, 6, size=(k, 3))
    Z_ref = Z.copy()
    I_ref = None if I is None else I.copy()
    Ig_ref = Ig.copy()

    if sc['defaults']:
        fn = lambda: _iter(Z, Ig, I, ltr=sc['ltr'])
    else:
        fn = lambda: _iter(Z, Ig, I, 1.1, sc['dr_min'], sc['dr_max'], 1.05,
            100, ltr=sc['ltr'])
    out3, exc, out = _run(fn)
    same = bool(np.array_equal(Z, Z_ref) and np.array_equal(Ig, Ig_ref))
    if I is not None:
        same = same and bool(np.array_equal(I, I_ref))
    return dict(res=_pack(out3), exc=exc, out=out, same_args=same)


def scenarios_info():
    res = []
    vals = [-1, -1., 0., 1e-12, 1e-6, 0.5, float('inf'), float('nan'),
        np.float64(1e-6), np.float64('inf')]
    bounds = [None, 0., 1e-8, 1e-6, 1., float('inf')]
    num = 0
    for v_e in vals:
        for v_vld in vals:
            for b_e in bounds:
                for b_vld in bounds:
                    num += 1
                    if num % 7 not in (0, 3):
                        continue
                    for stop0 in (None, 'm', 'conv', ''):
                        for (nswp_cur, nswp) in [(0, None), (0, 0), (2, 3),
                                                 (3, 3), (4, 3)]:
                            num += 1
                            if num % 3:
                                continue
                            res.append(dict(kind='info', v_e=v_e,
                                v_vld=v_vld, b_e=b_e, b_vld=b_vld,
                                stop0=stop0, nswp_cur=nswp_cur, nswp=nswp,
                                log=bool(num % 2), form=num % 4))
    # dictionaries of the als-like callers / missing keys
    res.append(dict(kind='info', form=9, log=False))
    res.append(dict(kind='info', form=9, log=True))
    res.append(dict(kind='info', form=10, log=False))
    res.append(dict(kind='info', form=10, log=True))
    return res


def run_info(teneva, sc):
    from time import perf_counter as tpc
    form = sc['form']
    if form == 9:
        # no 'e_vld' key at all: fine while e_vld is None and log is off
        info = {'r': 2., 'e': 0.1, 'nswp': 1, 'stop': None}
        args = (5, 1e-3, None)
    elif form == 10:
        # no 'm' key (als-like), log requested
        info = {'r': 2., 'e': 0.1, 'e_vld': 0.2, 'nswp': 1, 'stop': None}
        args = (5, 1e-3, 1e-3)
    else:
        info = {'r': 3.25, 'e': sc['v_e'], 'e_vld': sc['v_vld'],
            'nswp': sc['nswp_cur'], 'stop': sc['stop0']}
        if form >= 1:
            info.update({'m': 120, 'm_cache': 35})
        if form >= 2:
            info['with_cache'] = (form == 3)
        args = (sc['nswp'], sc['b_e'], sc['b_vld'])
    t = tpc()
    if sc['log']:
        fn = lambda: teneva._info_appr(info, t, args[0], args[1], args[2],
            True)
    else:
        fn = lambda: teneva._info_appr(info, t, *args)
    ret, exc, out = _run(fn)
    t_ok = ('t' in info) and isinstance(info['t'], float) \
        and 0 <= info['t'] < 60
    return dict(ret=_pack(ret), exc=exc, out=out,
        info=_pack(_info_clean(info)), keys=list(info.keys()), t_ok=t_ok)


def worker(path_out):
    root = os.getcwd()
    sys.path.insert(0, root)
    import teneva
    assert os.path.realpath(teneva.__file__).startswith(
        os.path.realpath(root) + os.sep), (teneva.__file__, root)
    import teneva.cross
    for name in ('teneva.cross', 'teneva.utils'):
        assert os.path.realpath(sys.modules[name].__file__).startswith(
            os.path.realpath(root) + os.sep)

    scs = (scenarios_cross(teneva) + scenarios_func_eval() + scenarios_iter()
        + scenarios_info())
    runners = {'cross': run_cross, 'func_eval': run_func_eval,
        'iter': run_iter, 'info': run_info}
    results = []
    for sc in scs:
        results.append((sc, runners[sc['kind']](teneva, sc)))
    with open(path_out, 'wb') as fh:
        pickle.dump({'file': teneva.__file__, 'results': results}, fh)


# --------------------------------------------------------------------------
# Comparison part
# --------------------------------------------------------------------------


def _same(a, b, path, errs):
    if type(a) is not type(b):
        errs.append(f'{path}: type {type(a)} != {type(b)}')
        return
    if isinstance(a, np.ndarray):
        if a.shape != b.shape or a.dtype != b.dtype:
            errs.append(f'{path}: array meta {a.shape} {a.dtype} != '
                f'{b.shape} {b.dtype}')
        elif a.dtype.kind == 'f':
            if not np.allclose(a, b, rtol=RTOL, atol=ATOL, equal_nan=True):
                errs.append(f'{path}: float arrays differ, max '
                    f'{np.max(np.abs(a - b))}')
        elif not np.array_equal(a, b):
            errs.append(f'{path}: arrays differ')
        return
    if isinstance(a, (list, tuple)):
        if len(a) != len(b):
            errs.append(f'{path}: len {len(a)} != {len(b)}')
            return
        for k, (x, y) in enumerate(zip(a, b)):
            _same(x, y, f'{path}[{k}]', errs)
        return
    if isinstance(a, dict):
        if list(a.keys()) != list(b.keys()):
            errs.append(f'{path}: keys {list(a)} != {list(b)}')
            return
        for k in a:
            _same(a[k], b[k], f'{path}.{k}', errs)
        return
    if isinstance(a, float):
        if a != a and b != b:
            return
        if a == b:
            return
        if not np.isclose(a, b, rtol=RTOL, atol=ATOL):
            errs.append(f'{path}: {a!r} != {b!r}')
        return
    if a != b:
        errs.append(f'{path}: {a!r} != {b!r}')


def _exact(a, b):
    """Bit-for-bit statistics (reported, not required)."""
    try:
        return pickle.dumps(a) == pickle.dumps(b)
    except Exception:
        return False


def main():
    here = os.path.abspath(__file__)
    tmp = tempfile.mkdtemp(prefix='c05_equiv_')
    outs = []
    for name, root in (('orig', ROOT_ORIG), ('twin', ROOT_TWIN)):
        path = os.path.join(tmp, name + '.pkl')
        env = dict(os.environ)
        env.pop('PYTHONPATH', None)
        env['PYTHONDONTWRITEBYTECODE'] = '1'
        for var in ('OMP_NUM_THREADS', 'OPENBLAS_NUM_THREADS',
                    'MKL_NUM_THREADS'):
            env[var] = '1'     # same (deterministic) BLAS setup on both sides
        proc = subprocess.run([sys.executable, here, '--worker', path],
            cwd=root, env=env, capture_output=True, text=True)
        if proc.returncode != 0:
            print(f'worker {name} failed:\n{proc.stdout}\n{proc.stderr}')
            return 1
        with open(path, 'rb') as fh:
            outs.append(pickle.load(fh))
    A, B = outs
    print('orig package :', A['file'])
    print('twin package :', B['file'])
    if A['file'] == B['file']:
        print('FAIL: both workers imported the same package')
        return 1
    if len(A['results']) != len(B['results']):
        print('FAIL: different number of scenarios')
        return 1

    bad = 0
    exact = 0
    count = {}
    n_exc = 0
    for k, ((sa, ra), (sb, rb)) in enumerate(zip(A['results'], B['results'])):
        errs = []
        if repr(sa) != repr(sb):
            errs.append('scenario descriptions differ')
        _same(ra, rb, 'res', errs)
        if ra.get('same_args') is False or rb.get('same_args') is False:
            if ra.get('same_args') != rb.get('same_args'):
                errs.append('argument mutation differs')
        count[sa['kind']] = count.get(sa['kind'], 0) + 1
        n_exc += ra.get('exc') is not None
        exact += _exact(ra, rb)
        if errs:
            bad += 1
            if bad <= 20:
                print(f'MISMATCH in scenario {k}: {sa}')
                for e in errs[:6]:
                    print('    ', e)
    total = len(A['results'])
    print(f'scenarios: {total} {count}; with exception: {n_exc}; '
        f'bit-identical: {exact}; mismatching: {bad}')
    if bad:
        print('FAIL')
        return 1
    print('OK: refactored package agrees with the original on all scenarios')
    return 0


if __name__ == '__main__':
    if len(sys.argv) == 3 and sys.argv[1] == '--worker':
        worker(sys.argv[2])
        sys.exit(0)
    sys.exit(main())
