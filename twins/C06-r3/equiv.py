"""Equivalence demonstration for the C06 twin (TT-cross stop contract anchors).

The refactored functions are `teneva/cross.py:_func_eval`, both half-sweep
loops of `teneva/cross.py:cross` and `teneva/utils.py:_info_appr`.

The same deterministic scenario list is executed in two subprocesses: one with
the pristine package (/tmp/twinsC/C06/orig) and one with the refactored package
(/tmp/wt/C06). Each subprocess dumps its results into a pickle; the parent
compares the two pickles. Exit code 0 when everything agrees and 1 otherwise.

"""
import contextlib
import io
import itertools
import os
import pickle
import re
import subprocess
import sys
import tempfile


ROOT_ORIG = '/tmp/twinsC/C06/orig'
ROOT_TWIN = os.environ.get('EQUIV_TWIN_ROOT', '/tmp/wt/C06')
PYTHON = '/venv/bin/python'


# ----------------------------------------------------------------------------
# Worker part (it is run inside the subprocess with cwd = package root)
# ----------------------------------------------------------------------------


def _mask_time(text):
    return re.sub(r'time:\s*[-+0-9.eE]+ \|', 'time: <T> |', text)


def _clean_info(info):
    return {k: v for k, v in info.items() if k != 't'}


def _dump_cache(cache):
    if cache is None:
        return None
    # The order of insertion and the types of the keys are also compared:
    return [(tuple(int(v) for v in k), tuple(type(v).__name__ for v in k), val)
        for k, val in cache.items()]


def worker(path_out):
    root = os.getcwd()
    sys.path.insert(0, root)
    import numpy as np
    import teneva
    assert os.path.dirname(os.path.dirname(teneva.__file__)) == root, (
        teneva.__file__, root)
    from teneva import cross as _  # noqa (function, the module is below)
    mod_cross = sys.modules['teneva.cross']
    mod_utils = sys.modules['teneva.utils']

    res = []

    def record(name, fn):
        out = io.StringIO()
        item = {'name': name}
        try:
            with contextlib.redirect_stdout(out):
                item['value'] = fn()
            item['exc'] = None
        except Exception as exc:
            item['value'] = None
            item['exc'] = (type(exc).__name__, str(exc))
        item['stdout'] = _mask_time(out.getvalue())
        res.append(item)
        return item

    # --- Objectives:

    def f_smooth(I):
        I = np.asarray(I)
        return 1. / (1. + np.sum((I + 1.) * np.arange(1, I.shape[1] + 1), 1))

    def f_rank1(I):
        I = np.asarray(I)
        return np.prod(1. + 0.5 * I, axis=1)

    def f_sin(I):
        I = np.asarray(I)
        return np.sin(np.sum(I * I, axis=1) * 0.37) + 0.1 * I[:, 0]

    def f_zero(I):
        return np.zeros(len(I))

    def f_list(I):
        return [float(v) for v in f_smooth(I)]

    def f_int(I):
        return np.sum(np.asarray(I), axis=1)

    OBJ = {'smooth': f_smooth, 'rank1': f_rank1, 'sin': f_sin, 'zero': f_zero,
        'list': f_list, 'int': f_int}

    class Probe:
        """Wrapper which logs all requests and can return None at k-th call."""

        def __init__(self, f, k_none=None):
            self.f = f
            self.k_none = k_none
            self.calls = []

        def __call__(self, I):
            self.calls.append((np.array(I), str(np.asarray(I).dtype),
                np.asarray(I).flags['C_CONTIGUOUS']))
            if self.k_none is not None and len(self.calls) == self.k_none:
                return None
            return self.f(I)

    def run_cross(obj, n, r, seed, use_cache=False, vld=False, cb_at=None,
                  k_none=None, cache0=None, y0_int=False, **kw):
        Y0 = teneva.rand(n, r, seed=seed)
        if y0_int:
            Y0 = [np.round(3 * G) for G in Y0]
        Y0_ref = [G.copy() for G in Y0]
        f = Probe(OBJ[obj], k_none)
        info = {'extra': 'kept'}
        cache = None
        if use_cache:
            cache = {} if cache0 is None else dict(cache0)
        if vld:
            rng = np.random.default_rng(seed + 1000)
            I_vld = np.vstack([rng.integers(0, k, 17) for k in n]).T
            y_vld = OBJ[obj](I_vld)
            kw['I_vld'] = I_vld
            kw['y_vld'] = y_vld
            I_vld_ref, y_vld_ref = I_vld.copy(), np.array(y_vld)
        cb_log = []
        if cb_at is not None:
            def cb(Y, info_cb, opts):
                cb_log.append((info_cb['nswp'], info_cb['m'], info_cb['stop'],
                    sorted(opts.keys()),
                    [None if v is None else np.array(v) for v in opts['Ir']],
                    [None if v is None else np.array(v) for v in opts['Ic']],
                    [np.array(G) for G in opts['Yold']],
                    opts['cache'] is cache))
                if cb_at == 'truthy':
                    return 1  # Is not "True", hence it should not stop
                return info_cb['nswp'] == cb_at
            kw['cb'] = cb
        Y = teneva.cross(f, Y0, info=info, cache=cache, **kw)
        out = {
            'Y': [np.array(G) for G in Y],
            'Y_is_Y0': Y is Y0,
            'Y0_same': all(np.array_equal(a, b) and a.dtype == b.dtype
                for a, b in zip(Y0, Y0_ref)),
            'info': _clean_info(info),
            'info_types': {k: type(v).__name__ for k, v in info.items()},
            'cache': _dump_cache(cache),
            'calls': f.calls,
            'cb_log': cb_log,
        }
        if vld:
            out['vld_same'] = (np.array_equal(kw['I_vld'], I_vld_ref)
                and np.array_equal(kw['y_vld'], y_vld_ref))
        return out

    # --- (A) Full runs of cross with various settings:

    SHAPES = [
        ([4, 5, 3], 1),                     # Rank-1 initial tensor
        ([4, 5, 3], 2),
        ([2, 2, 2, 2], 5),                  # Over-ranked cores
        ([3, 6], 2),                        # d = 2
        ([7], 1),                           # d = 1
        ([3, 4, 2, 5, 3], [1, 2, 3, 2, 1, 1]),
        ([5, 2, 6, 3], [1, 4, 1, 3, 1]),    # Rank profile with inner rank 1
    ]
    GROW = [(1, 1), (0, 0), (1, 3), (2, 2), (0, 2)]

    base_m = {}   # Number of evaluations in the unconstrained run
    for (n, r), (dr_min, dr_max) in itertools.product(SHAPES, GROW):
        for obj in ['smooth', 'sin']:
            for use_cache in [False, True]:
                name = f'A-full-{n}-{r}-{dr_min}-{dr_max}-{obj}-{use_cache}'
                item = record(name, lambda: run_cross(obj, n, r, 7,
                    use_cache=use_cache, nswp=3, dr_min=dr_min, dr_max=dr_max))
                if item['exc'] is None:
                    base_m[(tuple(n), str(r), dr_min, dr_max, obj, use_cache)] \
                        = (item['value']['info']['m'], len(item['value']['calls']))

    # Other objectives / flag combinations / seeds / logs:
    for seed in [0, 1, 2]:
        for obj in ['rank1', 'zero', 'list', 'int', 'smooth']:
            for use_cache in [False, True]:
                for log in [False, True]:
                    record(f'A-obj-{seed}-{obj}-{use_cache}-{log}',
                        lambda: run_cross(obj, [4, 3, 5], 2, seed,
                            use_cache=use_cache, nswp=2, e=1.E-10, log=log))
                    record(f'A-obj-vld-{seed}-{obj}-{use_cache}-{log}',
                        lambda: run_cross(obj, [4, 3, 5], 2, seed, vld=True,
                            use_cache=use_cache, nswp=4, e_vld=1.E-3, log=log,
                            dr_max=2))

    # Stop argument combinations (incl. stop "e", "e_vld", "conv", "nswp"=0):
    for m, e, nswp, e_vld, vld in itertools.product(
            [None, 40, 10000], [None, 1.E-2, 1.E+3, 1.E-16], [None, 0, 1, 5],
            [None, 1.E-1, 1.E+3], [False, True]):
        for use_cache in [False, True]:
            record(f'A-stop-{m}-{e}-{nswp}-{e_vld}-{vld}-{use_cache}',
                lambda: run_cross('smooth', [3, 4, 3], 2, 3, vld=vld,
                    use_cache=use_cache, m=m, e=e, nswp=nswp, e_vld=e_vld,
                    log=True))

    # Integer-valued initial tensor, prefilled cache, m_cache_scale:
    cache0 = {(0, 0, 0): 0.5, (1, 2, 1): -2., (3, 4, 2): 7.}
    for scale in [0, 1, 5]:
        record(f'A-prefilled-{scale}', lambda: run_cross('smooth', [4, 5, 3],
            2, 5, use_cache=True, cache0=cache0, nswp=6, m_cache_scale=scale,
            log=True))
        record(f'A-int-{scale}', lambda: run_cross('sin', [4, 5, 3],
            2, 5, use_cache=True, y0_int=True, nswp=6, m_cache_scale=scale))

    # --- (B) Every budget m from 1 up to the unconstrained evaluation count:

    BUDGET = [
        ([4, 5, 3], 1, 1, 1, 'smooth'),
        ([2, 2, 2, 2], 5, 1, 1, 'sin'),
        ([3, 6], 2, 0, 0, 'smooth'),
        ([4, 5, 3], 2, 1, 1, 'sin'),
        ([3, 4, 2, 5, 3], [1, 2, 3, 2, 1, 1], 1, 3, 'smooth'),
        ([5, 2, 6, 3], [1, 4, 1, 3, 1], 2, 2, 'sin'),
    ]
    for n, r, dr_min, dr_max, obj in BUDGET:
        for use_cache in [False, True]:
            key = (tuple(n), str(r), dr_min, dr_max, obj, use_cache)
            m_all, k_all = base_m[key]
            for m in range(1, m_all + 2):
                record(f'B-m-{key}-{m}', lambda: run_cross(obj, n, r, 7,
                    use_cache=use_cache, m=m, nswp=3, dr_min=dr_min,
                    dr_max=dr_max, log=(m % 7 == 0)))
            # --- (C) The objective returns None at its k-th call:
            for k in range(1, k_all + 2):
                record(f'C-none-{key}-{k}', lambda: run_cross(obj, n, r, 7,
                    use_cache=use_cache, k_none=k, nswp=3, dr_min=dr_min,
                    dr_max=dr_max, log=(k % 5 == 0)))
                record(f'C-none-m-{key}-{k}', lambda: run_cross(obj, n, r, 7,
                    use_cache=use_cache, k_none=k, nswp=3, m=m_all // 2,
                    dr_min=dr_min, dr_max=dr_max, vld=True, e_vld=1.E-14))

    # --- (D) The callback returns True at every possible sweep:

    for n, r, dr_min, dr_max, obj in BUDGET:
        for use_cache in [False, True]:
            for cb_at in [1, 2, 3, 4, 'truthy']:
                record(f'D-cb-{n}-{r}-{obj}-{use_cache}-{cb_at}',
                    lambda: run_cross(obj, n, r, 11, use_cache=use_cache,
                        cb_at=cb_at, nswp=4, dr_min=dr_min, dr_max=dr_max))
                record(f'D-cb-m-{n}-{r}-{obj}-{use_cache}-{cb_at}',
                    lambda: run_cross(obj, n, r, 11, use_cache=use_cache,
                        cb_at=cb_at, m=10**6, e=1.E-1, dr_min=dr_min,
                        dr_max=dr_max, m_cache_scale=1, log=True))

    # --- (E) Argument validation (no evaluation before the ValueError):

    def run_validation(m, e, nswp, e_vld, has_I, has_y):
        f = Probe(f_smooth)
        Y0 = teneva.rand([3, 4, 3], 2, seed=1)
        info = {}
        kw = {}
        if has_I:
            kw['I_vld'] = np.array([[0, 1, 2], [2, 3, 0], [1, 1, 1]])
        if has_y:
            kw['y_vld'] = f_smooth(np.array([[0, 1, 2], [2, 3, 0], [1, 1, 1]]))
        try:
            teneva.cross(f, Y0, m=m, e=e, nswp=nswp, e_vld=e_vld, info=info,
                **kw)
        except ValueError as exc:
            return ('ValueError', str(exc), len(f.calls), dict(info))
        return ('ok', _clean_info(info), len(f.calls))

    for m, e, nswp, e_vld, has_I, has_y in itertools.product(
            [None, 30], [None, 1.E-2], [None, 1], [None, 1.E-2],
            [False, True], [False, True]):
        record(f'E-valid-{m}-{e}-{nswp}-{e_vld}-{has_I}-{has_y}',
            lambda: run_validation(m, e, nswp, e_vld, has_I, has_y))

    # --- (F) Direct calls of _func_eval:

    def run_func_eval(seed, d, size, m0, m_max, cache_mode, f_mode, dtype):
        rng = np.random.default_rng(seed)
        I = rng.integers(0, 3, (size, d)).astype(dtype)
        if size == 0:
            I = np.zeros((0, d), dtype=dtype)
        I_ref = I.copy()
        info = {'m': m0, 'm_cache': 3, 'm_max': m_max, 'stop': None, 'x': 1}
        if cache_mode == 'none':
            cache = None
        elif cache_mode == 'empty':
            cache = {}
        elif cache_mode == 'part':
            cache = {tuple(i): float(k) for k, i in enumerate(I[::2])}
            cache[(99,) * d] = -1.
        else:
            cache = {tuple(i): float(k) for k, i in enumerate(I)}
        if f_mode == 'none':
            f = Probe(f_sin, k_none=1)
        elif f_mode == 'list':
            f = Probe(f_list)
        elif f_mode == 'int':
            f = Probe(f_int)
        elif f_mode == 'col':
            f = Probe(lambda I: f_sin(I).reshape(-1, 1))
        elif f_mode == 'short':
            f = Probe(lambda I: f_sin(I)[:-1])
        elif f_mode == 'mutate':
            def f_mut(I):
                y = f_sin(I)
                I[:] = 0
                return y
            f = Probe(f_mut)
        else:
            f = Probe(f_sin)
        import warnings
        with warnings.catch_warnings():
            warnings.simplefilter('ignore')
            exc = None
            try:
                y = mod_cross._func_eval(f, I, info, cache)
            except Exception as exc_:
                y = None
                exc = (type(exc_).__name__, str(exc_))
        return {
            'y': y, 'exc': exc, 'info': info, 'cache': _dump_cache(cache),
            'calls': f.calls,
            'I_same': bool(np.array_equal(I, I_ref)) or f_mode == 'mutate',
            'I_after': np.array(I)}

    for seed, d, size in itertools.product([0, 1], [1, 3], [0, 1, 2, 9]):
        for m0, m_max in [(0, None), (0, 1), (0, 5), (4, 5), (4, 13), (5, 5),
                (0, 9), (2, 10), (2, 11), (7, 0)]:
            for cache_mode in ['none', 'empty', 'part', 'full']:
                for f_mode in ['ok', 'none', 'list', 'int', 'col', 'short',
                        'mutate']:
                    for dtype in [int, np.int32, float]:
                        record(f'F-eval-{seed}-{d}-{size}-{m0}-{m_max}-'
                            f'{cache_mode}-{f_mode}-{np.dtype(dtype).name}',
                            lambda: run_func_eval(seed, d, size, m0, m_max,
                                cache_mode, f_mode, dtype))

    # Default value of the cache argument and missing keys of info:
    record('F-eval-default', lambda: (lambda info: (mod_cross._func_eval(
        f_sin, np.array([[0, 1], [2, 2]]), info), info))(
        {'m': 0, 'm_cache': 0, 'm_max': None}))
    record('F-eval-nokey', lambda: mod_cross._func_eval(
        f_sin, np.array([[0, 1], [2, 2]]), {'m': 0, 'm_cache': 0}))
    record('F-eval-nokey-cache', lambda: mod_cross._func_eval(
        f_sin, np.array([[0, 1], [2, 2]]), {'m': 0, 'm_cache': 0},
        {(0, 1): 1., (2, 2): 2.}))
    record('F-eval-nokey-cache-2', lambda: mod_cross._func_eval(
        f_sin, np.array([[0, 1], [2, 2]]), {'m': 0, 'm_cache': 0}, {}))

    # --- (G) Direct calls of _info_appr:

    from time import perf_counter as tpc
    VALS = [-1, -1., 0, 0., 1.E-3, 1., np.float64(2.E-3), np.inf, -np.inf,
        np.nan, 1.E+10]
    LIMS = [None, 0, 0., 1.E-3, 1., np.inf, np.nan, -1.]

    def run_info(v_e, v_vld, l_e, l_vld, i_nswp, nswp, stop, log, mode):
        info = {'e': v_e, 'e_vld': v_vld, 'nswp': i_nswp, 'stop': stop,
            'r': 2.5}
        if mode >= 1:
            info.update({'m': 120, 'm_cache': 7})
        if mode == 2:
            info['with_cache'] = True
        if mode == 3:
            info['with_cache'] = False
        ret = teneva._info_appr(info, tpc(), nswp, l_e, l_vld, log)
        t = info.pop('t')
        assert isinstance(t, float) and 0 <= t < 5
        return (ret, info, {k: type(v).__name__ for k, v in info.items()})

    k = 0
    for v_e, v_vld, l_e, l_vld in itertools.product(VALS, VALS, LIMS, LIMS):
        for i_nswp, nswp in [(0, None), (0, 0), (1, 2), (2, 2), (3, 2),
                (2, 2.5), (3, 2.5), (1, np.nan)]:
            k += 1
            stop = [None, None, None, 'm', 'func', 'conv', 'cb', ''][k % 8]
            log = (k % 3 == 0)
            mode = k % 4
            record(f'G-info-{v_e}-{v_vld}-{l_e}-{l_vld}-{i_nswp}-{nswp}-'
                f'{stop}-{log}-{mode}', lambda: run_info(v_e, v_vld, l_e,
                    l_vld, i_nswp, nswp, stop, log, mode))

    # Missing keys (same exceptions are expected) and default "log":
    record('G-info-nokeys', lambda: teneva._info_appr({'stop': None}, tpc(),
        1, 1., 1.))
    record('G-info-nokeys-2', lambda: teneva._info_appr({'stop': None,
        'e_vld': -1}, tpc(), 1, 1., None))
    record('G-info-nokeys-3', lambda: teneva._info_appr({'stop': None,
        'e_vld': -1, 'e': -1}, tpc(), 1, None, None))
    record('G-info-nokeys-4', lambda: teneva._info_appr({'stop': 'm',
        'e_vld': -1, 'e': -1, 'nswp': 1}, tpc(), 1, None, None, True))
    record('G-info-nokeys-5', lambda: teneva._info_appr({}, tpc(),
        1, None, None, True))
    record('G-info-nokeys-6', lambda: teneva._info_appr({'stop': 'm',
        'nswp': 0, 'r': 1.}, tpc(), 1, None, None, True))

    # --- (H) The other users of _info_appr (als) still work the same:

    def run_als(seed, log):
        rng = np.random.default_rng(seed)
        n = [4, 5, 3]
        I_trn = np.vstack([rng.integers(0, k, 200) for k in n]).T
        y_trn = f_smooth(I_trn)
        Y0 = teneva.rand(n, 2, seed=seed)
        info = {}
        Y = teneva.als(I_trn, y_trn, Y0, nswp=5, e=1.E-3, info=info, log=log,
            I_vld=I_trn[:20], y_vld=y_trn[:20], e_vld=1.E-2)
        return [np.array(G) for G in Y], _clean_info(info)

    for seed in [0, 1]:
        for log in [False, True]:
            record(f'H-als-{seed}-{log}', lambda: run_als(seed, log))

    with open(path_out, 'wb') as fh:
        pickle.dump(res, fh)


# ----------------------------------------------------------------------------
# Comparison part
# ----------------------------------------------------------------------------


class Stat:
    def __init__(self):
        self.leaves = 0
        self.inexact = 0


def compare(a, b, path, errors, stat):
    import numpy as np
    if type(a) is not type(b):
        errors.append(f'{path}: type {type(a).__name__} != {type(b).__name__}')
        return
    if isinstance(a, dict):
        if list(a.keys()) != list(b.keys()):
            errors.append(f'{path}: keys {list(a.keys())} != {list(b.keys())}')
            return
        for k in a:
            compare(a[k], b[k], f'{path}.{k}', errors, stat)
    elif isinstance(a, (list, tuple)):
        if len(a) != len(b):
            errors.append(f'{path}: len {len(a)} != {len(b)}')
            return
        for k, (x, y) in enumerate(zip(a, b)):
            compare(x, y, f'{path}[{k}]', errors, stat)
    elif isinstance(a, np.ndarray):
        stat.leaves += 1
        if a.shape != b.shape or a.dtype != b.dtype:
            errors.append(f'{path}: array {a.shape}/{a.dtype} != '
                f'{b.shape}/{b.dtype}')
            return
        if a.dtype.kind in 'fc':
            if not np.array_equal(a, b, equal_nan=True):
                stat.inexact += 1
                if not np.allclose(a, b, rtol=1.E-12, atol=1.E-14,
                        equal_nan=True):
                    errors.append(f'{path}: arrays differ')
        elif not np.array_equal(a, b):
            errors.append(f'{path}: arrays differ')
    elif isinstance(a, (float, np.floating)):
        stat.leaves += 1
        if a != b and not (np.isnan(a) and np.isnan(b)):
            stat.inexact += 1
            if not np.isclose(a, b, rtol=1.E-12, atol=1.E-14):
                errors.append(f'{path}: {a!r} != {b!r}')
    else:
        stat.leaves += 1
        if a != b:
            errors.append(f'{path}: {a!r} != {b!r}')


def main():
    tmp = tempfile.mkdtemp(prefix='equiv_C06_')
    paths = {}
    procs = {}
    for tag, root in [('orig', ROOT_ORIG), ('twin', ROOT_TWIN)]:
        paths[tag] = os.path.join(tmp, f'{tag}.pkl')
        env = dict(os.environ)
        env.pop('PYTHONPATH', None)
        env['PYTHONDONTWRITEBYTECODE'] = '1'
        for var in ['OMP_NUM_THREADS', 'OPENBLAS_NUM_THREADS',
                'MKL_NUM_THREADS']:
            env[var] = '1'
        env['PYTHONWARNINGS'] = 'ignore'
        procs[tag] = subprocess.Popen([PYTHON, os.path.abspath(__file__),
            '--worker', paths[tag]], cwd=root, env=env)
    for tag, proc in procs.items():
        if proc.wait() != 0:
            print(f'FAIL: worker "{tag}" exited with code {proc.returncode}')
            return 1

    data = {}
    for tag in paths:
        with open(paths[tag], 'rb') as fh:
            data[tag] = pickle.load(fh)
        os.remove(paths[tag])
    os.rmdir(tmp)

    a_all, b_all = data['orig'], data['twin']
    errors = []
    stat = Stat()
    if len(a_all) != len(b_all):
        errors.append(f'number of scenarios {len(a_all)} != {len(b_all)}')
    n_exc = 0
    stops = {}
    for a, b in zip(a_all, b_all):
        if a['exc'] is not None:
            n_exc += 1
        v = a['value']
        if isinstance(v, dict) and isinstance(v.get('info'), dict):
            s = v['info'].get('stop')
            stops[s] = stops.get(s, 0) + 1
        compare(a, b, a['name'], errors, stat)

    print(f'scenarios          : {len(a_all)}')
    print(f'  with exception   : {n_exc} (same type and message required)')
    print(f'  stop types seen  : {stops}')
    print(f'compared leaves    : {stat.leaves}')
    print(f'  not bit-identical: {stat.inexact} (but within rtol=1e-12)')
    print(f'mismatches         : {len(errors)}')
    for err in errors[:40]:
        print('  ' + err)
    if errors:
        print('FAIL')
        return 1
    print('OK: the refactored package agrees with the original one')
    return 0


if __name__ == '__main__':
    if len(sys.argv) == 3 and sys.argv[1] == '--worker':
        worker(sys.argv[2])
        sys.exit(0)
    sys.exit(main())
