"""Equivalence demonstration for the C12 twin (refactoring of func_gets,
func_int_general and func_int_full).

The same deterministic list of scenarios is run in two subprocesses, one with
the pristine package (cwd = /tmp/twinsB/C12/orig) and one with the refactored
package (cwd = /tmp/wt/C12). Each worker dumps its results into a pickle, and
the two pickles are then compared entry by entry (status, exception type and
text, warning categories, structure, shapes, dtypes, values, mutation of the
arguments, log of the calls of the user basis function).

Exit code: 0 if everything agrees, 1 otherwise.

"""
import os
import pickle
import subprocess
import sys
import tempfile


ORIG = '/tmp/twinsB/C12/orig'
TWIN = '/tmp/wt/C12'
RTOL = 1.E-12
ATOL = 1.E-13


# ---------------------------------------------------------------------------
# Worker part (is run with cwd = root of the package under test)
# ---------------------------------------------------------------------------


def worker(fpath):
    import warnings
    sys.path.insert(0, os.getcwd())
    import numpy as np
    import teneva

    root = os.path.realpath(os.getcwd())
    assert os.path.realpath(teneva.__file__).startswith(root + os.sep), \
        f'Wrong package is loaded: {teneva.__file__}'

    res = {}

    def snap(x):
        """Deep copy of nested lists / tuples / arrays."""
        if isinstance(x, (list, tuple)):
            return type(x)(snap(v) for v in x)
        if isinstance(x, np.ndarray):
            return np.array(x, copy=True, order='K')
        return x

    def strip(x):
        """Replace callables (they can not be pickled) by a placeholder."""
        if isinstance(x, (list, tuple)):
            return type(x)(strip(v) for v in x)
        if isinstance(x, dict):
            return {k: strip(v) for k, v in x.items()}
        return '<callable>' if callable(x) else x

    def same(x, y):
        if isinstance(x, (list, tuple)):
            return (type(x) is type(y) and len(x) == len(y)
                and all(same(u, v) for u, v in zip(x, y)))
        if isinstance(x, np.ndarray):
            return (isinstance(y, np.ndarray) and x.shape == y.shape
                and x.dtype == y.dtype and np.array_equal(x, y, equal_nan=True)
                and x.strides == y.strides)
        return x is y or x == y

    def run(name, func, *args, **kwargs):
        """Run func, record result / exception / warnings / arg mutation."""
        assert name not in res, name
        before = snap((args, kwargs))
        with warnings.catch_warnings(record=True) as wlist:
            warnings.simplefilter('always')
            try:
                out = ('ok', func(*args, **kwargs))
            except Exception as e:
                out = ('exc', type(e).__name__, str(e))
        res[name] = {
            'out': out,
            'warn': sorted(set(w.category.__name__ for w in wlist)),
            'args_unchanged': same(before, (args, kwargs)),
            'args_after': strip(snap((args, kwargs))),
        }
        return out[1] if out[0] == 'ok' else None

    def rand_tt(rng, n, r, kind='normal'):
        """Random TT-tensor of the shape n with the TT-ranks r (len d+1)."""
        Y = []
        for k in range(len(n)):
            sh = (r[k], n[k], r[k+1])
            if kind == 'normal':
                G = rng.normal(size=sh)
            elif kind == 'int':
                G = rng.integers(-3, 4, size=sh)
            elif kind == 'fortran':
                G = np.asfortranarray(rng.normal(size=sh))
            elif kind == 'float32':
                G = rng.normal(size=sh).astype(np.float32)
            Y.append(G)
        return Y

    def poly_tt(rng, a, b, n, r):
        """Values on the Chebyshev grid of a sum of r products of 1D
        polynomials of the degree < n_k in each variable (TT-rank r)."""
        d = len(n)
        Y = None
        for _ in range(r):
            cores = []
            for k in range(d):
                I = np.arange(n[k])
                x = np.cos(np.pi * I / (n[k] - 1)) * (b[k] - a[k]) / 2
                x = x + (b[k] + a[k]) / 2
                c = rng.normal(size=n[k])
                cores.append(np.polyval(c, x).reshape(1, -1, 1))
            Y = cores if Y is None else teneva.add(Y, cores)
        return Y

    # --- Scenarios for func_gets -------------------------------------------

    profiles = [
        # (shape, ranks)
        ([2, 2], [1, 1, 1]),
        ([2, 3], [1, 2, 1]),
        ([5, 5], [1, 1, 1]),
        ([4, 7], [1, 9, 1]),                # over-ranked
        ([3, 3, 3], [1, 3, 3, 1]),
        ([6, 2, 6], [1, 2, 2, 1]),
        ([5, 4, 3], [1, 1, 1, 1]),          # rank 1
        ([2, 9, 2], [1, 5, 5, 1]),          # over-ranked
        ([4, 4, 5, 4], [1, 2, 3, 2, 1]),
        ([8, 3, 8, 3], [1, 4, 12, 4, 1]),   # over-ranked
        ([3, 4, 5, 6, 7], [1, 2, 1, 3, 1, 1]),
        ([6, 6, 6, 6, 6, 6], [1, 2, 2, 2, 2, 2, 1]),
        ([3, 4], [2, 3, 2]),                # non-unit border ranks
    ]
    for ip, (n, r) in enumerate(profiles):
        d = len(n)
        for seed in range(3):
            rng = np.random.default_rng(1000 * ip + seed)
            kinds = ['normal', 'int', 'fortran', 'float32']
            Y = rand_tt(rng, n, r, kinds[(ip + seed) % 4])
            m_opts = {
                'none': None,
                'int': int(rng.integers(2, 12)),
                'float': float(rng.integers(2, 12)),
                'list': [int(v) for v in rng.integers(2, 12, size=d)],
                'same': [7] * d,
                'arr': rng.integers(2, 12, size=d),
                'farr': rng.integers(2, 12, size=d).astype(float),
                'one': 1,                  # degenerate new grid (nan for cheb)
                'short': [5] * (d - 1),    # wrong length -> IndexError
            }
            for mname, m in m_opts.items():
                for kind in ['cheb', 'sin']:
                    name = f'gets/p{ip}/s{seed}/m-{mname}/{kind}'
                    run(name, teneva.func_gets, Y, m, kind)
            run(f'gets/p{ip}/s{seed}/default', teneva.func_gets, Y)
            run(f'gets/p{ip}/s{seed}/kw', teneva.func_gets, A=Y, kind='sin',
                m=4)
            run(f'gets/p{ip}/s{seed}/badkind', teneva.func_gets, Y, 5, 'uni')
            run(f'gets/p{ip}/s{seed}/badm', teneva.func_gets, Y, 'abc')

    # Pipeline on the exactness class (interpolate, then re-sample):
    boxes = [(-1., 1.), (-2., 3.), (0.5, 4.), (-3., -1.)]
    for ip, (n, r) in enumerate(profiles[:11]):
        d = len(n)
        for ib, (a0, b0) in enumerate(boxes):
            rng = np.random.default_rng(50000 + 10 * ip + ib)
            a = [a0 - 0.1 * k for k in range(d)]
            b = [b0 + 0.2 * k for k in range(d)]
            Y = poly_tt(rng, a, b, n, 1 + (ip + ib) % 3)
            A = run(f'pipe/p{ip}/b{ib}/int', teneva.func_int, Y)
            run(f'pipe/p{ip}/b{ib}/gets-same', teneva.func_gets, A)
            run(f'pipe/p{ip}/b{ib}/gets-new', teneva.func_gets, A,
                [nk + 1 + k for k, nk in enumerate(n)])
            run(f'pipe/p{ip}/b{ib}/gets-less', teneva.func_gets, A, 2)
            Ys = run(f'pipe/p{ip}/b{ib}/int-sin', teneva.func_int, Y, 'sin')
            run(f'pipe/p{ip}/b{ib}/gets-sin', teneva.func_gets, Ys, None,
                'sin')

    # --- Scenarios for func_int_general ------------------------------------

    def make_basis(kind, nb, log):
        def basis_cheb(x):
            log.append(np.array(x, copy=True))
            return teneva.func_basis(np.asarray(x, dtype=float), nb)

        def basis_mono(x):
            log.append(np.array(x, copy=True))
            return np.array([np.asarray(x, dtype=float)**p for p in range(nb)])

        def basis_trig(x):
            log.append(np.array(x, copy=True))
            x = np.asarray(x, dtype=float)
            return np.array([np.cos(p * x) if p % 2 == 0 else np.sin(p * x)
                for p in range(nb)])

        return {'cheb': basis_cheb, 'mono': basis_mono,
            'trig': basis_trig}[kind]

    gen_profiles = [
        ([4, 4], [1, 1, 1]),
        ([5, 5], [1, 3, 1]),
        ([3, 3], [1, 7, 1]),                # over-ranked
        ([6, 6, 6], [1, 2, 4, 1]),
        ([4, 4, 4, 4], [1, 1, 1, 1, 1]),
        ([5, 5, 5, 5], [1, 2, 9, 2, 1]),
        ([7, 7, 7, 7, 7], [1, 3, 3, 3, 3, 1]),
        ([2, 2, 2], [1, 2, 2, 1]),
        ([6, 6], [3, 2, 2]),
    ]
    for ip, (n, r) in enumerate(gen_profiles):
        d = len(n)
        n0 = n[0]
        for seed in range(3):
            for bkind in ['cheb', 'mono', 'trig']:
                for xmode in ['1d', '1d-list', '2d', '2d-list']:
                    for rcond in [None, 1.E-6, 1.E-2, 1.E-12]:
                        rng = np.random.default_rng(
                            7000 * ip + 13 * seed + 1)
                        Y = rand_tt(rng, n, r,
                            ['normal', 'int', 'fortran'][(ip + seed) % 3])
                        if xmode.startswith('1d'):
                            X = np.sort(rng.uniform(-1., 1., size=n0))
                        else:
                            X = np.sort(rng.uniform(-1., 1., size=(d, n0)),
                                axis=1)
                        if xmode.endswith('list'):
                            X = X.tolist()
                        log = []
                        f = make_basis(bkind, n0, log)
                        name = (f'gen/p{ip}/s{seed}/{bkind}/{xmode}/'
                            + f'rc{rcond}')
                        if rcond is None:
                            run(name, teneva.func_int_general, Y, X, f)
                        else:
                            run(name, teneva.func_int_general, Y, X,
                                basis_func=f, rcond=rcond)
                        res[name]['log'] = log

            # Edge cases: sizes of the basis / points / cores do not match,
            # scalar points, fewer / more rows of points than the cores:
            rng = np.random.default_rng(9000 * ip + seed)
            Y = rand_tt(rng, n, r)
            edge = {
                'less-funcs': (rng.uniform(-1, 1, size=n0), n0 - 1),
                'more-funcs': (rng.uniform(-1, 1, size=n0), n0 + 2),
                'more-points': (rng.uniform(-1, 1, size=n0 + 3), n0),
                'less-points': (rng.uniform(-1, 1, size=n0 - 1), n0),
                'scalar-x': (0.3, n0),
                'few-rows': (rng.uniform(-1, 1, size=(d - 1, n0)), n0),
                'many-rows': (rng.uniform(-1, 1, size=(d + 2, n0)), n0),
                '2d-bad-funcs': (rng.uniform(-1, 1, size=(d, n0)), n0 + 1),
                '3d-x': (rng.uniform(-1, 1, size=(d, n0, 1)), n0),
            }
            for ename, (X, nb) in edge.items():
                log = []
                f = make_basis('cheb', nb, log)
                name = f'gen/p{ip}/s{seed}/edge-{ename}'
                run(name, teneva.func_int_general, Y, X, f)
                res[name]['log'] = log

            log = []
            name = f'gen/p{ip}/s{seed}/edge-bad-core'
            Ybad = [G for G in Y]
            Ybad[-1] = Ybad[-1][:, :, 0]
            run(name, teneva.func_int_general, Ybad,
                rng.uniform(-1, 1, size=(d, n0)), make_basis('cheb', n0, log))
            res[name]['log'] = log

    # Functions from the span of the user basis are reproduced (pipeline):
    for ip, (n, r) in enumerate(gen_profiles[:7]):
        d = len(n)
        rng = np.random.default_rng(31000 + ip)
        a = [-1.] * d
        b = [+1.] * d
        Y = poly_tt(rng, a, b, n, 2)
        Xg = np.cos(np.pi * np.arange(n[0]) / (n[0] - 1))
        log = []
        f = make_basis('cheb', n[0], log)
        A = run(f'genpipe/p{ip}/fit', teneva.func_int_general, Y, Xg, f)
        res[f'genpipe/p{ip}/fit']['log'] = log
        P = rng.uniform(-1., 1., size=(20, d))
        run(f'genpipe/p{ip}/get', teneva.func_get, P, A, -1., 1.)

    # --- Scenarios for func_int_full ---------------------------------------

    full_shapes = [
        (2, ), (3, ), (9, ), (16, ),
        (2, 2), (2, 5), (5, 2), (4, 4), (7, 3),
        (2, 2, 2), (3, 4, 5), (5, 4, 3), (6, 2, 6),
        (2, 3, 2, 3), (4, 4, 4, 4), (3, 5, 2, 4),
        (2, 3, 4, 2, 3),
        (1, 4), (3, 1, 2),                  # degenerate modes (division by 0)
        (),                                 # zero-dimensional array
    ]
    for ish, sh in enumerate(full_shapes):
        for seed in range(3):
            rng = np.random.default_rng(200 * ish + seed)
            Yc = rng.normal(size=sh)
            variants = {
                'c': Yc,
                'f': np.asfortranarray(Yc),
                'int': rng.integers(-5, 6, size=sh),
                'f32': Yc.astype(np.float32),
                'cplx': Yc + 1j * rng.normal(size=sh),
                'scaled': Yc * 1.E+150,
                'zeros': np.zeros(sh),
            }
            if len(sh) > 0:
                big = rng.normal(size=tuple(2 * s for s in sh))
                variants['strided'] = big[tuple(slice(None, None, 2)
                    for _ in sh)]
                variants['transposed'] = rng.normal(size=sh[::-1]).T
            for vname, Y in variants.items():
                run(f'intfull/sh{ish}/s{seed}/{vname}', teneva.func_int_full,
                    Y)
        run(f'intfull/sh{ish}/list', teneva.func_int_full,
            np.zeros(sh).tolist())

    # Pipeline on the exactness class (dense format):
    for ish, sh in enumerate(full_shapes[:17]):
        d = len(sh)
        for ib, (a0, b0) in enumerate(boxes + [(-2., 2.)]):
            rng = np.random.default_rng(80000 + 10 * ish + ib)
            a = [a0 - 0.1 * k for k in range(d)]
            b = [b0 + 0.2 * k for k in range(d)]
            if d >= 2:
                Y = teneva.full(poly_tt(rng, a, b, list(sh), 1 + ib % 3))
            else:
                x = np.cos(np.pi * np.arange(sh[0]) / (sh[0] - 1))
                x = x * (b[0] - a[0]) / 2 + (b[0] + a[0]) / 2
                Y = np.polyval(rng.normal(size=sh[0]), x)
            A = run(f'pipefull/sh{ish}/b{ib}/int', teneva.func_int_full, Y)
            P = rng.uniform(a0 - 0.5, b0 + 0.5, size=(15, d))
            run(f'pipefull/sh{ish}/b{ib}/get', teneva.func_get_full, P, A,
                a, b, -7.)
            run(f'pipefull/sh{ish}/b{ib}/gets', teneva.func_gets_full, A,
                a, b)
            run(f'pipefull/sh{ish}/b{ib}/gets-new', teneva.func_gets_full, A,
                a, b, [s + 1 for s in sh])
            run(f'pipefull/sh{ish}/b{ib}/sum', teneva.func_sum_full, A, a, b)
            if d >= 2:
                Ytt = poly_tt(rng, a, b, list(sh), 2)
                Att = run(f'pipefull/sh{ish}/b{ib}/tt-int', teneva.func_int,
                    Ytt)
                Afl = run(f'pipefull/sh{ish}/b{ib}/tt-int-full',
                    teneva.func_int_full, teneva.full(Ytt))
                run(f'pipefull/sh{ish}/b{ib}/tt-gets', teneva.func_gets, Att,
                    [s + 2 for s in sh])
                run(f'pipefull/sh{ish}/b{ib}/tt-sum', teneva.func_sum, Att,
                    a, b)

    with open(fpath, 'wb') as f:
        pickle.dump(res, f)


# ---------------------------------------------------------------------------
# Comparison part
# ---------------------------------------------------------------------------


class Stat:
    def __init__(self):
        self.arrays = 0
        self.bitwise = 0
        self.max_abs = 0.
        self.max_rel = 0.
        self.fam = {}


def compare_value(x, y, path, errs, stat):
    import numpy as np

    if isinstance(x, dict) or isinstance(y, dict):
        if type(x) is not type(y) or list(x.keys()) != list(y.keys()):
            errs.append(f'{path}: dictionaries differ')
            return
        for k in x:
            compare_value(x[k], y[k], f'{path}[{k!r}]', errs, stat)
        return

    if isinstance(x, (list, tuple)) or isinstance(y, (list, tuple)):
        if type(x) is not type(y):
            errs.append(f'{path}: type {type(x)} vs {type(y)}')
            return
        if len(x) != len(y):
            errs.append(f'{path}: length {len(x)} vs {len(y)}')
            return
        for i, (u, v) in enumerate(zip(x, y)):
            compare_value(u, v, f'{path}[{i}]', errs, stat)
        return

    if isinstance(x, (np.ndarray, np.generic)) or \
       isinstance(y, (np.ndarray, np.generic)):
        if type(x) is not type(y):
            errs.append(f'{path}: type {type(x)} vs {type(y)}')
            return
        x = np.asarray(x)
        y = np.asarray(y)
        if x.shape != y.shape:
            errs.append(f'{path}: shape {x.shape} vs {y.shape}')
            return
        if x.dtype != y.dtype:
            errs.append(f'{path}: dtype {x.dtype} vs {y.dtype}')
            return
        fam = path.split('/')[0]
        stat.fam.setdefault(fam, [0, 0])
        stat.arrays += 1
        stat.fam[fam][0] += 1
        if np.array_equal(x, y, equal_nan=True):
            stat.bitwise += 1
            stat.fam[fam][1] += 1
            return
        with np.errstate(all='ignore'):
            scale = max(1., float(np.nanmax(np.abs(x[np.isfinite(x)]),
                initial=0.)))
            ok = np.allclose(x, y, rtol=RTOL, atol=ATOL * scale,
                equal_nan=True)
            fin = np.isfinite(x) & np.isfinite(y)
            diff = float(np.max(np.abs(x[fin] - y[fin]), initial=0.))
        stat.max_abs = max(stat.max_abs, diff)
        stat.max_rel = max(stat.max_rel, diff / scale)
        if not ok:
            errs.append(f'{path}: values differ (max abs diff {diff:.3e}, '
                + f'scale {scale:.3e})')
        return

    if type(x) is not type(y) or x != y:
        if not (isinstance(x, float) and x != x and y != y):
            errs.append(f'{path}: {x!r} vs {y!r}')


def compare(res1, res2):
    errs = []
    stat = Stat()
    n_ok = n_exc = n_warn = 0

    if list(res1.keys()) != list(res2.keys()):
        errs.append('Lists of scenarios differ')
        return errs, stat, (0, 0, 0)

    for name in res1:
        r1, r2 = res1[name], res2[name]
        o1, o2 = r1['out'], r2['out']
        if o1[0] != o2[0]:
            errs.append(f'{name}: status {o1[0]} {o1[1:] if o1[0] == "exc" else ""}'
                + f' vs {o2[0]} {o2[1:] if o2[0] == "exc" else ""}')
            continue
        if o1[0] == 'exc':
            n_exc += 1
            if o1[1:] != o2[1:]:
                errs.append(f'{name}: exception {o1[1:]} vs {o2[1:]}')
        else:
            n_ok += 1
            compare_value(o1[1], o2[1], name, errs, stat)
        if r1['warn'] != r2['warn']:
            errs.append(f'{name}: warnings {r1["warn"]} vs {r2["warn"]}')
        n_warn += bool(r1['warn'])
        if r1['args_unchanged'] != r2['args_unchanged']:
            errs.append(f'{name}: mutation of the arguments differs')
        compare_value(r1['args_after'], r2['args_after'], name + '/args',
            errs, Stat())
        if ('log' in r1) != ('log' in r2):
            errs.append(f'{name}: log of basis calls is missing')
        elif 'log' in r1:
            compare_value(r1['log'], r2['log'], name + '/log', errs, Stat())

    return errs, stat, (n_ok, n_exc, n_warn)


def main():
    tmp = tempfile.mkdtemp(prefix='equiv_C12_')
    out = []
    for tag, cwd in [('orig', ORIG), ('twin', TWIN)]:
        fpath = os.path.join(tmp, tag + '.pkl')
        env = dict(os.environ)
        env.pop('PYTHONPATH', None)
        env['PYTHONDONTWRITEBYTECODE'] = '1'
        p = subprocess.run([sys.executable, os.path.abspath(__file__),
            '--worker', fpath], cwd=cwd, env=env)
        if p.returncode != 0:
            print(f'Worker "{tag}" failed with the code {p.returncode}')
            return 1
        with open(fpath, 'rb') as f:
            out.append(pickle.load(f))

    errs, stat, (n_ok, n_exc, n_warn) = compare(*out)

    print(f'Scenarios            : {len(out[0])}')
    print(f'  with result        : {n_ok}')
    print(f'  with exception     : {n_exc} (same type and text required)')
    print(f'  with warnings      : {n_warn} (same categories required)')
    print(f'Compared arrays      : {stat.arrays}')
    print(f'  bitwise identical  : {stat.bitwise}')
    for fam, (n_all, n_bit) in stat.fam.items():
        print(f'    {fam:<17}: {n_bit} of {n_all}')
    print(f'  max abs difference : {stat.max_abs:.3e}')
    print(f'  max scaled diff.   : {stat.max_rel:.3e}')
    print(f'Mismatches           : {len(errs)}')
    for e in errs[:40]:
        print('  ' + e)

    return 1 if errs else 0


if __name__ == '__main__':
    if len(sys.argv) == 3 and sys.argv[1] == '--worker':
        worker(sys.argv[2])
        sys.exit(0)
    sys.exit(main())
