"""Equivalence demonstration for the C01 twin (round B).

Refactored anchors: teneva.act_one.interface, teneva.act_two.mul,
teneva.transformation.full.

The same deterministic scenario list is executed in two subprocesses, one with
cwd = pristine copy of the package (/tmp/twinsB/C01/orig) and one with
cwd = refactored worktree (/tmp/wt/C01); "import teneva" picks the package
from the cwd. Every scenario records the result (or the exception type) and
the state of the arguments after the call. The two pickles are then compared:
same python types, same dtypes / shapes, values equal (bit-for-bit is counted
and reported; np.allclose with rtol=1e-13 is the pass criterion), same
exceptions, same mutation of the arguments.

Usage: /venv/bin/python /tmp/twinsB/C01/equiv.py      (exit 0 = all agree)
"""
import os
import pickle
import subprocess
import sys
import tempfile

import numpy as np


DIR_ORIG = '/tmp/twinsB/C01/orig'
DIR_TWIN = '/tmp/wt/C01'


# --------------------------------------------------------------------------
# Worker part (runs inside each of the two package trees)
# --------------------------------------------------------------------------


def _tt(rng, n, r, kind='float'):
    """Random TT-tensor with mode sizes n and rank profile r (len(n)+1)."""
    Y = []
    for k in range(len(n)):
        sh = (r[k], n[k], r[k+1])
        if kind == 'float':
            G = rng.normal(size=sh)
        elif kind == 'smallint':            # float dtype, small integer values
            G = rng.integers(-3, 4, size=sh).astype(float)
        elif kind == 'intdtype':            # genuine integer dtype
            G = rng.integers(-3, 4, size=sh)
        elif kind == 'fortran':             # non C-contiguous cores
            G = np.asfortranarray(rng.normal(size=sh))
        elif kind == 'view':                # strided views of bigger arrays
            G = rng.normal(size=(sh[0], 2*sh[1], sh[2]+1))[:, ::2, 1:]
        elif kind == 'huge':
            G = rng.normal(size=sh) * 1.E+40
        elif kind == 'tiny':
            G = rng.normal(size=sh) * 1.E-40
        elif kind == 'zero':
            G = np.zeros(sh)
        else:
            raise ValueError(kind)
        Y.append(G)
    return Y


def _profiles(rng):
    """(n, r) pairs: d = 2..6, modes >= 1, rank 1 ... over-ranked."""
    out = []
    for d in range(2, 7):
        n_var = rng.integers(1, 6, size=d).tolist()
        n_eq = [int(rng.integers(2, 5))] * d
        n_one = [1] * d
        for n in (n_var, n_eq, n_one):
            out.append((n, [1] * (d+1)))                               # rank 1
            out.append((n, [1] + rng.integers(1, 5, d-1).tolist() + [1]))
            out.append((n, [1] + rng.integers(5, 10, d-1).tolist() + [1]))  # over
    return out


def scenarios():
    import teneva
    rng = np.random.default_rng(20240927)
    S = []

    def add(name, func, *args, **kwargs):
        S.append((name, func, args, kwargs))

    kinds = ['float', 'smallint', 'intdtype', 'fortran', 'view']
    profiles = _profiles(rng)

    for ip, (n, r) in enumerate(profiles):
        d = len(n)
        for kind in kinds:
            tag = f'p{ip}-{kind}'
            Y1 = _tt(rng, n, r, kind)
            r2 = [1] + rng.integers(1, 4, d-1).tolist() + [1]
            Y2 = _tt(rng, n, r2, kind)

            # ---- full (+ the chain contraction relatives, as a cross check)
            add(f'full/{tag}', teneva.full, Y1)
            add(f'full2/{tag}', teneva.full, Y2)

            # ---- mul: tensor * tensor, tensor * number, number * tensor
            add(f'mul-tt/{tag}', teneva.mul, Y1, Y2)
            add(f'mul-tt-self/{tag}', teneva.mul, Y1, Y1)
            for c in (2, -3, 0, 0.5, -1.25, 1.E+30):
                add(f'mul-tn/{tag}/{c}', teneva.mul, Y1, c)
                add(f'mul-nt/{tag}/{c}', teneva.mul, c, Y2)
            add(f'mul-full/{tag}',
                lambda A, B: teneva.full(teneva.mul(A, B)), Y1, Y2)

            # ---- interface: all flag combinations
            i_list = [int(rng.integers(0, k)) for k in n]
            i_arr = np.array(i_list)
            P_mode = [rng.uniform(0.1, 1., size=k) for k in n]
            P_mode_ll = [p.tolist() for p in P_mode]
            P_long = [rng.uniform(0.1, 1., size=k+2) for k in n]
            Ps = [('none', None), ('mode', P_mode), ('mode-ll', P_mode_ll),
                ('long', P_long)]
            if len(set(n)) == 1:
                p_sh = rng.uniform(0.1, 1., size=n[0])
                Ps.append(('shared-list', p_sh.tolist()))
                Ps.append(('shared-arr', p_sh))
                Ps.append(('shared-int', [int(v) for v in range(1, n[0]+1)]))
                Ps.append(('mode-2d', np.array(P_mode)))
            for pn, P in Ps:
                for iname, i in (('none', None), ('list', i_list),
                        ('arr', i_arr)):
                    for nrm in ('linalg', 'natural', 'l', 'n', None, 'xyz'):
                        for ltr in (False, True):
                            add(f'interface/{tag}/P={pn}/i={iname}/'
                                f'norm={nrm}/ltr={ltr}', teneva.interface,
                                Y1, P, i, nrm, ltr)
            add(f'interface-default/{tag}', teneva.interface, Y1)
            add(f'interface-kw/{tag}', teneva.interface, Y1, ltr=True,
                norm='natural', i=tuple(i_list))
            add(f'get_and_grad/{tag}', teneva.get_and_grad, Y1, i_list)
            add(f'get_and_grad-arr/{tag}', teneva.get_and_grad, Y2, i_arr)

            # ---- users of the refactored functions
            add(f'accuracy/{tag}', teneva.accuracy, Y1, Y2)
            add(f'get/{tag}', teneva.get, Y1, i_list)
            add(f'sum/{tag}', teneva.sum, Y1)
            add(f'norm/{tag}', teneva.norm, Y1)

            # ---- expression trees (add, sub, mul, outer, numbers, copy)
            def tree(A, B):
                T = teneva.mul(teneva.add(A, 2), teneva.sub(B, teneva.copy(A)))
                T = teneva.mul(-1.5, T)
                T = teneva.outer(T, teneva.mul(B, 3))
                T = teneva.sub(teneva.mul(T, T), 1)
                return T, teneva.full(T), teneva.shape(T), teneva.ranks(T), \
                    teneva.interface(T, norm=None)[0]
            if d <= 3 and max(r) <= 4:
                add(f'tree/{tag}', tree, Y1, Y2)

    # ---- boundary ranks different from 1 (full keeps them as axes)
    for ib, (r0, rd) in enumerate([(2, 1), (1, 3), (2, 3), (1, 1)]):
        for d in (2, 3, 4):
            n = rng.integers(1, 5, size=d).tolist()
            r = [r0] + rng.integers(1, 4, d-1).tolist() + [rd]
            Y = _tt(rng, n, r)
            add(f'full-bound/{ib}/{d}', teneva.full, Y)
            add(f'mul-bound/{ib}/{d}', teneva.mul, Y, Y)
            add(f'mul-bound-full/{ib}/{d}',
                lambda A: teneva.full(teneva.mul(A, A)), Y)

    # ---- extreme scales / zeros
    for kind in ('huge', 'tiny', 'zero'):
        n, r = [3, 2, 4, 3], [1, 2, 5, 3, 1]
        Y1, Y2 = _tt(rng, n, r, kind), _tt(rng, n, r, 'float')
        add(f'full/{kind}', teneva.full, Y1)
        add(f'mul/{kind}', teneva.mul, Y1, Y2)
        add(f'mul-self/{kind}', teneva.mul, Y1, Y1)
        add(f'mul-num/{kind}', teneva.mul, Y1, 1.E+200)
        for nrm in ('linalg', 'natural', None):
            for ltr in (False, True):
                add(f'interface/{kind}/{nrm}/{ltr}', teneva.interface, Y1,
                    None, None, nrm, ltr)
                add(f'interface-i/{kind}/{nrm}/{ltr}', teneva.interface, Y1,
                    None, [1, 1, 1, 1], nrm, ltr)
        add(f'accuracy/{kind}', teneva.accuracy, Y1, Y2)

    # ---- numbers only, and exceptional inputs
    Y = _tt(rng, [2, 3, 2], [1, 2, 2, 1])
    Yi = _tt(rng, [2, 3, 2], [1, 2, 2, 1], 'intdtype')
    for a, b in [(2, 3), (2., 3), (2, 3.5), (-1.5, 0.), (True, 2), (0, 0)]:
        add(f'mul-nn/{a}/{b}', teneva.mul, a, b)
    add('mul-int-core-float-num', teneva.mul, Yi, 0.5)      # casting error
    add('mul-float-num-int-core', teneva.mul, 0.5, Yi)      # casting error
    add('mul-int-core-int-num', teneva.mul, Yi, 4)
    add('mul-np-scalar', teneva.mul, Y, np.float64(2.5))    # np.float64: float
    add('mul-np-int', teneva.mul, Y, np.int64(2))           # not a "number"
    add('mul-none', teneva.mul, Y, None)
    add('mul-short', teneva.mul, Y, Y[:2])                  # zip truncates
    add('mul-badmode', teneva.mul, Y, _tt(rng, [2, 4, 2], [1, 2, 2, 1]))
    add('mul-ndarray-num', teneva.mul, np.arange(6.).reshape(2, 3), 2)
    add('interface-norm-bool', teneva.interface, Y, None, None, True)
    add('interface-bad-i', teneva.interface, Y, None, [0, 7, 0])
    add('interface-short-i', teneva.interface, Y, None, [0, 1])
    add('interface-short-P', teneva.interface, Y, [np.ones(2), np.ones(3)])
    add('interface-empty-P', teneva.interface, Y, [])
    add('interface-bad-P', teneva.interface, Y, [np.ones(2)] * 3)
    add('interface-tuple-cores', teneva.interface, tuple(Y), None, (1, 2, 0),
        'natural', True)
    add('full-badrank', teneva.full,
        [np.ones((1, 2, 3)), np.ones((2, 2, 1))])
    add('full-d1', teneva.full, [np.arange(3.).reshape(1, 3, 1)])
    add('full-tuple', teneva.full, tuple(Y))

    return S


def _snapshot(x):
    """Deep copy of the arguments / results which keeps layout information."""
    if isinstance(x, np.ndarray):
        return {'__nd__': np.array(x, order='K', copy=True),
            'c': bool(x.flags['C_CONTIGUOUS']),
            'f': bool(x.flags['F_CONTIGUOUS'])}
    if isinstance(x, (list, tuple)):
        return {'__seq__': type(x).__name__, 'items': [_snapshot(v) for v in x]}
    if isinstance(x, np.generic):
        return {'__np__': type(x).__name__, 'v': x.item()}
    if x is None or isinstance(x, (bool, int, float, str)):
        return {'__py__': type(x).__name__, 'v': x}
    return {'__other__': type(x).__name__, 'v': repr(x)}


def worker(fpath):
    sys.path.insert(0, os.getcwd())
    import teneva
    assert os.path.dirname(os.path.dirname(teneva.__file__)) == os.getcwd(), \
        teneva.__file__
    out = []
    with np.errstate(all='ignore'):
        for name, func, args, kwargs in scenarios():
            try:
                res = ('ok', _snapshot(func(*args, **kwargs)))
            except Exception as e:
                res = ('exc', type(e).__name__)
            out.append((name, res, _snapshot(args), _snapshot(kwargs.get('i'))))
    with open(fpath, 'wb') as f:
        pickle.dump({'file': teneva.__file__, 'out': out}, f)


# --------------------------------------------------------------------------
# Comparison part
# --------------------------------------------------------------------------


class Stat:
    exact = 0
    close = 0


def _same(a, b, path, errs):
    if type(a) is not type(b):
        errs.append(f'{path}: type {type(a)} vs {type(b)}')
        return
    if isinstance(a, dict) and '__nd__' in a:
        if '__nd__' not in b:
            errs.append(f'{path}: array vs non-array')
            return
        A, B = a['__nd__'], b['__nd__']
        if A.dtype != B.dtype or A.shape != B.shape:
            errs.append(f'{path}: {A.dtype}{A.shape} vs {B.dtype}{B.shape}')
            return
        if (a['c'], a['f']) != (b['c'], b['f']):
            errs.append(f'{path}: contiguity flags differ')
            return
        if A.tobytes() == B.tobytes() or np.array_equal(A, B, equal_nan=True):
            Stat.exact += 1
        elif np.allclose(A, B, rtol=1.E-13, atol=0., equal_nan=True):
            Stat.close += 1
        else:
            errs.append(f'{path}: values differ, max abs '
                f'{np.max(np.abs(A - B))}')
        return
    if isinstance(a, dict):
        if a.keys() != b.keys():
            errs.append(f'{path}: keys differ')
            return
        for k in a:
            _same(a[k], b[k], f'{path}.{k}', errs)
        return
    if isinstance(a, (list, tuple)):
        if len(a) != len(b):
            errs.append(f'{path}: len {len(a)} vs {len(b)}')
            return
        for k, (u, v) in enumerate(zip(a, b)):
            _same(u, v, f'{path}[{k}]', errs)
        return
    if isinstance(a, float):
        if a == b or (a != a and b != b):
            Stat.exact += 1
        elif abs(a - b) <= 1.E-13 * abs(b):
            Stat.close += 1
        else:
            errs.append(f'{path}: {a!r} vs {b!r}')
        return
    if a != b:
        errs.append(f'{path}: {a!r} vs {b!r}')


def main():
    tmp = tempfile.mkdtemp(prefix='equiv-C01-')
    files = {}
    for tag, cwd in (('orig', DIR_ORIG), ('twin', DIR_TWIN)):
        files[tag] = os.path.join(tmp, tag + '.pkl')
        env = dict(os.environ)
        env.pop('PYTHONPATH', None)
        env['PYTHONDONTWRITEBYTECODE'] = '1'
        cmd = [sys.executable, os.path.abspath(__file__), '--worker', files[tag]]
        p = subprocess.run(cmd, cwd=cwd, env=env)
        if p.returncode != 0:
            print(f'worker "{tag}" failed')
            return 1

    data = {}
    for tag in files:
        with open(files[tag], 'rb') as f:
            data[tag] = pickle.load(f)
    print('orig package :', data['orig']['file'])
    print('twin package :', data['twin']['file'])
    if data['orig']['file'] == data['twin']['file']:
        print('both workers imported the same package')
        return 1

    A, B = data['orig']['out'], data['twin']['out']
    if len(A) != len(B):
        print('scenario lists differ in length')
        return 1

    errs, n_exc = [], 0
    for (na, ra, aa, ia), (nb, rb, ab, ib) in zip(A, B):
        if na != nb:
            errs.append(f'scenario names differ: {na} vs {nb}')
            continue
        if ra[0] == 'exc':
            n_exc += 1
        _same(ra, rb, f'{na}:result', errs)
        _same(aa, ab, f'{na}:args-after-call', errs)
        _same(ia, ib, f'{na}:kw-i-after-call', errs)

    print(f'scenarios: {len(A)} (of them raising the same exception in both: '
        f'{n_exc if not errs else "?"})')
    print(f'compared leaves: bit-for-bit equal {Stat.exact}, '
        f'only close (rtol 1e-13) {Stat.close}')
    if errs:
        print(f'MISMATCHES: {len(errs)}')
        for e in errs[:40]:
            print('  ', e)
        return 1
    print('OK: refactored functions agree with the original ones')
    return 0


if __name__ == '__main__':
    if len(sys.argv) == 3 and sys.argv[1] == '--worker':
        worker(sys.argv[2])
        sys.exit(0)
    sys.exit(main())
