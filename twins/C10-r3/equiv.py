"""Equivalence demonstration for twin C of C10 (seed / global-state property).

The same deterministic scenario list is executed in two subprocesses, one with
the pristine package (cwd = /tmp/twinsC/C10/orig) and one with the refactored
package (cwd = /tmp/wt/C10). Every scenario result (return values, mutated
arguments, info / cache dictionaries, captured stdout, exception type and
message, state of the generators) is encoded into a picklable canonical form;
the two pickles are then compared. Exit code 0 if everything agrees, else 1.

    /venv/bin/python /tmp/twinsC/C10/equiv.py
"""
import contextlib
import io
import os
import pickle
import re
import subprocess
import sys
import tempfile
import time
import warnings


ROOT_ORIG = '/tmp/twinsC/C10/orig'
ROOT_NEW = os.environ.get('EQUIV_ROOT_NEW', '/tmp/wt/C10')
RTOL = 1.E-11
ATOL = 1.E-13


# ---------------------------------------------------------------------------
# Worker part (runs with one of the two packages)
# ---------------------------------------------------------------------------


def enc(x):
    """Canonical picklable encoding of a result."""
    import numpy as np
    if isinstance(x, np.ndarray):
        if x.dtype == object:
            return ('objarr', x.shape, [enc(v) for v in x.ravel().tolist()])
        return ('arr', str(x.dtype), x.shape, np.ascontiguousarray(x).tobytes())
    if isinstance(x, np.random.Generator):
        return ('gen', enc(x.bit_generator.state))
    if isinstance(x, np.generic):
        return ('npscalar', str(x.dtype), np.asarray(x).tobytes())
    if isinstance(x, bool) or x is None or isinstance(x, (int, str)):
        return ('py', type(x).__name__, x)
    if isinstance(x, float):
        return ('arr', 'pyfloat', (), np.asarray(x, dtype=float).tobytes())
    if isinstance(x, (list, tuple)):
        return (type(x).__name__, [enc(v) for v in x])
    if isinstance(x, dict):
        return ('dict', [(enc(k), enc(v)) for k, v in x.items()])
    if isinstance(x, BaseException):
        return ('exc', type(x).__name__, str(x))
    return ('repr', type(x).__name__)


_TIME_RE = re.compile(r'time:\s*[-0-9.e+]+')


def clean_info(info):
    return {k: v for k, v in info.items() if k != 't'}


def run(func):
    """Run a scenario, capture stdout / warnings-free result / exception."""
    import numpy as np
    buf = io.StringIO()
    res, err = None, None
    with warnings.catch_warnings():
        warnings.simplefilter('ignore')
        with contextlib.redirect_stdout(buf), np.errstate(all='ignore'):
            try:
                res = func()
            except Exception as exc:  # noqa
                err = exc
    out = _TIME_RE.sub('time: *', buf.getvalue())
    return {'res': enc(res), 'err': enc(err), 'out': out}


def worker(path_out):
    sys.path.insert(0, os.getcwd())
    import numpy as np
    import teneva
    assert os.path.abspath(teneva.__file__).startswith(os.getcwd() + os.sep), \
        teneva.__file__

    m_als = sys.modules['teneva.als']
    m_alf = sys.modules['teneva.als_func']
    m_act = sys.modules['teneva.cross_act']
    m_dat = sys.modules['teneva.data']

    results = {}

    def add(name, func):
        assert name not in results, name
        t0 = time.perf_counter()
        results[name] = run(func)
        t1 = time.perf_counter() - t0
        if os.environ.get('EQUIV_VERBOSE') and t1 > 1.:
            err = results[name]['err']
            print(f'[slow] {name}: {t1:.1f}s {err[1:]}', file=sys.stderr)

    # ------------------------------------------------------------------ als
    def tensor_func(I, kind):
        I = np.asarray(I, dtype=float)
        if kind == 0:
            return np.sum(I, axis=1)
        if kind == 1:
            return np.sin(I @ (np.arange(I.shape[1]) + 1.) * 0.3) + 0.1 * I[:, 0]
        return np.prod(1. + 0.1 * I, axis=1)

    def als_data(n, m, seed, kind, full=True):
        rng = np.random.default_rng(seed)
        I = np.vstack([rng.integers(0, k, size=m) for k in n]).T
        if full:  # Every slice of every mode is present
            for k, nk in enumerate(n):
                I[:nk, k] = np.arange(nk)
        return I, tensor_func(I, kind)

    def als_case(n, r0, m, seed, kind, glob, default_info=False, vld=False,
                 full=True, w_kind=None, cb_kind=None, as_list=False, **kw):
        def func():
            np.random.seed(glob)
            I, y = als_data(n, m, seed, kind, full)
            Y0 = teneva.rand(n, r0, seed=seed+1)
            I_c, y_c, Y0_c = I.copy(), y.copy(), teneva.copy(Y0)
            args = dict(kw)
            if vld:
                I_v, y_v = als_data(n, 50, seed+7, kind, full=False)
                args['I_vld'], args['y_vld'] = I_v, y_v
                I_vc, y_vc = I_v.copy(), y_v.copy()
            if w_kind == 'lin':
                args['w'] = np.arange(m) + 1.
            elif w_kind == 'rnd':
                args['w'] = np.random.default_rng(seed+3).uniform(0.5, 2., m)
            w_c = None if 'w' not in args else args['w'].copy()
            calls = []
            if cb_kind is not None:
                def cb(Y, info, opts):
                    calls.append((teneva.copy(Y), clean_info(info),
                        sorted(opts.keys()), [G.copy() for G in opts['Yl']],
                        [G.copy() for G in opts['Yr']]))
                    if cb_kind == 'stop2':
                        return info['nswp'] >= 2
                    if cb_kind == 'truthy':
                        return 1
                    return None
                args['cb'] = cb
            info = {'old_key': 'kept', 'stop': 'garbage', 'nswp': 77}
            I_arg = I.tolist() if as_list else I
            y_arg = y.tolist() if as_list else y
            if default_info:
                Y = teneva.als(I_arg, y_arg, Y0, **args)
                info = m_als.als.__defaults__[2]
            else:
                Y = teneva.als(I_arg, y_arg, Y0, info=info, **args)
            out = {
                'Y': Y, 'info': clean_info(info), 'info_keys': list(info),
                'I_same': np.array_equal(I, I_c), 'I': I,
                'y_same': np.array_equal(y, y_c),
                'Y0_same': all(np.array_equal(a, b) for a, b in zip(Y0, Y0_c)),
                'Y0': Y0, 'calls': calls,
                'w_same': w_c is None or np.array_equal(w_c, args['w']),
                'shares': [bool(np.shares_memory(a, b)) for a, b in zip(Y, Y0)],
                'glob_next': np.random.rand(),
                'default_info': clean_info(m_als.als.__defaults__[2]),
            }
            if vld:
                out['vld_same'] = (np.array_equal(I_v, I_vc) and
                    np.array_equal(y_v, y_vc))
            return out
        return func

    shapes = [
        ([4, 5], 2), ([3, 4, 5], 2), ([5, 5, 5, 5], 3), ([4, 3, 5, 2, 4], 2),
        ([3, 3, 3], 1), ([2, 3, 2, 3], 5), ([6, 2, 6], [1, 4, 3, 1]),
        ([4, 4, 4, 4], [1, 1, 3, 1, 1]),
    ]
    cnt = 0
    for i_sh, (n, r0) in enumerate(shapes):
        for kind in [0, 1, 2]:
            for lamb in [0.001, None, 0.]:
                cnt += 1
                add(f'als-const-{i_sh}-{kind}-{lamb}', als_case(n, r0, 300,
                    seed=cnt, kind=kind, glob=cnt % 5, nswp=3 + cnt % 3,
                    lamb=lamb, vld=bool(cnt % 2), log=bool(cnt % 3 == 0),
                    default_info=bool(cnt % 4 == 0)))
    for i_sh, (n, r0) in enumerate(shapes):
        for j, (w_kind, lamb) in enumerate([('lin', 0.001), ('rnd', None),
                                            ('rnd', 1.E-2), (None, 1.E-6)]):
            add(f'als-w-{i_sh}-{j}', als_case(n, r0, 250, seed=100+i_sh+j,
                kind=(i_sh+j) % 3, glob=j, nswp=4, lamb=lamb, w_kind=w_kind,
                e=1.E-3 if j == 3 else 1.E-16, vld=True,
                e_vld=0.5 if j == 2 else None))
    for i_sh, (n, r0) in enumerate(shapes):
        for j, upd in enumerate([True, 1.]):
            add(f'als-upd-{i_sh}-{j}', als_case(n, r0, 250, seed=200+i_sh+j,
                kind=(i_sh+j) % 3, glob=j, nswp=3, lamb=0.01*(j+1),
                update_sol=upd, w_kind='rnd' if j else None))
    # rank-adaptive
    for i_sh, (n, r0) in enumerate(shapes):
        for j, (r, r_add, e_adap, stab) in enumerate([
                (4, 10000, 1.E-3, False), (3, 1, 1.E-8, i_sh == 0),
                (1, 2, 1.E-2, False), (8, 2, 1.E-10, False)]):
            add(f'als-adap-{i_sh}-{j}', als_case(n, r0, 400, seed=300+i_sh+j,
                kind=(i_sh+j) % 3, glob=j, nswp=3, r=r, r_add=r_add,
                e_adap=e_adap, use_stab=stab, lamb=None if j == 3 else 0.001,
                w_kind='rnd' if j == 1 else None, vld=bool(j % 2),
                log=bool(j == 2), default_info=bool(j == 3)))
    # swap option (experimental, prints debug lines)
    for i_sh, (n, r0) in enumerate(shapes):
        for j, tol in enumerate([3, 0.5, 1.E-9]):
            add(f'als-swap-{i_sh}-{j}', als_case(n, r0, 400, seed=400+i_sh+j,
                kind=(i_sh+j+1) % 3, glob=j, nswp=3, r=3+j, r_add=2,
                allow_swap=True, swap_tol=tol, vld=True,
                default_info=bool(j == 1), log=bool(j == 2)))
    for j, (n, r0) in enumerate([([4]*3, 2), ([3]*4, 1), ([5]*5, 2),
                                 ([4]*4, [1, 2, 3, 2, 1]), ([2]*6, 2)]):
        for jj, tol in enumerate([3, 1.E-9]):
            add(f'als-swap-eq-{j}-{jj}', als_case(n, r0, 500, seed=450+j+jj,
                kind=1 + (j+jj) % 2, glob=j, nswp=2 + jj, r=3+jj, r_add=1+jj,
                allow_swap=True, swap_tol=tol, vld=True,
                w_kind='rnd' if jj else None, lamb=None if j == 2 else 1.E-3))
    add('als-swap-no-vld', als_case([3, 4, 3], 2, 200, seed=1, kind=1, glob=0,
        nswp=2, r=3, allow_swap=True))
    add('als-swap-no-r', als_case([3, 4, 3], 2, 200, seed=1, kind=1, glob=0,
        nswp=2, allow_swap=True))
    add('als-after-swap-default-info', als_case([3, 4, 3], 2, 200, seed=2,
        kind=0, glob=0, nswp=2, default_info=True))
    # callbacks, stopping criteria, skip cores, errors, list inputs
    for j, cb_kind in enumerate(['stop2', 'truthy', 'none']):
        add(f'als-cb-{j}', als_case([4, 3, 4, 3], 2, 300, seed=500+j, kind=j,
            glob=j, nswp=4, cb_kind=cb_kind, r=None if j < 2 else 3))
    add('als-cb-evld', als_case([4, 3, 4], 2, 300, seed=510, kind=0, glob=1,
        nswp=6, cb_kind='stop2', vld=True, e_vld=1.E+3))
    add('als-e-stop', als_case([4, 3, 4], 2, 300, seed=511, kind=0, glob=1,
        nswp=30, e=1.E-2))
    add('als-nswp0', als_case([4, 3, 4], 2, 300, seed=512, kind=0, glob=1,
        nswp=0, vld=True))
    add('als-nswp-none', als_case([4, 3, 4], 2, 300, seed=513, kind=0, glob=1,
        nswp=None, e=1.E-1))
    add('als-list-input', als_case([4, 3, 4], 2, 300, seed=514, kind=2, glob=1,
        nswp=2, as_list=True))
    for j, skip in enumerate([False, True]):
        for jj, r in enumerate([None, 3]):
            add(f'als-missing-{j}-{jj}', als_case([5, 6, 5], 2, 12, seed=520+j,
                kind=1, glob=1, nswp=2, full=False, allow_skip_cores=skip, r=r))
    add('als-err-r-upd', als_case([4, 3, 4], 2, 100, seed=530, kind=0, glob=1,
        nswp=2, r=3, update_sol=True, default_info=True))
    add('als-err-w-shape', als_case([4, 3, 4], 2, 100, seed=531, kind=0, glob=1,
        nswp=2, w_kind=None, w=np.ones(7)))
    add('als-d1', als_case([4], 1, 20, seed=532, kind=0, glob=1, nswp=2))
    add('als-d1-adap', als_case([4], 1, 20, seed=533, kind=0, glob=1, nswp=2,
        r=2))
    add('als-d2-adap', als_case([4, 3], 1, 60, seed=534, kind=1, glob=1, nswp=2,
        r=2))

    def als_bad_y0():
        info = {}
        try:
            teneva.als(np.zeros((3, 2), dtype=int), np.zeros(3), 5, info=info)
        except Exception as exc:
            return [enc(exc), dict(info)]
    add('als-bad-y0', als_bad_y0)

    def als_history():
        # Two identical calls with default info, other calls in between
        I, y = als_data([4, 4, 4], 200, 3, 1)
        Y0 = teneva.rand([4, 4, 4], 2, seed=5)
        Ya = teneva.als(I, y, Y0, nswp=3)
        ia = clean_info(m_als.als.__defaults__[2])
        teneva.als(I, y, teneva.rand([4, 4, 4], 1, seed=6), nswp=2, r=3,
            allow_swap=True, I_vld=I[:10], y_vld=y[:10])
        np.random.rand(17)
        Yb = teneva.als(I, y, Y0, nswp=3)
        ib = clean_info(m_als.als.__defaults__[2])
        return Ya, ia, Yb, ib
    add('als-history', als_history)

    # als helpers present in both versions
    def lstsq_case(seed, lamb, use_w, use_upd, overwrite_a):
        def func():
            rng = np.random.default_rng(seed)
            A = rng.normal(size=(12 + seed % 5, 3 + seed % 4))
            y = rng.normal(size=A.shape[0])
            w = rng.uniform(0.5, 2., size=A.shape[0]) if use_w else None
            u = rng.normal(size=A.shape[1]) if use_upd else None
            A_c, y_c = A.copy(), y.copy()
            res = m_als._lstsq(A.copy(), y.copy(), lamb, w,
                overwrite_a=overwrite_a, update_sol=u)
            res2 = m_als._lstsq(A, y, lamb, w, overwrite_a=overwrite_a,
                update_sol=u)
            return (list(res), list(res2), np.array_equal(A, A_c),
                np.array_equal(y, y_c), A, y)
        return func
    for seed in range(6):
        for lamb in [None, 1.E-2, 0.]:
            for use_w in [False, True]:
                for use_upd in [False, True]:
                    for ow in [False, True]:
                        add(f'lstsq-{seed}-{lamb}-{use_w}-{use_upd}-{ow}',
                            lstsq_case(seed, lamb, use_w, use_upd, ow))

    def als_core_case(seed, lamb, use_w, upd, kind):
        def func():
            rng = np.random.default_rng(seed)
            m, r1, n, r2 = 60, 1 + seed % 3, 3 + seed % 4, 1 + (seed // 2) % 3
            Q = rng.normal(size=(r1, n, r2))
            if kind == 'full':
                i = rng.integers(0, n, size=m)
            elif kind == 'holes':       # Some slices have no samples
                i = rng.integers(0, n, size=m)
                i[i == 1] = 0
                i[i == n-1] = 0
            elif kind == 'outside':     # Indices outside of the mode
                i = rng.integers(-2, n + 3, size=m)
            elif kind == 'sorted':
                i = np.sort(rng.integers(0, n, size=m))
            else:
                m = 0
                i = np.zeros(0, dtype=int)
            y = rng.normal(size=m)
            Yl = rng.normal(size=(m, r1))
            Yr = rng.normal(size=(r2, m))
            w = rng.uniform(0.5, 2., size=m) if use_w else None
            cp = [Q.copy(), i.copy(), y.copy(), Yl.copy(), Yr.copy()]
            res = m_als._optimize_core(Q, i, y, Yl, Yr, lamb, w,
                update_sol=upd)
            same = [np.array_equal(p, q) for p, q in zip(cp, [Q, i, y, Yl, Yr])]
            return res, same, bool(np.shares_memory(res, Q))
        return func
    for seed in range(8):
        for lamb in [None, 1.E-3]:
            for use_w in [False, True]:
                for upd in [None, True]:
                    for kind in ['full', 'holes', 'outside', 'sorted', 'empty']:
                        add(f'als-core-{seed}-{lamb}-{use_w}-{upd}-{kind}',
                            als_core_case(seed, lamb, use_w, upd, kind))

    def als_core2_case(seed, lamb, use_w, ltr, swap, cache_kind):
        def func():
            rng = np.random.default_rng(seed)
            m, r1, r2 = 80, 1 + seed % 3, 1 + (seed // 2) % 3
            n1, n2, rm = 2 + seed % 3, 2 + (seed // 3) % 3, 1 + seed % 2
            Q1 = rng.normal(size=(r1, n1, rm))
            Q2 = rng.normal(size=(rm, n2, r2))
            i1 = rng.integers(0, n1, size=m)
            i2 = rng.integers(0, n2, size=m)
            if seed % 2:
                i2[i2 == 0] = 1
            y = rng.normal(size=m)
            Yl = rng.normal(size=(m, r1))
            Yr = rng.normal(size=(r2, m))
            w = rng.uniform(0.5, 2., size=m) if use_w else None
            if cache_kind == 'none':
                cache = None
            elif cache_kind == 'empty':
                cache = {}
            elif cache_kind == 'i1':
                cache = {'i1': {k: i1 == k for k in range(n1)}}
            else:
                cache = {'i2': {k: i2 == k for k in range(n2)}}
            sw = {} if swap else None
            cp = [Q1.copy(), Q2.copy(), i1.copy(), i2.copy(), y.copy()]
            V1, V2 = m_als._optimize_core_adaptive(Q1, Q2, i1, i2, y, Yl, Yr,
                1.E-3, 3 + seed % 3, lamb, w, ltr=ltr, allow_swap=sw,
                swap_tol=[3, 1.E-9][seed % 2], cache=cache)
            same = [np.array_equal(p, q) for p, q in
                zip(cp, [Q1, Q2, i1, i2, y])]
            return V1, V2, same, sw, cache
        return func
    for seed in range(8):
        for lamb in [None, 1.E-3]:
            for use_w in [False, True]:
                for ltr in [False, True]:
                    for swap in [False, True]:
                        for ck in ['none', 'empty', 'i1', 'i2']:
                            add(f'als-core2-{seed}-{lamb}-{use_w}-{ltr}-'
                                f'{swap}-{ck}', als_core2_case(seed, lamb,
                                use_w, ltr, swap, ck))

    # ------------------------------------------------------------- als_func
    def func_vals(X, kind):
        if kind == 0:
            return np.sum(X**2, axis=1)
        if kind == 1:
            return np.sin(X @ (np.arange(X.shape[1]) + 1.)) + X[:, 0]
        return np.exp(-np.sum(np.abs(X), axis=1))

    def fh_poly(X):
        return np.array([X**0, X, X**2, X**3])

    def fh_trig(X):
        return np.array([np.ones_like(X), np.sin(X), np.cos(X)])

    def alf_case(d, n, r0, m, seed, kind, glob, default_info=False, vld=False,
                 a=-1., b=1., fh_kind=None, as_list=False, pos_ab=False, **kw):
        def func():
            np.random.seed(glob)
            rng = np.random.default_rng(seed)
            X = rng.uniform(a, b, size=(m, d))
            y = func_vals(X, kind)
            A0 = teneva.rand([n]*d if isinstance(n, int) else n, r0,
                seed=seed+1)
            X_c, y_c, A0_c = X.copy(), y.copy(), teneva.copy(A0)
            args = dict(kw)
            if vld:
                X_v = rng.uniform(a, b, size=(40, d))
                y_v = func_vals(X_v, kind)
                args['X_vld'], args['y_vld'] = X_v, y_v
                X_vc, y_vc = X_v.copy(), y_v.copy()
            calls = []
            if fh_kind == 'one':
                args['fh'] = fh_poly
            elif fh_kind == 'list':
                args['fh'] = [fh_poly, fh_trig] * d
                args['fh'] = args['fh'][:d]
            elif fh_kind == 'tuple':
                args['fh'] = tuple([fh_trig] * d)
            elif fh_kind == 'short':
                args['fh'] = [fh_poly] * (d + 1)
            elif fh_kind == 'counting':
                def fh_count(x):
                    calls.append(x.copy())
                    return fh_poly(x)
                args['fh'] = fh_count
            info = {'old_key': 'kept', 'stop': 'garbage', 'nswp': 77}
            X_arg = X.tolist() if as_list else X
            y_arg = y.tolist() if as_list else y
            pos = (a, b) if pos_ab else ()
            if not pos_ab:
                args['a'], args['b'] = a, b
            if default_info:
                Y = teneva.als_func(X_arg, y_arg, A0, *pos, **args)
                info = m_alf.als_func.__defaults__[4]
            else:
                Y = teneva.als_func(X_arg, y_arg, A0, *pos, info=info, **args)
            out = {
                'Y': Y, 'info': clean_info(info), 'info_keys': list(info),
                'X_same': np.array_equal(X, X_c),
                'y_same': np.array_equal(y, y_c),
                'A0_same': all(np.array_equal(p, q) for p, q in zip(A0, A0_c)),
                'A0': A0, 'calls': calls,
                'shares': [bool(np.shares_memory(p, q)) for p, q in zip(Y, A0)],
                'contig': [bool(G.flags['C_CONTIGUOUS']) for G in Y],
                'glob_next': np.random.rand(),
                'default_info': clean_info(m_alf.als_func.__defaults__[4]),
            }
            if vld:
                out['vld_same'] = (np.array_equal(X_v, X_vc) and
                    np.array_equal(y_v, y_vc))
            return out
        return func

    cnt = 0
    for d in [2, 3, 4, 5]:
        for n, r0 in [(2, 1), (4, 2), (5, 3), (3, 6)]:
            for lamb in [1.E-3, None]:
                for n_max in [None, n, n + 3]:
                    cnt += 1
                    add(f'alf-{d}-{n}-{r0}-{lamb}-{n_max}', alf_case(d, n, r0,
                        120, seed=cnt, kind=cnt % 3, glob=cnt % 4,
                        nswp=2 + cnt % 3, lamb=lamb, n_max=n_max,
                        thr_pow=[1.E-6, 1.E-2, 0.5][cnt % 3],
                        vld=bool(cnt % 2), log=bool(cnt % 5 == 0),
                        default_info=bool(cnt % 4 == 0),
                        pos_ab=bool(cnt % 7 == 0)))
    cnt = 0
    for d in [2, 3, 4]:
        for n, r0 in [(3, 1), (4, 2), (4, [1] + [3]*(d-1) + [1])]:
            for upd in [True, 1.]:
                for n_max in [None, 6]:
                    cnt += 1
                    add(f'alf-upd-{d}-{cnt}', alf_case(d, n, r0, 100,
                        seed=100+cnt, kind=cnt % 3, glob=cnt % 4, nswp=3,
                        lamb=[1.E-3, 1., 0.][cnt % 3], n_max=n_max,
                        update_sol=upd, thr_pow=[1.E-6, 0.3][cnt % 2],
                        vld=bool(cnt % 2)))
    cnt = 0
    for d in [2, 3, 4]:
        for fh_kind in ['one', 'list', 'tuple', 'short', 'counting']:
            for lamb in [1.E-3, None]:
                cnt += 1
                n = 3 if fh_kind in ('tuple', 'list') else 4
                add(f'alf-fh-{d}-{fh_kind}-{lamb}', alf_case(d, n, 2, 100,
                    seed=200+cnt, kind=cnt % 3, glob=cnt % 4, nswp=3,
                    lamb=lamb, fh_kind=fh_kind, vld=bool(cnt % 2),
                    n_max=[None, 4][cnt % 2]))
    add('alf-fh-pad', alf_case(3, 2, 2, 100, seed=300, kind=1, glob=0, nswp=3,
        fh_kind='one', vld=True))
    add('alf-fh-pad-upd', alf_case(3, 2, 2, 100, seed=301, kind=1, glob=0,
        nswp=3, fh_kind='list', update_sol=True))
    add('alf-ab', alf_case(3, 4, 2, 100, seed=302, kind=0, glob=0, nswp=3,
        a=-2., b=3., vld=True, n_max=7, thr_pow=1.E-3))
    add('alf-e-stop', alf_case(3, 4, 2, 100, seed=303, kind=0, glob=0, nswp=40,
        e=1.E-2))
    add('alf-evld-stop', alf_case(3, 4, 2, 100, seed=304, kind=0, glob=0,
        nswp=40, e_vld=1.E+2, vld=True))
    add('alf-nswp0', alf_case(3, 4, 2, 100, seed=305, kind=0, glob=0, nswp=0,
        vld=True, n_max=6))
    add('alf-list-input', alf_case(3, 4, 2, 100, seed=306, kind=2, glob=0,
        nswp=2, as_list=True))
    add('alf-err-upd-lamb', alf_case(3, 4, 2, 100, seed=307, kind=2, glob=0,
        nswp=2, update_sol=True, lamb=None, default_info=True))
    add('alf-d1', alf_case(1, 4, 1, 30, seed=308, kind=0, glob=0, nswp=2))
    add('alf-only-xvld', alf_case(3, 4, 2, 100, seed=309, kind=0, glob=0,
        nswp=2, X_vld=np.zeros((5, 3))))
    add('alf-mixed-n', alf_case(3, [3, 4, 5], 2, 100, seed=310, kind=0, glob=0,
        nswp=2))
    add('alf-mixed-n-nmax', alf_case(3, [3, 4, 5], 2, 100, seed=311, kind=0,
        glob=0, nswp=2, n_max=6, thr_pow=1.E-3))
    add('alf-nmax-small', alf_case(3, 5, 2, 100, seed=312, kind=0, glob=0,
        nswp=2, n_max=3))

    def alf_history():
        rng = np.random.default_rng(11)
        X = rng.uniform(-1, 1, size=(100, 3))
        y = func_vals(X, 1)
        A0 = teneva.rand([4]*3, 2, seed=5)
        Ya = teneva.als_func(X, y, A0, nswp=3)
        ia = clean_info(m_alf.als_func.__defaults__[4])
        teneva.als_func(X, y, teneva.rand([3]*3, 1, seed=6), nswp=2, n_max=6,
            X_vld=X[:10], y_vld=y[:10])
        np.random.rand(17)
        Yb = teneva.als_func(X, y, A0, nswp=3)
        ib = clean_info(m_alf.als_func.__defaults__[4])
        return Ya, ia, Yb, ib
    add('alf-history', alf_history)

    def alf_core_case(seed, lamb, upd, n_max, thr_pow):
        def func():
            rng = np.random.default_rng(seed)
            m, r1, r2, n = 40, 2 + seed % 2, 1 + seed % 3, 3 + seed % 3
            base = rng.normal(size=(r1, n + 2, r2))
            base[:, n-1, :] *= 1.E-9
            Q = base[:, :n, :]
            y = rng.normal(size=m)
            Yl = rng.normal(size=(m, r1))
            Yr = rng.normal(size=(r2, m))
            Hk = rng.normal(size=(m, n + 1))[:, :n]
            y_c = y.copy()
            n_k = m_alf._optimize_core(Q, y, Yl, Yr, Hk, n_max, thr_pow,
                lamb=lamb, update_sol=upd)
            return n_k, type(n_k).__name__, base, np.array_equal(y, y_c)
        return func
    for seed in range(8):
        for lamb in [None, 1.E-3]:
            for upd in [None, True]:
                for n_max in [None, 10]:
                    for thr_pow in [1.E-6, 0.9, 1.E+9]:
                        add(f'alf-core-{seed}-{lamb}-{upd}-{n_max}-{thr_pow}',
                            alf_core_case(seed, lamb, upd, n_max, thr_pow))

    # -------------------------------------------------------- cache_to_data
    def c2d_case(cache):
        def func():
            keys, vals = list(cache.keys()), list(cache.values())
            I, y = teneva.cache_to_data(cache)
            return (I, y, list(cache.keys()) == keys,
                list(cache.values()) == vals, len(cache))
        return func
    rng = np.random.default_rng(0)
    for j, (d, m) in enumerate([(1, 1), (2, 5), (3, 40), (5, 200), (7, 3)]):
        I = rng.integers(0, 6, size=(m, d))
        cache = {tuple(int(v) for v in i): float(rng.normal()) for i in I}
        add(f'c2d-{j}', c2d_case(cache))
        cache_np = {tuple(i): np.float64(rng.normal()) for i in I}
        add(f'c2d-np-{j}', c2d_case(cache_np))
    add('c2d-empty', c2d_case({}))
    add('c2d-int-vals', c2d_case({(0, 1): 2, (3, 4): 5}))
    add('c2d-mixed-vals', c2d_case({(0, 1): 2, (3, 4): 5.5, (1, 1): True}))
    add('c2d-float-keys', c2d_case({(0.7, 1.2): 2., (3.9, 4.): 5.}))
    add('c2d-ragged', c2d_case({(0, 1): 2., (3, 4, 5): 5.}))
    add('c2d-scalar-keys', c2d_case({0: 2., 3: 5.}))
    add('c2d-str-keys', c2d_case({'a': 2., 'b': 5.}))
    add('c2d-array-vals', c2d_case({(0, 1): np.ones(2), (3, 4): np.zeros(2)}))
    add('c2d-not-dict', lambda: teneva.cache_to_data([1, 2]))

    def c2d_default():
        a = teneva.cache_to_data()
        cache = {}
        teneva.cross(lambda I: np.sum(I, axis=1) * 1., teneva.rand([4]*3, 2,
            seed=1), m=200, cache=cache)
        b = teneva.cache_to_data(cache)
        c = teneva.cache_to_data()
        return a, b, c, dict(m_dat.cache_to_data.__defaults__[0])
    add('c2d-default', c2d_default)

    # ------------------------------------------------------------ cross_act
    def act_f(kind):
        if kind == 0:
            return lambda X: np.sum(X, axis=1)
        if kind == 1:
            return lambda X: np.prod(X, axis=1)
        return lambda X: np.sin(X[:, 0]) + X[:, -1]**2

    def act_case(n, D, r_in, r0, seed, kind, glob, seed_kind='int', **kw):
        def func():
            np.random.seed(glob)
            X_list = [teneva.rand(n, r_in, seed=seed+10*j) for j in range(D)]
            Y0 = teneva.rand(n, r0, seed=seed+5)
            X_c = [teneva.copy(X) for X in X_list]
            Y0_c = teneva.copy(Y0)
            if seed_kind == 'int':
                sd = seed
            elif seed_kind == 'npint':
                sd = np.int64(seed)
            elif seed_kind == 'gen':
                sd = np.random.default_rng(seed)
            else:
                sd = np.random.RandomState(seed)
            Y = teneva.cross_act(act_f(kind), X_list, Y0, seed=sd, **kw)
            state = None
            if seed_kind == 'gen':
                state = sd.bit_generator.state
            elif seed_kind == 'legacy':
                state = sd.get_state()
            return {
                'Y': Y, 'state': state,
                'X_same': all(np.array_equal(p, q) for X, Xc in
                    zip(X_list, X_c) for p, q in zip(X, Xc)),
                'Y0_same': all(np.array_equal(p, q) for p, q in zip(Y0, Y0_c)),
                'glob_next': np.random.rand(),
            }
        return func

    cnt = 0
    for n in [[4, 4, 4], [3, 4, 5, 4], [5, 3, 5, 3, 5], [6, 6]]:
        for D in [2, 3, 4]:
            for r_in, r0 in [(2, 2), (2, 1), (2, 3), (3, 2), (7, 2), (1, 1)]:
                for dr, dr2 in [(5, 0), (0, 0), (2, 1), (1, 3)]:
                    cnt += 1
                    if (r_in, r0) == (1, 1) and (D > 2 or dr2 > 0):
                        continue
                    add(f'act-{cnt}', act_case(n, D, r_in, r0, seed=cnt,
                        kind=cnt % 3, glob=cnt % 4,
                        seed_kind=['int', 'gen', 'int', 'legacy', 'gen'][
                            cnt % 5],
                        dr=dr, dr2=dr2, nswp=[0, 1, 3, 10][cnt % 4],
                        e=[1.E-6, 1.E-2, 1.E-10][cnt % 3],
                        r=[9999, 3, 2][cnt % 3], log=bool(cnt % 6 == 0)))
    add('act-D1', act_case([4, 4, 4], 1, 2, 2, seed=7, kind=0, glob=0))
    add('act-npint', act_case([4, 4, 4], 2, 2, 2, seed=7, kind=0, glob=0,
        seed_kind='npint'))
    add('act-npint-dr0', act_case([4, 4, 4], 2, 2, 2, seed=7, kind=0, glob=0,
        seed_kind='npint', dr=0))
    add('act-bool-seed', act_case([4, 4, 4], 2, 2, 2, seed=True, kind=0,
        glob=0))

    def act_none_seed():
        # Without the seed only the shapes are reproducible
        X_list = [teneva.rand([4]*3, 2, seed=j) for j in range(2)]
        Y = teneva.cross_act(act_f(0), X_list, teneva.rand([4]*3, 2, seed=5),
            nswp=2, e=1.E-14)
        return [G.shape for G in Y]
    add('act-none-seed', act_none_seed)

    def act_history():
        X_list = [teneva.rand([4]*4, 2, seed=j) for j in range(2)]
        Y0 = teneva.rand([4]*4, 1, seed=9)
        f = act_f(0)
        Ya = teneva.cross_act(f, X_list, Y0, seed=3, nswp=2)
        np.random.seed(123)
        teneva.cross_act(act_f(1), X_list, Y0, seed=8, nswp=1, dr=2, dr2=2)
        np.random.rand(5)
        Yb = teneva.cross_act(f, X_list, Y0, seed=3, nswp=2)
        same = all(np.array_equal(p, q) for p, q in zip(Ya, Yb))
        return Ya, Yb, same
    add('act-history', act_history)

    # cross_act helpers present in both versions
    def rank_trunc_case(seed):
        def func():
            rng = np.random.default_rng(seed)
            s = np.sort(np.abs(rng.normal(size=2 + seed % 7)))[::-1]
            s = s * 10. ** (-np.arange(len(s)) * (seed % 3))
            out = []
            for eps in [0., -1., 1.E-12, 1.E-3, 0.1, 1., 1.E+3,
                        np.float64(0.5), np.linalg.norm(s), np.nan]:
                r = m_act._rank_trunc(s, eps)
                out.append((type(r).__name__, int(r)))
            r = m_act._rank_trunc(np.array([]), 0.1)
            out.append((type(r).__name__, int(r)))
            r = m_act._rank_trunc(np.array([np.nan, 1.]), 0.1)
            out.append((type(r).__name__, int(r)))
            return out
        return func
    for seed in range(12):
        add(f'act-rank-trunc-{seed}', rank_trunc_case(seed))

    def inter_build_case(d, D):
        def func():
            R = m_act._inter_build(d, D)
            flat = R.ravel().tolist()
            return R, R.shape, str(R.dtype), [type(v).__name__ for v in flat]
        return func
    for d in [1, 2, 5]:
        for D in [None, 1, 3]:
            add(f'act-inter-build-{d}-{D}', inter_build_case(d, D))

    def svd_case(seed, eps, rmax, ltr, is_qr):
        def func():
            rng = np.random.default_rng(seed)
            G = rng.normal(size=(1 + seed % 3, 2 + seed % 4, 1 + seed % 5))
            G_c = G.copy()
            res = m_act._svd(G, d=3, eps=eps, rmax=rmax, is_qr=is_qr, ltr=ltr)
            return list(res), np.array_equal(G, G_c)
        return func
    for seed in range(10):
        for eps in [None, 1.E-6, 0.3]:
            for rmax in [1, 2, 9999999]:
                for ltr in [True, False]:
                    add(f'act-svd-{seed}-{eps}-{rmax}-{ltr}',
                        svd_case(seed, eps, rmax, ltr, False))
        add(f'act-svd-qr-{seed}', svd_case(seed, 1.E-6, 99, bool(seed % 2),
            True))

    def func_case(seed, D, scalar_r):
        def func():
            rng = np.random.default_rng(seed)
            r1, n, r2, q1, q2 = 2, 3 + seed % 2, 3, 2 + seed % 2, 1 + seed % 3
            G = np.zeros(D, dtype=object)
            for j in range(D):
                G[j] = rng.normal(size=(r1, n, r2))
            if scalar_r:
                G = np.zeros(D, dtype=object)
                for j in range(D):
                    G[j] = rng.normal(size=(1, n, 1))
                R1 = np.ones(D, dtype=float).astype(object)
                R2 = np.ones(D, dtype=float).astype(object)
            else:
                R1 = [rng.normal(size=(q1, r1)) for _ in range(D)]
                R2 = [rng.normal(size=(r2, q2)) for _ in range(D)]
            seen = []
            def f(X):
                seen.append(X.copy())
                return np.sum(X**2, axis=1)
            return m_act._func(f, G, R1, R2), seen
        return func
    for seed in range(6):
        for D in [1, 3]:
            for scalar_r in [False, True]:
                add(f'act-func-{seed}-{D}-{scalar_r}',
                    func_case(seed, D, scalar_r))

    with open(path_out, 'wb') as fobj:
        pickle.dump(results, fobj)


# ---------------------------------------------------------------------------
# Comparison part
# ---------------------------------------------------------------------------


class Stat:
    def __init__(self):
        self.exact = 0
        self.close = 0
        self.bad = []


def cmp(a, b, path, stat):
    import numpy as np
    if type(a) is not type(b):
        stat.bad.append(f'{path}: type {type(a)} vs {type(b)}')
        return
    if isinstance(a, tuple) and len(a) > 0 and a[0] in ('arr', 'npscalar'):
        if a[0] != b[0] or a[1:-1] != b[1:-1]:
            stat.bad.append(f'{path}: dtype/shape {a[1:-1]} vs {b[1:-1]}')
            return
        if a[-1] == b[-1]:
            stat.exact += 1
            return
        dt = a[1] if a[1] != 'pyfloat' else 'float64'
        va = np.frombuffer(a[-1], dtype=dt)
        vb = np.frombuffer(b[-1], dtype=dt)
        if va.dtype.kind in 'fc' and va.shape == vb.shape and np.allclose(
                va, vb, rtol=RTOL, atol=ATOL, equal_nan=True):
            stat.close += 1
            return
        stat.bad.append(f'{path}: values differ')
        return
    if isinstance(a, (tuple, list)):
        if len(a) != len(b):
            stat.bad.append(f'{path}: len {len(a)} vs {len(b)}')
            return
        for i, (x, y) in enumerate(zip(a, b)):
            cmp(x, y, f'{path}/{i}', stat)
        return
    if isinstance(a, dict):
        if list(a.keys()) != list(b.keys()):
            stat.bad.append(f'{path}: keys {list(a)} vs {list(b)}')
            return
        for k in a:
            cmp(a[k], b[k], f'{path}/{k}', stat)
        return
    if a != b:
        stat.bad.append(f'{path}: {a!r} vs {b!r}')
    else:
        stat.exact += 1


def main():
    tmp = tempfile.mkdtemp(prefix='equiv_C10_')
    paths = {}
    procs = {}
    for name, root in [('orig', ROOT_ORIG), ('new', ROOT_NEW)]:
        paths[name] = os.path.join(tmp, name + '.pkl')
        env = dict(os.environ)
        env.pop('PYTHONPATH', None)
        env['PYTHONDONTWRITEBYTECODE'] = '1'
        env['PYTHONHASHSEED'] = '0'
        for key in ['OMP_NUM_THREADS', 'OPENBLAS_NUM_THREADS', 'MKL_NUM_THREADS']:
            env[key] = '1'
        procs[name] = subprocess.Popen([sys.executable,
            os.path.abspath(__file__), '--worker', paths[name]], cwd=root,
            env=env)
    ok = True
    for name, proc in procs.items():
        if proc.wait() != 0:
            print(f'worker "{name}" failed')
            ok = False
    if not ok:
        return 1

    data = {}
    for name in paths:
        with open(paths[name], 'rb') as fobj:
            data[name] = pickle.load(fobj)

    stat = Stat()
    if list(data['orig']) != list(data['new']):
        stat.bad.append('scenario lists differ')
    n_err = 0
    for name in data['orig']:
        if name not in data['new']:
            continue
        cmp(data['orig'][name], data['new'][name], name, stat)
        if data['orig'][name]['err'] != ('py', 'NoneType', None):
            n_err += 1

    print(f'scenarios             : {len(data["orig"])}')
    print(f'  of them with raise  : {n_err}')
    print(f'leaves bit-identical  : {stat.exact}')
    print(f'leaves only allclose  : {stat.close}')
    print(f'mismatches            : {len(stat.bad)}')
    for text in stat.bad[:40]:
        print('  MISMATCH', text)
    return 1 if stat.bad else 0


if __name__ == '__main__':
    if len(sys.argv) == 3 and sys.argv[1] == '--worker':
        worker(sys.argv[2])
        sys.exit(0)
    sys.exit(main())
