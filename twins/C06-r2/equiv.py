"""Equivalence demonstration for the C06 twin B refactoring.

Refactored functions: teneva/cross.py:cross (argument validation in the head,
maxvol-preiteration and both half-sweep loops of the body) and
teneva/utils.py:_info_appr.

The same deterministic scenario list is executed in two subprocesses, one
importing the pristine package (cwd = /tmp/twinsB/C06/orig) and one importing
the refactored package (cwd = /tmp/wt/C06); every scenario result is dumped to
a pickle, and then the two pickles are compared item by item (structure, types,
shapes, dtypes, values, exceptions, printed log lines, requested index batches,
mutation of the arguments). Exit code 0 if everything agrees, 1 otherwise.

Usage: /venv/bin/python /tmp/twinsB/C06/equiv.py
"""
import contextlib
import io
import itertools
import os
import pickle
import re
import subprocess
import sys
import tempfile


DIR_ORIG = '/tmp/twinsB/C06/orig'
DIR_TWIN = os.environ.get('EQUIV_TWIN_DIR', '/tmp/wt/C06')
RTOL = 1.E-12
ATOL = 1.E-14


# ---------------------------------------------------------------------------
# Worker part (runs inside the subprocess with its own "teneva")
# ---------------------------------------------------------------------------


def worker(fpath):
    for var in ['OMP_NUM_THREADS', 'OPENBLAS_NUM_THREADS', 'MKL_NUM_THREADS']:
        os.environ[var] = '1'
    sys.path.insert(0, os.getcwd())
    import numpy as np
    import teneva
    from time import perf_counter as tpc

    root = os.path.realpath(os.getcwd())
    assert os.path.realpath(teneva.__file__).startswith(root + os.sep), \
        (teneva.__file__, root)

    res = []
    t_start = tpc()

    def progress(name):
        if os.environ.get('EQUIV_VERBOSE'):
            print(f'{tpc()-t_start:8.1f} s | {len(res):7d} | {name}',
                file=sys.stderr, flush=True)

    def mask_log(text):
        return re.sub(r'time:\s*[-+0-9.eE]+', 'time: *', text)

    def snap(x):
        """Deep snapshot of a (nested) value into picklable plain data."""
        if isinstance(x, np.ndarray):
            return np.array(x, copy=True)
        if isinstance(x, (list, tuple)):
            return type(x)(snap(v) for v in x)
        if isinstance(x, dict):
            return {k: snap(v) for k, v in x.items()}
        return x

    def tensor(n, r, seed, dtype=float):
        rng = np.random.default_rng(seed)
        r = [1] + list(r) + [1]
        Y = []
        for i, k in enumerate(n):
            G = rng.normal(size=(r[i], k, r[i+1]))
            Y.append(np.asarray(G, dtype=dtype))
        return Y

    class Objective:
        """Deterministic objective that logs all requests."""

        def __init__(self, d, k_none=None, kind=0):
            self.d = d
            self.k_none = k_none
            self.kind = kind
            self.calls = []

        def __call__(self, I):
            self.calls.append(np.array(I, copy=True))
            if len(self.calls) > 4000:
                raise RuntimeError('Too many calls of the objective')
            if self.k_none is not None and len(self.calls) == self.k_none:
                return None
            I = np.asarray(I, dtype=float)
            w = 0.3 + 0.17 * np.arange(1, self.d + 1)
            if self.kind == 0:
                return np.sin(I @ w) + 1. / (1. + I.sum(axis=1))
            elif self.kind == 1:
                return 1. / (1. + I @ w)
            elif self.kind == 2:
                return np.ones(I.shape[0]) * 2.5
            else:
                return list(np.cos(I @ w) * (1. + I[:, 0]))

    def run_cross(tag, n, r, seed, kind=0, k_none=None, cb_stop=None,
                  cb_val=True, with_cache=False, with_vld=False,
                  info0=None, use_func=False, dtype=float, **kw):
        d = len(n)
        Y0 = tensor(n, r, seed, dtype)
        Y0_ref = snap(Y0)
        f = Objective(d, k_none, kind)
        info = {} if info0 is None else dict(info0)
        cache = {(0,) * d: 0.125} if with_cache == 'pre' else (
            {} if with_cache else None)
        cb_log = []

        if with_vld:
            rng = np.random.default_rng(1000 + seed)
            I_vld = np.vstack([rng.integers(0, k, size=25) for k in n]).T
            y_vld = np.asarray(Objective(d, None, kind)(I_vld), dtype=float)
            kw['I_vld'] = I_vld
            kw['y_vld'] = y_vld
            if with_vld == 'I':
                del kw['y_vld']
            if with_vld == 'y':
                del kw['I_vld']

        def cb(Y, info, opts):
            item = snap({'Y': Y, 'Yold': opts['Yold'], 'Ir': opts['Ir'],
                'Ic': opts['Ic'], 'keys': sorted(opts.keys()),
                'cache_is': opts['cache'] is cache,
                'info': {k: v for k, v in info.items() if k != 't'}})
            cb_log.append(item)
            if cb_stop is not None and len(cb_log) >= cb_stop:
                return cb_val

        func_log = []

        def func(f_, Ig, Ir, Ic, info_, cache_):
            func_log.append(snap((Ig, Ir, Ic)))
            return teneva.cross.__globals__['_func'](
                f_, Ig, Ir, Ic, info_, cache_)

        if cb_stop is not None or kw.pop('with_cb', False):
            kw['cb'] = cb
        if use_func:
            kw['func'] = func

        out = {'tag': tag}
        buf = io.StringIO()
        try:
            with contextlib.redirect_stdout(buf):
                Y = teneva.cross(f, Y0, info=info, cache=cache, **kw)
            out['Y'] = snap(Y)
            out['Y_is_Y0'] = Y is Y0
        except Exception as exc:
            out['exc'] = (type(exc).__name__, str(exc))
        out['log'] = mask_log(buf.getvalue())
        out['info_keys'] = list(info.keys())
        out['info_has_t'] = 't' in info
        out['info'] = snap({k: v for k, v in info.items() if k != 't'})
        out['info_types'] = {k: type(v).__name__ for k, v in info.items()}
        out['cache'] = None if cache is None else snap(list(cache.items()))
        out['calls'] = f.calls
        out['cb_log'] = cb_log
        out['func_log'] = func_log
        out['Y0_same'] = all(
            a.shape == b.shape and a.dtype == b.dtype and
            a.tobytes() == b.tobytes() for a, b in zip(Y0, Y0_ref))
        res.append(out)
        return out

    # -- 1. Argument validation (head): all combinations of set / unset -

    progress('section 1')

    for flags in itertools.product([0, 1], repeat=6):
        kw = {}
        if flags[0]:
            kw['m'] = 40
        if flags[1]:
            kw['e'] = 1.E-3
        if flags[2]:
            kw['nswp'] = 1
        if flags[3]:
            kw['e_vld'] = 1.E-2
        with_vld = {(0, 0): False, (1, 1): True, (1, 0): 'I', (0, 1): 'y'}[
            flags[4:]]
        run_cross(('head', flags), [4, 3, 5], [2, 2], 1,
            with_vld=with_vld, **kw)

    # Falsy (but not None) values of the stop arguments:
    # (note that m = 0 alone means "no budget", i.e., an endless run)
    for kw in [{'nswp': 0}, {'m': 0, 'nswp': 2}, {'m': 0, 'e': 1.E+5},
               {'m': 30.7}, {'e_vld': 0., 'nswp': 1}, {'nswp': 1, 'e': 0.},
               {'m': True}, {'nswp': False}]:
        with_vld = 'e_vld' in kw
        run_cross(('head-falsy', sorted(kw.items())), [3, 4, 3], [2, 3], 2,
            with_vld=with_vld, **kw)

    # -- 2. Base runs over shapes / rank profiles / rank growth ---------

    progress('section 2')

    tensors = [
        ([5, 4], [1]),
        ([5, 4], [3]),
        ([3, 3], [7]),                  # over-ranked
        ([4, 5, 3], [1, 1]),
        ([4, 5, 3], [2, 3]),
        ([2, 2, 2], [5, 6]),            # over-ranked
        ([6, 2, 5, 3], [2, 1, 3]),
        ([3, 4, 3, 4], [4, 13, 5]),     # over-ranked in the middle
        ([3, 2, 4, 2, 3], [2, 2, 2, 2]),
        ([7, 1, 4], [2, 2]),            # mode of the size 1
        ([2, 3, 2, 3, 2, 3], [1, 2, 1, 2, 1]),
    ]
    growth = [(1, 1), (0, 0), (1, 2), (0, 2), (2, 2), (3, 1)]

    counts = {}
    for it, (n, r) in enumerate(tensors):
        for ig, (dr_min, dr_max) in enumerate(growth):
            for with_cache in [False, True]:
                seed = 10 + it
                out = run_cross(('base', it, ig, with_cache), n, r, seed,
                    kind=(it + ig) % 4, with_cache=with_cache, nswp=3,
                    dr_min=dr_min, dr_max=dr_max, with_cb=True)
                counts[(it, ig, with_cache)] = (
                    out['info'].get('m'), len(out['calls']),
                    out['info'].get('nswp'))

    # Other accuracy parameters of maxvol / different seeds / int cores:
    for seed in range(5):
        run_cross(('tau', seed), [5, 6, 4, 5], [2, 3, 2], 50 + seed, kind=0,
            nswp=2, tau=1.01 + 0.2 * seed, tau0=1.01 + 0.1 * seed, k0=1 + seed,
            dr_min=1, dr_max=2, with_cache=bool(seed % 2))
    run_cross(('int-cores',), [4, 3, 4], [2, 2], 7, nswp=2, dtype=int)
    run_cross(('float32-cores',), [4, 3, 4], [2, 2], 7, nswp=2,
        dtype=np.float32)

    # -- 3. Every budget m from 1 up to the unconstrained count ---------

    progress('section 3')

    for it, ig in [(1, 0), (3, 0), (4, 2), (5, 0), (6, 1), (7, 3), (9, 0)]:
        n, r = tensors[it]
        dr_min, dr_max = growth[ig]
        for with_cache in [False, True, 'pre']:
            m_all = counts[(it, ig, bool(with_cache))][0]
            step = 1 if m_all <= 150 else 7
            ms = sorted(set(range(1, m_all + 3, step)) | {m_all, m_all + 1})
            for m in ms:
                run_cross(('budget', it, ig, with_cache, m), n, r, 10 + it,
                    kind=(it + ig) % 4, with_cache=with_cache, m=m, nswp=3,
                    dr_min=dr_min, dr_max=dr_max)
    # Budget only (runs until "m" or "conv"):
    for m in [1, 10, 55, 200, 1000]:
        for with_cache in [False, True]:
            run_cross(('budget-only', with_cache, m), [4, 5, 3, 4], [2, 2, 2],
                3, m=m, with_cache=with_cache)
            run_cross(('budget-only-scale', with_cache, m), [3, 3, 3], [2, 2],
                3, m=m, with_cache=with_cache, m_cache_scale=1, kind=2)

    # -- 4. The objective returns None at its k-th call, for every k ----

    progress('section 4')

    for it, ig in [(0, 0), (3, 0), (4, 2), (6, 1), (8, 0), (7, 3)]:
        n, r = tensors[it]
        dr_min, dr_max = growth[ig]
        for with_cache in [False, True]:
            k_all = counts[(it, ig, with_cache)][1]
            for k in range(1, k_all + 2):
                run_cross(('none', it, ig, with_cache, k), n, r, 10 + it,
                    kind=(it + ig) % 4, with_cache=with_cache, k_none=k,
                    nswp=3, dr_min=dr_min, dr_max=dr_max,
                    with_vld=bool(k % 2), log=(k % 3 == 0))

    # -- 5. The callback returns True (or a truthy non-True value) ------

    progress('section 5')

    for it, ig in [(1, 0), (4, 2), (6, 1), (8, 3)]:
        n, r = tensors[it]
        dr_min, dr_max = growth[ig]
        for cb_stop in [1, 2, 3, 4]:
            for cb_val in [True, 1, 'yes', False, np.True_]:
                run_cross(('cb', it, ig, cb_stop, repr(cb_val)), n, r, 10 + it,
                    cb_stop=cb_stop, cb_val=cb_val, nswp=4, dr_min=dr_min,
                    dr_max=dr_max, with_cache=bool(cb_stop % 2))
    # Callback together with the "conv" stop:
    run_cross(('cb-conv',), [3, 3, 3], [2, 2], 3, kind=2, with_cache=True,
        m_cache_scale=0, cb_stop=1, nswp=5)
    run_cross(('conv',), [3, 3, 3], [2, 2], 3, kind=2, with_cache=True,
        m_cache_scale=1, nswp=50, log=True)

    # -- 6. Combinations of the stop arguments (with log) ---------------

    progress('section 6')

    n, r = [5, 4, 6, 3], [2, 2, 2]
    for m, e, nswp, e_vld in itertools.product(
            [None, 150, 100000], [None, 1.E-14, 1.E-1, 1.E+2],
            [None, 0, 1, 3], [None, 1.E-14, 5.E-1, 1.E+3]):
        if m is None and e is None and nswp is None and e_vld is None:
            continue
        if m is None and nswp is None and not (
                (e or 0) > 1.E-2 or (e_vld or 0) > 1.E-2):
            continue
        for with_cache in [False, True]:
            run_cross(('stop', m, e, nswp, e_vld, with_cache), n, r, 21,
                kind=1, with_cache=with_cache, with_vld=True, m=m, e=e,
                nswp=nswp, e_vld=e_vld, log=True, dr_min=1, dr_max=1)

    # Exactly representable tensor (rank one; error reaches zero / nan):
    for kind in [2]:
        for e in [0., 1.E-15, 1.E-8]:
            run_cross(('exact', kind, e), [4, 4, 4], [1, 1], 5, kind=kind,
                e=e, nswp=6, dr_min=0, dr_max=0, log=True, with_vld=True,
                e_vld=e)

    # -- 7. Pre-populated info / custom func / shared default info ------

    progress('section 7')

    run_cross(('info0',), [4, 3, 4], [2, 2], 8, nswp=2, with_cache=True,
        info0={'stop': 'old', 'zzz': 1, 'm': 77, 'nswp': 9, 't': -1.})
    run_cross(('func',), [4, 3, 4, 2], [2, 2, 3], 8, nswp=2, use_func=True,
        with_cache=True, dr_max=2)
    run_cross(('func-m',), [4, 3, 4, 2], [2, 2, 3], 8, nswp=3, use_func=True,
        m=120, dr_max=2)
    for k in range(2):
        f = Objective(3, None, 0)
        Y = teneva.cross(f, tensor([3, 4, 3], [2, 2], 4), nswp=1 + k)
        import inspect
        info_def = inspect.signature(teneva.cross).parameters['info'].default
        res.append({'tag': ('default-info', k), 'Y': snap(Y),
            'calls': f.calls,
            'info': snap({k_: v for k_, v in info_def.items() if k_ != 't'})})

    # -- 8. Direct calls of _info_appr ----------------------------------

    progress('section 8')

    nan, inf = float('nan'), float('inf')
    vals = [-1, -1., 0, 0., 1.E-9, 1.E-3, 1., inf, -inf, nan,
        np.float64(1.E-3), np.float64(inf), np.float64(nan), np.float32(.5)]
    bounds = [None, 0, 0., 1.E-3, 1., inf, nan, -1., np.float64(1.E-3)]
    k = 0
    for stop0 in [None, 'm', '', 0]:
        for v_e, v_vld in itertools.product(vals, vals):
            for e, e_vld in itertools.product(bounds, bounds):
                for nswp_cur, nswp in [(0, None), (0, 0), (2, 3), (3, 3),
                                       (4, 3), (1, 1.5)]:
                    k += 1
                    if k % 7 and stop0 is not None:
                        continue
                    log = (k % 5 == 0)
                    info = {'e': v_e, 'e_vld': v_vld, 'nswp': nswp_cur,
                        'stop': stop0, 'r': 2.5, 'm': 120, 'm_cache': 7,
                        'with_cache': bool(k % 2)}
                    buf = io.StringIO()
                    out = {'tag': ('info_appr', k)}
                    try:
                        with contextlib.redirect_stdout(buf):
                            ret = teneva._info_appr(
                                info, tpc(), nswp, e, e_vld, log)
                        out['ret'] = ret
                        out['ret_type'] = type(ret).__name__
                    except Exception as exc:
                        out['exc'] = (type(exc).__name__, str(exc))
                    out['log'] = mask_log(buf.getvalue())
                    out['keys'] = list(info.keys())
                    out['t_ok'] = isinstance(info.get('t'), float) and \
                        0 <= info['t'] < 60
                    out['info'] = {a: b for a, b in info.items() if a != 't'}
                    out['types'] = {a: type(b).__name__
                        for a, b in info.items()}
                    res.append(out)

    # Missing keys of the info dictionary (the same KeyError or no error):
    base = {'e': 1.E-5, 'e_vld': 1.E-5, 'nswp': 2, 'stop': None, 'r': 2.,
        'm': 10, 'm_cache': 3, 'with_cache': True}
    for drop in [(), ('e',), ('e_vld',), ('nswp',), ('stop',), ('r',),
                 ('m',), ('m_cache',), ('with_cache',), ('m', 'm_cache'),
                 ('e', 'e_vld'), ('e', 'e_vld', 'nswp')]:
        for args in itertools.product([None, 3], [None, 1.E-3], [None, 1.E-3]):
            for stop0 in [None, 'cb']:
                for log in [False, True]:
                    info = {a: b for a, b in base.items() if a not in drop}
                    if 'stop' in info:
                        info['stop'] = stop0
                    buf = io.StringIO()
                    out = {'tag': ('info_appr-drop', drop, args, stop0, log)}
                    try:
                        with contextlib.redirect_stdout(buf):
                            out['ret'] = teneva._info_appr(
                                info, tpc(), *args, log)
                    except Exception as exc:
                        out['exc'] = (type(exc).__name__, str(exc))
                    out['log'] = mask_log(buf.getvalue())
                    out['info'] = {a: b for a, b in info.items() if a != 't'}
                    out['keys'] = list(info.keys())
                    res.append(out)

    # -- 9. Another user of _info_appr (als with log) -------------------

    progress('section 9')

    rng = np.random.default_rng(5)
    n = [4, 5, 3]
    I_trn = np.vstack([rng.integers(0, k, size=120) for k in n]).T
    y_trn = Objective(3)(I_trn)
    for kw in [{'nswp': 3}, {'nswp': 20, 'e': 1.E-2},
               {'nswp': 5, 'e_vld': 1.E+1, 'I_vld': I_trn[:30],
                'y_vld': y_trn[:30]}]:
        info = {}
        buf = io.StringIO()
        with contextlib.redirect_stdout(buf):
            Y = teneva.als(I_trn, y_trn, tensor(n, [2, 2], 6), info=info,
                log=True, **kw)
        res.append({'tag': ('als', sorted(kw.keys())), 'Y': snap(Y),
            'log': mask_log(buf.getvalue()),
            'info': snap({a: b for a, b in info.items() if a != 't'})})

    progress('dump')
    with open(fpath, 'wb') as fh:
        pickle.dump(res, fh)


# ---------------------------------------------------------------------------
# Comparison part
# ---------------------------------------------------------------------------


class Stat:
    def __init__(self):
        self.arrays = 0
        self.arrays_not_bitwise = 0
        self.leaves = 0


def compare(a, b, path, errs, stat):
    import numpy as np

    if type(a) is not type(b):
        errs.append(f'{path}: type {type(a).__name__} != {type(b).__name__}')
        return
    if isinstance(a, np.ndarray):
        stat.arrays += 1
        if a.shape != b.shape or a.dtype != b.dtype:
            errs.append(f'{path}: array {a.shape}/{a.dtype} != '
                f'{b.shape}/{b.dtype}')
            return
        if a.dtype == object:
            if a.tolist() != b.tolist():
                errs.append(f'{path}: object arrays differ')
            return
        if a.tobytes() != b.tobytes():
            stat.arrays_not_bitwise += 1
        if not np.allclose(a, b, rtol=RTOL, atol=ATOL, equal_nan=True):
            errs.append(f'{path}: array values differ '
                f'(max |diff| = {np.max(np.abs(a - b))})')
        return
    if isinstance(a, dict):
        if list(a.keys()) != list(b.keys()):
            errs.append(f'{path}: dict keys (or their order) differ: '
                f'{list(a.keys())[:12]} != {list(b.keys())[:12]}')
            return
        for k in a:
            compare(a[k], b[k], f'{path}[{k!r}]', errs, stat)
        return
    if isinstance(a, (list, tuple)):
        if len(a) != len(b):
            errs.append(f'{path}: length {len(a)} != {len(b)}')
            return
        for k, (x, y) in enumerate(zip(a, b)):
            compare(x, y, f'{path}[{k}]', errs, stat)
        return
    stat.leaves += 1
    if isinstance(a, (float, np.floating)):
        if np.isnan(a) and np.isnan(b):
            return
        if a != b and not np.isclose(a, b, rtol=RTOL, atol=ATOL):
            errs.append(f'{path}: {a!r} != {b!r}')
        return
    if a != b:
        errs.append(f'{path}: {a!r} != {b!r}')


def main():
    import numpy as np

    if not os.path.isdir(os.path.join(DIR_ORIG, 'teneva')):
        print('Pristine copy is not found in', DIR_ORIG)
        return 1

    data = []
    with tempfile.TemporaryDirectory() as tmp:
        for name, cwd in [('orig', DIR_ORIG), ('twin', DIR_TWIN)]:
            fpath = os.path.join(tmp, name + '.pkl')
            env = dict(os.environ)
            env.pop('PYTHONPATH', None)
            env['PYTHONDONTWRITEBYTECODE'] = '1'
            proc = subprocess.run(
                [sys.executable, os.path.abspath(__file__), '--worker', fpath],
                cwd=cwd, env=env, capture_output=True, text=True)
            if proc.returncode != 0:
                print(f'Worker "{name}" failed:')
                print(proc.stdout[-3000:])
                print(proc.stderr[-6000:])
                return 1
            with open(fpath, 'rb') as fh:
                data.append(pickle.load(fh))

    res_orig, res_twin = data
    errs = []
    stat = Stat()
    if len(res_orig) != len(res_twin):
        errs.append(f'number of scenarios {len(res_orig)} != {len(res_twin)}')
    for a, b in zip(res_orig, res_twin):
        compare(a, b, f'{a["tag"]!r}', errs, stat)

    # Summary of what was covered (from the pristine run):
    stops = {}
    excs = {}
    for a in res_orig:
        if 'exc' in a:
            excs[a['exc']] = excs.get(a['exc'], 0) + 1
        elif isinstance(a.get('info'), dict) and 'stop' in a['info']:
            s = a['info']['stop']
            stops[s] = stops.get(s, 0) + 1
    print(f'scenarios            : {len(res_orig)}')
    print(f'stop types (orig)    : {stops}')
    print(f'exceptions (orig)    : {excs}')
    print(f'compared arrays      : {stat.arrays}')
    print(f'  not bit-identical  : {stat.arrays_not_bitwise}')
    print(f'compared scalars     : {stat.leaves}')
    print(f'mismatches           : {len(errs)}')
    for err in errs[:40]:
        print('  ' + err)

    if errs:
        print('RESULT: DIFFERENT')
        return 1
    print('RESULT: EQUIVALENT')
    return 0


if __name__ == '__main__':
    if len(sys.argv) == 3 and sys.argv[1] == '--worker':
        worker(sys.argv[2])
        sys.exit(0)
    sys.exit(main())
