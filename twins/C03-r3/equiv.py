"""Equivalence demonstration for the C03 twin (refactoring of teneva/svd.py).

The same deterministic scenario list is run in two subprocesses, one with the
pristine package (cwd = /tmp/twinsC/C03/orig) and one with the refactored
package (cwd = /tmp/wt/C03); each dumps its records to a pickle and the two
pickles are compared item by item (values, shapes, dtypes, memory layout flags,
exceptions, warnings, mutation of the arguments, signatures).

Usage:  /venv/bin/python /tmp/twinsC/C03/equiv.py        (exit 0 = all agree)

"""
import os
import pickle
import subprocess
import sys
import tempfile


ORIG = '/tmp/twinsC/C03/orig'
TWIN = '/tmp/wt/C03'
RTOL = 1.E-13


# --------------------------------------------------------------------------
# Worker part (runs inside one of the two trees)
# --------------------------------------------------------------------------


def _worker(fout):
    sys.path.insert(0, os.getcwd())
    import inspect
    import warnings
    import numpy as np
    import teneva

    root = os.path.realpath(os.getcwd())
    assert os.path.realpath(teneva.__file__).startswith(root), teneva.__file__

    def norm(x):
        """Turn a result into a comparable / picklable structure."""
        if isinstance(x, np.ndarray):
            return ('arr', type(x).__name__, str(x.dtype), x.shape,
                bool(x.flags['C_CONTIGUOUS']), bool(x.flags['F_CONTIGUOUS']),
                np.array(x))
        if isinstance(x, (list, tuple)):
            return (type(x).__name__, [norm(y) for y in x])
        if isinstance(x, dict):
            return ('dict', [(k, norm(x[k])) for k in sorted(x)])
        if isinstance(x, np.generic):
            return ('npscalar', str(x.dtype), x.item())
        return ('py', type(x).__name__, x)

    records = []

    def run(tag, func, args, kwargs=None):
        """Call func, record result / exception / warnings / arg mutation."""
        kwargs = kwargs or {}
        before = norm([args, kwargs])
        with warnings.catch_warnings(record=True) as wlist:
            warnings.simplefilter('always')
            try:
                res = ('ok', norm(func(*args, **kwargs)))
            except Exception as exc:
                res = ('exc', type(exc).__name__, str(exc))
        wrn = sorted((w.category.__name__, str(w.message)) for w in wlist)
        after = norm([args, kwargs])
        records.append((tag, res, wrn, before, after))

    # --- Signatures (defaults must not change):
    for name in ['matrix_skeleton', 'matrix_svd', 'svd', 'svd_matrix',
                 'svd_incomplete', 'full_matrix']:
        records.append(('sig ' + name,
            ('ok', ('py', 'str', str(inspect.signature(getattr(teneva, name))))),
            [], None, None))

    # --- Matrices:
    def mat(rng, m, n, kind, scale, dtype=float):
        if kind == 'full':
            A = rng.normal(size=(m, n))
        elif kind == 'zero':
            A = np.zeros((m, n))
        elif kind == 'decay':
            k = min(m, n)
            U = np.linalg.qr(rng.normal(size=(m, k)))[0]
            V = np.linalg.qr(rng.normal(size=(n, k)))[0]
            A = (U * 10.**(-2. * np.arange(k))) @ V.T
        elif kind == 'ties':
            k = min(m, n)
            U = np.linalg.qr(rng.normal(size=(m, k)))[0]
            V = np.linalg.qr(rng.normal(size=(n, k)))[0]
            A = U @ V.T
        else:  # exact rank
            k = int(kind)
            A = rng.normal(size=(m, k)) @ rng.normal(size=(k, n))
        return (A * scale).astype(dtype)

    shapes = [(1, 1), (1, 5), (5, 1), (2, 2), (4, 4), (6, 3), (3, 7), (8, 8),
              (12, 5), (5, 12)]
    kinds = ['full', 'zero', 'decay', 'ties', '1', '2', '3']
    scales = [1.E-6, 1., 1.E+6]
    es = [1.E-14, 1.E-10, 1.E-6, 1.E-2, 1., 1.E+3, 1.E+10]
    rs = [1, 2, 3, 5, 1.E+12, 2.7, 0, -1, 100]

    rng = np.random.default_rng(12345)
    cnt = 0
    for (m, n) in shapes:
        for kind in kinds:
            for scale in scales:
                A = mat(rng, m, n, kind, scale)
                for e in es:
                    r = rs[cnt % len(rs)]
                    give_to = ['m', 'l', 'r', 'x', None, 'lr'][cnt % 6]
                    rel = bool((cnt // 2) % 2)
                    cnt += 1
                    tag = f'{m}x{n} {kind} {scale} e={e} r={r}'
                    run('skel ' + tag + f' rel={rel} to={give_to}',
                        teneva.matrix_skeleton, (A.copy(), e, r),
                        dict(rel=rel, give_to=give_to))
                    run('skel-pos ' + tag, teneva.matrix_skeleton,
                        (A.copy(), e, r, False, not rel, give_to))
                    run('msvd ' + tag, teneva.matrix_svd, (A.copy(), e, r))
                    if m == n:
                        run('skel-herm ' + tag, teneva.matrix_skeleton,
                            (A + A.T, e, r),
                            dict(hermitian=True, rel=rel, give_to=give_to))

    # All three weightings x rel x every cap for one decaying matrix:
    A = mat(rng, 7, 9, 'decay', 3.)
    for give_to in ['l', 'r', 'm']:
        for rel in [False, True]:
            for r in [1, 2, 3, 4, 5, 6, 7, 8, 1.E+12]:
                for e in [1.E-12, 1.E-8, 1.E-4, 1.E-1]:
                    run(f'skel-grid {give_to} {rel} {r} {e}',
                        teneva.matrix_skeleton, (A, e, r),
                        dict(rel=rel, give_to=give_to))
                    run(f'msvd-grid {r} {e}', teneva.matrix_svd, (A, e, r))
                    run(f'msvd-grid-T {r} {e}', teneva.matrix_svd, (A.T, e, r))

    # Defaults, layouts, dtypes, odd arguments:
    A = mat(rng, 6, 6, '2', 1.)
    run('skel defaults', teneva.matrix_skeleton, (A,))
    run('msvd defaults', teneva.matrix_svd, (A,))
    run('skel F-order', teneva.matrix_skeleton, (np.asfortranarray(A),))
    run('msvd F-order', teneva.matrix_svd, (np.asfortranarray(A),))
    run('skel view', teneva.matrix_skeleton, (A[::2, ::-1], 1.E-8, 2))
    run('msvd view', teneva.matrix_svd, (A[::2, ::-1], 1.E-8, 2))
    run('skel f32', teneva.matrix_skeleton, (A.astype(np.float32), 1.E-3, 4))
    run('msvd f32', teneva.matrix_svd, (A.astype(np.float32), 1.E-3, 4))
    run('skel complex', teneva.matrix_skeleton, (A + 1j * A.T, 1.E-8, 4))
    run('msvd int', teneva.matrix_svd, (np.arange(12).reshape(3, 4), 1.E-8, 4))
    run('skel int', teneva.matrix_skeleton, (np.arange(12).reshape(3, 4),))
    run('skel list', teneva.matrix_skeleton, ([[1., 2.], [3., 4.]],))
    run('msvd list', teneva.matrix_svd, ([[1., 2.], [3., 4.]],))
    run('skel r=inf', teneva.matrix_skeleton, (A, 1.E-8, np.inf))
    run('skel r=nan', teneva.matrix_skeleton, (A, 1.E-8, np.nan))
    run('skel r=None', teneva.matrix_skeleton, (A, 1.E-8, None))
    run('skel r=str', teneva.matrix_skeleton, (A, 1.E-8, '3'))
    run('skel r=np', teneva.matrix_skeleton, (A, 1.E-8, np.int64(1)))
    run('skel e=nan', teneva.matrix_skeleton, (A, np.nan, 3))
    run('skel e=inf', teneva.matrix_skeleton, (A, np.inf, 3))
    run('skel e=neg', teneva.matrix_skeleton, (A, -1., 3))
    run('skel e=0', teneva.matrix_skeleton, (A, 0., 3))
    run('skel e=None', teneva.matrix_skeleton, (A, None, 3))
    run('msvd r=inf', teneva.matrix_svd, (A, 1.E-8, np.inf))
    run('msvd r=nan', teneva.matrix_svd, (A, 1.E-8, np.nan))
    run('msvd r=None', teneva.matrix_svd, (A, 1.E-8, None))
    run('msvd e=nan', teneva.matrix_svd, (A, np.nan, 3))
    run('msvd e=inf', teneva.matrix_svd, (A, np.inf, 3))
    run('msvd e=0', teneva.matrix_svd, (A, 0., 3))
    run('msvd e=None', teneva.matrix_svd, (A, None, 3))
    run('skel nan data', teneva.matrix_skeleton, (A * np.nan,))
    run('msvd nan data', teneva.matrix_svd, (A * np.nan,))
    run('skel empty', teneva.matrix_skeleton, (np.zeros((0, 3)),))
    run('skel empty rel', teneva.matrix_skeleton, (np.zeros((0, 3)),),
        dict(rel=True))
    run('msvd empty', teneva.matrix_svd, (np.zeros((0, 3)),))
    run('msvd empty 2', teneva.matrix_svd, (np.zeros((3, 0)),))
    run('skel 1d', teneva.matrix_skeleton, (np.ones(4),))
    run('msvd 1d', teneva.matrix_svd, (np.ones(4),))
    run('msvd 3d', teneva.matrix_svd, (np.ones((2, 2, 2)),))
    run('skel zero rel', teneva.matrix_skeleton, (np.zeros((3, 4)), 1.E-8, 2),
        dict(rel=True))
    run('skel keyword', teneva.matrix_skeleton, (),
        dict(A=A, e=1.E-3, r=2, hermitian=False, rel=True, give_to='r'))
    run('msvd keyword', teneva.matrix_svd, (), dict(A=A, e=1.E-3, r=2))

    # --- TT-SVD (uses matrix_skeleton) and the QTT-matrix variant:
    def tens(rng, n, kind, scale):
        if kind == 'full':
            Y = rng.normal(size=n)
        else:
            k = int(kind)
            rr = [1] + [k] * (len(n) - 1) + [1]
            cores = [rng.normal(size=(rr[i], n[i], rr[i+1]))
                for i in range(len(n))]
            Y = teneva.full(cores)
        return Y * scale

    for n in [(3, 4), (1, 1), (2, 3, 4), (4, 1, 3), (3, 3, 3, 3), (2,) * 6,
              (5, 2, 4, 3, 2), (7,), (2, 1, 1, 2)]:
        for kind in ['full', '1', '2']:
            for scale in scales:
                Y = tens(rng, n, kind, scale)
                for e, r in [(1.E-10, 1.E+12), (1.E-3 * scale, 1.E+12),
                             (1.E-10, 2), (1. * scale, 1), (1.E-12, 3)]:
                    run(f'svd {n} {kind} {scale} {e} {r}',
                        teneva.svd, (Y, e, r))
    run('svd F-order', teneva.svd, (np.asfortranarray(tens(rng, (3, 4, 5),
        'full', 1.)), 1.E-6, 3))
    run('svd defaults', teneva.svd, (tens(rng, (3, 4, 5), '2', 1.),))

    def qtt_roundtrip(A, e, r):
        Y = teneva.svd_matrix(A, e, r)
        return [Y, teneva.full_matrix(Y)]

    for q in [0, 1, 2, 3, 4, 5]:
        N = 2**q
        for kind in ['full', 'zero', 'decay', '1', '2', 'eye', 'lap']:
            for scale in scales:
                if kind == 'eye':
                    A = np.eye(N) * scale
                elif kind == 'lap':
                    A = (2 * np.eye(N) - np.eye(N, k=1) - np.eye(N, k=-1))
                    A = A * scale
                else:
                    A = mat(rng, N, N, kind, scale)
                for e, r in [(1.E-10, 1.E+12), (1.E-4 * scale, 1.E+12),
                             (1.E-10, 2), (1.E-10, 1), (10. * scale, 5)]:
                    run(f'svd_matrix {q} {kind} {scale} {e} {r}',
                        teneva.svd_matrix, (A, e, r))
                    run(f'qtt roundtrip {q} {kind} {scale} {e} {r}',
                        qtt_roundtrip, (A, e, r))
    A = mat(rng, 8, 8, 'full', 1.)
    run('svd_matrix defaults', teneva.svd_matrix, (A,))
    run('svd_matrix keyword', teneva.svd_matrix, (), dict(Y_full=A, r=3, e=.1))
    run('svd_matrix F-order', teneva.svd_matrix, (np.asfortranarray(A),))
    run('svd_matrix view', teneva.svd_matrix, (mat(rng, 16, 16, 'full',
        1.)[::2, ::2],))
    run('svd_matrix 3x3', teneva.svd_matrix, (mat(rng, 3, 3, 'full', 1.),))
    run('svd_matrix 6x6', teneva.svd_matrix, (mat(rng, 6, 6, 'full', 1.),))
    run('svd_matrix 4x8', teneva.svd_matrix, (mat(rng, 4, 8, 'full', 1.),))
    run('svd_matrix 8x4', teneva.svd_matrix, (mat(rng, 8, 4, 'full', 1.),))
    run('svd_matrix 0x0', teneva.svd_matrix, (np.zeros((0, 0)),))
    run('svd_matrix list', teneva.svd_matrix, ([[1., 2.], [3., 4.]],))
    run('svd_matrix 1d', teneva.svd_matrix, (np.ones(4),))
    run('svd_matrix 3d', teneva.svd_matrix, (np.ones((2, 2, 2)),))
    run('svd_matrix int', teneva.svd_matrix, (np.arange(16).reshape(4, 4),))
    run('svd_matrix f32', teneva.svd_matrix, (A.astype(np.float32), 1.E-3))

    # --- Callers of the refactored functions elsewhere in the package:
    for seed in range(6):
        rng2 = np.random.default_rng(seed)
        n = [4, 3, 5, 2, 4][:2 + seed % 4]
        rr = [1] + [2 + seed % 3] * (len(n) - 1) + [1]
        Y = [rng2.normal(size=(rr[i], n[i], rr[i+1])) for i in range(len(n))]
        Y2 = teneva.add(Y, Y)   # over-ranked cores
        for e, r in [(1.E-10, 1.E+12), (1.E-2, 1.E+12), (1.E-10, 2)]:
            run(f'truncate {seed} {e} {r}', teneva.truncate, (Y2, e, r))
            run(f'truncate eigh {seed} {e} {r}', teneva.truncate,
                (Y2, e, r), dict(is_eigh=True))
            run(f'truncate skel {seed} {e} {r}', teneva.truncate,
                (Y2, e, r), dict(is_eigh=False))
    if hasattr(teneva, 'core_qtt_to_tt'):
        for seed in range(4):
            rng2 = np.random.default_rng(100 + seed)
            Q = [rng2.normal(size=(1 if i == 0 else 3, 2, 3))
                for i in range(3)]
            run(f'core_qtt_to_tt {seed}', teneva.core_qtt_to_tt, (Q,))
    if hasattr(teneva, 'core_tt_to_qtt'):
        for seed in range(4):
            rng2 = np.random.default_rng(200 + seed)
            G = rng2.normal(size=(2, 8, 3))
            for e, r in [(1.E-10, 1.E+12), (1.E-1, 2)]:
                run(f'core_tt_to_qtt {seed} {e} {r}', teneva.core_tt_to_qtt,
                    (G, e, r))

    with open(fout, 'wb') as f:
        pickle.dump(records, f)


# --------------------------------------------------------------------------
# Comparison part
# --------------------------------------------------------------------------


class Stat:
    bitwise_diff = 0


def _same(a, b, path, errs):
    import numpy as np
    if type(a) is not type(b):
        errs.append(f'{path}: type {type(a).__name__} != {type(b).__name__}')
        return
    if isinstance(a, np.ndarray):
        if a.shape != b.shape or a.dtype != b.dtype:
            errs.append(f'{path}: {a.dtype}{a.shape} != {b.dtype}{b.shape}')
            return
        if a.dtype == object or a.dtype.kind in 'US':
            if not (a == b).all():
                errs.append(f'{path}: object arrays differ')
            return
        if not np.array_equal(a, b, equal_nan=a.dtype.kind in 'fc'):
            Stat.bitwise_diff += 1
            scale = max(1., float(np.max(np.abs(a[np.isfinite(a)]),
                initial=0.)))
            rtol = RTOL if a.dtype.itemsize >= 8 else 1.E-5
            if not np.allclose(a, b, rtol=rtol, atol=rtol * scale,
                               equal_nan=True):
                errs.append(f'{path}: values differ, max abs diff '
                    f'{np.nanmax(np.abs(a - b))}')
        return
    if isinstance(a, (list, tuple)):
        if len(a) != len(b):
            errs.append(f'{path}: len {len(a)} != {len(b)}')
            return
        for i, (x, y) in enumerate(zip(a, b)):
            _same(x, y, f'{path}[{i}]', errs)
        return
    if isinstance(a, float) and a != a and b != b:
        return
    if a != b:
        errs.append(f'{path}: {a!r} != {b!r}')


def main():
    tmp = tempfile.mkdtemp(prefix='equiv_C03_')
    outs = []
    for name, cwd in [('orig', ORIG), ('twin', TWIN)]:
        fout = os.path.join(tmp, name + '.pkl')
        env = dict(os.environ)
        env.pop('PYTHONPATH', None)
        env['PYTHONDONTWRITEBYTECODE'] = '1'
        res = subprocess.run([sys.executable, os.path.abspath(__file__),
            '--worker', fout], cwd=cwd, env=env)
        if res.returncode != 0:
            print(f'FAIL: worker "{name}" crashed (exit {res.returncode})')
            return 1
        with open(fout, 'rb') as f:
            outs.append(pickle.load(f))

    rec_o, rec_t = outs
    if len(rec_o) != len(rec_t):
        print(f'FAIL: {len(rec_o)} records vs {len(rec_t)} records')
        return 1

    bad = 0
    n_ok = n_exc = n_wrn = 0
    for ro, rt in zip(rec_o, rec_t):
        errs = []
        _same(ro[0], rt[0], 'tag', errs)
        _same(ro[1], rt[1], 'result', errs)
        _same(ro[2], rt[2], 'warnings', errs)
        _same(ro[4], rt[4], 'args-after', errs)
        # Mutation behaviour: before / after must relate in the same way
        mut_o, mut_t = [], []
        _same(ro[3], ro[4], 'mut', mut_o)
        _same(rt[3], rt[4], 'mut', mut_t)
        if bool(mut_o) != bool(mut_t):
            errs.append(f'mutation differs: {mut_o} vs {mut_t}')
        n_ok += ro[1][0] == 'ok'
        n_exc += ro[1][0] == 'exc'
        n_wrn += bool(ro[2])
        if errs:
            bad += 1
            if bad <= 20:
                print(f'MISMATCH in "{ro[0]}":')
                for err in errs[:5]:
                    print('    ' + err)

    print(f'scenarios: {len(rec_o)} (ok {n_ok}, raising {n_exc}, '
        f'with warnings {n_wrn}); arrays not bit-identical: '
        f'{Stat.bitwise_diff}; mismatching scenarios: {bad}')
    if bad:
        print('FAIL')
        return 1
    print('OK: original and refactored package agree on all scenarios')
    return 0


if __name__ == '__main__':
    if len(sys.argv) == 3 and sys.argv[1] == '--worker':
        _worker(sys.argv[2])
        sys.exit(0)
    sys.exit(main())
