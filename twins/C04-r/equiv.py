"""Equivalence demonstration for the C04 refactoring.

Runs the same deterministic scenario list in two subprocesses (pristine copy
of teneva vs. refactored worktree), each dumping its results to a pickle, and
compares the pickles.  Exit code 0 when everything agrees, 1 otherwise.

Refactored functions: teneva.orthogonalize, teneva.orthogonalize_left,
teneva.core_stab (orthogonalize_right is compared too since orthogonalize
dispatches to it).
"""
import os
import pickle
import subprocess
import sys
import tempfile

import numpy as np

ORIG = '/tmp/twinsA/C04/orig'
REFA = '/tmp/wt/C04'
PY = '/venv/bin/python'
RTOL = 1.E-12
ATOL = 0.


# ---------------------------------------------------------------------------
# Worker (runs inside a subprocess with cwd = package root)
# ---------------------------------------------------------------------------


def _rand_tt(rng, n, r, scale=1., dtype=float, deficient=False):
    """Random TT-tensor with mode sizes n and full rank profile r (len d+1)."""
    Y = []
    for k in range(len(n)):
        G = rng.standard_normal((r[k], n[k], r[k+1]))
        if deficient and r[k+1] > 1:
            # make the last column-slice a copy of the first -> rank deficiency
            G[:, :, -1] = G[:, :, 0]
        if deficient and r[k] > 2:
            G[1, :, :] = 0.
        G = G * scale
        if dtype is not float:
            G = np.round(G * 3).astype(dtype)
        Y.append(G)
    return Y


def _tt_scenarios():
    rng = np.random.default_rng(20240404)
    out = []

    profiles = [
        # (n, r)
        ([3, 4], [1, 2, 1]),
        ([3, 4], [1, 1, 1]),
        ([2, 2], [1, 7, 1]),                  # over-ranked (r > r*n)
        ([1, 1], [1, 1, 1]),                  # mode size 1
        ([1, 5, 1], [1, 3, 3, 1]),            # mode size 1 with rank > 1
        ([4, 3, 5], [1, 2, 3, 1]),
        ([4, 3, 5], [1, 1, 1, 1]),
        ([2, 2, 2], [1, 9, 9, 1]),            # heavily over-ranked
        ([2, 3, 2, 3], [1, 5, 20, 5, 1]),     # over-ranked in the middle
        ([5, 4, 3, 2], [1, 3, 4, 2, 1]),
        ([3, 1, 3, 1, 3], [1, 2, 4, 4, 2, 1]),
        ([2] * 6, [1, 2, 4, 8, 4, 2, 1]),     # exactly maximal ranks
        ([2] * 6, [1, 3, 3, 3, 3, 3, 1]),
        ([3] * 8, [1, 2, 5, 1, 4, 6, 3, 2, 1]),
        ([6, 2, 7], [1, 6, 7, 1]),
        ([2, 3], [2, 3, 2]),                  # non-unit boundary ranks
    ]
    scales = [1., 1.E+120, 1.E-120, 1.E+30, 1.E-80, 0.]
    for ip, (n, r) in enumerate(profiles):
        for scale in scales:
            for deficient in (False, True):
                if scale in (1.E+30, 1.E-80, 0.) and ip % 3:
                    continue
                Y = _rand_tt(rng, n, r, scale, deficient=deficient)
                out.append(('p%d_s%g_def%d' % (ip, scale, deficient), Y))

    # mixed scales inside one tensor
    Y = _rand_tt(rng, [3, 4, 3, 2], [1, 3, 4, 2, 1])
    Y[0] = Y[0] * 1.E+150
    Y[1] = Y[1] * 1.E-200
    Y[3] = Y[3] * 1.E+90
    out.append(('mixed_scales', Y))

    # integer / float32 / complex dtypes, C- vs F-ordered and non-contiguous
    out.append(('int_cores', _rand_tt(rng, [3, 2, 4], [1, 2, 3, 1], dtype=int)))
    out.append(('f32_cores', [G.astype(np.float32) for G in
        _rand_tt(rng, [3, 2, 4], [1, 2, 3, 1])]))
    out.append(('cplx_cores', [G + 1j * G[::-1] for G in
        _rand_tt(rng, [3, 2, 3], [1, 2, 2, 1])]))
    out.append(('forder_cores', [np.asfortranarray(G) for G in
        _rand_tt(rng, [3, 4, 2, 3], [1, 4, 5, 2, 1])]))
    out.append(('view_cores', [np.transpose(np.transpose(G, (2, 1, 0)).copy(),
        (2, 1, 0)) for G in _rand_tt(rng, [3, 4, 2], [1, 4, 5, 1])]))

    # teneva's own random constructor (same random draws for a seed)
    import teneva
    for seed in (1, 2, 3):
        out.append(('teneva_rand_%d' % seed,
            teneva.rand([4, 3, 5, 2, 3], r=3, seed=seed)))
    return out


def _snap(Y):
    return [np.array(G, copy=True) for G in Y]


def _arr_info(A):
    A = np.asarray(A)
    return {'a': np.array(A, copy=True), 'shape': A.shape,
        'dtype': str(A.dtype)}


def _call(func, *args, **kwargs):
    """Call func, return ('ok', result) or ('exc', type name)."""
    try:
        with np.errstate(all='ignore'):
            return ('ok', func(*args, **kwargs))
    except Exception as e:
        return ('exc', type(e).__name__)


def worker(fpath):
    import warnings
    warnings.simplefilter('ignore')
    import teneva
    assert os.path.dirname(os.path.abspath(teneva.__file__)) == \
        os.path.join(os.getcwd(), 'teneva'), teneva.__file__

    res = {}

    def put(key, val):
        assert key not in res, key
        res[key] = val

    def pack_tt(status, Z):
        if status == 'exc':
            return ('exc', Z)
        return ('ok', [_arr_info(G) for G in Z])

    # ---- core_stab ----------------------------------------------------
    rng = np.random.default_rng(77)
    cores = []
    for sc in [1., 1.E+300, 1.E-300, 1.E-100, 1.E-101, 0.99E-100, 2., 4., 0.5,
            1.9999999, 1.E+120, 1.E-50, 0., 3.E-310]:
        cores.append(rng.standard_normal((2, 3, 4)) * sc)
    cores.append(np.zeros((1, 2, 1)))
    cores.append(np.full((1, 1, 1), 1.E-100))
    cores.append(np.full((1, 1, 1), -8.))
    cores.append(np.full((2, 1, 2), 2.**-1022))
    cores.append(np.arange(-6, 6).reshape(2, 3, 2))                # int
    cores.append(np.zeros((2, 2, 2), dtype=int))
    cores.append(rng.standard_normal((2, 2, 2)).astype(np.float32))
    cores.append(rng.standard_normal((2, 2, 2)) * (1 + 2j))        # complex
    cores.append(np.array([[[np.nan, 1.]]]))                      # exception
    cores.append(np.array([[[np.inf, 1.]]]))                      # exception
    cores.append(np.array([[[-np.inf, 1.]]]))
    cores.append(np.zeros((1, 0, 1)))                             # exception
    for ic, G in enumerate(cores):
        for ikw, kw in enumerate([{}, {'p0': 5}, {'p0': -3, 'thr': 1.},
                {'thr': 0.}, {'p0': np.int64(7)}, {'thr': 1.E+10}]):
            G0 = np.array(G, copy=True)
            st, out = _call(teneva.core_stab, G, **kw)
            key = ('core_stab', ic, ikw, tuple(sorted(kw)))
            if st == 'exc':
                put(key, ('exc', out))
            else:
                Q, p = out
                put(key, ('ok', _arr_info(Q), int(p), type(p).__name__,
                    Q is G, np.shares_memory(Q, G)))
            put(key + ('arg_unchanged',),
                bool(np.array_equal(G, G0, equal_nan=True)))
        # positional call
        st, out = _call(teneva.core_stab, G, 2, 1.E-3)
        put(('core_stab_pos', ic), ('exc', out) if st == 'exc' else
            ('ok', _arr_info(out[0]), int(out[1])))

    # ---- TT scenarios ---------------------------------------------------
    for name, Y in _tt_scenarios():
        d = len(Y)

        # orthogonalize: all pivots incl. None, invalid ones, both stab flags
        for k in [None] + list(range(-2, d + 2)):
            for use_stab in (False, True):
                Yin = _snap(Y)
                ids = [id(G) for G in Yin]
                st, out = _call(teneva.orthogonalize, Yin, k, use_stab)
                key = ('orth', name, k, use_stab)
                if st == 'exc':
                    put(key, ('exc', out))
                elif use_stab:
                    put(key, ('ok', type(out).__name__, len(out),
                        pack_tt(st, out[0]), int(out[1]),
                        type(out[1]).__name__, type(out[0]).__name__))
                else:
                    put(key, ('ok', type(out).__name__, pack_tt(st, out)))
                # argument must not be mutated (neither the list nor cores)
                put(key + ('arg',), (
                    [id(G) for G in Yin] == ids,
                    all(np.array_equal(a, b, equal_nan=True)
                        for a, b in zip(Yin, Y))))
                if st == 'ok':
                    Z = out[0] if use_stab else out
                    put(key + ('alias',), [bool(np.shares_memory(a, b))
                        for a, b in zip(Z, Yin)])
        # keyword spelling
        st, out = _call(teneva.orthogonalize, _snap(Y), k=0, use_stab=True)
        put(('orth_kw', name), ('exc', out) if st == 'exc' else
            (pack_tt(st, out[0]), int(out[1])))
        st, out = _call(teneva.orthogonalize, _snap(Y))
        put(('orth_default', name), pack_tt(st, out))

        # single-step variants: all i incl. invalid / None, both inplace flags
        for fname in ('orthogonalize_left', 'orthogonalize_right'):
            func = getattr(teneva, fname)
            for i in [None] + list(range(-2, d + 2)):
                for inplace in (False, True):
                    Yin = _snap(Y)
                    cores_before = list(Yin)
                    st, out = _call(func, Yin, i, inplace)
                    key = (fname, name, i, inplace)
                    put(key, pack_tt(st, out))
                    # mutation behaviour of the argument
                    put(key + ('arg',), {
                        'same_list': (st == 'ok') and (out is Yin),
                        'core_replaced': [Yin[q] is not cores_before[q]
                            for q in range(d)],
                        'arg_after': [_arr_info(G) for G in Yin],
                        'old_cores_intact': all(
                            np.array_equal(a, b, equal_nan=True)
                            for a, b in zip(cores_before, Y)),
                    })
            # default inplace + keyword
            st, out = _call(func, _snap(Y), i=1 if d > 2 else
                (0 if fname.endswith('left') else 1))
            put((fname + '_kw', name), pack_tt(st, out))

        # chained use: downstream consumers that rely on the anchors
        if name.startswith('teneva_rand') or name.startswith('p9_s1_'):
            st, out = _call(teneva.truncate, _snap(Y), 1.E-8)
            put(('truncate', name), pack_tt(st, out))
            st, out = _call(teneva.truncate, _snap(Y), 1.E-8, 1.E+12, True,
                True)
            put(('truncate_stab', name), pack_tt(st, out))

    with open(fpath, 'wb') as f:
        pickle.dump(res, f)


# ---------------------------------------------------------------------------
# Comparison
# ---------------------------------------------------------------------------


def _cmp(a, b, path, errs):
    if isinstance(a, dict) and isinstance(b, dict) and 'a' in a \
            and 'shape' in a and 'dtype' in a:
        if a['shape'] != b['shape'] or a['dtype'] != b['dtype']:
            errs.append('%s: shape/dtype %s %s vs %s %s' % (path, a['shape'],
                a['dtype'], b['shape'], b['dtype']))
        elif not np.allclose(a['a'], b['a'], rtol=RTOL, atol=ATOL,
                equal_nan=True):
            errs.append('%s: values differ (max abs diff %g)' % (path,
                np.max(np.abs(a['a'] - b['a']))))
        return
    if type(a) is not type(b):
        errs.append('%s: type %s vs %s' % (path, type(a), type(b)))
        return
    if isinstance(a, dict):
        if set(a) != set(b):
            errs.append('%s: keys differ' % (path,))
            return
        for k in a:
            _cmp(a[k], b[k], path + (k,), errs)
    elif isinstance(a, (list, tuple)):
        if len(a) != len(b):
            errs.append('%s: len %d vs %d' % (path, len(a), len(b)))
            return
        for q, (x, y) in enumerate(zip(a, b)):
            _cmp(x, y, path + (q,), errs)
    elif isinstance(a, np.ndarray):
        if a.shape != b.shape or a.dtype != b.dtype or not np.allclose(a, b,
                rtol=RTOL, atol=ATOL, equal_nan=True):
            errs.append('%s: arrays differ' % (path,))
    else:
        if a != b:
            errs.append('%s: %r vs %r' % (path, a, b))


def main():
    tmp = tempfile.mkdtemp(prefix='equivC04_', dir='/tmp/twinsA/C04')
    files = {}
    for tag, cwd in (('orig', ORIG), ('refa', REFA)):
        fpath = os.path.join(tmp, tag + '.pkl')
        env = dict(os.environ)
        env.pop('PYTHONPATH', None)
        env['PYTHONDONTWRITEBYTECODE'] = '1'
        code = ('import sys; sys.path.insert(0, %r); sys.path.insert(0, %r); '
            'import equiv; equiv.worker(%r)' % ('/tmp/twinsA/C04', cwd, fpath))
        r = subprocess.run([PY, '-c', code], cwd=cwd, env=env)
        if r.returncode != 0:
            print('worker %s failed' % tag)
            return 1
        files[tag] = fpath

    with open(files['orig'], 'rb') as f:
        A = pickle.load(f)
    with open(files['refa'], 'rb') as f:
        B = pickle.load(f)
    for fpath in files.values():
        os.remove(fpath)
    os.rmdir(tmp)

    errs = []
    if set(A) != set(B):
        errs.append('scenario key sets differ')
    else:
        for key in A:
            _cmp(A[key], B[key], (key,), errs)

    n_exc = sum(1 for v in A.values()
        if isinstance(v, tuple) and len(v) and v[0] == 'exc')
    print('compared %d records (%d of them exceptions)' % (len(A), n_exc))
    if errs:
        print('MISMATCHES: %d' % len(errs))
        for e in errs[:40]:
            print('  ', e)
        return 1
    print('OK: original and refactored agree on all scenarios')
    return 0


if __name__ == '__main__':
    sys.exit(main())
