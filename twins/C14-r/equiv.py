"""Equivalence demonstration for the C14 refactoring of teneva/sample.py.

The same deterministic scenario list is executed in two subprocesses, one
importing the pristine package (cwd = /tmp/twinsA/C14/orig) and one importing
the refactored package (cwd = /tmp/wt/C14). Every scenario records the result
(or the exception), the state of the arguments after the call (mutation check)
and the state of the random generator after the call (same number of random
draws). The two pickles are then compared. Exit code 0 = all agree, 1 = not.

Usage:  /venv/bin/python /tmp/twinsA/C14/equiv.py
"""
import os
import pickle
import subprocess
import sys
import tempfile

import numpy as np


DIR_ORIG = '/tmp/twinsA/C14/orig'
DIR_NEW = '/tmp/wt/C14'
PYTHON = '/venv/bin/python'


# --------------------------------------------------------------------------
# Scenario construction (pure numpy, independent of the package under test)
# --------------------------------------------------------------------------


def make_tt(n, r, kind, seed):
    """Build TT-tensor of shape n with the rank profile r (len(n)+1 items)."""
    rng = np.random.default_rng(seed)
    Y = []
    for i in range(len(n)):
        sh = (r[i], n[i], r[i+1])
        if kind == 'pos':
            G = rng.random(sh) + 0.01
        elif kind == 'pos_sparse':
            G = rng.random(sh)
            G[G < 0.4] = 0.
            G[0, 0, 0] = 1.
            G[-1, -1, -1] = 1.
        elif kind == 'int':
            G = rng.integers(0, 4, size=sh) + (rng.random(sh) < 0.3)
            G = G.astype(int)
            G[0, 0, 0] = 1
        elif kind == 'normal':
            G = rng.normal(size=sh)
        elif kind == 'normal_big':
            G = rng.normal(size=sh) * 1.E+3
        elif kind == 'fortran':
            G = np.asfortranarray(rng.random(sh) + 0.1)
        else:
            raise ValueError(kind)
        Y.append(G)
    return Y


def rank_profiles(n):
    d = len(n)
    out = []
    out.append([1] * (d + 1))                            # rank-1
    out.append([1] + [2] * (d - 1) + [1])                # small
    out.append([1] + [3 + (i % 2) for i in range(d - 1)] + [1])
    out.append([1] + [n[0] * 3 + 2] * (d - 1) + [1])     # over-ranked
    return out


def make_seed(spec):
    kind, val = spec
    if kind == 'int':
        return val
    if kind == 'gen':
        return np.random.default_rng(val)
    if kind == 'rs':
        return np.random.RandomState(val)
    if kind == 'none':
        return None
    raise ValueError(kind)


SHAPES = [
    [2, 2], [5, 3], [1, 4], [4, 1, 3], [3, 4, 5], [2, 3, 2, 4],
    [6, 2, 3, 2, 5], [2] * 8, [7, 7, 7],
]
SEEDS = [('int', 0), ('int', 42), ('gen', 7), ('rs', 3), ('int', 12345)]


def scenarios():
    S = []

    # ---- sample
    k = 0
    for n in SHAPES:
        for r in rank_profiles(n):
            for kind in ['pos', 'pos_sparse', 'int', 'fortran']:
                k += 1
                m = [1, 2, 7, 31, 3.0, 1.E+1][k % 6]
                seed = SEEDS[k % len(SEEDS)]
                kw = {}
                if k % 4 == 1:
                    kw['unsert'] = 0.
                if k % 4 == 2:
                    kw['unsert'] = 1.E-3
                S.append(('sample', dict(n=n, r=r, kind=kind, tt_seed=k), m,
                    seed, kw))
    # positional args / sign-indefinite tensors (clipping path, may raise)
    for k, n in enumerate(SHAPES):
        r = rank_profiles(n)[2]
        S.append(('sample', dict(n=n, r=r, kind='normal', tt_seed=k), 5,
            ('int', k), {}))
        S.append(('sample', dict(n=n, r=r, kind='normal', tt_seed=k), 5,
            ('gen', k), {'unsert': 10.}))
    # edge cases outside the quantifier (d = 1, m = 0, seed None)
    S.append(('sample', dict(n=[4], r=[1, 1], kind='pos', tt_seed=1), 3,
        ('int', 1), {}))
    S.append(('sample', dict(n=[3, 4], r=[1, 2, 1], kind='pos', tt_seed=1), 0,
        ('int', 1), {}))
    S.append(('sample', dict(n=[3, 4], r=[1, 2, 1], kind='pos', tt_seed=1), 4,
        ('none', None), {}))
    S.append(('sample', dict(n=[3, 4], r=[1, 2, 1], kind='pos', tt_seed=1), 4,
        ('int', 1), {'unsert': -100.}))

    # ---- sample_lhs
    k = 0
    for n in SHAPES + [[10], [3, 10, 1, 25], [4.0, 3.0, 5.0]]:
        for m in [1, 2, 3, 6, 7, 12, 25, 60, 1.E+2, 17.9]:
            for as_arr in [False, True]:
                k += 1
                S.append(('sample_lhs', n, m, SEEDS[k % len(SEEDS)],
                    {'as_arr': as_arr, 'kw': bool(k % 2)}))
    S.append(('sample_lhs', [3, 4], 0, ('int', 1), {'as_arr': False,
        'kw': False}))
    S.append(('sample_lhs', [3, 0, 4], 5, ('int', 1), {'as_arr': False,
        'kw': False}))
    S.append(('sample_lhs', [], 5, ('int', 1), {'as_arr': False,
        'kw': False}))
    S.append(('sample_lhs', [3, 4], 5, ('none', None), {'as_arr': True,
        'kw': True}))

    # ---- sample_square
    k = 0
    for n in SHAPES:
        for r in rank_profiles(n):
            for kind in ['normal', 'pos', 'normal_big', 'int']:
                k += 1
                m = [1, 2, 5, 12, 3.0][k % 5]
                kw = {}
                if k % 2:
                    kw['unique'] = False
                if k % 3 == 0:
                    kw['m_fact'] = 2
                if k % 3 == 1:
                    kw['m_fact'] = 1
                    kw['max_rep'] = 3
                if kw.get('unique', True) and 4 * int(m) > np.prod(n):
                    # The restarts may be needed (or even can not help), so
                    # keep their number small (the cost doubles each time):
                    kw['max_rep'] = 3
                S.append(('sample_square', dict(n=n, r=r, kind=kind,
                    tt_seed=100+k), m, SEEDS[k % len(SEEDS)], kw))
    # too many unique samples requested (restarts, then ValueError)
    for mr in [-1, 0, 2]:
        S.append(('sample_square', dict(n=[2, 2], r=[1, 2, 1], kind='normal',
            tt_seed=5), 5, ('int', 3), {'max_rep': mr}))
        S.append(('sample_square', dict(n=[2, 3], r=[1, 2, 1], kind='normal',
            tt_seed=5), 6, ('gen', 3), {'max_rep': mr, 'm_fact': 1}))
    # all of the entries may be needed (restart with larger m_fact)
    S.append(('sample_square', dict(n=[3, 3], r=[1, 3, 1], kind='pos',
        tt_seed=6), 9, ('int', 4), {'m_fact': 1, 'max_rep': 12}))
    S.append(('sample_square', dict(n=[3, 3], r=[1, 3, 1], kind='pos',
        tt_seed=6), 9, ('rs', 4), {'m_fact': 1, 'max_rep': 12}))
    # float_cf variants
    for k, n in enumerate([[3, 4], [4, 3, 5], [2, 3, 2, 4]]):
        for cf in [1, 2, 3, 2.0]:
            for unique in [True, False]:
                S.append(('sample_square', dict(n=n, r=rank_profiles(n)[2],
                    kind='normal', tt_seed=200+k), 4, ('int', k),
                    {'float_cf': cf, 'unique': unique}))
    # positional flags
    S.append(('sample_square_pos', dict(n=[3, 4, 2], r=[1, 2, 3, 1],
        kind='normal', tt_seed=9), 4, ('int', 2), {}))
    # edge cases outside the quantifier
    S.append(('sample_square', dict(n=[4], r=[1, 1], kind='normal',
        tt_seed=1), 2, ('int', 1), {}))
    S.append(('sample_square', dict(n=[3, 4], r=[1, 2, 1], kind='normal',
        tt_seed=1), 0, ('int', 1), {}))
    S.append(('sample_square', dict(n=[3, 4], r=[1, 2, 1], kind='normal',
        tt_seed=1), 0, ('int', 1), {'unique': False}))
    S.append(('sample_square', dict(n=[3, 4], r=[1, 2, 1], kind='normal',
        tt_seed=1), 3, ('none', None), {}))

    # ---- _sample_core_first (not changed; called by sample_square)
    for k in range(6):
        S.append(('_sample_core_first', (3 + k, 1 + k % 3), 1 + 2*k,
            ('gen', k), {}))

    # ---- sample_tt (not changed itself, but built upon sample_lhs)
    k = 0
    for n in [[2, 2], [5, 3], [3, 4, 5], [2, 3, 2, 4], [4], [6, 2, 3, 2, 5]]:
        for r in [1, 2, 4, 3.0]:
            k += 1
            S.append(('sample_tt', n, r, SEEDS[k % len(SEEDS)],
                {'as_arr': bool(k % 2)}))

    return S


# --------------------------------------------------------------------------
# Worker
# --------------------------------------------------------------------------


def pack(x):
    """Turn the value into a picklable, comparable description."""
    if isinstance(x, np.ndarray):
        return ('arr', str(x.dtype), x.shape, np.array(x))
    if isinstance(x, (tuple, list)):
        return (type(x).__name__, [pack(v) for v in x])
    if isinstance(x, np.generic):
        return ('np', str(x.dtype), x.item())
    return ('py', type(x).__name__, x)


def rand_state(seed):
    """The next draws of the generator object (None for int/None seeds)."""
    if isinstance(seed, np.random.Generator):
        return pack(seed.random(3))
    if isinstance(seed, np.random.RandomState):
        return pack(seed.random_sample(3))
    return None


def run_one(teneva, sc):
    name, a, m, seed_spec, kw = sc
    seed = make_seed(seed_spec)
    rec = {'name': name}
    args_after = None

    try:
        if name in ('sample', 'sample_square', 'sample_square_pos'):
            Y = make_tt(a['n'], a['r'], a['kind'], a['tt_seed'])
            Y0 = [G.copy(order='K') for G in Y]
            if name == 'sample':
                if 'unsert' in kw and a['kind'] == 'normal':
                    res = teneva.sample(Y, m, seed, kw['unsert'])
                else:
                    res = teneva.sample(Y, m, seed=seed, **kw)
            elif name == 'sample_square':
                res = teneva.sample_square(Y, m, seed=seed, **kw)
            else:
                res = teneva.sample_square(Y, m, False, seed, 3, 10, None)
            args_after = [pack(G) for G in Y]
            rec['args_same'] = len(Y) == len(Y0) and all(
                G.dtype == G0.dtype and G.shape == G0.shape and
                G.flags['F_CONTIGUOUS'] == G0.flags['F_CONTIGUOUS'] and
                np.array_equal(G, G0) for G, G0 in zip(Y, Y0))
        elif name == 'sample_lhs':
            n = np.array(a) if kw['as_arr'] else list(a)
            if kw['kw']:
                res = teneva.sample_lhs(n, m, seed=seed)
            else:
                res = teneva.sample_lhs(n, m, seed)
            args_after = pack(n)
        elif name == 'sample_tt':
            n = np.array(a) if kw['as_arr'] else list(a)
            res = teneva.sample_tt(n, m, seed)
            args_after = pack(n)
        elif name == '_sample_core_first':
            rng = np.random.default_rng(a[0] * 10 + a[1])
            Q = rng.normal(size=a)
            Q0 = Q.copy()
            I = np.arange(a[0]).reshape(-1, 1)
            res = teneva.sample._sample_core_first(Q, I, m, seed)
            args_after = [pack(Q), pack(I)]
            rec['args_same'] = np.array_equal(Q, Q0)
        else:
            raise RuntimeError('Unknown scenario ' + name)
        rec['ok'] = True
        rec['res'] = pack(res)
    except RecursionError:
        raise
    except Exception as e:
        rec['ok'] = False
        rec['res'] = (type(e).__name__, str(e))

    rec['args_after'] = args_after
    rec['rand_state'] = rand_state(seed)
    rec['random'] = seed_spec[0] == 'none'
    return rec


def worker(fpath):
    sys.path.insert(0, os.getcwd())
    import warnings
    warnings.simplefilter('ignore')
    import teneva
    import teneva.sample
    out = {'file': os.path.abspath(teneva.__file__), 'recs': []}
    for sc in scenarios():
        out['recs'].append(run_one(teneva, sc))
    with open(fpath, 'wb') as f:
        pickle.dump(out, f)


# --------------------------------------------------------------------------
# Comparison
# --------------------------------------------------------------------------


def same(a, b, exact=True):
    if type(a) is not type(b):
        return False
    if isinstance(a, tuple) and len(a) == 4 and a[0] == 'arr':
        if b[0] != 'arr' or a[1] != b[1] or a[2] != b[2]:
            return False
        if a[3].dtype.kind in 'iub' or exact:
            return np.array_equal(a[3], b[3], equal_nan=a[3].dtype.kind == 'f')
        return np.allclose(a[3], b[3], rtol=1.E-12, atol=1.E-14,
            equal_nan=True)
    if isinstance(a, (tuple, list)):
        return len(a) == len(b) and all(
            same(x, y, exact) for x, y in zip(a, b))
    if isinstance(a, float):
        return a == b or (a != a and b != b)
    return a == b


def shape_only(x):
    if isinstance(x, tuple) and len(x) == 4 and x[0] == 'arr':
        return x[:3]
    if isinstance(x, (tuple, list)):
        return [shape_only(v) for v in x]
    return x


def compare(A, B, S):
    bad = 0
    stat = {}
    n_exc = 0
    for sc, a, b in zip(S, A['recs'], B['recs']):
        name = sc[0]
        stat.setdefault(name, [0, 0])
        stat[name][0] += 1
        msgs = []
        if a['ok'] != b['ok']:
            msgs.append('one raised, the other did not')
        elif not a['ok']:
            n_exc += 1
            if a['res'] != b['res']:
                msgs.append('different exceptions')
        elif a['random']:
            if shape_only(a['res']) != shape_only(b['res']):
                msgs.append('different shape / dtype (random seed)')
        else:
            # Integer results must be identical; float ones (float_cf) are
            # compared with a tight tolerance:
            if not same(a['res'], b['res'], exact=False):
                msgs.append('different results')
        if not same(a['args_after'], b['args_after']):
            msgs.append('different arguments after the call')
        if a.get('args_same') != b.get('args_same'):
            msgs.append('different mutation behaviour')
        if a.get('args_same') is False:
            msgs.append('NOTE: original mutates its argument')
        if not same(a['rand_state'], b['rand_state']):
            msgs.append('different generator state after the call')
        if msgs:
            bad += 1
            stat[name][1] += 1
            print('MISMATCH', sc, msgs)
            print('   orig:', a['res'] if not a['ok'] else shape_only(a['res']))
            print('   new :', b['res'] if not b['ok'] else shape_only(b['res']))
    for name, (tot, nb) in stat.items():
        print('%-20s : %4d scenarios, %4d mismatches' % (name, tot, nb))
    print('scenarios raising the (same) exception in both:', n_exc)
    return bad


def main():
    S = scenarios()
    tmp = tempfile.mkdtemp(prefix='equiv_C14_')
    out = {}
    for tag, cwd in [('orig', DIR_ORIG), ('new', DIR_NEW)]:
        fpath = os.path.join(tmp, tag + '.pkl')
        env = dict(os.environ)
        env.pop('PYTHONPATH', None)
        env['PYTHONDONTWRITEBYTECODE'] = '1'
        res = subprocess.run([PYTHON, os.path.abspath(__file__), '--worker',
            fpath], cwd=cwd, env=env)
        if res.returncode != 0:
            print('Worker "%s" failed' % tag)
            return 1
        with open(fpath, 'rb') as f:
            out[tag] = pickle.load(f)
        print('%-4s package : %s' % (tag, out[tag]['file']))

    if not out['orig']['file'].startswith(DIR_ORIG + '/'):
        print('Wrong original package')
        return 1
    if not out['new']['file'].startswith(DIR_NEW + '/'):
        print('Wrong refactored package')
        return 1
    if len(out['orig']['recs']) != len(S) or len(out['new']['recs']) != len(S):
        print('Wrong number of records')
        return 1

    bad = compare(out['orig'], out['new'], S)
    print('TOTAL: %d scenarios, %d mismatches' % (len(S), bad))
    return 1 if bad else 0


if __name__ == '__main__':
    if len(sys.argv) == 3 and sys.argv[1] == '--worker':
        worker(sys.argv[2])
        sys.exit(0)
    sys.exit(main())
