"""Equivalence demonstration for the C18 twin C refactoring of teneva/grid.py.

Refactored anchors: grid_prep_opt, poi_scale, poi_to_ind.

The original (pristine `git archive HEAD`) package and the refactored package
are run in two subprocesses on the same deterministic list of scenarios; each
subprocess dumps the outcomes (values, dtypes, shapes, layout flags, raised
exceptions, emitted warnings, state of the arguments after the call) into a
pickle, and the parent process compares the two pickles.

Usage:  /venv/bin/python /tmp/twinsC/C18/equiv.py      (exit 0 = all equal)

"""
import os
import pickle
import subprocess
import sys
import tempfile


ROOT_ORIG = '/tmp/twinsC/C18/orig'
ROOT_TWIN = '/tmp/wt/C18'
PYTHON = '/venv/bin/python'


# ---------------------------------------------------------------------------
# Worker (runs inside one of the two package roots)
# ---------------------------------------------------------------------------


def _describe(v):
    """Turn a value into a picklable, exactly comparable description."""
    import numpy as np
    if isinstance(v, np.ndarray):
        return ('ndarray', type(v).__name__, str(v.dtype), v.shape,
            bool(v.flags['C_CONTIGUOUS']), bool(v.flags['F_CONTIGUOUS']),
            bool(v.flags['OWNDATA']), bool(v.flags['WRITEABLE']),
            np.array(v, copy=True, order='C', subok=False))
    if isinstance(v, np.generic):
        return ('npscalar', type(v).__name__, v.item() if v == v else 'nan')
    if isinstance(v, (list, tuple)):
        return (type(v).__name__, [_describe(x) for x in v])
    if isinstance(v, dict):
        return ('dict', [(k, _describe(x)) for k, x in v.items()])
    if v is None or isinstance(v, (bool, int, float, str)):
        return (type(v).__name__, repr(v))
    return ('object', type(v).__name__)


def _run(func, args, kwargs):
    import copy
    import warnings
    args = copy.deepcopy(args)
    kwargs = copy.deepcopy(kwargs)
    with warnings.catch_warnings(record=True) as wlist:
        warnings.simplefilter('always')
        try:
            res = func(*args, **kwargs)
            out = ('ok', _describe(res))
            # The result must not alias an argument in one version only:
            alias = []
            import numpy as np
            if isinstance(res, np.ndarray):
                for x in list(args) + list(kwargs.values()):
                    if isinstance(x, np.ndarray):
                        alias.append(bool(np.shares_memory(res, x)))
            out = out + (alias,)
        except Exception as e:
            ctx = e.__context__
            out = ('exc', type(e).__name__, str(e),
                type(ctx).__name__ if ctx is not None else None)
    warns = sorted((w.category.__name__, str(w.message)) for w in wlist)
    after = (_describe(list(args)), _describe(kwargs))
    return out, warns, after


def _scenarios():
    """Deterministic list of (name, function name, args, kwargs)."""
    import numpy as np
    S = []

    def add(name, fname, *args, **kwargs):
        S.append((name, fname, args, kwargs))

    # ----- grid_prep_opt -------------------------------------------------
    opts = [None, 0, 1, 3, -2, 2.7, -0.0, 1.E+300, float('inf'),
        float('nan'), True, np.float64(2.5), np.int64(4), np.float32(1.5),
        [1, 2, 3], [1.5, 2.5], (1, 2), [], [[1, 2], [3, 4]],
        np.array([1., 2., 3.]), np.array([1, 2, 3]), np.array([[1.5, 2.5]]),
        np.array([]), np.array(5.5), 'abc', [1, 'x'], 2**70, -2**63, 10**400]
    ds = [None, 0, -1, 1, 2, 5, 2.5, np.int64(3), 0.5, True]
    kinds = [float, int]
    repss = [None, 0, 1, 3, np.int64(2)]
    k = 0
    for opt in opts:
        for d in ds:
            for kind in kinds:
                for reps in repss:
                    k += 1
                    add(f'gpo-{k}', 'grid_prep_opt', opt, d, kind, reps)
    add('gpo-default-1', 'grid_prep_opt', 2.)
    add('gpo-default-2', 'grid_prep_opt', [1, 2])
    add('gpo-default-3', 'grid_prep_opt', 2., 3)
    add('gpo-kw-1', 'grid_prep_opt', opt=3, d=4, kind=int, reps=2)
    add('gpo-kw-2', 'grid_prep_opt', 3, d=4, reps=2)
    add('gpo-kw-3', 'grid_prep_opt', [3., 4.], kind=int)
    add('gpo-kind-bool', 'grid_prep_opt', 3, 2, bool)
    add('gpo-kind-f32', 'grid_prep_opt', 3.3, 2, np.float32, 2)
    add('gpo-kind-complex', 'grid_prep_opt', 3.3, 2, complex)

    # ----- grid_prep_opts (caller of grid_prep_opt) ------------------------
    vals_a = [None, -1., 0, [-1., -2.], np.array([0., 0., 0.]), [0.]]
    vals_b = [None, +1., 2, [1., 2.], np.array([1., 2., 3.]), [1., 2., 3., 4.]]
    vals_n = [None, 5, 4., [3, 4], np.array([5, 6, 7]), [2]]
    k = 0
    for a in vals_a:
        for b in vals_b:
            for n in vals_n:
                for d in [None, 1, 2, 3]:
                    for reps in [None, 2]:
                        k += 1
                        add(f'gpos-{k}', 'grid_prep_opts', a, b, n, d, reps)

    # ----- poi_scale / poi_to_ind / ind_to_poi -----------------------------
    rng = np.random.default_rng(20240918)
    kinds = ['uni', 'cheb', [0., 1.], [-3., 7.5], (2., -2.), [1., 1.],
        [-1.E+10, 1.E-10], 'foo', 'ab', '', None, 5, [1., 2., 3.], [1.],
        [], np.array([0., 1.]), np.str_('uni'), np.str_('cheb'), 'UNI',
        ['a', 'b'], [np.array([0., 0.]), np.array([1., 1.])]]

    def boxes(d):
        out = []
        out.append((-1., 1.))
        out.append((0, 1))
        out.append((1.E+6, 1.E+6 + 1.E-3))
        out.append((-1.E-12, 3.E-12))
        out.append((-1.E+150, 1.E+150))
        lo = rng.normal(size=d) * 10.**rng.integers(-5, 6, size=d)
        wd = np.abs(rng.normal(size=d)) * 10.**rng.integers(-5, 6, size=d)
        wd = wd + 1.E-300
        out.append((lo, lo + wd))
        out.append((list(lo), list(lo + wd)))
        out.append((float(lo[0]), lo + wd + abs(float(lo[0])) + np.abs(lo)))
        out.append((lo, float(np.max(lo + wd)) + 1.))
        return out

    def sizes(d):
        out = [2, 3, 7, 16., 101]
        out.append(rng.integers(2, 12, size=d))
        out.append([int(x) for x in rng.integers(2, 40, size=d)])
        return out

    k = 0
    for d in [1, 2, 3, 5]:
        for (a, b) in boxes(d):
            a_ = np.ones(d) * np.asarray(a, dtype=float)
            b_ = np.ones(d) * np.asarray(b, dtype=float)
            w_ = b_ - a_
            for m in [None, 0, 1, 4, 9]:
                shape = (d,) if m is None else (m, d)
                U = rng.uniform(-0.6, 1.6, size=shape)
                X = a_ + U * w_
                # exact boundary points, the centre and far points:
                if m is not None and m >= 4:
                    X[0] = a_
                    X[1] = b_
                    X[2] = (a_ + b_) / 2
                    X[3] = a_ - 1.E+3 * w_
                if m is not None and m >= 9:
                    X[4] = b_ + 1.E+3 * w_
                    X[5] = np.nextafter(a_, -np.inf)
                    X[6] = np.nextafter(b_, +np.inf)
                    X[7] = np.inf
                    X[8] = -np.inf
                for kind in kinds:
                    k += 1
                    add(f'ps-{k}', 'poi_scale', X, a, b, kind)
                    for n in sizes(d)[:3] if k % 3 else sizes(d):
                        add(f'pti-{k}-{n}', 'poi_to_ind', X, a, b, n, kind)
                # Variants of the way the arguments are passed:
                add(f'ps-{k}-list', 'poi_scale', X.tolist(), a, b)
                add(f'ps-{k}-kw', 'poi_scale', X=X, a=a, b=b, kind='cheb')
                add(f'pti-{k}-list', 'poi_to_ind', X.tolist(), a, b, 6)
                add(f'pti-{k}-kw', 'poi_to_ind', X=X, a=a, b=b, n=6,
                    kind='cheb')
                add(f'pti-{k}-def', 'poi_to_ind', X, a, b, 9)
                if m is not None and m > 0:
                    XF = np.asfortranarray(X)
                    add(f'ps-{k}-F', 'poi_scale', XF, a, b, 'cheb')
                    add(f'pti-{k}-F', 'poi_to_ind', XF, a, b, 8, 'uni')
                    add(f'pti-{k}-F2', 'poi_to_ind', XF, a, b, 8, 'cheb')
                    add(f'pti-{k}-f32', 'poi_to_ind', X.astype(np.float32),
                        a, b, 8, 'cheb')
                    add(f'pti-{k}-int', 'poi_to_ind', np.rint(U * 3).astype(int),
                        -1, 2, 8, 'uni')
                    Xn = X.copy()
                    Xn[0, 0] = np.nan
                    add(f'ps-{k}-nan', 'poi_scale', Xn, a, b, 'uni')
                    add(f'pti-{k}-nan', 'poi_to_ind', Xn, a, b, 8, 'uni')

    # Exhaustive round trip for all indices, n up to a bound:
    for kind in ['uni', 'cheb']:
        for n in range(2, 41):
            for (a, b) in [(-1., 1.), (0., 1.), (-3.7, 11.1), (1.E+5, 1.E+5+1),
                    (-2.E-7, -1.E-7)]:
                add(f'rt-{kind}-{n}-{a}', 'roundtrip', n, a, b, kind)

    # Inconsistent / degenerate inputs (same exceptions expected):
    X = rng.normal(size=(4, 3))
    add('bad-1', 'poi_scale', X, [0., 0.], 1., 'uni')
    add('bad-2', 'poi_scale', X, [0., 0., 0.], [1., 1.], 'uni')
    add('bad-3', 'poi_to_ind', X, 0., 1., [4, 4], 'uni')
    add('bad-4', 'poi_to_ind', X, 0., 1., [4, 4, 4, 4], 'cheb')
    add('bad-5', 'poi_to_ind', X, 0., 1., None, 'uni')
    add('bad-6', 'poi_to_ind', X, None, 1., 4, 'uni')
    add('bad-7', 'poi_scale', 1.5, 0., 1., 'uni')
    add('bad-8', 'poi_scale', np.array(1.5), 0., 1., 'uni')
    add('bad-9', 'poi_to_ind', 1.5, 0., 1., 4)
    add('bad-10', 'poi_scale', rng.normal(size=(2, 4, 3)), 0., 1., 'uni')
    add('bad-11', 'poi_to_ind', rng.normal(size=(2, 4, 3)), 0., 1., 5, 'uni')
    add('bad-12', 'poi_to_ind', rng.normal(size=(2, 2, 3)), 0., 1., 5, 'uni')
    add('bad-13', 'poi_to_ind', rng.normal(size=(3, 3, 3)), 0., 1., 5, 'cheb')
    add('bad-14', 'poi_to_ind', X, 0., 1., 1, 'uni')
    add('bad-15', 'poi_to_ind', X, 0., 1., 0, 'uni')
    add('bad-16', 'poi_to_ind', X, 0., 1., 1, 'cheb')
    add('bad-17', 'poi_to_ind', X, 1., 1., 5, 'uni')
    add('bad-18', 'poi_to_ind', X, 1., 0., 5, 'cheb')
    add('bad-19', 'poi_to_ind', X, 0., 1., 5, [0., 1.])
    add('bad-20', 'poi_to_ind', X, 0., 1., [4, 4], [0., 1.])
    add('bad-21', 'poi_scale', [], 0., 1., 'uni')
    add('bad-22', 'poi_to_ind', [], 0., 1., 4, 'uni')
    add('bad-23', 'poi_scale', [[]], 0., 1., 'uni')
    add('bad-24', 'poi_to_ind', X, 0., 1., 4.9, 'uni')
    add('bad-25', 'poi_to_ind', X, 0., 1., np.array([4.9, 5.1, 6.]), 'cheb')
    add('bad-26', 'poi_scale', X, 0., 1., [0., 1.])
    add('bad-27', 'poi_scale', X, 0., 1., [5, 2])
    add('bad-28', 'poi_scale', X, 0., 1., [0, 1])
    add('bad-29', 'poi_scale', np.matrix(X), 0., 1., 'uni')
    add('bad-30', 'poi_to_ind', np.matrix(X), 0., 1., 5, 'cheb')

    # Other callers of grid_prep_opt inside the package:
    for q in [1, 2, 3]:
        I = rng.integers(0, 2**q, size=(5, 3))
        add(f'qtt-a-{q}', 'ind_tt_to_qtt', I, 2**q)
        add(f'qtt-b-{q}', 'ind_tt_to_qtt', I[0], 2**q)
        add(f'qtt-c-{q}', 'ind_tt_to_qtt', I.tolist(), 2**q)
        J = rng.integers(0, 2, size=(5, 3*q))
        add(f'qtt-d-{q}', 'ind_qtt_to_tt', J, q)
        add(f'qtt-e-{q}', 'ind_qtt_to_tt', J[0].tolist(), q)
    for d in [1, 2, 4]:
        n = [int(x) for x in rng.integers(2, 6, size=d)]
        Ig = rng.integers(0, 2, size=(6, d))
        add(f'itp-{d}-1', 'ind_to_poi', Ig, -1., 1., n, 'uni')
        add(f'itp-{d}-2', 'ind_to_poi', Ig, -1., [2.]*d, 5, 'cheb')
        add(f'itp-{d}-3', 'ind_to_poi', Ig[0], [-3.]*d, 1., n, 'cheb')
        add(f'itp-{d}-4', 'ind_to_poi', Ig[0], -1., 1., n, 'bad')

    return S


def _roundtrip(teneva, n, a, b, kind):
    import numpy as np
    I = np.arange(n).reshape(-1, 1)
    X = teneva.ind_to_poi(I, a, b, n, kind)
    J = teneva.poi_to_ind(X, a, b, n, kind)
    # also single points, per-dimension options and two dimensions at once:
    J1 = np.array([teneva.poi_to_ind(x, [a], [b], [n], kind) for x in X])
    X2 = np.hstack([X, X[::-1]])
    J2 = teneva.poi_to_ind(X2, [a, a], b, np.array([n, n]), kind)
    S = teneva.poi_scale(X2, a, [b, b], kind)
    return [X, J, J1, J2, S]


def worker(fpath):
    root = os.getcwd()
    sys.path.insert(0, root)
    import numpy as np
    import teneva
    assert os.path.dirname(os.path.dirname(os.path.abspath(
        teneva.__file__))) == os.path.abspath(root), teneva.__file__

    res = {}
    for name, fname, args, kwargs in _scenarios():
        if fname == 'roundtrip':
            func = lambda *args: _roundtrip(teneva, *args)
        else:
            func = getattr(teneva, fname)
        with np.errstate(all='warn'):
            res[name] = (fname,) + _run(func, args, kwargs)

    with open(fpath, 'wb') as f:
        pickle.dump({'file': teneva.__file__, 'res': res}, f)


# ---------------------------------------------------------------------------
# Parent (compares the two pickles)
# ---------------------------------------------------------------------------


def _same(x, y, path, errs):
    import numpy as np
    if isinstance(x, np.ndarray) or isinstance(y, np.ndarray):
        ok = isinstance(x, np.ndarray) and isinstance(y, np.ndarray)
        ok = ok and x.dtype == y.dtype and x.shape == y.shape
        if ok and x.dtype.kind == 'O':
            ok = repr(x.tolist()) == repr(y.tolist())
        elif ok and x.dtype.kind in 'fc':
            ok = np.allclose(x, y, rtol=1.E-14, atol=0., equal_nan=True)
            # In fact the operations are the same, hence demand bit equality:
            ok = ok and x.tobytes() == y.tobytes()
        elif ok:
            ok = bool(np.array_equal(x, y)) and x.tobytes() == y.tobytes()
        if not ok:
            errs.append(path)
        return
    if type(x) != type(y):
        errs.append(path)
        return
    if isinstance(x, (list, tuple)):
        if len(x) != len(y):
            errs.append(path)
            return
        for i, (p, q) in enumerate(zip(x, y)):
            _same(p, q, path + f'[{i}]', errs)
        return
    if x != y:
        errs.append(path)


def main():
    tmp = tempfile.mkdtemp(prefix='equiv_C18_')
    files = {}
    for tag, root in [('orig', ROOT_ORIG), ('twin', ROOT_TWIN)]:
        fpath = os.path.join(tmp, f'{tag}.pkl')
        env = dict(os.environ)
        env.pop('PYTHONPATH', None)
        env['PYTHONDONTWRITEBYTECODE'] = '1'
        p = subprocess.run([PYTHON, '-W', 'ignore::SyntaxWarning',
            os.path.abspath(__file__), '--worker', fpath], cwd=root, env=env)
        if p.returncode != 0:
            print(f'FAIL: worker "{tag}" exited with {p.returncode}')
            return 1
        with open(fpath, 'rb') as f:
            files[tag] = pickle.load(f)

    fo, ft = files['orig']['file'], files['twin']['file']
    print(f'original  package: {fo}')
    print(f'refactored package: {ft}')
    if fo == ft or not fo.startswith(ROOT_ORIG) or not ft.startswith(ROOT_TWIN):
        print('FAIL: the packages were not loaded from the expected roots')
        return 1

    ro, rt = files['orig']['res'], files['twin']['res']
    if list(ro.keys()) != list(rt.keys()):
        print('FAIL: scenario lists differ')
        return 1

    bad = []
    stat = {}
    for name in ro:
        errs = []
        _same(ro[name], rt[name], name, errs)
        fname, out = ro[name][0], ro[name][1]
        s = stat.setdefault(fname, {'ok': 0, 'exc': 0, 'diff': 0})
        s[out[0]] += 1
        if errs:
            s['diff'] += 1
            bad.append((name, errs[:3], ro[name][1][:3], rt[name][1][:3]))

    for fname, s in stat.items():
        print(f'{fname:16s}: {s["ok"]:6d} returned, {s["exc"]:5d} raised, '
            f'{s["diff"]:3d} DIFFERENT')
    print(f'scenarios: {len(ro)}, different: {len(bad)}')
    for item in bad[:20]:
        print('DIFF', item)
    if bad:
        print('FAIL')
        return 1
    print('OK: the original and the refactored package agree on all scenarios')
    return 0


if __name__ == '__main__':
    if len(sys.argv) == 3 and sys.argv[1] == '--worker':
        worker(sys.argv[2])
        sys.exit(0)
    sys.exit(main())
