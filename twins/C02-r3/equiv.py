#!/venv/bin/python
"""Equivalence demonstration for the C02 twin (truncate / matrix_skeleton / add_many).

The same deterministic list of scenarios is run in two subprocesses, one with
the pristine package (/tmp/twinsC/C02/orig) and one with the refactored package
(/tmp/wt/C02). Every scenario records the returned arrays (dtype, shape, memory
layout flags, raw bytes), the raised exception (type and message), the emitted
warnings, whether the arguments were modified and whether the result shares
memory with the arguments. The two records are then compared.

Exit code 0: everything agrees, 1: otherwise. With "--strict" a difference in
the raw bytes (i.e., anything which is not bit-for-bit equal) is also a failure.
"""
import copy
import os
import pickle
import subprocess
import sys
import tempfile
import warnings

import numpy as np


ROOT_ORIG = '/tmp/twinsC/C02/orig'
ROOT_TWIN = os.environ.get('EQUIV_TWIN_ROOT', '/tmp/wt/C02')  # override: self-check only
PYTHON = '/venv/bin/python'


# --------------------------------------------------------------------------
# Scenario generation (numpy only, independent of the package under test)
# --------------------------------------------------------------------------


def tt_rand(rng, n, r, scale=1., dtype=float):
    """Random TT-tensor with mode sizes n and ranks r (len(r) = len(n) + 1)."""
    Y = []
    for k in range(len(n)):
        G = rng.standard_normal((r[k], n[k], r[k+1])) * scale
        Y.append(G.astype(dtype))
    return Y


def tt_spectrum(rng, n, q, decay):
    """TT-tensor with orthonormal-ish cores and a decaying weight spectrum."""
    d = len(n)
    r = [1] + [q] * (d - 1) + [1]
    Y = tt_rand(rng, n, r)
    w = decay ** np.arange(q)
    for k in range(d - 1):
        Y[k] = Y[k] * w[None, None, :]
    return Y


def tt_full(Y):
    Z = Y[0]
    for G in Y[1:]:
        Z = np.tensordot(Z, G, axes=(-1, 0))
    return Z[0, ..., 0]


def thresholds(Y):
    """Values of e just above / below every rank-changing threshold."""
    F = tt_full(Y)
    nrm = np.linalg.norm(F)
    d = F.ndim
    if not nrm > 0 or d < 2:
        return []
    res = []
    for k in range(1, d):
        M = F.reshape(int(np.prod(F.shape[:k])), -1)
        s = np.linalg.svd(M, compute_uv=False)
        tails = np.sqrt(np.cumsum(s[::-1]**2))
        for t in tails[:-1]:
            e0 = t / nrm * np.sqrt(d - 1)
            if 1.E-14 < e0 < 1.:
                for f in (1 - 1.E-7, 1 - 1.E-12, 1., 1 + 1.E-12, 1 + 1.E-7):
                    if 0 < e0 * f < 1:
                        res.append(float(e0 * f))
    return res


def scenarios():
    rng = np.random.default_rng(20240202)
    out = []

    # ---- matrix_skeleton -------------------------------------------------
    mats = []
    for (m, n) in [(1, 1), (1, 5), (5, 1), (3, 3), (4, 7), (7, 4), (6, 6),
                   (12, 5), (5, 12), (20, 20)]:
        mats.append(rng.standard_normal((m, n)))
    for (m, n, q) in [(6, 8, 2), (8, 6, 1), (9, 9, 3), (15, 4, 2)]:
        mats.append(rng.standard_normal((m, q)) @ rng.standard_normal((q, n)))
    U0, _ = np.linalg.qr(rng.standard_normal((8, 8)))
    V0, _ = np.linalg.qr(rng.standard_normal((8, 8)))
    for dec in (0.5, 0.1, 1.E-3):
        mats.append((U0 * dec**np.arange(8)) @ V0.T)
    mats.append((U0 * np.array([3., 3., 3., 1., 1., 1., 1.E-9, 0.])) @ V0.T)
    mats.append(np.zeros((4, 5)))
    mats.append(np.ones((5, 4)))
    mats.append(rng.standard_normal((5, 6)) * 1.E-150)
    mats.append(rng.standard_normal((6, 5)) * 1.E+150)
    mats.append(rng.integers(-3, 4, size=(5, 5)))
    mats.append(np.asfortranarray(rng.standard_normal((6, 9))))
    mats.append(rng.standard_normal((6, 9)).astype(np.float32))

    for ia, A in enumerate(mats):
        s = np.linalg.svd(np.asarray(A, dtype=float), compute_uv=False)
        tails = np.sqrt(np.cumsum(s[::-1]**2))
        es = [1.E-10, 1.E-2, 0.5, 0.999, 0., 1.E+3]
        for t in tails:
            if t > 0 and np.isfinite(t):
                es += [float(t * f) for f in (1 - 1.E-9, 1., 1 + 1.E-9)]
        for e in es:
            for r in (1.E+12, 1, 2, 3, 0.5, 0):
                for give_to in ('l', 'r', 'm'):
                    out.append(('skel', dict(A=A, e=e, r=r, give_to=give_to)))
        for rel in (True, False):
            for give_to in ('l', 'r', 'm', 'x', None, 'L'):
                for e in (1.E-10, 0.1, 0.5, 0.9):
                    out.append(('skel', dict(A=A, e=e, r=4, rel=rel,
                                             give_to=give_to)))
        out.append(('skel_default', dict(A=A)))
        out.append(('skel_pos', dict(A=A, args=(0.3, 2, False, True, 'r'))))
    for n in (2, 5, 9):
        B = rng.standard_normal((n, n))
        B = B + B.T
        for e in (1.E-10, 0.5, 2.):
            for give_to in ('l', 'r', 'm'):
                for rel in (False, True):
                    out.append(('skel', dict(A=B, e=e, r=1.E+12, rel=rel,
                                             hermitian=True, give_to=give_to)))
    # exceptions / degenerate inputs
    bad = [np.zeros((0, 3)), np.zeros((3, 0)), np.arange(4.),
           np.full((3, 3), np.nan), np.full((3, 3), np.inf),
           [[1., 2.], [3., 4.]], rng.standard_normal((2, 3, 4)), None]
    for A in bad:
        for rel in (False, True):
            for give_to in ('l', 'm'):
                out.append(('skel', dict(A=A, e=0.1, r=2, rel=rel,
                                         give_to=give_to)))
    out.append(('skel', dict(A=mats[3], e=0.1, r=None)))
    out.append(('skel', dict(A=mats[3], e=None, r=2)))
    out.append(('skel', dict(A=mats[3], e=0.1, r=np.inf)))
    out.append(('skel', dict(A=mats[3], e=0.1, r=np.nan)))
    out.append(('skel', dict(A=mats[3], e=np.float64(0.1), r=np.int64(2))))

    # ---- truncate ---------------------------------------------------------
    tts = []
    tts.append(tt_rand(rng, [4, 5], [1, 3, 1]))
    tts.append(tt_rand(rng, [4, 5], [1, 1, 1]))
    tts.append(tt_rand(rng, [3, 3], [1, 7, 1]))                # over-ranked
    tts.append(tt_rand(rng, [3, 4, 5], [1, 2, 3, 1]))
    tts.append(tt_rand(rng, [2, 2, 2, 2], [1, 5, 9, 5, 1]))    # over-ranked
    tts.append(tt_rand(rng, [5, 1, 4, 1], [1, 3, 3, 2, 1]))    # unit modes
    tts.append(tt_rand(rng, [3, 4, 3, 4, 3], [1, 1, 1, 1, 1, 1]))
    tts.append(tt_rand(rng, [3, 4, 3, 4, 3], [1, 4, 1, 4, 2, 1]))
    tts.append(tt_rand(rng, [2, 3, 2, 3, 2, 3], [1, 2, 6, 8, 6, 3, 1]))
    tts.append(tt_spectrum(rng, [6, 6, 6], 5, 0.3))
    tts.append(tt_spectrum(rng, [5, 4, 5, 4], 4, 0.05))
    tts.append(tt_spectrum(rng, [7, 7], 6, 1.E-2))
    tts.append(tt_rand(rng, [4, 4, 4], [1, 3, 3, 1], scale=1.E-60))
    tts.append(tt_rand(rng, [4, 4, 4], [1, 3, 3, 1], scale=1.E+60))
    tts.append(tt_rand(rng, [3, 3, 3, 3], [1, 2, 2, 2, 1], scale=1.E-90))
    Y = tt_rand(rng, [4, 3, 4], [1, 3, 3, 1])
    Y[1] = Y[1] * 0.
    tts.append(Y)                                              # zero tensor
    # sum of a tensor with itself (duplicated ranks, exactly rank deficient)
    Y = tt_rand(rng, [3, 4, 5], [1, 2, 2, 1])
    M = np.zeros((4, 4, 4))
    M[:2, :, :2] = Y[1]
    M[2:, :, 2:] = Y[1]
    tts.append([np.concatenate([Y[0], Y[0]], axis=2), M,
                np.concatenate([Y[2], Y[2]], axis=0)])
    tts.append([np.asfortranarray(G)
                for G in tt_rand(rng, [3, 4, 5], [1, 4, 4, 1])])
    tts.append(tt_rand(rng, [3, 4, 3], [1, 3, 3, 1], dtype=np.float32))
    tts.append([rng.integers(-2, 3, size=s).astype(int)
                for s in [(1, 3, 2), (2, 3, 2), (2, 3, 1)]])

    flags = [(o, s, g) for o in (True, False) for s in (False, True)
             for g in (True, False)]
    for it, Y in enumerate(tts):
        es = [1.E-10, 1.E-4, 0.1, 0.5, 0.99]
        if Y[0].dtype == float and tt_full(Y).size <= 4000:
            th = thresholds(Y)
            es += th[:40]
        for e in es:
            for r in (1.E+12, 1, 2, 3):
                for (o, s, g) in flags:
                    out.append(('trunc', dict(Y=Y, e=e, r=r, orth=o,
                                              use_stab=s, is_eigh=g)))
        out.append(('trunc_default', dict(Y=Y)))
        out.append(('trunc_pos', dict(Y=Y, args=(0.2, 2, True, True, False))))
        out.append(('trunc', dict(Y=Y, e=0.1, r=0.5, orth=True,
                                  use_stab=1, is_eigh=0)))
        out.append(('trunc', dict(Y=Y, e=np.float64(0.1), r=np.int64(2),
                                  orth=np.bool_(True), use_stab=np.bool_(True),
                                  is_eigh=np.bool_(False))))
    # degenerate / exceptional inputs
    Y1 = [rng.standard_normal((1, 5, 1))]
    Y1i = [rng.integers(-2, 3, size=(1, 5, 1))]
    Ybad = tt_rand(rng, [3, 3, 3], [1, 2, 2, 1])
    Ybad[1] = rng.standard_normal((3, 3, 2))                    # rank mismatch
    Ynan = tt_rand(rng, [3, 3, 3], [1, 2, 2, 1])
    Ynan[1][0, 0, 0] = np.nan
    Y2d = [rng.standard_normal((3, 2)), rng.standard_normal((2, 3))]
    for Yb in (Y1, Y1i, [], Ybad, Ynan, Y2d, None, 3.5,
               np.asarray(rng.standard_normal((3, 1, 4, 1)))):
        for (o, s, g) in flags:
            out.append(('trunc', dict(Y=Yb, e=0.1, r=2, orth=o, use_stab=s,
                                      is_eigh=g)))
    for (o, s, g) in flags:
        out.append(('trunc', dict(Y=tts[3], e=0.1, r=None, orth=o,
                                  use_stab=s, is_eigh=g)))
        out.append(('trunc', dict(Y=tts[3], e=None, r=2, orth=o,
                                  use_stab=s, is_eigh=g)))
        out.append(('trunc', dict(Y=tts[3], e=0., r=2, orth=o,
                                  use_stab=s, is_eigh=g)))
        out.append(('trunc', dict(Y=tts[3], e=5., r=1.E+12, orth=o,
                                  use_stab=s, is_eigh=g)))

    # ---- add_many ----------------------------------------------------------
    def family(n, q, m, scale=1.):
        r = [1] + [q] * (len(n) - 1) + [1]
        return [tt_rand(rng, n, r, scale=scale) for _ in range(m)]

    fams = [family([3, 4, 3], 1, 7), family([4, 4], 2, 5),
            family([2, 3, 2, 3], 2, 9), family([3, 3, 3], 1, 17),
            family([5, 4, 3], 2, 4, scale=1.E-40), family([3, 3], 1, 1)]
    F = family([3, 4, 3], 2, 6)
    fams.append([F[0], 2, F[1], 0.5, F[2], F[3], -1, F[4], F[5]])
    fams.append([1, 2.5, F[0], F[1], F[2]])
    fams.append([1, 2, 3.5, -4])
    fams.append([7])
    fams.append([F[0], F[0], F[0], F[0]])                      # same object
    fams.append(tuple(F[:4]))
    G0 = family([3, 4, 3], 1, 3)
    fams.append([G0[0], [-G for G in G0[0][:1]] + G0[0][1:], G0[1]])  # cancel
    for Ym in fams:
        for freq in (15, 1, 2, 3, 4, 100):
            for e in (1.E-10, 1.E-3, 0.3):
                for r in (1.E+12, 1, 2):
                    out.append(('add', dict(Y_many=Ym, e=e, r=r,
                                            trunc_freq=freq)))
        out.append(('add_default', dict(Y_many=Ym)))
        out.append(('add_pos', dict(Y_many=Ym, args=(0.1, 2, 2))))
        for freq in (0, -2, 2.5, None, True):
            out.append(('add', dict(Y_many=Ym, e=0.1, r=2, trunc_freq=freq)))
    out.append(('add', dict(Y_many=[], e=0.1, r=2, trunc_freq=2)))
    out.append(('add', dict(Y_many=None, e=0.1, r=2, trunc_freq=2)))
    out.append(('add', dict(Y_many=[F[0], fams[1][0]], e=0.1, r=2,
                            trunc_freq=1)))                    # shape mismatch
    out.append(('add', dict(Y_many=[F[0], None, F[1]], e=0.1, r=2,
                            trunc_freq=1)))
    out.append(('add', dict(Y_many=[F[0], F[1], F[2]], e=None, r=2,
                            trunc_freq=5)))
    out.append(('add', dict(Y_many=[F[0], F[1], F[2]], e=0.1, r=None,
                            trunc_freq=5)))
    return out


# --------------------------------------------------------------------------
# Worker: run the scenarios with the package found in the current directory
# --------------------------------------------------------------------------


def encode(x):
    if isinstance(x, np.ndarray):
        return ('nd', str(x.dtype), x.shape, bool(x.flags['C_CONTIGUOUS']),
                bool(x.flags['F_CONTIGUOUS']), bool(x.flags['WRITEABLE']),
                np.ascontiguousarray(x).tobytes())
    if isinstance(x, (list, tuple)):
        return (type(x).__name__, [encode(v) for v in x])
    if isinstance(x, np.generic):
        return ('np', type(x).__name__, x.tobytes())
    return ('py', type(x).__name__, repr(x))


def arrays_of(x):
    if isinstance(x, np.ndarray):
        return [x]
    if isinstance(x, (list, tuple)):
        return [a for v in x for a in arrays_of(v)]
    return []


def worker(fpath):
    root = os.getcwd()
    sys.path.insert(0, root)
    import teneva
    assert os.path.dirname(os.path.abspath(teneva.__file__)) == \
        os.path.join(root, 'teneva'), teneva.__file__

    funcs = {
        'skel': lambda kw: teneva.matrix_skeleton(**kw),
        'skel_default': lambda kw: teneva.matrix_skeleton(kw['A']),
        'skel_pos': lambda kw: teneva.matrix_skeleton(kw['A'], *kw['args']),
        'trunc': lambda kw: teneva.truncate(**kw),
        'trunc_default': lambda kw: teneva.truncate(kw['Y']),
        'trunc_pos': lambda kw: teneva.truncate(kw['Y'], *kw['args']),
        'add': lambda kw: teneva.add_many(**kw),
        'add_default': lambda kw: teneva.add_many(kw['Y_many']),
        'add_pos': lambda kw: teneva.add_many(kw['Y_many'], *kw['args']),
    }

    records = []
    for kind, kw in scenarios():
        before = encode(list(kw.values()))
        kw_run = copy.deepcopy(kw)
        # The same-object structure (e.g., the same tensor several times in
        # Y_many) is preserved by deepcopy within one call.
        rec = {'kind': kind}
        with warnings.catch_warnings(record=True) as wlist:
            warnings.simplefilter('always')
            np.random.seed(12345)
            try:
                res = funcs[kind](kw_run)
                rec['res'] = encode(res)
                rec['exc'] = None
                arg_arrays = arrays_of(list(kw_run.values()))
                rec['shares'] = any(np.shares_memory(a, b)
                                    for a in arrays_of(res)
                                    for b in arg_arrays)
                rec['same_obj'] = any(res is v for v in kw_run.values()
                                      if isinstance(v, (list, np.ndarray)))
            except Exception as exc:
                rec['res'] = None
                rec['exc'] = (type(exc).__name__, str(exc))
                rec['shares'] = None
                rec['same_obj'] = None
            rec['rand'] = float(np.random.rand())   # global random state
        rec['warn'] = sorted(set((w.category.__name__, str(w.message))
                                 for w in wlist))
        rec['mutated'] = encode(list(kw_run.values())) != before
        rec['args_after'] = encode(list(kw_run.values()))
        records.append(rec)

    with open(fpath, 'wb') as f:
        pickle.dump(records, f)


# --------------------------------------------------------------------------
# Comparison
# --------------------------------------------------------------------------


def decode_nd(t):
    _, dtype, shape, c, f, w, raw = t
    return np.frombuffer(raw, dtype=dtype).reshape(shape)


def compare(a, b, path, problems, stats):
    if a[0] != b[0]:
        problems.append('%s: kind %s != %s' % (path, a[0], b[0]))
        return
    if a[0] == 'nd':
        if a[1:6] != b[1:6]:
            problems.append('%s: dtype/shape/flags %s != %s' % (
                path, a[1:6], b[1:6]))
            return
        stats['arrays'] += 1
        if a[6] == b[6]:
            stats['bitwise'] += 1
            return
        x, y = decode_nd(a), decode_nd(b)
        scale = np.max(np.abs(x[np.isfinite(x)])) if np.isfinite(x).any() \
            else 0.
        if not np.allclose(x, y, rtol=1.E-12, atol=1.E-13 * scale,
                           equal_nan=True):
            problems.append('%s: values differ (max abs diff %.3e)' % (
                path, np.nanmax(np.abs(x - y))))
        return
    if a[0] in ('list', 'tuple'):
        if len(a[1]) != len(b[1]):
            problems.append('%s: length %d != %d' % (
                path, len(a[1]), len(b[1])))
            return
        for i, (u, v) in enumerate(zip(a[1], b[1])):
            compare(u, v, '%s[%d]' % (path, i), problems, stats)
        return
    if a != b:
        problems.append('%s: %r != %r' % (path, a, b))


def main():
    strict = '--strict' in sys.argv
    tmp = tempfile.mkdtemp(prefix='equiv_C02_')
    files = {}
    for name, root in (('orig', ROOT_ORIG), ('twin', ROOT_TWIN)):
        files[name] = os.path.join(tmp, name + '.pkl')
        env = dict(os.environ)
        env.pop('PYTHONPATH', None)
        env['PYTHONDONTWRITEBYTECODE'] = '1'
        res = subprocess.run(
            [PYTHON, os.path.abspath(__file__), '--worker', files[name]],
            cwd=root, env=env)
        if res.returncode != 0:
            print('worker "%s" failed' % name)
            return 1

    with open(files['orig'], 'rb') as f:
        R1 = pickle.load(f)
    with open(files['twin'], 'rb') as f:
        R2 = pickle.load(f)

    problems = []
    stats = {'arrays': 0, 'bitwise': 0}
    if len(R1) != len(R2):
        problems.append('number of scenarios %d != %d' % (len(R1), len(R2)))
    n_exc = n_mut = n_warn = 0
    kinds = {}
    for i, (a, b) in enumerate(zip(R1, R2)):
        tag = '#%d(%s)' % (i, a['kind'])
        kinds[a['kind']] = kinds.get(a['kind'], 0) + 1
        if a['exc'] != b['exc']:
            problems.append('%s: exception %r != %r' % (tag, a['exc'],
                                                        b['exc']))
            continue
        n_exc += a['exc'] is not None
        n_mut += bool(a['mutated'])
        n_warn += len(a['warn']) > 0
        for key in ('warn', 'mutated', 'shares', 'same_obj', 'rand'):
            if a[key] != b[key]:
                problems.append('%s: %s %r != %r' % (tag, key, a[key],
                                                     b[key]))
        compare(a['args_after'], b['args_after'], tag + '.args', problems,
                stats)
        if a['res'] is not None:
            compare(a['res'], b['res'], tag + '.res', problems, stats)

    print('scenarios: %d %s' % (len(R1), kinds))
    print('  with exceptions (equal in both): %d' % n_exc)
    print('  with warnings   (equal in both): %d' % n_warn)
    print('  with modified arguments        : %d' % n_mut)
    print('arrays compared: %d, bit-for-bit equal: %d' % (
        stats['arrays'], stats['bitwise']))
    if strict and stats['arrays'] != stats['bitwise']:
        problems.append('strict mode: %d arrays are not bit-for-bit equal' % (
            stats['arrays'] - stats['bitwise']))
    if problems:
        print('DIFFERENCES (%d):' % len(problems))
        for p in problems[:50]:
            print('  ' + p)
        return 1
    print('EQUIVALENT')
    return 0


if __name__ == '__main__':
    if len(sys.argv) >= 3 and sys.argv[1] == '--worker':
        worker(sys.argv[2])
        sys.exit(0)
    sys.exit(main())
