"""Equivalence demonstration for the C20 twin (get / sample_tt / svd_incomplete).

The same deterministic list of scenarios is run in two subprocesses, one that
imports the pristine package (cwd = /tmp/twinsB/C20/orig) and one that imports
the refactored package (cwd = /tmp/wt/C20). Each dumps its results to a pickle;
the two pickles are then compared (types, shapes, dtypes, memory layout flags,
values with a tight tolerance, exception types, mutation of the arguments, state
of the random generator after the call).

Exit code: 0 if everything agrees, 1 otherwise.
"""
import os
import pickle
import subprocess
import sys
import tempfile


ROOT_ORIG = '/tmp/twinsB/C20/orig'
ROOT_TWIN = '/tmp/wt/C20'
PYTHON = '/venv/bin/python'


# ---------------------------------------------------------------------------
# Worker part (runs inside one of the two trees)
# ---------------------------------------------------------------------------


def _run(func):
    """Run the scenario and pack either its result or its exception."""
    try:
        return ('ok', func())
    except Exception as exc:
        return ('exc', type(exc).__name__, str(exc))


def _tt_rand(np, rng, n, ranks, r_first=1):
    """Random TT-tensor with continuous (normal) cores; ranks has len d-1."""
    d = len(n)
    rr = [r_first] + list(ranks) + [1]
    return [rng.normal(size=(rr[k], n[k], rr[k+1])) for k in range(d)]


def _snapshot(np, obj):
    if isinstance(obj, np.ndarray):
        return obj.copy()
    if isinstance(obj, (list, tuple)):
        return type(obj)(_snapshot(np, o) for o in obj)
    return obj


def _same(np, a, b):
    if isinstance(a, np.ndarray):
        return (isinstance(b, np.ndarray) and a.shape == b.shape
            and a.dtype == b.dtype and np.array_equal(a, b))
    if isinstance(a, (list, tuple)):
        return (type(a) is type(b) and len(a) == len(b)
            and all(_same(np, x, y) for x, y in zip(a, b)))
    return a == b


def _describe(np, obj):
    """Add the layout information to the arrays of the result."""
    if isinstance(obj, np.ndarray):
        return {'__arr__': obj, 'c': bool(obj.flags['C_CONTIGUOUS']),
            'f': bool(obj.flags['F_CONTIGUOUS']), 'cls': type(obj).__name__}
    if isinstance(obj, (list, tuple)):
        return {'__seq__': type(obj).__name__,
            'items': [_describe(np, o) for o in obj]}
    if isinstance(obj, dict):
        return {k: _describe(np, v) for k, v in obj.items()}
    if isinstance(obj, np.generic):
        return {'__scalar__': obj.item(), 'dtype': str(obj.dtype)}
    return obj


def scenarios_get(np, teneva):
    res = {}
    rng = np.random.default_rng(12345)

    configs = [
        # (shape, inner ranks, rank of the left boundary)
        ([5], [], 1),
        ([4, 6], [1], 1),
        ([4, 6], [3], 1),
        ([3, 3], [7], 1),                 # over-ranked
        ([5, 4, 6], [1, 1], 1),           # rank 1
        ([5, 4, 6], [2, 3], 1),
        ([2, 2, 2], [5, 6], 1),           # over-ranked
        ([3, 4, 5, 6], [2, 4, 3], 1),
        ([3, 4, 5, 6], [3, 12, 6], 1),    # maximal ranks
        ([4, 3, 2, 3, 4], [2, 2, 2, 2], 1),
        ([3, 2, 3, 2, 3, 2], [1, 3, 1, 2, 4], 1),
        ([4, 5, 3], [2, 3], 2),           # first core with r0 = 2
        ([4, 5], [3], 3),
    ]
    for c, (n, ranks, r_first) in enumerate(configs):
        Y = _tt_rand(np, rng, n, ranks, r_first)
        d = len(n)
        for s in range(6):
            i = [int(rng.integers(k)) for k in n]
            for to_item in (True, False, 1, 0):
                for kind in ('list', 'array', 'tuple', 'int32', 'float'):
                    if kind == 'list':
                        arg = list(i)
                    elif kind == 'array':
                        arg = np.array(i)
                    elif kind == 'tuple':
                        arg = tuple(i)
                    elif kind == 'int32':
                        arg = np.array(i, dtype=np.int32)
                    else:
                        arg = np.array(i, dtype=float)
                    Y_in = [G.copy() for G in Y]
                    arg_in = _snapshot(np, arg)
                    out = _run(lambda: teneva.get(Y_in, arg_in,
                        _to_item=to_item))
                    key = ('get', c, s, repr(to_item), kind)
                    res[key] = (out, _same(np, Y_in, Y), _same(np, arg_in, arg))

            # Partial evaluation on the leading cores (as svd_incomplete does):
            for k in range(1, d + 1):
                out = _run(lambda: teneva.get(Y[:k], np.array(i[:k]),
                    _to_item=False))
                res[('get-prefix', c, s, k)] = out
                out = _run(lambda: teneva.get(Y[:k], np.array(i[:k]),
                    _to_item=False)[0])
                res[('get-prefix0', c, s, k)] = out

            # Index that is longer / shorter than the tensor, or out of range:
            res[('get-long', c, s)] = _run(lambda: teneva.get(Y, i + [0, 1]))
            res[('get-long-f', c, s)] = _run(lambda: teneva.get(Y, i + [0],
                _to_item=False))
            res[('get-short', c, s)] = _run(lambda: teneva.get(Y, i[:-1]))
            res[('get-short-f', c, s)] = _run(lambda: teneva.get(Y, i[:-1],
                _to_item=False))
            bad = list(i)
            bad[-1] = n[-1]
            res[('get-oob', c, s)] = _run(lambda: teneva.get(Y, bad))
            neg = list(i)
            neg[0] = -1
            res[('get-neg', c, s)] = _run(lambda: teneva.get(Y, neg))

        # Batch of multi-indices (dispatch to get_many):
        I = np.array([[int(rng.integers(k)) for k in n] for _ in range(7)])
        for to_item in (True, False):
            res[('get-batch', c, to_item)] = _run(lambda: teneva.get(Y, I,
                _to_item=to_item))
            res[('get-batch-list', c, to_item)] = _run(lambda: teneva.get(Y,
                I.tolist(), _to_item=to_item))

    # Degenerate arguments:
    Y = _tt_rand(np, rng, [3, 4], [2])
    res[('get-empty-Y',)] = _run(lambda: teneva.get([], [0]))
    res[('get-empty-i',)] = _run(lambda: teneva.get(Y, []))
    res[('get-scalar-i',)] = _run(lambda: teneva.get(Y, 1))
    res[('get-3d-i',)] = _run(lambda: teneva.get(Y, np.zeros((2, 2, 2))))
    res[('get-none-Y',)] = _run(lambda: teneva.get(None, [0, 0]))
    Z = [Y[0], Y[1][:1]]   # inconsistent ranks
    res[('get-bad-ranks',)] = _run(lambda: teneva.get(Z, [0, 0]))
    res[('get-bad-ranks-short',)] = _run(lambda: teneva.get(Z + [Y[1]], [0, 0]))
    Yi = [np.arange(6).reshape(1, 3, 2), np.arange(8).reshape(2, 4, 1)]
    res[('get-int-cores',)] = _run(lambda: teneva.get(Yi, [2, 3]))
    res[('get-int-cores-f',)] = _run(lambda: teneva.get(Yi, [2, 3],
        _to_item=False))
    Yc = [G.astype(np.float32) for G in Y]
    res[('get-f32',)] = _run(lambda: teneva.get(Yc, [2, 3]))
    Yz = [G * (1 + 2j) for G in Y]
    res[('get-cplx',)] = _run(lambda: teneva.get(Yz, [2, 3], _to_item=False))

    return res


def scenarios_sample_tt(np, teneva):
    res = {}

    shapes = [
        [5], [7, 4], [4, 7], [5, 5, 5], [6, 7, 8], [8, 6, 9, 7],
        [5, 6, 5, 6, 5], [9, 9, 9, 9, 9, 9], [2, 3], [3, 2, 2], [1, 4, 1],
        [12, 3, 10],
    ]
    for c, n in enumerate(shapes):
        for r in (1, 2, 3, 4, 5, 7):
            for seed in (0, 1, 42):
                for kind in ('list', 'array', 'tuple'):
                    if kind == 'list':
                        arg = list(n)
                    elif kind == 'array':
                        arg = np.array(n)
                    else:
                        arg = tuple(n)
                    arg_in = _snapshot(np, arg)
                    out = _run(lambda: teneva.sample_tt(arg_in, r, seed))
                    res[('tt', c, r, seed, kind)] = (out,
                        _same(np, arg_in, arg))

            # Generator as a seed: the state after the call must agree too
            # (same number and order of random draws):
            for seed in (3, 4):
                gen = np.random.default_rng(seed)
                out = _run(lambda: teneva.sample_tt(n, r, gen))
                res[('tt-gen', c, r, seed)] = (out, gen.integers(10**9),
                    gen.normal())

        # Keyword and default arguments, float rank:
        res[('tt-default', c)] = _run(lambda: teneva.sample_tt(n, seed=5))
        res[('tt-kw', c)] = _run(lambda: teneva.sample_tt(n=n, seed=6, r=3))
        res[('tt-float-r', c)] = _run(lambda: teneva.sample_tt(n, 3., 7))
        res[('tt-int64-r', c)] = _run(lambda: teneva.sample_tt(n,
            np.int64(2), 7))

    # Without a seed only the sizes are reproducible:
    def sizes():
        I, idx, idx_many = teneva.sample_tt([5, 6, 7], 3)
        return I.shape, I.dtype, idx, idx_many, I.min(axis=0), I.max(axis=0)
    res[('tt-noseed',)] = _run(sizes)

    # Degenerate arguments (exceptions):
    res[('tt-empty',)] = _run(lambda: teneva.sample_tt([], 2, 0))
    res[('tt-empty-arr',)] = _run(lambda: teneva.sample_tt(np.array([],
        dtype=int), 2, 0))
    res[('tt-float-n',)] = _run(lambda: teneva.sample_tt([4., 5.], 2, 0))
    res[('tt-float-arr',)] = _run(lambda: teneva.sample_tt(
        np.array([4., 5., 6.]), 2, 0))
    res[('tt-none-r',)] = _run(lambda: teneva.sample_tt([4, 5], None, 0))
    res[('tt-str-r',)] = _run(lambda: teneva.sample_tt([4, 5], 'a', 0))
    res[('tt-zero-r',)] = _run(lambda: teneva.sample_tt([4, 5, 6], 0, 0))
    res[('tt-int-n',)] = _run(lambda: teneva.sample_tt(5, 2, 0))
    res[('tt-none-n',)] = _run(lambda: teneva.sample_tt(None, 2, 0))
    res[('tt-bad-seed',)] = _run(lambda: teneva.sample_tt([4, 5], 2, 'x'))
    gen = np.random.default_rng(11)
    res[('tt-float-n-gen',)] = (_run(lambda: teneva.sample_tt([4, 5., 6], 2,
        gen)), gen.integers(10**9))

    return res


def scenarios_svd_incomplete(np, teneva):
    res = {}
    rng = np.random.default_rng(2024)

    configs = [
        # (shape, inner TT-ranks of the tensor, expected rank m)
        ([6, 7], [1], 1),
        ([6, 7], [2], 2),
        ([6, 7], [3], 4),
        ([8, 8], [5], 6),
        ([5, 6, 7], [1, 1], 1),
        ([5, 6, 7], [1, 1], 3),
        ([5, 6, 7], [2, 3], 3),
        ([5, 6, 7], [3, 3], 4),
        ([6, 6, 6], [2, 2], 5),
        ([7, 6, 5, 6], [2, 3, 2], 3),
        ([7, 6, 5, 6], [3, 3, 3], 5),
        ([6, 6, 6, 6, 6], [2, 2, 2, 2], 2),
        ([6, 7, 6, 7, 6], [1, 2, 3, 2], 4),
        ([5, 5, 5, 5, 5, 5], [2, 1, 2, 1, 2], 3),
        ([4, 4, 4], [2, 2], 2),
        # Over-ranked cores (the ranks exceed what the unfoldings can have):
        ([3, 8, 8], [5, 4], 3),
        ([6, 2, 6], [3, 3], 2),
        # Outside of the quantifier (modes shorter than the expected rank):
        ([3, 4, 3], [2, 2], 4),
    ]
    for c, (n, ranks, m) in enumerate(configs):
        Y0 = _tt_rand(np, rng, n, ranks)
        rho = max(ranks)
        for seed in (0, 7, 99):
            I, idx, idx_many = teneva.sample_tt(n, m, seed)
            y = teneva.get_many(Y0, I)

            caps = [None, rho, rho + 1, m, m + 2, 1, max(1, rho - 1), 2.5,
                float(rho), 1.E+12]
            for cap in caps:
                for e in (1.E-10, 1.E-14, 1.E-3, 0.):
                    I_in, y_in = I.copy(), y.copy()
                    idx_in, many_in = idx.copy(), idx_many.copy()

                    def call():
                        if cap is None:
                            Z = teneva.svd_incomplete(I_in, y_in, idx_in,
                                many_in, e)
                        else:
                            Z = teneva.svd_incomplete(I_in, y_in, idx_in,
                                many_in, e, cap)
                        full = teneva.full(Z) if len(n) <= 5 else None
                        err = np.max(np.abs(teneva.get_many(Z, I) - y))
                        return Z, full, err

                    out = _run(call)
                    mut = (_same(np, I_in, I), _same(np, y_in, y),
                        _same(np, idx_in, idx), _same(np, many_in, idx_many))
                    res[('svdi', c, seed, repr(cap), e)] = (out, mut)

            # Keyword arguments, lists for the layout, other value types:
            res[('svdi-kw', c, seed)] = _run(lambda: teneva.svd_incomplete(
                I=I, Y=y, idx=idx, idx_many=idx_many, r=rho, e=1.E-12))
            res[('svdi-layout-list', c, seed)] = _run(
                lambda: teneva.svd_incomplete(I, y, idx.tolist(),
                    idx_many.tolist(), 1.E-10, rho))
            res[('svdi-y-list', c, seed)] = _run(
                lambda: teneva.svd_incomplete(I, y.tolist(), idx, idx_many))
            res[('svdi-i-list', c, seed)] = _run(
                lambda: teneva.svd_incomplete(I.tolist(), y, idx, idx_many))
            res[('svdi-y-f32', c, seed)] = _run(
                lambda: teneva.svd_incomplete(I, y.astype(np.float32), idx,
                    idx_many, 1.E-6, rho))
            res[('svdi-y-noncontig', c, seed)] = _run(
                lambda: teneva.svd_incomplete(I, np.repeat(y, 2)[::2], idx,
                    idx_many, 1.E-10, rho))
            res[('svdi-i-fortran', c, seed)] = _run(
                lambda: teneva.svd_incomplete(np.asfortranarray(I), y, idx,
                    idx_many, 1.E-10, rho))
            res[('svdi-zero', c, seed)] = _run(
                lambda: teneva.svd_incomplete(I, np.zeros_like(y), idx,
                    idx_many, 1.E-10, rho))
            res[('svdi-noise', c, seed)] = _run(
                lambda: teneva.svd_incomplete(I,
                    y + 1.E-6 * np.cos(np.arange(len(y))), idx, idx_many,
                    1.E-4, rho + 1))
            res[('svdi-short-y', c, seed)] = _run(
                lambda: teneva.svd_incomplete(I, y[:-3], idx, idx_many))
            res[('svdi-short-idx', c, seed)] = _run(
                lambda: teneva.svd_incomplete(I, y, idx[:-1], idx_many))
            res[('svdi-short-many', c, seed)] = _run(
                lambda: teneva.svd_incomplete(I, y, idx, idx_many[:-1]))
            res[('svdi-wrong-many', c, seed)] = _run(
                lambda: teneva.svd_incomplete(I, y, idx, idx_many + 1))

            # Samples of another expected rank than the rank of the tensor
            # and a generator as the seed of the samples:
            gen = np.random.default_rng(seed)
            I2, idx2, many2 = teneva.sample_tt(n, m + 1, gen)
            y2 = teneva.get_many(Y0, I2)
            res[('svdi-gen', c, seed)] = _run(
                lambda: teneva.svd_incomplete(I2, y2, idx2, many2, 1.E-10,
                    rho))

    # One-dimensional "tensor":
    I, idx, idx_many = teneva.sample_tt([6], 2, 0)
    y = np.sin(I[:, 0] + 1.)
    res[('svdi-1d',)] = _run(lambda: teneva.svd_incomplete(I, y, idx,
        idx_many))

    # Analytic function, which is of low rank (sum of the indices, rank 2):
    for d in (2, 3, 4, 5):
        n = [7] * d
        I, idx, idx_many = teneva.sample_tt(n, 3, 1)
        y = np.sum(I, axis=1) * 0.5 + 1.
        for cap in (2, 3, 5):
            res[('svdi-sum', d, cap)] = _run(lambda: teneva.svd_incomplete(I,
                y, idx, idx_many, 1.E-10, cap))

    return res


def worker(out_path):
    sys.path.insert(0, os.getcwd())
    import numpy as np
    import teneva

    root = os.path.dirname(os.path.dirname(os.path.abspath(teneva.__file__)))
    assert root == os.path.abspath(os.getcwd()), (root, os.getcwd())

    np.seterr(all='ignore')
    res = {}
    res.update(scenarios_get(np, teneva))
    res.update(scenarios_sample_tt(np, teneva))
    res.update(scenarios_svd_incomplete(np, teneva))

    res = {k: _describe(np, v) for k, v in res.items()}
    with open(out_path, 'wb') as f:
        pickle.dump({'root': root, 'res': res}, f)


# ---------------------------------------------------------------------------
# Comparison part
# ---------------------------------------------------------------------------


# Scenarios outside of the quantifier of the property where the twin is known
# to differ (they are run and reported, but they do not count): for the expected
# rank 0 there are no samples at all, the original stacks d empty python lists
# (array of the shape [d, 0], float) and the twin d empty blocks ([0, d], int).
KNOWN_OUTSIDE = {('tt-zero-r',)}


RTOL = 1.E-12
ATOL = 1.E-13
STAT = {'arrays': 0, 'bitwise': 0, 'exc': 0, 'exc_msg_diff': 0}


def compare(a, b, path, errors):
    import numpy as np

    if type(a) is not type(b):
        errors.append(f'{path}: types {type(a).__name__} / {type(b).__name__}')
        return

    if isinstance(a, dict) and '__arr__' in a:
        x, y = a['__arr__'], b['__arr__']
        STAT['arrays'] += 1
        if x.shape != y.shape or x.dtype != y.dtype:
            errors.append(f'{path}: array {x.shape} {x.dtype} / '
                f'{y.shape} {y.dtype}')
            return
        if (a['c'], a['f'], a['cls']) != (b['c'], b['f'], b['cls']):
            errors.append(f'{path}: array layout / class differs')
            return
        if np.array_equal(x, y, equal_nan=(x.dtype.kind in 'fc')):
            STAT['bitwise'] += 1
            return
        if x.dtype.kind not in 'fc' or not np.allclose(x, y, rtol=RTOL,
                atol=ATOL * max(1., float(np.max(np.abs(x)))),
                equal_nan=True):
            errors.append(f'{path}: array values differ '
                f'(max {np.max(np.abs(x - y))})')
        return

    if isinstance(a, dict):
        if a.keys() != b.keys():
            errors.append(f'{path}: keys differ')
            return
        for k in a:
            compare(a[k], b[k], f'{path}.{k}', errors)
        return

    if isinstance(a, (list, tuple)):
        if len(a) != len(b):
            errors.append(f'{path}: lengths {len(a)} / {len(b)}')
            return
        if len(a) in (2, 3) and a[0] == 'exc' and b[0] == 'exc':
            STAT['exc'] += 1
            if a[1] != b[1]:
                errors.append(f'{path}: exceptions {a[1:]} / {b[1:]}')
            elif a[2] != b[2]:
                STAT['exc_msg_diff'] += 1
                print(f'note: {path}: same {a[1]}, messages '
                    f'{a[2]!r} / {b[2]!r}')
            return
        for k, (x, y) in enumerate(zip(a, b)):
            compare(x, y, f'{path}[{k}]', errors)
        return

    if isinstance(a, float):
        if not (a == b or (a != a and b != b)
                or abs(a - b) <= ATOL + RTOL * abs(a)):
            errors.append(f'{path}: floats {a!r} / {b!r}')
        return

    if a != b:
        errors.append(f'{path}: values {a!r} / {b!r}')


def main():
    tmp = tempfile.mkdtemp(prefix='equiv_C20_')
    outs = []
    for name, root in (('orig', ROOT_ORIG), ('twin', ROOT_TWIN)):
        out = os.path.join(tmp, name + '.pkl')
        env = dict(os.environ)
        env.pop('PYTHONPATH', None)
        env['PYTHONDONTWRITEBYTECODE'] = '1'
        proc = subprocess.run([PYTHON, os.path.abspath(__file__), '--worker',
            out], cwd=root, env=env)
        if proc.returncode != 0:
            print(f'worker for {name} failed ({proc.returncode})')
            return 1
        with open(out, 'rb') as f:
            outs.append(pickle.load(f))

    orig, twin = outs
    print('orig package:', orig['root'])
    print('twin package:', twin['root'])
    if orig['root'] == twin['root']:
        print('the two packages are the same directory')
        return 1

    errors = []
    if orig['res'].keys() != twin['res'].keys():
        errors.append('scenario lists differ')
    else:
        for key in orig['res']:
            if key in KNOWN_OUTSIDE:
                skipped = []
                compare(orig['res'][key], twin['res'][key], repr(key), skipped)
                for line in skipped:
                    print('outside of the quantifier (not counted):', line)
                continue
            compare(orig['res'][key], twin['res'][key], repr(key), errors)

    kinds = {}
    for key in orig['res']:
        kinds[key[0]] = kinds.get(key[0], 0) + 1
    print('scenarios:', len(orig['res']), kinds)
    print('compared arrays:', STAT['arrays'], '(bit-for-bit equal:',
        STAT['bitwise'], ') exceptions:', STAT['exc'],
        '(same type, other message:', STAT['exc_msg_diff'], ')')

    # Sanity of the scenario list itself: the recovery really happens in the
    # runs inside the quantifier (otherwise the comparison would be vacuous).
    good = 0
    for key, val in twin['res'].items():
        if key[0] == 'svdi' and val['items'][0]['items'][0] == 'ok':
            err = val['items'][0]['items'][1]['items'][2]
            err = err['__scalar__'] if isinstance(err, dict) else err
            if err < 1.E-8:
                good += 1
    print('svd_incomplete runs with recovery up to 1e-8 on the samples:', good)
    if good == 0:
        errors.append('no successful recovery among the scenarios')

    for line in errors[:50]:
        print('DIFF', line)
    print('RESULT:', 'EQUIVALENT' if not errors else f'{len(errors)} DIFFS')
    return 0 if not errors else 1


if __name__ == '__main__':
    if len(sys.argv) == 3 and sys.argv[1] == '--worker':
        worker(sys.argv[2])
    else:
        sys.exit(main())
