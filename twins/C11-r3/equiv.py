"""Equivalence demonstration for the C11 twin (third refactoring).

Refactored anchors: teneva/svd.py:matrix_skeleton,
teneva/transformation.py:orthogonalize_right, teneva/vis.py:show.

The same deterministic list of scenarios is run in two subprocesses, one which
imports the pristine package (/tmp/twinsC/C11/orig) and one which imports the
refactored package (/tmp/wt/C11). Each worker dumps its records to a pickle;
the two pickles are then compared record by record (values with a tight
np.allclose, and exactly: shapes, dtypes, memory layout flags, exceptions,
warnings, printed text, state of the arguments after the call, aliasing
between result and argument). Exit code 0 if everything agrees, 1 otherwise.

    /venv/bin/python /tmp/twinsC/C11/equiv.py

"""
import contextlib
import io
import os
import pickle
import re
import subprocess
import sys
import tempfile
import warnings


ROOT_ORIG = '/tmp/twinsC/C11/orig'
ROOT_TWIN = '/tmp/wt/C11'
RTOL = 1.E-12
ATOL = 1.E-14


# ---------------------------------------------------------------------------
# Worker part (runs with one of the two packages)
# ---------------------------------------------------------------------------


def enc(x):
    """Encode a result into a picklable, comparable structure."""
    import numpy as np
    if isinstance(x, np.ndarray):
        return ('arr', str(x.dtype), tuple(x.shape),
            (bool(x.flags['C_CONTIGUOUS']), bool(x.flags['F_CONTIGUOUS']),
             bool(x.flags['OWNDATA']), bool(x.flags['WRITEABLE'])),
            np.array(x, order='C', copy=True))
    if isinstance(x, (list, tuple)):
        return (type(x).__name__, [enc(v) for v in x])
    if isinstance(x, dict):
        return ('dict', [(repr(k), enc(x[k])) for k in x])
    if isinstance(x, np.generic):
        return ('npscalar', str(x.dtype), x.item())
    if x is None or isinstance(x, (bool, int, float, str)):
        return ('py', type(x).__name__, x)
    return ('repr', type(x).__name__, re.sub(r' at 0x[0-9a-f]+', '', repr(x)))


def run(func, args, kwargs, extra=None):
    """Call func and record result / exception / warnings / stdout / args."""
    out = io.StringIO()
    rec = {}
    with warnings.catch_warnings(record=True) as wlist:
        warnings.simplefilter('always')
        try:
            with contextlib.redirect_stdout(out):
                res = func(*args, **kwargs)
        except Exception as exc:
            rec['status'] = 'exc'
            rec['exc'] = (type(exc).__name__, str(exc))
            res = None
        else:
            rec['status'] = 'ok'
            rec['res'] = enc(res)
    rec['warn'] = sorted((w.category.__name__, str(w.message)) for w in wlist)
    rec['stdout'] = out.getvalue()
    rec['args_after'] = enc(list(args))
    rec['kwargs_after'] = enc(kwargs)
    if extra is not None:
        rec['extra'] = extra(res, args, kwargs)
    return rec


def make_tt(rng, n, r, kind='rand', order='C', dtype=float):
    import numpy as np
    d = len(n)
    if isinstance(r, int):
        r = [1] + [r] * (d - 1) + [1]
    Y = []
    for k in range(d):
        sh = (r[k], n[k], r[k+1])
        if kind == 'rand':
            G = rng.uniform(-1., 1., size=sh)
        elif kind == 'zero':
            G = np.zeros(sh)
        elif kind == 'const':
            G = np.ones(sh) * 0.5
        elif kind == 'zerocore':
            G = rng.uniform(-1., 1., size=sh)
            if k == d // 2:
                G = np.zeros(sh)
        elif kind == 'deficient':
            # Every slice is the same rank-one matrix
            u = rng.uniform(-1., 1., size=(sh[0], 1, 1))
            v = rng.uniform(-1., 1., size=(1, 1, sh[2]))
            G = u * v * np.ones(sh)
        elif kind == 'tiny':
            G = rng.uniform(-1., 1., size=sh) * 1.E-160
        elif kind == 'huge':
            G = rng.uniform(-1., 1., size=sh) * 1.E+150
        else:
            raise ValueError(kind)
        G = G.astype(dtype)
        if order == 'F':
            G = np.asfortranarray(G)
        elif order == 'slice':
            # Non-contiguous view
            big = np.zeros((sh[0], 2 * sh[1], sh[2]), dtype=dtype)
            big[:, ::2, :] = G
            G = big[:, ::2, :]
        Y.append(G)
    return Y


TT_FAMILIES = [
    # (mode sizes, ranks)
    ([4, 5], 1),
    ([4, 5], 3),
    ([4, 5], 7),                       # over-ranked, d = 2
    ([3, 4, 5], 1),
    ([3, 4, 5], 2),
    ([3, 4, 5], [1, 2, 9, 1]),
    ([2, 2, 2, 2], 5),                 # over-ranked everywhere
    ([2, 2, 2, 2, 2], [1, 4, 1, 6, 2, 1]),
    ([1, 1, 1], 1),                    # mode size 1
    ([1, 1, 1], 3),
    ([1, 4, 1, 3], 2),
    ([6, 1, 6], [1, 3, 8, 1]),
    ([5, 4, 3, 2, 3, 4], 3),
    ([7], 1),                          # d = 1
    ([12, 11, 10], [1, 12, 10, 1]),    # two-digit ranks
]
TT_KINDS = ['rand', 'zero', 'const', 'zerocore', 'deficient', 'tiny', 'huge']


def scenarios_skeleton(teneva, np):
    recs = {}
    rng = np.random.default_rng(20240511)

    mats = {}
    for (m, n) in [(1, 1), (1, 5), (5, 1), (2, 2), (4, 4), (6, 3), (3, 6),
                   (20, 7), (7, 20), (16, 16)]:
        mats[f'rand{m}x{n}'] = rng.normal(size=(m, n))
        mats[f'zero{m}x{n}'] = np.zeros((m, n))
        mats[f'const{m}x{n}'] = np.full((m, n), 2.5)
        u = rng.normal(size=(m, 1))
        v = rng.normal(size=(1, n))
        mats[f'rank1_{m}x{n}'] = u @ v
        if min(m, n) > 2:
            U = rng.normal(size=(m, 2))
            V = rng.normal(size=(2, n))
            mats[f'rank2_{m}x{n}'] = U @ V
            W, _ = np.linalg.qr(rng.normal(size=(m, min(m, n))))
            Q, _ = np.linalg.qr(rng.normal(size=(n, min(m, n))))
            sv = 10.**(-np.arange(min(m, n)) * 3.)
            mats[f'decay{m}x{n}'] = (W * sv) @ Q.T
            mats[f'fort{m}x{n}'] = np.asfortranarray(rng.normal(size=(m, n)))
            mats[f'view{m}x{n}'] = rng.normal(size=(2*m, 2*n))[::2, ::2]
    mats['f32'] = rng.normal(size=(5, 4)).astype(np.float32)
    mats['int'] = rng.integers(-3, 4, size=(5, 4))
    mats['tiny'] = rng.normal(size=(5, 4)) * 1.E-170
    mats['huge'] = rng.normal(size=(5, 4)) * 1.E+150
    mats['repeated_rows'] = np.tile(rng.normal(size=(1, 6)), (5, 1))

    es = [1.E-10, 0., 1.E-2, 1., 1.E+3, -1.]
    rs = [1.E+12, 1, 2, 3.7, 0, -2, np.int64(3)]
    for name, A in mats.items():
        for e in es:
            for r in rs:
                for rel in [False, True]:
                    for give_to in ['m', 'l', 'r']:
                        key = ('skel', name, e, repr(r), rel, give_to)
                        recs[key] = run(teneva.matrix_skeleton, [A.copy()],
                            dict(e=e, r=r, rel=rel, give_to=give_to))
        # positional call and defaults
        recs[('skel-pos', name)] = run(teneva.matrix_skeleton,
            [A.copy(), 1.E-6, 3, False, True, 'r'], {})
        recs[('skel-def', name)] = run(teneva.matrix_skeleton, [A.copy()], {})
        # unusual values of give_to (fall to the balanced variant)
        for give_to in ['x', '', 'L', 'lr', None, 0, ('l',), ['l'], b'l']:
            recs[('skel-gt', name, repr(give_to))] = run(
                teneva.matrix_skeleton, [A.copy()],
                dict(e=1.E-3, r=2, give_to=give_to))

    # hermitian variant (symmetric matrices)
    for n in [1, 2, 5, 9]:
        B = rng.normal(size=(n, n))
        for nm, S in [('sym', B + B.T), ('psd', B @ B.T), ('zero', B * 0.),
                      ('rank1', B[:, :1] @ B[:, :1].T)]:
            for e in [1.E-10, 1.E-1]:
                for r in [1.E+12, 2]:
                    for rel in [False, True]:
                        for give_to in ['m', 'l', 'r']:
                            key = ('skel-herm', nm, n, e, r, rel, give_to)
                            recs[key] = run(teneva.matrix_skeleton,
                                [S.copy()], dict(e=e, r=r, hermitian=True,
                                rel=rel, give_to=give_to))

    # aliasing of the result with the internal factors is not observable, but
    # invalid calls must raise the same exceptions
    A = rng.normal(size=(4, 3))
    bad = [
        ([rng.normal(size=4)], {}),
        ([rng.normal(size=(2, 3, 4))], {}),
        ([rng.normal(size=(2, 3, 4))], dict(rel=True, give_to='l')),
        ([np.zeros((0, 3))], {}),
        ([np.zeros((0, 3))], dict(rel=True)),
        ([np.zeros((3, 0))], dict(give_to='r')),
        ([A.copy()], dict(r=np.inf)),
        ([A.copy()], dict(r=np.nan)),
        ([A.copy()], dict(r=None)),
        ([A.copy()], dict(r='3')),
        ([A.copy()], dict(r='x')),
        ([A.copy()], dict(e=None)),
        ([A.copy()], dict(e='x')),
        ([A.copy()], dict(e=np.nan)),
        ([A.copy()], dict(e=np.inf)),
        ([A.copy()], dict(e=np.array([1., 2.]))),
        ([A.copy()], dict(give_to=np.array(['l', 'r']))),
        ([A.tolist()], {}),
        ([np.array([[np.nan, 1.], [1., 2.]])], {}),
        ([None], {}),
        (['abc'], {}),
    ]
    for k, (args, kwargs) in enumerate(bad):
        recs[('skel-bad', k)] = run(teneva.matrix_skeleton, args, kwargs)

    return recs


def scenarios_orth(teneva, np):
    recs = {}
    rng = np.random.default_rng(777)

    def extra(res, args, kwargs):
        # aliasing between result / argument / original cores
        Y, cores0 = args[0], kwargs_cores[0]
        info = {'same_list': res is Y}
        if isinstance(res, list):
            info['alias_orig'] = [any(G is C for C in cores0) for G in res]
            info['share_orig'] = [
                any(isinstance(G, np.ndarray) and isinstance(C, np.ndarray)
                    and np.shares_memory(G, C) for C in cores0) for G in res]
        if isinstance(Y, list):
            info['arg_alias_orig'] = [any(G is C for C in cores0) for G in Y]
        return info

    kwargs_cores = [None]

    for fam, (n, r) in enumerate(TT_FAMILIES):
        d = len(n)
        for kind in TT_KINDS:
            for order in ['C', 'F', 'slice']:
                if order != 'C' and kind not in ('rand', 'deficient'):
                    continue
                for i in list(range(-2, d + 3)) + [None]:
                    for inplace in [False, True]:
                        Y = make_tt(rng, n, r, kind, order)
                        kwargs_cores[0] = list(Y)
                        key = ('orth-r', fam, kind, order, repr(i), inplace)
                        recs[key] = run(teneva.orthogonalize_right,
                            [Y, i], dict(inplace=inplace), extra)
                # positional inplace, default inplace
                Y = make_tt(rng, n, r, kind, order)
                kwargs_cores[0] = list(Y)
                recs[('orth-r-pos', fam, kind, order)] = run(
                    teneva.orthogonalize_right, [Y, d - 1, True], {}, extra)
                Y = make_tt(rng, n, r, kind, order)
                kwargs_cores[0] = list(Y)
                recs[('orth-r-def', fam, kind, order)] = run(
                    teneva.orthogonalize_right, [Y, d - 1], {}, extra)

    # other dtypes, index types, same array object used for two cores
    for dtype in [np.float32, np.int64, np.complex128]:
        for inplace in [False, True]:
            Y = make_tt(rng, [3, 4, 3], 2, 'rand', 'C', dtype)
            if dtype is np.int64:
                Y = [np.rint(G * 5).astype(np.int64) for G in Y]
            kwargs_cores[0] = list(Y)
            recs[('orth-r-dtype', str(dtype), inplace)] = run(
                teneva.orthogonalize_right, [Y, 2], dict(inplace=inplace),
                extra)
    for i in [np.int64(1), np.int32(2), True, False, 1., 1.5, 2.5, np.nan,
              '1', [1], np.array(1), np.array([1]), 10**30]:
        for inplace in [False, True]:
            Y = make_tt(rng, [3, 4, 3], 2)
            kwargs_cores[0] = list(Y)
            recs[('orth-r-idx', repr(i), inplace)] = run(
                teneva.orthogonalize_right, [Y, i], dict(inplace=inplace),
                extra)
    G = rng.normal(size=(1, 4, 1))
    for inplace in [False, True]:
        Y = [G, G, G]
        kwargs_cores[0] = list(Y)
        recs[('orth-r-samecore', inplace)] = run(teneva.orthogonalize_right,
            [Y, 1], dict(inplace=inplace), extra)

    # malformed tensors (state of the argument after a failure matters)
    def malformed():
        A = rng.normal(size=(1, 3, 2))
        B = rng.normal(size=(2, 3, 2))
        C = rng.normal(size=(2, 3, 1))
        return [
            [A, B, 'core'],
            [A, 'core', C],
            [A, B[0], C],
            [A, B, C[:, :, 0]],
            [A[:, :, :1], B, C],          # rank mismatch between 0 and 1
            [A, B, rng.normal(size=(3, 3, 1))],
            [A, B.tolist(), C],
            (A, B, C),
            [],
            [A],
            None,
            np.stack([B, B, B]),
        ]
    nbad = len(malformed())
    for k in range(nbad):
        for i in [1, 2]:
            for inplace in [False, True]:
                Y = malformed()[k]
                kwargs_cores[0] = list(Y) if isinstance(Y, (list, tuple)) \
                    else []
                recs[('orth-r-bad', k, i, inplace)] = run(
                    teneva.orthogonalize_right, [Y, i],
                    dict(inplace=inplace), extra)

    return recs


def scenarios_show(teneva, np):
    recs = {}
    rng = np.random.default_rng(4242)

    for fam, (n, r) in enumerate(TT_FAMILIES):
        for kind in ['rand', 'zero', 'const']:
            for order in ['C', 'F', 'slice']:
                Y = make_tt(rng, n, r, kind, order)
                recs[('show', fam, kind, order)] = run(teneva.show, [Y], {})
    extra_shapes = [
        ([100, 7, 1234, 2], [1, 100, 3, 250, 1]),
        ([2] * 12, 2),
        ([2] * 30, 1),
        ([10] * 3, [1, 10, 10, 1]),
        ([1000000, 1], [1, 1, 1]),
        ([3, 3], [1, 1000, 1]),
        ([3], 1),
        ([1], 1),
    ]
    for k, (n, r) in enumerate(extra_shapes):
        Y = make_tt(rng, n, r, 'zero')
        recs[('show-shape', k)] = run(teneva.show, [Y], {})
    for dtype in [np.float32, np.int64, np.complex128, bool]:
        Y = make_tt(rng, [3, 4, 5], 2, 'const', 'C', dtype)
        recs[('show-dtype', str(dtype))] = run(teneva.show, [Y], {})

    class MyList(list):
        pass

    class MyArr(np.ndarray):
        pass

    A = rng.normal(size=(1, 3, 2))
    B = rng.normal(size=(2, 3, 2))
    C = rng.normal(size=(2, 3, 1))
    bad = [
        None, 0, 'abc', (A, B, C), [], MyList(), MyList([A, B, C]),
        np.stack([B, B]), {0: A}, iter([A, B, C]),
        [A, B, 'core'], ['core', B, C], [A, None, C], [A, B.tolist(), C],
        [A, B[0], C], [A, B, C[:, :, 0]], [A, B, C[..., None]],
        [A[0], B, C], [np.float64(1.), B, C], [np.zeros(()), B, C],
        [B, B, C],                        # left boundary rank 2
        [A, B, B],                        # right boundary rank 2
        [A, C],                           # fine
        [A, A, C],                        # rank mismatch at core 1
        [A, B, A],                        # rank mismatch at core 2
        [A, rng.normal(size=(3, 3, 2)), 'core'],   # shape error comes first
        [A, 'core', rng.normal(size=(3, 3, 1))],   # type error comes first
        [A, B[:, :, :1], C[:1]],
        [A.view(MyArr), B.view(MyArr), C.view(MyArr)],
        [np.zeros((1, 0, 1))], [np.zeros((1, 3, 0)), np.zeros((0, 3, 1))],
        [np.zeros((1, 3, 1), dtype=object)],
        [A[:, :, :1]], [B[:1, :, :1]], [C], [A],
    ]
    for k, Y in enumerate(bad):
        recs[('show-bad', k)] = run(teneva.show, [Y], {})

    return recs


def scenarios_compound(teneva, np):
    """Library routines which call the refactored functions."""
    recs = {}
    rng = np.random.default_rng(99)

    for fam, (n, r) in enumerate(TT_FAMILIES):
        d = len(n)
        for kind in TT_KINDS:
            Y = make_tt(rng, n, r, kind)
            for k in list(range(d)) + [None]:
                for use_stab in [False, True]:
                    recs[('orth', fam, kind, repr(k), use_stab)] = run(
                        teneva.orthogonalize, [teneva.copy(Y)],
                        dict(k=k, use_stab=use_stab))
            if d < 2:
                continue
            for e in [1.E-10, 1.E-2]:
                for rr in [1.E+12, 1, 2]:
                    for orth in [True, False]:
                        for is_eigh in [True, False]:
                            for use_stab in [False, True]:
                                key = ('trunc', fam, kind, e, rr, orth,
                                    is_eigh, use_stab)
                                recs[key] = run(teneva.truncate,
                                    [teneva.copy(Y)], dict(e=e, r=rr,
                                    orth=orth, is_eigh=is_eigh,
                                    use_stab=use_stab))

    fulls = {}
    for sh in [(4, 5), (3, 4, 5), (2, 2, 2, 2, 2), (1, 1, 1), (1, 4, 1, 3),
               (6, 1, 6), (7,)]:
        fulls[('rand', sh)] = rng.normal(size=sh)
        fulls[('zero', sh)] = np.zeros(sh)
        fulls[('const', sh)] = np.full(sh, -3.)
        fulls[('fort', sh)] = np.asfortranarray(rng.normal(size=sh))
        x = [rng.normal(size=s) for s in sh]
        Z = x[0]
        for v in x[1:]:
            Z = np.multiply.outer(Z, v)
        fulls[('rank1', sh)] = Z
    for (nm, sh), Z in fulls.items():
        for e in [1.E-10, 1.E-1, 10.]:
            for rr in [1.E+12, 1, 2]:
                recs[('svd', nm, sh, e, rr)] = run(teneva.svd, [Z.copy()],
                    dict(e=e, r=rr))
    for q in [1, 2, 3]:
        for nm, M in [('rand', rng.normal(size=(2**q, 2**q))),
                      ('zero', np.zeros((2**q, 2**q))),
                      ('eye', np.eye(2**q)),
                      ('const', np.ones((2**q, 2**q)))]:
            for e in [1.E-10, 1.E-1]:
                recs[('svd_matrix', nm, q, e)] = run(teneva.svd_matrix,
                    [M.copy()], dict(e=e))

    # TT-SVD-incomplete (first core via balanced matrix_skeleton)
    for n, r in [([5, 6, 7], 2), ([4, 4, 4, 4], 3), ([3, 3], 2)]:
        for fn in ['sum', 'const', 'zero', 'prod']:
            I, idx, idx_many = teneva.sample_tt(n, r=r, seed=5)
            if fn == 'sum':
                y = np.sum(I, axis=1) * 1.
            elif fn == 'const':
                y = np.ones(I.shape[0]) * 4.
            elif fn == 'zero':
                y = np.zeros(I.shape[0])
            else:
                y = np.prod(I + 1., axis=1)
            for e in [1.E-10, 1.E-3]:
                recs[('svd_inc', tuple(n), r, fn, e)] = run(
                    teneva.svd_incomplete, [I, y, idx, idx_many],
                    dict(e=e, r=r))

    # ANOVA of order 2 uses matrix_skeleton with default options
    for seed in [1, 2]:
        g = np.random.default_rng(seed)
        I_trn = np.vstack([g.integers(0, 4, size=200) for _ in range(4)]).T
        for nm, y_trn in [('sum', np.sum(I_trn, axis=1) * 1.),
                          ('const', np.ones(200)),
                          ('zero', np.zeros(200))]:
            for order in [1, 2]:
                recs[('anova', seed, nm, order)] = run(teneva.anova,
                    [I_trn.copy(), y_trn.copy()],
                    dict(r=2, order=order, seed=12))

    return recs


def worker(root, fpath):
    sys.path.insert(0, root)
    os.chdir(root)
    import numpy as np
    with warnings.catch_warnings():
        warnings.simplefilter('ignore')
        import teneva
    assert os.path.abspath(teneva.__file__).startswith(root + '/'), \
        teneva.__file__

    recs = {}
    recs.update(scenarios_skeleton(teneva, np))
    recs.update(scenarios_orth(teneva, np))
    recs.update(scenarios_show(teneva, np))
    recs.update(scenarios_compound(teneva, np))

    with open(fpath, 'wb') as f:
        pickle.dump({'file': teneva.__file__, 'recs': recs}, f)


# ---------------------------------------------------------------------------
# Comparison part
# ---------------------------------------------------------------------------


class Stat:
    def __init__(self):
        self.arrays = 0
        self.bitwise = 0
        self.maxdiff = 0.
        self.notbit = []


def same(a, b, path, errs, stat):
    import numpy as np
    if type(a) is not type(b):
        errs.append(f'{path}: type {type(a)} vs {type(b)}')
        return
    if isinstance(a, tuple) and len(a) == 5 and a[0] == 'arr':
        if a[:4] != b[:4]:
            errs.append(f'{path}: array meta {a[:4]} vs {b[:4]}')
            return
        x, y = a[4], b[4]
        stat.arrays += 1
        if x.dtype == object:
            if repr(x.tolist()) != repr(y.tolist()):
                errs.append(f'{path}: object arrays differ')
            return
        if x.tobytes() == y.tobytes():
            stat.bitwise += 1
            return
        stat.notbit.append(path)
        if x.dtype.kind in 'fc':
            ok = np.allclose(x, y, rtol=RTOL, atol=ATOL * max(1., float(
                np.max(np.abs(x[np.isfinite(x)]), initial=0.))),
                equal_nan=True)
            with np.errstate(all='ignore'):
                fin = np.isfinite(x) & np.isfinite(y)
                if np.any(fin):
                    stat.maxdiff = max(stat.maxdiff,
                        float(np.max(np.abs(x[fin] - y[fin]))))
        else:
            ok = np.array_equal(x, y)
        if not ok:
            errs.append(f'{path}: array values differ')
        return
    if isinstance(a, (tuple, list)):
        if len(a) != len(b):
            errs.append(f'{path}: length {len(a)} vs {len(b)}')
            return
        for k, (u, v) in enumerate(zip(a, b)):
            same(u, v, f'{path}[{k}]', errs, stat)
        return
    if isinstance(a, dict):
        if sorted(a, key=repr) != sorted(b, key=repr):
            errs.append(f'{path}: keys {sorted(a)} vs {sorted(b)}')
            return
        for k in a:
            same(a[k], b[k], f'{path}.{k}', errs, stat)
        return
    if isinstance(a, float):
        if a != b and not (a != a and b != b):
            if abs(a - b) > RTOL * abs(b) + ATOL:
                errs.append(f'{path}: {a!r} vs {b!r}')
        return
    if a != b:
        errs.append(f'{path}: {a!r} vs {b!r}')


def main():
    tmp = tempfile.mkdtemp(prefix='equiv_C11_')
    files = {}
    for name, root in [('orig', ROOT_ORIG), ('twin', ROOT_TWIN)]:
        fpath = os.path.join(tmp, name + '.pkl')
        env = dict(os.environ)
        env.pop('PYTHONPATH', None)
        env['PYTHONHASHSEED'] = '0'
        env['PYTHONDONTWRITEBYTECODE'] = '1'
        res = subprocess.run([sys.executable, os.path.abspath(__file__),
            '--worker', root, fpath], cwd=root, env=env)
        if res.returncode != 0:
            print(f'worker "{name}" failed with code {res.returncode}')
            return 1
        with open(fpath, 'rb') as f:
            files[name] = pickle.load(f)
        print(f'{name}: package {files[name]["file"]}, '
            f'{len(files[name]["recs"])} scenarios')

    ro, rt = files['orig']['recs'], files['twin']['recs']
    if files['orig']['file'] == files['twin']['file']:
        print('FAIL: both workers imported the same package')
        return 1
    if list(ro.keys()) != list(rt.keys()):
        print('FAIL: the lists of scenarios differ')
        return 1

    stat = Stat()
    nbad = 0
    counts = {}
    for key in ro:
        errs = []
        k0 = len(stat.notbit)
        same(ro[key], rt[key], 'rec', errs, stat)
        for pth in stat.notbit[k0:][:3]:
            if k0 < 20:
                print('not bit-for-bit (but close):', key, pth)
        grp = (key[0], ro[key]['status'])
        counts[grp] = counts.get(grp, 0) + 1
        if errs:
            nbad += 1
            if nbad <= 25:
                print('MISMATCH', key)
                for msg in errs[:5]:
                    print('    ', msg)

    for grp in sorted(counts):
        print(f'  {grp[0]:<16} {grp[1]:<4} {counts[grp]:6d}')
    print(f'arrays compared: {stat.arrays}, bit-for-bit identical: '
        f'{stat.bitwise}, max abs difference of the others: {stat.maxdiff:.3e}')
    if nbad:
        print(f'FAIL: {nbad} of {len(ro)} scenarios differ')
        return 1
    print(f'OK: all {len(ro)} scenarios agree')
    return 0


if __name__ == '__main__':
    if len(sys.argv) == 4 and sys.argv[1] == '--worker':
        worker(sys.argv[2], sys.argv[3])
        sys.exit(0)
    sys.exit(main())
