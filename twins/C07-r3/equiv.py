"""Equivalence demonstration for the C07 twin C refactoring (TT-ALS anchors).

The same deterministic list of scenarios is executed in two subprocesses: one
imports the pristine package (/tmp/twinsC/C07/orig), the other one imports the
refactored package (/tmp/wt/C07). Each worker dumps the outcomes to a pickle;
the parent compares the two pickles (bit-for-bit by default).

Exit code: 0 if everything agrees, 1 otherwise.

"""
import contextlib
import io
import os
import pickle
import subprocess
import sys
import tempfile


ROOT_ORIG = '/tmp/twinsC/C07/orig'
ROOT_NEW = '/tmp/wt/C07'
RTOL = 1.E-12
ATOL = 1.E-13


# ---------------------------------------------------------------------------
# Worker part
# ---------------------------------------------------------------------------


def _snap(x):
    """Deep snapshot of (nested) arguments."""
    import numpy as np
    if isinstance(x, np.ndarray):
        return x.copy()
    if isinstance(x, (list, tuple)):
        return type(x)(_snap(v) for v in x)
    if isinstance(x, dict):
        return {k: _snap(v) for k, v in x.items() if k != 't'}  # t = time
    if callable(x):
        return '<callable>'
    return x


def _run(func, args, kwargs):
    """Call func, record result / exception / stdout / argument mutation."""
    args = list(args)
    kwargs = dict(kwargs)
    before = _snap((args, {k: v for k, v in kwargs.items() if not callable(v)}))
    out = io.StringIO()
    rec = {}
    try:
        with contextlib.redirect_stdout(out):
            res = func(*args, **kwargs)
        rec['res'] = res
        rec['exc'] = None
    except Exception as exc:
        rec['res'] = None
        rec['exc'] = (type(exc).__name__, str(exc))
    rec['stdout'] = out.getvalue()
    rec['args_before'] = before
    rec['args_after'] = _snap(
        (args, {k: v for k, v in kwargs.items() if not callable(v)}))
    return rec


def _clean_info(info):
    info = dict(info)
    info.pop('t', None)
    return info


def _strip_time(text):
    import re
    return re.sub(r'time:\s*[0-9.]+', 'time: X', text)


def worker(root, fpath):
    sys.path.insert(0, root)
    os.chdir(root)
    import numpy as np
    import teneva
    m_als = sys.modules['teneva.als']
    m_alf = sys.modules['teneva.als_func']

    assert os.path.abspath(teneva.__file__).startswith(root + '/'), \
        teneva.__file__
    assert m_als.__file__.startswith(root + '/')
    assert m_alf.__file__.startswith(root + '/')

    results = {}

    def rand_tt(rng, n, r):
        d = len(n)
        r = [1] + list(r) + [1]
        return [rng.normal(size=(r[k], n[k], r[k+1])) for k in range(d)]

    # ------------------------------------------------------------------
    # 1. als._optimize_core (direct)
    # ------------------------------------------------------------------
    cnt = 0
    for seed in range(12):
        rng = np.random.default_rng(1000 + seed)
        for (r0, n, r1, m) in [(1, 3, 1, 7), (1, 4, 3, 20), (3, 5, 2, 40),
                               (2, 2, 2, 1), (4, 6, 4, 15), (2, 3, 3, 0),
                               (3, 7, 1, 9)]:
            Q = rng.normal(size=(r0, n, r1))
            kind = seed % 4
            if kind == 0:
                i = rng.integers(0, n, size=m)
            elif kind == 1:   # some slices have no data / single sample
                i = rng.integers(0, max(1, n - 2), size=m)
                if m > 2:
                    i[m // 2] = n - 1
            elif kind == 2:   # values out of the range (are ignored)
                i = rng.integers(-2, n + 2, size=m)
            else:             # duplicates, sorted / reversed order
                i = np.sort(rng.integers(0, n, size=m))[::-1].copy()
            y = rng.normal(size=m)
            Yl = rng.normal(size=(m, r0))
            Yr = rng.normal(size=(r1, m))
            for lamb in [None, 1.E-3, 0.5]:
                for use_w in [False, True]:
                    if lamb is None and m < r0 * r1 and False:
                        continue
                    w = rng.uniform(0.1, 2., size=m) if use_w else None
                    for upd in [None, True]:
                        if upd is not None and lamb is None and use_w:
                            pass
                        name = f'core/{cnt}'
                        cnt += 1
                        results[name] = _run(m_als._optimize_core,
                            [Q, i, y, Yl, Yr, lamb, w], {'update_sol': upd})
    # float index vector with non-integer values (no slice is matched)
    rng = np.random.default_rng(77)
    Q = rng.normal(size=(2, 3, 2))
    i = np.array([0., 1., 2.5, 2., 0.5, 1.])
    results['core/float'] = _run(m_als._optimize_core,
        [Q, i, rng.normal(size=6), rng.normal(size=(6, 2)),
         rng.normal(size=(2, 6)), 0.01, None], {})

    # ------------------------------------------------------------------
    # 2. als._optimize_core_adaptive (direct)
    # ------------------------------------------------------------------
    cnt = 0
    for seed in range(10):
        rng = np.random.default_rng(2000 + seed)
        for (r0, n1, rm, n2, r2, m) in [(1, 3, 2, 4, 1, 30), (2, 2, 1, 3, 2, 25),
                                        (3, 4, 3, 2, 1, 60), (1, 2, 5, 2, 1, 10),
                                        (2, 3, 2, 3, 2, 5), (1, 5, 1, 5, 1, 3),
                                        (2, 3, 2, 2, 3, 0)]:
            Q1 = rng.normal(size=(r0, n1, rm))
            Q2 = rng.normal(size=(rm, n2, r2))
            if seed % 3 == 0:
                i1 = rng.integers(0, n1, size=m)
                i2 = rng.integers(0, n2, size=m)
            elif seed % 3 == 1:   # missing mode indices
                i1 = rng.integers(0, max(1, n1 - 1), size=m)
                i2 = rng.integers(1, n2, size=m)
            else:                 # a single combination only
                i1 = np.full(m, n1 - 1)
                i2 = np.zeros(m, dtype=int)
            y = rng.normal(size=m)
            Yl = rng.normal(size=(m, r0))
            Yr = rng.normal(size=(r2, m))
            for lamb in [1.E-3, None]:
                for use_w in [False, True]:
                    w = rng.uniform(0.1, 2., size=m) if use_w else None
                    for ltr in [True, False, 1, 0]:
                        for e, r in [(1.E-3, 2), (1.E-8, 100), (0.5, 1)]:
                            for cmode in range(4):
                                if cmode == 0:
                                    cache = None
                                elif cmode == 1:
                                    cache = {}
                                elif cmode == 2:
                                    cache = {'i1': {k: i1 == k
                                                    for k in range(n1)}}
                                else:
                                    cache = {'i2': {k: i2 == k
                                                    for k in range(n2)},
                                             'other': 1}
                                for swap in [None, 'dict']:
                                    if swap is not None and cmode not in (1, 2):
                                        continue
                                    if swap is not None and (seed + cnt) % 3:
                                        cnt += 1
                                        continue
                                    sw = None if swap is None else {}
                                    name = f'adap/{cnt}'
                                    cnt += 1
                                    results[name] = _run(
                                        m_als._optimize_core_adaptive,
                                        [Q1, Q2, i1, i2, y, Yl, Yr, e, r,
                                         lamb, w],
                                        {'ltr': ltr, 'allow_swap': sw,
                                         'swap_tol': 3, 'cache': cache})
    # positional spelling of the tail arguments and default cache
    rng = np.random.default_rng(5)
    Q1 = rng.normal(size=(2, 3, 2)); Q2 = rng.normal(size=(2, 3, 2))
    i1 = rng.integers(0, 3, 40); i2 = rng.integers(0, 3, 40)
    results['adap/pos'] = _run(m_als._optimize_core_adaptive,
        [Q1, Q2, i1, i2, rng.normal(size=40), rng.normal(size=(40, 2)),
         rng.normal(size=(2, 40)), 1.E-3, 3, 0.01, None, False, {}, 2, {}], {})
    # stale cache (table is too short) -> the same exception
    results['adap/stale'] = _run(m_als._optimize_core_adaptive,
        [Q1, Q2, i1, i2, rng.normal(size=40), rng.normal(size=(40, 2)),
         rng.normal(size=(2, 40)), 1.E-3, 3, 0.01, None],
        {'cache': {'i1': {0: i1 == 0}}})

    # ------------------------------------------------------------------
    # 3. als.als (complete runs; both refactored core functions inside)
    # ------------------------------------------------------------------
    def data_idx(rng, n, m, cover=True):
        d = len(n)
        I = np.vstack([rng.integers(0, n[k], size=m) for k in range(d)]).T
        if cover:
            for k in range(d):
                for j in range(n[k]):
                    I[(j + 3 * k) % m, k] = j
        y = np.sin(I @ np.arange(1, d + 1)) + 0.1 * rng.normal(size=m)
        return I, y

    cnt = 0
    for seed in range(6):
        rng = np.random.default_rng(3000 + seed)
        for n, r in [([3, 4], [2]), ([4, 3, 5], [2, 3]), ([2, 2, 2, 2], [1, 1, 1]),
                     ([3, 3, 3], [4, 5]), ([5, 4, 3, 2, 3], [2, 3, 3, 2])]:
            m = int(rng.integers(30, 120))
            I, y = data_idx(rng, n, m)
            Y0 = rand_tt(rng, n, r)
            w = rng.uniform(0.2, 3., size=m)
            for lamb, ww in [(1.E-3, None), (0.1, w), (None, None), (None, w)]:
                for nswp in [1, 3]:
                    for upd in [None, True]:
                        if upd is not None and lamb is None:
                            continue
                        info = {'junk': 1}
                        rec = _run(teneva.als, [I, y, Y0, nswp],
                            {'info': info, 'lamb': lamb, 'w': ww,
                             'update_sol': upd, 'e': None})
                        rec['info'] = _clean_info(info)
                        results[f'als/{cnt}'] = rec
                        cnt += 1
            # permuted sample order, lists instead of arrays
            p = rng.permutation(m)
            info = {}
            rec = _run(teneva.als, [I[p].tolist(), y[p].tolist(), Y0, 2],
                {'info': info, 'lamb': 0.01})
            rec['info'] = _clean_info(info)
            results[f'als/{cnt}'] = rec
            cnt += 1
            # missing slices
            I2 = I.copy()
            I2[I2[:, -1] == 0, -1] = 1
            for skip in [False, True]:
                info = {}
                rec = _run(teneva.als, [I2, y, Y0, 2],
                    {'info': info, 'allow_skip_cores': skip})
                rec['info'] = _clean_info(info)
                results[f'als/{cnt}'] = rec
                cnt += 1
            # callback, validation data, log
            calls = []
            def cb(Y, info, opts, calls=calls):
                calls.append((info['nswp'], sorted(opts.keys())))
                return True if info['nswp'] == 2 else None
            info = {}
            rec = _run(teneva.als, [I, y, Y0, 5],
                {'info': info, 'cb': cb, 'I_vld': I[:10], 'y_vld': y[:10],
                 'log': True})
            rec['stdout'] = _strip_time(rec['stdout'])
            rec['info'] = _clean_info(info)
            rec['calls'] = calls
            results[f'als/{cnt}'] = rec
            cnt += 1
            # rank-adaptive mode (d >= 3)
            if len(n) >= 3:
                for rmax, e_adap, lamb, ww, stab in [
                        (4, 1.E-3, 1.E-3, None, False),
                        (max(r), 1.E-2, 0.01, w, True),
                        (6, 1.E-6, None, None, False)]:
                    for skip in [False, True]:
                        info = {}
                        Ia = I2 if skip else I
                        rec = _run(teneva.als, [Ia, y, Y0, 2],
                            {'info': info, 'r': rmax, 'e_adap': e_adap,
                             'lamb': lamb, 'w': ww, 'use_stab': stab,
                             'r_add': 2, 'allow_skip_cores': skip})
                        rec['info'] = _clean_info(info)
                        results[f'als/{cnt}'] = rec
                        cnt += 1
                if seed < 2:
                    info = {}
                    rec = _run(teneva.als, [I, y, Y0, 2],
                        {'info': info, 'r': 4, 'allow_swap': True,
                         'I_vld': I[:10], 'y_vld': y[:10]})
                    info = _clean_info(info)
                    rec['info'] = info
                    results[f'als/{cnt}'] = rec
                    cnt += 1

    # ------------------------------------------------------------------
    # 4. als_func.als_func (complete runs)
    # ------------------------------------------------------------------
    def fh_pow(nf):
        return lambda x: np.vstack([np.cos(p * x) for p in range(nf)])

    cnt = 0
    for seed in range(6):
        rng = np.random.default_rng(4000 + seed)
        for d, nn, r in [(2, 3, [2]), (3, 4, [2, 3]), (4, 2, [1, 1, 1]),
                         (3, 3, [4, 5]), (5, 3, [2, 3, 3, 2])]:
            m = int(rng.integers(40, 150))
            X = rng.uniform(-1., 1., size=(m, d))
            y = np.sin(X @ np.arange(1, d + 1)) + 0.05 * rng.normal(size=m)
            Xv = rng.uniform(-1., 1., size=(15, d))
            yv = np.sin(Xv @ np.arange(1, d + 1))
            A0 = rand_tt(rng, [nn] * d, r)
            confs = [
                dict(),
                dict(lamb=None),
                dict(lamb=0.1, update_sol=True),
                dict(lamb=None, update_sol=True),          # AssertionError
                dict(n_max=nn + 3),
                dict(n_max=nn + 2, thr_pow=0.3),
                dict(n_max=0),
                dict(a=-2., b=3.),
                dict(X_vld=Xv, y_vld=yv),
                dict(X_vld=Xv, y_vld=yv, e_vld=10., log=True),
                dict(X_vld=Xv),
                dict(fh=fh_pow(nn)),
                dict(fh=fh_pow(nn + 2), thr_pow=0.2),
                dict(fh=fh_pow(nn + 2), update_sol=True, lamb=0.01),
                dict(fh=[fh_pow(nn)] * d, X_vld=Xv, y_vld=yv),
                dict(fh=[fh_pow(nn + k % 2) for k in range(d)]),
                dict(fh=[fh_pow(nn)] * (d + 1)),            # AssertionError
                dict(fh=fh_pow(nn - 1)),                    # ValueError
                dict(e=0.5),
            ]
            for conf in confs:
                for nswp in [1, 3]:
                    info = {'junk': 'x'}
                    kw = dict(conf)
                    kw['info'] = info
                    rec = _run(teneva.als_func, [X, y, A0],
                        dict(nswp=nswp, **kw))
                    rec['stdout'] = _strip_time(rec['stdout'])
                    rec['info'] = _clean_info(info)
                    if rec['res'] is not None:
                        rec['flags'] = [(c.flags['C_CONTIGUOUS'],
                            c.flags['OWNDATA']) for c in rec['res']]
                    results[f'alf/{cnt}'] = rec
                    cnt += 1
            # restart: a + b sweeps vs a sweeps and then b sweeps
            A1 = teneva.als_func(X, y, A0, nswp=2, info={}, e=None)
            rec = _run(teneva.als_func, [X.tolist(), y.tolist(), A1],
                {'nswp': 1, 'info': {}, 'e': None})
            results[f'alf/{cnt}'] = rec
            cnt += 1

    # module level constants must not be changed by the calls
    consts = {}
    for mod in (m_als, m_alf):
        for key in sorted(vars(mod)):
            if key.startswith('_') and key[1:2].isupper():
                consts[f'{mod.__name__}.{key}'] = repr(getattr(mod, key))
    results['consts'] = sorted(consts.values()) if 'orig' not in root else None

    with open(fpath, 'wb') as f:
        pickle.dump(results, f)


# ---------------------------------------------------------------------------
# Comparison part
# ---------------------------------------------------------------------------


class Cmp:
    def __init__(self):
        self.bad = []
        self.inexact = 0
        self.n_arr = 0

    def eq(self, a, b, path):
        import numpy as np
        if isinstance(a, np.ndarray) or isinstance(b, np.ndarray):
            if not (isinstance(a, np.ndarray) and isinstance(b, np.ndarray)):
                return self.bad.append(f'{path}: type {type(a)} / {type(b)}')
            self.n_arr += 1
            if a.shape != b.shape or a.dtype != b.dtype:
                return self.bad.append(f'{path}: shape / dtype {a.shape} '
                    f'{a.dtype} / {b.shape} {b.dtype}')
            if np.array_equal(a, b, equal_nan=(a.dtype.kind == 'f')):
                return
            self.inexact += 1
            if a.dtype.kind == 'f' and np.allclose(a, b, rtol=RTOL, atol=ATOL,
                    equal_nan=True):
                return
            return self.bad.append(f'{path}: values differ '
                f'(max abs diff {np.max(np.abs(a - b)):.3e})')
        if isinstance(a, (list, tuple)):
            if type(a) is not type(b) or len(a) != len(b):
                return self.bad.append(f'{path}: sequence mismatch')
            for j, (u, v) in enumerate(zip(a, b)):
                self.eq(u, v, f'{path}[{j}]')
            return
        if isinstance(a, dict):
            if not isinstance(b, dict) or list(a.keys()) != list(b.keys()):
                return self.bad.append(f'{path}: dict keys '
                    f'{list(a.keys())} / {list(b.keys()) if isinstance(b, dict) else b}')
            for k in a:
                self.eq(a[k], b[k], f'{path}[{k!r}]')
            return
        if isinstance(a, float) or isinstance(b, float):
            import math
            if type(a) is not type(b):
                return self.bad.append(f'{path}: type {type(a)} / {type(b)}')
            if a == b or (math.isnan(a) and math.isnan(b)):
                return
            self.inexact += 1
            if abs(a - b) <= ATOL + RTOL * abs(b):
                return
            return self.bad.append(f'{path}: {a!r} / {b!r}')
        if type(a) is not type(b) or a != b:
            self.bad.append(f'{path}: {a!r} / {b!r}')


def main():
    import numpy as np

    tmp = tempfile.mkdtemp(prefix='c07_equiv_')
    files = {}
    for tag, root in [('orig', ROOT_ORIG), ('new', ROOT_NEW)]:
        fpath = os.path.join(tmp, tag + '.pkl')
        env = dict(os.environ)
        env.pop('PYTHONPATH', None)
        env['PYTHONWARNINGS'] = 'ignore'
        env['PYTHONDONTWRITEBYTECODE'] = '1'
        res = subprocess.run([sys.executable, os.path.abspath(__file__),
            '--worker', root, fpath], cwd=root, env=env)
        if res.returncode != 0:
            print(f'FAIL: worker "{tag}" crashed')
            return 1
        files[tag] = fpath

    with open(files['orig'], 'rb') as f:
        res_orig = pickle.load(f)
    with open(files['new'], 'rb') as f:
        res_new = pickle.load(f)

    res_orig.pop('consts')
    consts = res_new.pop('consts')

    cmp = Cmp()
    if list(res_orig.keys()) != list(res_new.keys()):
        print('FAIL: different scenario lists')
        return 1

    n_exc = 0
    n_mut = 0
    groups = {}
    for name in res_orig:
        a, b = res_orig[name], res_new[name]
        cmp.eq(a, b, name)
        groups[name.split('/')[0]] = groups.get(name.split('/')[0], 0) + 1
        if a['exc'] is not None:
            n_exc += 1
        # was any argument mutated (in the original)?
        c2 = Cmp()
        c2.eq(a['args_before'], a['args_after'], name)
        if c2.bad:
            n_mut += 1

    print(f'scenarios: {len(res_orig)} {groups}')
    print(f'  with exception (same in both): {n_exc}')
    print(f'  with mutated arguments (same in both): {n_mut}')
    print(f'  arrays compared: {cmp.n_arr}; not bit-identical (but within '
          f'rtol={RTOL}): {cmp.inexact}')
    print(f'  module constants of the refactored package: {consts}')

    if cmp.bad:
        print(f'FAIL: {len(cmp.bad)} mismatches')
        for text in cmp.bad[:40]:
            print('  ', text)
        return 1

    print('OK: the refactored package agrees with the original one')
    return 0


if __name__ == '__main__':
    if len(sys.argv) >= 2 and sys.argv[1] == '--worker':
        worker(sys.argv[2], sys.argv[3])
        sys.exit(0)
    sys.exit(main())
