"""Equivalence demonstration for the C16 refactoring (mul_scalar, accuracy, truncate).

The same deterministic scenario list is executed in two subprocesses, one
importing the pristine package (/tmp/twinsA/C16/orig) and one importing the
refactored package (/tmp/wt/C16); each dumps its results to a pickle and the
two pickles are compared record by record (type, dtype, shape, value, raised
exception, state of the arguments after the call).

Exit code 0: everything agrees; 1: some disagreement (or a worker failed).
"""
import os
import pickle
import subprocess
import sys
import tempfile

import numpy as np


DIR_ORIG = '/tmp/twinsA/C16/orig'
DIR_NEW = '/tmp/wt/C16'
PYTHON = '/venv/bin/python'
RTOL = 1.E-12


###############################################################################
# Worker part (runs inside the subprocess with cwd = package root)
###############################################################################


def tt_make(rng, n, r, scales=None, dtype=float):
    """Random TT-tensor with mode sizes n, ranks r (len d+1), core scales 2^s."""
    d = len(n)
    Y = []
    for k in range(d):
        G = rng.standard_normal((r[k], n[k], r[k+1]))
        if scales is not None:
            G = G * 2.**int(scales[k])
        Y.append(G.astype(dtype))
    return Y


def ranks(rng, d, kind):
    if kind == 'one':
        return [1] * (d + 1)
    if kind == 'const':
        return [1] + [3] * (d - 1) + [1]
    if kind == 'rand':
        return [1] + list(rng.integers(1, 5, d - 1)) + [1]
    if kind == 'over':  # ranks larger than the mode sizes allow
        return [1] + [7] * (d - 1) + [1]
    raise ValueError(kind)


def enc(x):
    """Encode a result into a picklable, comparable structure."""
    if isinstance(x, np.ndarray):
        return ('nd', x.dtype.str, x.shape, np.array(x))
    if isinstance(x, np.generic):
        return ('npscalar', x.dtype.str, x.item() if x.dtype.kind != 'f'
            else float(x))
    if isinstance(x, (list, tuple)):
        return (type(x).__name__, [enc(y) for y in x])
    if isinstance(x, (bool, int, float, str)) or x is None:
        return ('py', type(x).__name__, x)
    return ('repr', type(x).__name__, repr(x))


def dig(x):
    """Digest of the arguments (exact content, dtype, shape, layout, flags)."""
    import hashlib
    if isinstance(x, np.ndarray):
        h = hashlib.sha1(np.ascontiguousarray(x).tobytes()).hexdigest()
        return ('nd', x.dtype.str, x.shape, x.strides, x.flags.writeable, h)
    if isinstance(x, (list, tuple)):
        return (type(x).__name__, [dig(y) for y in x])
    return ('repr', type(x).__name__, repr(x))


def rng_state():
    st = np.random.get_state()
    return (int(st[2]), st[1][:8].tolist())


def scenarios(teneva):
    """Yield (name, func, args, kwargs); args are freshly built each time."""
    S = []

    def add(name, func, *args, **kwargs):
        S.append((name, func, args, kwargs))

    rng = np.random.default_rng(20240916)

    # ---- A. representable range: all flag combinations, many shapes
    for d in [1, 2, 3, 4, 5, 8, 13]:
        for kind in ['one', 'const', 'rand', 'over']:
            if d == 1 and kind != 'one':
                continue
            for rep in range(3):
                n = list(rng.integers(1, 6, d))
                Y1 = tt_make(rng, n, ranks(rng, d, kind))
                Y2 = tt_make(rng, n, ranks(rng, d, 'rand' if d > 1 else 'one'))
                tag = f'A-d{d}-{kind}-{rep}'
                for st in [False, True]:
                    add(f'{tag}-ms-{st}', teneva.mul_scalar, Y1, Y2, st)
                    add(f'{tag}-mskw-{st}', teneva.mul_scalar, Y1, Y1,
                        use_stab=st)
                    add(f'{tag}-norm-{st}', teneva.norm, Y1, use_stab=st)
                add(f'{tag}-acc', teneva.accuracy, Y1, Y2)
                add(f'{tag}-acc-self', teneva.accuracy, Y1, Y1)
                Y3 = [G.copy() for G in Y1]
                Y3[d//2] = Y3[d//2] * (1. + 1.E-7)
                add(f'{tag}-acc-near', teneva.accuracy, Y3, Y1)
                for orth in [True, False]:
                    for st in [False, True]:
                        for eig in [True, False]:
                            for (e, r) in [(1.E-10, 1.E+12), (1.E-2, 2),
                                    (0.3, 1), (1.E-14, 100)]:
                                add(f'{tag}-tr-{orth}-{st}-{eig}-{e}-{r}',
                                    teneva.truncate, Y1, e, r, orth, st, eig)
                add(f'{tag}-tr-def', teneva.truncate, Y1)
                add(f'{tag}-tr-kw', teneva.truncate, Y1, use_stab=True,
                    e=1.E-6)
                # over-ranked sum: truncation has real work to do
                Ys = teneva.add(Y1, Y1)
                add(f'{tag}-tr-sum', teneva.truncate, Ys, 1.E-8)
                add(f'{tag}-tr-sum-stab', teneva.truncate, Ys, 1.E-8,
                    use_stab=True)
                add(f'{tag}-tr-sum-skel', teneva.truncate, Ys, 1.E-8,
                    is_eigh=False, use_stab=True)

    # ---- B. far outside the double range (the quantifier proper)
    for d in [2, 10, 100, 400, 1000, 3000]:
        for kind in ['one', 'const', 'rand']:
            for smax in [-10, -3, 3, 10]:
                if abs(smax) * d > 30000:
                    continue
                n = list(rng.integers(2, 4, d))
                lo, hi = (0, smax + 1) if smax > 0 else (smax, 1)
                sc = rng.integers(lo, hi, d)
                Y1 = tt_make(rng, n, ranks(rng, d, kind), sc)
                Y2 = tt_make(rng, n, ranks(rng, d, kind), sc)
                tag = f'B-d{d}-{kind}-s{smax}'
                for st in [False, True]:
                    add(f'{tag}-ms-{st}', teneva.mul_scalar, Y1, Y2, st)
                    add(f'{tag}-norm-{st}', teneva.norm, Y1, st)
                add(f'{tag}-acc', teneva.accuracy, Y1, Y2)
                add(f'{tag}-acc-self', teneva.accuracy, Y1, Y1)
                Y3 = [G.copy() for G in Y1]
                Y3[0] = Y3[0] * (1. + 2.**-20)
                add(f'{tag}-acc-near', teneva.accuracy, Y3, Y1)
                # power-of-two rescaling of one core
                Y4 = [G.copy() for G in Y1]
                Y4[d//2] = Y4[d//2] * 2.**37
                add(f'{tag}-norm-shift', teneva.norm, Y4, True)
                add(f'{tag}-ms-shift', teneva.mul_scalar, Y4, Y2, True)
                if d <= 1000:
                    for eig in [True, False]:
                        add(f'{tag}-tr-stab-{eig}', teneva.truncate, Y1,
                            1.E-8, 1.E+12, True, True, eig)
                    add(f'{tag}-tr-stab-r2', teneva.truncate, Y1, 1.E-3, 2,
                        use_stab=True)
                    add(f'{tag}-tr-nostab', teneva.truncate, Y1, 1.E-8)
                    add(f'{tag}-tr-noorth', teneva.truncate, Y1, 1.E-8,
                        orth=False, use_stab=True)

    # ---- C. saturation / degenerate branches of accuracy
    for d in [2, 5, 50]:
        n = [3] * d
        r = ranks(rng, d, 'const')
        big = tt_make(rng, n, r, [40] * d)
        tiny = tt_make(rng, n, r, [-40] * d)
        zero = [np.zeros_like(G) for G in big]
        one = tt_make(rng, n, r)
        add(f'C-d{d}-big-tiny', teneva.accuracy, big, tiny)
        add(f'C-d{d}-tiny-big', teneva.accuracy, tiny, big)
        add(f'C-d{d}-one-zero', teneva.accuracy, one, zero)
        add(f'C-d{d}-zero-one', teneva.accuracy, zero, one)
        add(f'C-d{d}-zero-zero', teneva.accuracy, zero, zero)
        add(f'C-d{d}-norm-zero', teneva.norm, zero, True)
        add(f'C-d{d}-ms-zero', teneva.mul_scalar, zero, one, True)
        add(f'C-d{d}-tr-zero', teneva.truncate, zero, 1.E-8, use_stab=True)
        add(f'C-d{d}-tr-zero-ns', teneva.truncate, zero, 1.E-8)
        # entries below the core_stab threshold 1e-100
        sub = tt_make(rng, n, r, [-200] + [0] * (d - 1))
        add(f'C-d{d}-ms-subthr', teneva.mul_scalar, sub, sub, True)
        add(f'C-d{d}-acc-subthr', teneva.accuracy, one, sub)
        add(f'C-d{d}-acc-subthr2', teneva.accuracy, sub, sub)
        # intermediate overflow inside one core product
        ovf = tt_make(rng, n, r, [600] + [0] * (d - 1))
        for st in [False, True]:
            add(f'C-d{d}-ms-ovf-{st}', teneva.mul_scalar, ovf, ovf, st)
            add(f'C-d{d}-norm-ovf-{st}', teneva.norm, ovf, st)
        add(f'C-d{d}-acc-ovf', teneva.accuracy, one, ovf)
        add(f'C-d{d}-tr-ovf', teneva.truncate, ovf, 1.E-8, use_stab=True)
    a = np.zeros((1, 4, 1)); a[0, 0, 0] = 2.**400
    b = a.copy(); b[0, 1, 0] = 2.**-400
    add('C-d1-exact-tiny-diff', teneva.accuracy, [b], [a])
    add('C-d1-exact-huge-diff', teneva.accuracy, [a], [b - a])
    for q in [200, 240, 249, 250, 251, 260, 400]:
        u = [np.ones((1, 2, 1)) * 2.**q, np.ones((1, 2, 1))]
        w = [np.ones((1, 2, 1)) * 2.**-q, np.ones((1, 2, 1))]
        add(f'C-d2-sat-up-{q}', teneva.accuracy, u, w)
        add(f'C-d2-sat-dn-{q}', teneva.accuracy, w, u)

    # boundary of the upper saturation (dp = 2*a*d around 500)
    for (d, a) in [(25, 9), (25, 10), (26, 10), (40, 6), (40, 7), (300, 1)]:
        u = [np.ones((1, 2, 1)) * 2.**a for _ in range(d)]
        w = [np.ones((1, 2, 1)) * 2.**-a for _ in range(d)]
        add(f'C-satup-d{d}-a{a}', teneva.accuracy, u, w)
        add(f'C-satup-rev-d{d}-a{a}', teneva.accuracy, w, u)
    # lower saturation: exact cancellation in the last (huge) core
    for q in [480, 495, 499, 500, 501, 505, 510]:
        w = [np.ones((1, 2, 1)) * 2.**-10 for _ in range(30)]
        w.append(np.ones((1, 2, 1)) * 2.**q)
        u = [G.copy() for G in w]
        add(f'C-satdn-q{q}', teneva.accuracy, u, w)
        add(f'C-satdn-q{q}-norm', teneva.norm, w, True)

    # ---- D. numpy-array form, dtypes, memory layouts
    A = rng.standard_normal((3, 4, 5))
    B = rng.standard_normal((3, 4, 5))
    add('D-acc-np', teneva.accuracy, A, B)
    add('D-acc-np-zero', teneva.accuracy, A, np.zeros_like(B))
    for d in [3, 6]:
        n = [4] * d
        r = ranks(rng, d, 'const')
        Yi = [np.asarray(rng.integers(-3, 4, G.shape)) for G in
            tt_make(rng, n, r)]
        Yf32 = tt_make(rng, n, r, dtype=np.float32)
        Yc = [G + 1j * H for G, H in zip(tt_make(rng, n, r),
            tt_make(rng, n, r))]
        YF = [np.asfortranarray(G) for G in tt_make(rng, n, r)]
        Yv = [np.ascontiguousarray(G.transpose(2, 1, 0)).transpose(2, 1, 0)
            for G in tt_make(rng, n, r)]
        for nm, Y in [('int', Yi), ('f32', Yf32), ('cplx', Yc), ('F', YF),
                ('view', Yv)]:
            for st in [False, True]:
                add(f'D-d{d}-{nm}-ms-{st}', teneva.mul_scalar, Y, Y, st)
                add(f'D-d{d}-{nm}-norm-{st}', teneva.norm, Y, st)
                add(f'D-d{d}-{nm}-tr-{st}', teneva.truncate, Y, 1.E-6,
                    use_stab=st)
                add(f'D-d{d}-{nm}-tr-no-{st}', teneva.truncate, Y, 1.E-6,
                    orth=False, use_stab=st)
                add(f'D-d{d}-{nm}-tr-sk-{st}', teneva.truncate, Y, 1.E-6,
                    use_stab=st, is_eigh=False)
            add(f'D-d{d}-{nm}-acc', teneva.accuracy, Y, YF)

    # ---- E. exceptions and odd inputs
    Y = tt_make(rng, [3, 4, 5], [1, 2, 3, 1])
    add('E-ms-empty', teneva.mul_scalar, [], [])
    add('E-ms-empty-stab', teneva.mul_scalar, [], [], True)
    add('E-norm-empty', teneva.norm, [], True)
    add('E-acc-empty', teneva.accuracy, [], [])
    add('E-tr-empty', teneva.truncate, [])
    add('E-tr-empty-stab', teneva.truncate, [], use_stab=True)
    add('E-tr-empty-noorth', teneva.truncate, [], orth=False)
    add('E-tr-empty-noorth-stab', teneva.truncate, [], orth=False,
        use_stab=True)
    add('E-ms-len', teneva.mul_scalar, Y, Y[:2])
    add('E-ms-len-stab', teneva.mul_scalar, Y[:1], Y, True)
    add('E-ms-modes', teneva.mul_scalar, Y,
        tt_make(rng, [3, 5, 5], [1, 2, 3, 1]))
    add('E-ms-bcast', teneva.mul_scalar, Y,
        tt_make(rng, [1, 4, 1], [1, 2, 3, 1]), True)
    add('E-ms-ranks', teneva.mul_scalar, Y,
        [rng.standard_normal((1, 3, 2)), rng.standard_normal((3, 4, 2)),
         rng.standard_normal((2, 5, 1))])
    add('E-ms-2d', teneva.mul_scalar, [np.ones((2, 2))], [np.ones((2, 2))])
    add('E-ms-none', teneva.mul_scalar, None, Y)
    add('E-acc-modes', teneva.accuracy, Y,
        tt_make(rng, [3, 5, 5], [1, 2, 3, 1]))
    add('E-acc-len', teneva.accuracy, Y, Y[:2])
    add('E-tr-none', teneva.truncate, None)
    add('E-tr-2d', teneva.truncate, [np.ones((2, 2)), np.ones((2, 2))])
    add('E-tr-badranks', teneva.truncate,
        [rng.standard_normal((1, 3, 2)), rng.standard_normal((3, 4, 1))])
    add('E-tr-badranks-noorth', teneva.truncate,
        [rng.standard_normal((1, 3, 2)), rng.standard_normal((3, 4, 1))],
        orth=False)
    add('E-tr-e0', teneva.truncate, Y, 0.)
    add('E-tr-eneg', teneva.truncate, Y, -1.)
    add('E-tr-r0', teneva.truncate, Y, 1.E-8, 0)
    add('E-tr-eint', teneva.truncate, Y, 1, 3)
    add('E-tr-enan', teneva.truncate, Y, np.nan, use_stab=True)
    add('E-tr-stab-str', teneva.truncate, Y, 1.E-8, use_stab='yes')
    add('E-tr-stab-1', teneva.truncate, Y, 1.E-8, use_stab=1, is_eigh=0)
    add('E-tr-orth-0', teneva.truncate, Y, 1.E-8, orth=0, use_stab=1)
    Ynan = [G.copy() for G in Y]; Ynan[1][0, 0, 0] = np.nan
    Yinf = [G.copy() for G in Y]; Yinf[1][0, 0, 0] = np.inf
    for nm, Yb in [('nan', Ynan), ('inf', Yinf)]:
        for st in [False, True]:
            add(f'E-{nm}-ms-{st}', teneva.mul_scalar, Yb, Yb, st)
            add(f'E-{nm}-norm-{st}', teneva.norm, Yb, st)
            add(f'E-{nm}-tr-{st}', teneva.truncate, Yb, 1.E-8, use_stab=st)
        add(f'E-{nm}-acc', teneva.accuracy, Yb, Y)
        add(f'E-{nm}-acc2', teneva.accuracy, Y, Yb)
    # tuple instead of list, read-only cores
    add('E-ms-tuple', teneva.mul_scalar, tuple(Y), tuple(Y), True)
    add('E-tr-tuple', teneva.truncate, tuple(Y), 1.E-8, use_stab=True)
    Yro = [G.copy() for G in Y]
    for G in Yro:
        G.setflags(write=False)
    add('E-tr-readonly', teneva.truncate, Yro, 1.E-8, use_stab=True)
    add('E-tr-readonly-noorth', teneva.truncate, Yro, 1.E-8, orth=False,
        use_stab=True)
    add('E-ms-readonly', teneva.mul_scalar, Yro, Yro, True)

    return S


def worker(out_path):
    import warnings
    warnings.simplefilter('ignore')
    sys.path.insert(0, os.getcwd())
    import teneva
    root = os.path.dirname(os.path.dirname(os.path.abspath(teneva.__file__)))
    assert root == os.path.abspath(os.getcwd()), (root, os.getcwd())

    res = []
    np.random.seed(424242)
    for name, func, args, kwargs in scenarios(teneva):
        before = dig(list(args))
        try:
            out = ('ok', enc(func(*args, **kwargs)))
        except Exception as exc:
            out = ('exc', type(exc).__name__, str(exc))
        after = dig(list(args))
        state = rng_state()
        res.append({'name': name, 'func': func.__name__, 'out': out,
            'args_before': before, 'args_after': after,
            'mutated': before != after,
            'rng_state': state})
    with open(out_path, 'wb') as f:
        pickle.dump({'file': teneva.__file__, 'res': res}, f)


###############################################################################
# Comparison part
###############################################################################


def same(a, b, exact=False, path=''):
    """Compare two encoded values; returns (ok, bitwise_ok, message)."""
    if type(a) != type(b):
        return False, False, f'{path}: type {type(a)} vs {type(b)}'
    if isinstance(a, tuple) and a and a[0] == 'nd':
        if not (isinstance(b, tuple) and b and b[0] == 'nd'):
            return False, False, f'{path}: ndarray vs {b[0]}'
        if a[1] != b[1] or a[2] != b[2]:
            return False, False, f'{path}: {a[1]}{a[2]} vs {b[1]}{b[2]}'
        bit = np.array_equal(a[3], b[3], equal_nan=a[3].dtype.kind in 'fc')
        if bit or exact:
            return bit, bit, '' if bit else f'{path}: array values differ'
        x, y = a[3], b[3]
        fin = np.isfinite(x)
        if not np.array_equal(fin, np.isfinite(y)):
            return False, False, f'{path}: finiteness pattern differs'
        if not np.array_equal(x[~fin], y[~fin], equal_nan=True):
            return False, False, f'{path}: non-finite entries differ'
        scale = max(np.max(np.abs(x[fin]), initial=0.), 1.E-300)
        ok = bool(np.all(np.abs(x[fin] - y[fin]) <= RTOL * scale))
        return ok, False, '' if ok else f'{path}: arrays not close'
    if isinstance(a, (tuple, list)):
        if len(a) != len(b):
            return False, False, f'{path}: len {len(a)} vs {len(b)}'
        ok_all, bit_all = True, True
        for i, (x, y) in enumerate(zip(a, b)):
            ok, bit, msg = same(x, y, exact, f'{path}/{i}')
            if not ok:
                return False, False, msg
            bit_all = bit_all and bit
        return ok_all, bit_all, ''
    if isinstance(a, float):
        if a == b or (a != a and b != b):
            return True, True, ''
        if exact:
            return False, False, f'{path}: {a!r} vs {b!r}'
        ok = np.isfinite(a) and np.isfinite(b) and \
            abs(a - b) <= RTOL * max(abs(a), abs(b))
        return bool(ok), False, '' if ok else f'{path}: {a!r} vs {b!r}'
    ok = a == b
    return ok, ok, '' if ok else f'{path}: {a!r} vs {b!r}'


def exponents_equal(a, b):
    """For (value, p) results the power-of-two exponent must match exactly."""
    if a[0] != 'ok' or b[0] != 'ok':
        return True
    x, y = a[1], b[1]
    if x[0] == 'tuple' and len(x[1]) == 2 and x[1][1][0] == 'py':
        return x[1][1] == y[1][1]
    return True


def main():
    tmp = tempfile.mkdtemp(prefix='equiv_C16_')
    paths = {}
    procs = {}
    for tag, cwd in [('orig', DIR_ORIG), ('new', DIR_NEW)]:
        paths[tag] = os.path.join(tmp, tag + '.pkl')
        env = dict(os.environ)
        env.pop('PYTHONPATH', None)
        env['PYTHONDONTWRITEBYTECODE'] = '1'
        for v in ['OMP_NUM_THREADS', 'OPENBLAS_NUM_THREADS',
                'MKL_NUM_THREADS']:
            env[v] = '1'
        procs[tag] = subprocess.Popen([PYTHON, os.path.abspath(__file__),
            '--worker', paths[tag]], cwd=cwd, env=env)
    for tag, proc in procs.items():
        if proc.wait() != 0:
            print(f'worker {tag} failed')
            return 1

    data = {tag: pickle.load(open(p, 'rb')) for tag, p in paths.items()}
    print('orig package:', data['orig']['file'])
    print('new  package:', data['new']['file'])
    if not data['orig']['file'].startswith(DIR_ORIG + '/') or \
            not data['new']['file'].startswith(DIR_NEW + '/'):
        print('wrong package imported')
        return 1

    R1, R2 = data['orig']['res'], data['new']['res']
    if len(R1) != len(R2):
        print('different number of scenarios', len(R1), len(R2))
        return 1

    n_bad = n_bit = n_exc = n_mut = 0
    stats = {}
    special = {'1e299': 0, '0.0': 0, '-1': 0}
    for a, b in zip(R1, R2):
        assert a['name'] == b['name']
        msgs = []
        ok, bit, msg = same(a['out'], b['out'], path='out')
        if not ok:
            msgs.append(msg)
        if not exponents_equal(a['out'], b['out']):
            msgs.append('exponent differs')
        if a['args_before'] != b['args_before']:
            msgs.append('scenario inputs differ')
        if a['args_after'] != b['args_after']:
            msgs.append('state of the arguments after the call differs')
        if a['mutated'] != b['mutated']:
            msgs.append('mutated flag differs')
        if a['rng_state'] != b['rng_state']:
            msgs.append('global RNG state differs')
        st = stats.setdefault(a['func'], [0, 0, 0, 0])
        st[0] += 1
        if msgs:
            n_bad += 1
            st[3] += 1
            print('MISMATCH', a['name'], '; '.join(msgs))
            print('   orig:', str(a['out'])[:300])
            print('   new :', str(b['out'])[:300])
            continue
        n_bit += bit
        st[1] += bit
        if a['out'][0] == 'exc':
            n_exc += 1
            st[2] += 1
        n_mut += a['mutated']
        if a['func'] == 'accuracy' and a['out'][0] == 'ok':
            v = a['out'][1]
            if v[0] == 'py' and v[2] == 1.E+299:
                special['1e299'] += 1
            elif v[0] == 'py' and v[1] == 'float' and v[2] == 0.:
                special['0.0'] += 1
            elif v[0] == 'py' and v[1] == 'int' and v[2] == -1:
                special['-1'] += 1

    print(f'scenarios: {len(R1)}; mismatches: {n_bad}; bit-identical: '
        f'{n_bit}; identical exceptions: {n_exc}; scenarios mutating their '
        f'arguments (identically): {n_mut}')
    for f, (n, nb, ne, nm) in sorted(stats.items()):
        print(f'  {f:12s} total {n:5d}  bit-identical {nb:5d}  '
            f'exceptions {ne:4d}  mismatches {nm}')
    print('  accuracy saturation branches hit (python-typed returns):',
        special)
    print('EQUIVALENT' if n_bad == 0 else 'NOT EQUIVALENT')
    return 0 if n_bad == 0 else 1


if __name__ == '__main__':
    if len(sys.argv) == 3 and sys.argv[1] == '--worker':
        worker(sys.argv[2])
        sys.exit(0)
    sys.exit(main())
