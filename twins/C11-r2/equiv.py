"""Equivalence demonstration for the C11 twin (refactoring of
teneva.matrix_svd, teneva.orthogonalize_left, teneva.orthogonalize_right).

The same deterministic scenario list is executed in two subprocesses, one with
the pristine package (/tmp/twinsB/C11/orig) and one with the refactored package
(/tmp/wt/C11); every outcome (values, shapes, dtypes, memory layout, exceptions,
mutation / aliasing of the arguments) is pickled and the two pickles are
compared. Exit code 0 if everything agrees, 1 otherwise.

Usage: /venv/bin/python /tmp/twinsB/C11/equiv.py
"""
import contextlib
import io
import os
import pickle
import subprocess
import sys
import tempfile

import numpy as np


ROOT_ORIG = '/tmp/twinsB/C11/orig'
ROOT_TWIN = '/tmp/wt/C11'
RTOL, ATOL = 1.E-12, 1.E-14


# --------------------------------------------------------------------------
# Encoding of outcomes
# --------------------------------------------------------------------------


def enc(x):
    """Encode a result into a picklable, comparable structure."""
    if isinstance(x, np.ndarray):
        return {
            '__arr__': True,
            'dtype': str(x.dtype),
            'shape': tuple(x.shape),
            'c': bool(x.flags['C_CONTIGUOUS']),
            'f': bool(x.flags['F_CONTIGUOUS']),
            'data': np.ascontiguousarray(x).copy(),
        }
    if isinstance(x, (list, tuple)):
        return {'__seq__': type(x).__name__, 'items': [enc(v) for v in x]}
    if isinstance(x, dict):
        return {'__dict__': True,
            'items': {str(k): enc(v) for k, v in sorted(x.items(),
                key=lambda kv: str(kv[0]))}}
    if isinstance(x, np.generic):
        return {'__npscalar__': str(x.dtype), 'value': x.item()}
    if x is None or isinstance(x, (bool, int, float, str, complex)):
        return {'__py__': type(x).__name__, 'value': x}
    return {'__repr__': repr(x)}


def run(func):
    """Run a scenario; capture result or exception (type and message)."""
    out = io.StringIO()
    try:
        with contextlib.redirect_stdout(out):
            res = func()
        return {'status': 'ok', 'res': enc(res), 'stdout': out.getvalue()}
    except Exception as exc:
        return {'status': 'exc', 'type': type(exc).__name__,
            'msg': str(exc), 'stdout': out.getvalue()}


# --------------------------------------------------------------------------
# Input families
# --------------------------------------------------------------------------


def tt_rand(rng, n, r, dtype=float):
    r = [1] + list(r) + [1]
    return [rng.normal(size=(r[k], n[k], r[k+1])).astype(dtype)
        for k in range(len(n))]


def tt_family():
    """Named list of TT-tensors from the degenerate families (and more)."""
    rng = np.random.default_rng(20240611)
    fam = []

    profiles = [
        ([4, 5], [3]),
        ([4, 5], [1]),
        ([2, 2], [7]),                  # over-ranked in d = 2
        ([3, 4, 5], [2, 3]),
        ([3, 4, 5], [1, 1]),
        ([3, 4, 5], [9, 11]),           # ranks exceed what the cores carry
        ([1, 1, 1], [1, 1]),
        ([1, 3, 1, 4], [2, 2, 3]),      # mode size 1
        ([1, 3, 1, 4], [5, 1, 6]),
        ([2, 3, 2, 3, 2], [2, 6, 6, 2]),
        ([2, 3, 2, 3, 2], [4, 1, 9, 3]),
        ([5, 1, 5, 1, 5, 2], [3, 3, 3, 3, 3]),
        ([2] * 7, [2, 4, 8, 8, 4, 2]),
        ([2] * 7, [3, 7, 2, 9, 1, 5]),
        ([6, 6, 6], [6, 6]),
        ([6, 2, 6], [12, 12]),
    ]
    for n, r in profiles:
        fam.append((f'rand n={n} r={r}', tt_rand(rng, n, r)))

    for n, r in profiles[:12]:
        Y = tt_rand(rng, n, r)
        fam.append((f'zero n={n} r={r}', [np.zeros_like(G) for G in Y]))
        fam.append((f'const n={n} r={r}', [np.ones_like(G) for G in Y]))
        Z = [G.copy() for G in Y]
        Z[len(Z) // 2] = np.zeros_like(Z[len(Z) // 2])
        fam.append((f'zerocore n={n} r={r}', Z))
        # Rank-deficient: duplicate slices along the rank indices.
        Z = [G.copy() for G in Y]
        for G in Z:
            G[:] = G[:1, :, :1]
        fam.append((f'rank1-in-disguise n={n} r={r}', Z))
        Z = [G.copy() for G in Y]
        for G in Z:
            if G.shape[2] > 1:
                G[:, :, -1] = G[:, :, 0]
            if G.shape[0] > 1:
                G[0] = 2. * G[-1]
        fam.append((f'deficient n={n} r={r}', Z))
        fam.append((f'tiny n={n} r={r}', [G * 1.E-160 for G in Y]))
        fam.append((f'huge n={n} r={r}', [G * 1.E+60 for G in Y]))

    # Memory layouts / dtypes of the cores.
    for n, r in profiles[3:10]:
        Y = tt_rand(rng, n, r)
        fam.append((f'fortran n={n} r={r}',
            [np.asfortranarray(G) for G in Y]))
        fam.append((f'views n={n} r={r}',
            [np.repeat(np.repeat(G, 2, axis=0), 2, axis=2)[::2, :, ::2]
                for G in Y]))
        fam.append((f'transposed-views n={n} r={r}',
            [np.ascontiguousarray(G.transpose(2, 0, 1)).transpose(1, 2, 0)
                for G in Y]))
        fam.append((f'float32 n={n} r={r}', tt_rand(rng, n, r, np.float32)))
        fam.append((f'int n={n} r={r}',
            [np.round(3 * G).astype(int) for G in Y]))
        fam.append((f'complex n={n} r={r}',
            [G + 1j * G[::-1] for G in Y]))

    return fam


def mat_family():
    rng = np.random.default_rng(777)
    fam = []
    shapes = [(1, 1), (1, 5), (5, 1), (2, 2), (3, 7), (7, 3), (6, 6),
        (12, 4), (4, 12), (10, 30), (30, 10), (16, 16), (1, 40), (40, 1)]
    for (m, n) in shapes:
        A = rng.normal(size=(m, n))
        fam.append((f'rand {m}x{n}', A))
        fam.append((f'zero {m}x{n}', np.zeros((m, n))))
        fam.append((f'const {m}x{n}', np.full((m, n), 3.5)))
        k = max(1, min(m, n) // 2)
        fam.append((f'lowrank{k} {m}x{n}',
            rng.normal(size=(m, k)) @ rng.normal(size=(k, n))))
        fam.append((f'rank1 {m}x{n}',
            np.outer(rng.normal(size=m), rng.normal(size=n))))
        fam.append((f'repeated-rows {m}x{n}', np.tile(A[:1], (m, 1))))
        fam.append((f'tiny {m}x{n}', A * 1.E-170))
        fam.append((f'huge {m}x{n}', A * 1.E+90))
        fam.append((f'fortran {m}x{n}', np.asfortranarray(A)))
        fam.append((f'view {m}x{n}', np.repeat(A, 2, axis=1)[:, ::2]))
        fam.append((f'decay {m}x{n}',
            A * (10. ** -np.arange(n))[None, :]))
        fam.append((f'float32 {m}x{n}', A.astype(np.float32)))
        fam.append((f'int {m}x{n}', np.round(4 * A).astype(int)))
    fam.append(('diag ties', np.diag([2., 2., 2., 1., 1., 0., 0.])))
    fam.append(('identity', np.eye(5)))
    fam.append(('neg identity wide', -np.eye(4, 9)))
    fam.append(('empty 0x0', np.zeros((0, 0))))
    fam.append(('empty 0x3', np.zeros((0, 3))))
    fam.append(('empty 3x0', np.zeros((3, 0))))
    fam.append(('nan', np.full((3, 4), np.nan)))
    fam.append(('inf', np.full((4, 3), np.inf)))
    fam.append(('1d', np.arange(4.)))
    fam.append(('3d', np.ones((2, 3, 4))))
    fam.append(('list', [[1., 2.], [3., 4.]]))
    fam.append(('complex', rng.normal(size=(3, 5)) + 1j))
    return fam


# --------------------------------------------------------------------------
# Scenarios (executed inside the worker; `teneva` is whatever cwd provides)
# --------------------------------------------------------------------------


def scenarios(teneva):
    res = {}

    # ---- matrix_svd ------------------------------------------------------
    e_list = [1.E-10, 0., 1.E-3, 0.5, 1.E+3, 1.E+200, -1., np.float32(0.1)]
    r_list = [1.E+12, 1, 2, 3, 0, -4, 2.7, np.int64(2), True]
    for name, A in mat_family():
        for e in e_list:
            for r in r_list:
                def f(A=A, e=e, r=r):
                    A0 = A.copy() if isinstance(A, np.ndarray) else A
                    U, V = teneva.matrix_svd(A, e, r)
                    same = (np.array_equal(A0, A, equal_nan=True)
                        if isinstance(A, np.ndarray)
                            and A.dtype.kind in 'fiu' else None)
                    return {'U': U, 'V': V, 'A_untouched': same,
                        'U_alias_A': bool(np.shares_memory(U, A)),
                        'V_alias_A': bool(np.shares_memory(V, A))}
                res[f'matrix_svd | {name} | e={e!r} r={r!r}'] = run(f)
        def f(A=A):
            return teneva.matrix_svd(A)
        res[f'matrix_svd | {name} | defaults'] = run(f)
        def f(A=A):
            return teneva.matrix_svd(A=A, r=2, e=1.E-2)
        res[f'matrix_svd | {name} | keywords'] = run(f)

    A = np.arange(12.).reshape(3, 4)
    bad = [('e=None', dict(e=None)), ('e=str', dict(e='x')),
        ('r=None', dict(r=None)), ('r=str', dict(r='x')),
        ('r=nan', dict(r=np.nan)), ('r=inf', dict(r=np.inf)),
        ('e=nan', dict(e=np.nan)), ('e=str r=str', dict(e='x', r='y')),
        ('e=array', dict(e=np.array([1., 2.]))),
        ('e=array1', dict(e=np.array([1.]))),
        ('r=array', dict(r=np.array([1, 2])))]
    for name, kw in bad:
        for B in (A, A.T.copy(), np.zeros((0, 0))):
            def f(B=B, kw=kw):
                return teneva.matrix_svd(B, **kw)
            res[f'matrix_svd | bad {name} {B.shape}'] = run(f)
    for B in (None, 3., 'abc'):
        def f(B=B):
            return teneva.matrix_svd(B)
        res[f'matrix_svd | bad A={B!r}'] = run(f)

    # ---- orthogonalize_left / orthogonalize_right --------------------------
    def orth_case(func, Y, i, inplace, how):
        cores = list(Y)
        backup = [G.copy() for G in Y]
        info = {}
        def call():
            if how == 'pos':
                return func(Y, i, inplace)
            if how == 'kw':
                return func(Y=Y, i=i, inplace=inplace)
            return func(Y, i) if not inplace else func(Y, i, inplace=True)
        try:
            Z = call()
            info['status'] = 'ok'
            info['Z'] = enc(Z)
            info['Z_is_Y'] = Z is Y
            info['Z_core_is_input_core'] = [
                any(G is H for H in cores) for G in Z]
            info['Z_core_alias_input'] = [
                any(bool(np.shares_memory(G, H)) for H in cores) for G in Z]
            info['Z_cores_alias_each_other'] = [
                bool(np.shares_memory(Z[a], Z[b]))
                for a in range(len(Z)) for b in range(a)]
            info['Z_writeable'] = [bool(G.flags['WRITEABLE']) for G in Z]
        except Exception as exc:
            info['status'] = 'exc'
            info['type'] = type(exc).__name__
            info['msg'] = str(exc)
        # State of the argument after the call (also after an exception).
        info['Y_len'] = len(Y)
        info['Y_after'] = enc(list(Y))
        info['Y_core_identity_kept'] = [
            k < len(cores) and Y[k] is cores[k] for k in range(len(Y))]
        info['input_cores_untouched'] = [
            bool(np.array_equal(G, H))
            and getattr(G, 'dtype', None) == getattr(H, 'dtype', None)
            for G, H in zip(cores, backup)]
        return info

    fam = tt_family()
    for name, Y0 in fam:
        d = len(Y0)
        modes = list(range(-2, d + 2)) + [None]
        for fname in ('orthogonalize_left', 'orthogonalize_right'):
            func = getattr(teneva, fname)
            for i in modes:
                for inplace in (False, True):
                    for how in ('pos', 'kw', 'default'):
                        Y = [G.copy(order='K') if G.flags['OWNDATA'] else G
                            for G in Y0]
                        key = (f'{fname} | {name} | i={i} '
                            f'inplace={inplace} {how}')
                        res[key] = orth_case(func, Y, i, inplace, how)

    # Odd mode numbers and malformed tensors (exceptions and partial mutation
    # must agree, too).
    rng = np.random.default_rng(5)
    base = tt_rand(rng, [3, 4, 2, 3], [2, 3, 2])
    odd_i = [0.5, 1.0, 2.5, np.int64(1), np.float64(2.), True, False, 'a',
        np.nan, np.array(1), np.array([1]), np.array([1, 2]), (1,), 1+0j]
    for fname in ('orthogonalize_left', 'orthogonalize_right'):
        func = getattr(teneva, fname)
        for i in odd_i:
            for inplace in (False, True):
                Y = [G.copy() for G in base]
                res[f'{fname} | odd i={i!r} inplace={inplace}'] = orth_case(
                    func, Y, i, inplace, 'pos')

        def broken():
            out = []
            Y = [G.copy() for G in base]; Y[1] = Y[1][:, :, 0]
            out.append(('core1 2D', Y))
            Y = [G.copy() for G in base]; Y[2] = Y[2][:1]
            out.append(('rank mismatch 1-2', Y))
            Y = [G.copy() for G in base]; Y[1] = Y[1][:, :, :1]
            out.append(('rank mismatch 1-2 b', Y))
            Y = [G.copy() for G in base]; Y[0] = Y[0][..., None]
            out.append(('core0 4D', Y))
            Y = [G.copy() for G in base]; Y[2] = Y[2].tolist()
            out.append(('core2 list', Y))
            Y = [G.copy() for G in base]; Y[1][0, 0, 0] = np.nan
            out.append(('nan entry', Y))
            Y = [G.copy() for G in base]; Y[2][0, 0, 0] = np.inf
            out.append(('inf entry', Y))
            Y = [G.copy() for G in base]; Y[3] = np.zeros((2, 0, 1))
            out.append(('empty mode', Y))
            Y = [G.copy() for G in base]
            for G in Y:
                G.flags.writeable = False
            out.append(('read-only cores', Y))
            out.append(('tuple of cores', tuple(G.copy() for G in base)))
            out.append(('single core', [np.ones((1, 3, 1))]))
            out.append(('empty list', []))
            return out
        for bname, Yb in broken():
            for i in range(0, 4):
                for inplace in (False, True):
                    if isinstance(Yb, tuple):
                        Y = tuple(G.copy() for G in Yb)
                    else:
                        Y = [G.copy() if isinstance(G, np.ndarray)
                            and G.flags.writeable else G for G in Yb]
                    key = f'{fname} | broken {bname} | i={i} inplace={inplace}'
                    try:
                        res[key] = orth_case(func, Y, i, inplace, 'pos')
                    except Exception as exc:
                        res[key] = {'harness_exc': type(exc).__name__}
        for Yb in (None, 5, np.ones((3, 1, 2, 1))):
            for inplace in (False, True):
                def f(Yb=Yb, inplace=inplace):
                    return func(Yb, 1, inplace)
                res[f'{fname} | Y={type(Yb).__name__} inplace={inplace}'] = (
                    run(f))

    # ---- Callers (property quantifier: rounding, orthogonalisation, TT-SVD,
    #      QTT conversion, ...) ---------------------------------------------
    for name, Y0 in fam:
        if name.startswith(('int', 'complex')):
            continue
        d = len(Y0)
        for k in list(range(d)) + [None]:
            for use_stab in (False, True):
                def f(Y0=Y0, k=k, use_stab=use_stab):
                    Y = [G.copy() for G in Y0]
                    Z = teneva.orthogonalize(Y, k, use_stab)
                    return {'Z': Z, 'Y_after': Y}
                res[f'orthogonalize | {name} | k={k} stab={use_stab}'] = run(f)
        for (e, r) in [(1.E-10, 1.E+12), (1.E-2, 1.E+12), (0., 2), (1.E-6, 1),
                (10., 3)]:
            for orth in (True, False):
                for use_stab in (False, True):
                    for is_eigh in (True, False):
                        def f(Y0=Y0, e=e, r=r, orth=orth, use_stab=use_stab,
                                is_eigh=is_eigh):
                            Y = [G.copy() for G in Y0]
                            Z = teneva.truncate(Y, e, r, orth, use_stab,
                                is_eigh)
                            return {'Z': Z, 'Y_after': Y,
                                'norm': teneva.norm(Z),
                                'sum': teneva.sum(Z),
                                'erank': teneva.erank(Z)}
                        key = (f'truncate | {name} | e={e} r={r} orth={orth} '
                            f'stab={use_stab} eigh={is_eigh}')
                        res[key] = run(f)
        def f(Y0=Y0):
            return teneva.show(teneva.truncate(Y0, 1.E-8))
        res[f'show(truncate) | {name}'] = run(f)

    rng = np.random.default_rng(99)
    cores = [
        ('rand 2x8x3', rng.normal(size=(2, 8, 3))),
        ('rand 1x16x1', rng.normal(size=(1, 16, 1))),
        ('rand 5x4x5', rng.normal(size=(5, 4, 5))),
        ('rand 3x2x2', rng.normal(size=(3, 2, 2))),
        ('rand 2x1x2', rng.normal(size=(2, 1, 2))),
        ('zero 2x8x3', np.zeros((2, 8, 3))),
        ('const 3x16x2', np.ones((3, 16, 2))),
        ('rank1 4x8x4', np.einsum('i,j,k', rng.normal(size=4),
            rng.normal(size=8), rng.normal(size=4))),
        ('bad 2x6x2', rng.normal(size=(2, 6, 2))),
    ]
    for name, G in cores:
        for (e, r) in [(0., 1.E+12), (1.E-8, 1.E+12), (1.E-2, 2), (0., 1),
                (1.E+5, 4)]:
            def f(G=G, e=e, r=r):
                G0 = G.copy()
                Q = teneva.core_tt_to_qtt(G, e, r)
                return {'Q': Q, 'G_untouched': bool(np.array_equal(G, G0))}
            res[f'core_tt_to_qtt | {name} | e={e} r={r}'] = run(f)

    for name, Y0 in fam[:40]:
        if any(np.log2(G.shape[1]) % 1 for G in Y0):
            continue
        for (e, r) in [(1.E-10, 1.E+12), (1.E-3, 2)]:
            def f(Y0=Y0, e=e, r=r):
                return teneva.tt_to_qtt(Y0, e, r)
            res[f'tt_to_qtt | {name} | e={e} r={r}'] = run(f)

    # Sums of many tensors with rounding, optimisation / sampling helpers that
    # call orthogonalize (random draws for a fixed seed must agree as well).
    for seed in range(4):
        def f(seed=seed):
            Y_all = [teneva.rand([3, 4, 2, 5], 2, seed=seed * 10 + k)
                for k in range(7)]
            Z = teneva.add_many(Y_all, e=1.E-8, r=5, trunc_freq=2)
            return {'Z': Z, 'norm': teneva.norm(Z), 'mean': teneva.mean(Z)}
        res[f'add_many | seed={seed}'] = run(f)

        def f(seed=seed):
            Y = teneva.rand([4, 3, 5, 2, 3], 3, seed=seed)
            return {'optima_tt': teneva.optima_tt(Y, k=5),
                'sample': teneva.sample(Y, 6, seed=seed + 1)}
        res[f'optima/sample | seed={seed}'] = run(f)

        def f(seed=seed):
            Y = teneva.rand([3, 3, 4], 2, seed=seed)
            Z = teneva.mul(Y, Y)
            Z = teneva.truncate(Z, 1.E-6)
            W = teneva.sub(Z, Z)
            W = teneva.truncate(W, 1.E-6)
            return {'Z': Z, 'W': W, 'acc': teneva.accuracy(W, W),
                'acc2': teneva.accuracy(Z, W), 'norm': teneva.norm(W),
                'mul_scalar': teneva.mul_scalar(W, Z)}
        res[f'zero-by-subtraction | seed={seed}'] = run(f)

        def f(seed=seed):
            rng = np.random.default_rng(seed)
            I_trn = rng.integers(0, 4, size=(200, 4))
            I_trn[50:] = I_trn[:150]                    # repeated samples
            y_trn = np.cos(I_trn.sum(axis=1) * 0.3)
            Y = teneva.anova(I_trn, y_trn, r=2, order=1, seed=seed)
            Y = teneva.als(I_trn, y_trn, Y, nswp=3)
            return {'Y': Y, 'Yt': teneva.truncate(Y, 1.E-4)}
        res[f'anova+als | seed={seed}'] = run(f)

    return res


# --------------------------------------------------------------------------
# Comparison
# --------------------------------------------------------------------------


class Stats:
    def __init__(self):
        self.n_arr = 0
        self.n_bitwise = 0
        self.max_dev = 0.


def same(a, b, path, errs, st):
    if type(a) is not type(b):
        errs.append(f'{path}: type {type(a).__name__} vs {type(b).__name__}')
        return
    if isinstance(a, dict) and a.get('__arr__'):
        if not b.get('__arr__'):
            errs.append(f'{path}: array vs non-array')
            return
        for key in ('dtype', 'shape', 'c', 'f'):
            if a[key] != b[key]:
                errs.append(f'{path}: {key} {a[key]} vs {b[key]}')
                return
        x, y = a['data'], b['data']
        st.n_arr += 1
        if x.tobytes() == y.tobytes():
            st.n_bitwise += 1
            return
        if x.dtype.kind not in 'fc':
            errs.append(f'{path}: non-float data differ')
            return
        if not np.allclose(x, y, rtol=RTOL, atol=ATOL * max(1.,
                float(np.nanmax(np.abs(x))) if x.size else 1.),
                equal_nan=True):
            errs.append(f'{path}: values differ')
            return
        with np.errstate(all='ignore'):
            dev = np.nanmax(np.abs(x - y)) if x.size else 0.
        st.max_dev = max(st.max_dev, float(dev))
        return
    if isinstance(a, dict):
        if sorted(a) != sorted(b):
            errs.append(f'{path}: keys {sorted(a)} vs {sorted(b)}')
            return
        for key in a:
            same(a[key], b[key], f'{path}.{key}', errs, st)
        return
    if isinstance(a, (list, tuple)):
        if len(a) != len(b):
            errs.append(f'{path}: len {len(a)} vs {len(b)}')
            return
        for k, (u, v) in enumerate(zip(a, b)):
            same(u, v, f'{path}[{k}]', errs, st)
        return
    if isinstance(a, float):
        if a == b or (a != a and b != b):
            return
        if abs(a - b) <= RTOL * abs(b) + ATOL:
            st.max_dev = max(st.max_dev, abs(a - b))
            return
        errs.append(f'{path}: {a!r} vs {b!r}')
        return
    if a != b:
        errs.append(f'{path}: {a!r} vs {b!r}')


def worker(out_path):
    import warnings
    warnings.simplefilter('ignore')
    sys.path.insert(0, os.getcwd())
    import teneva
    root = os.path.realpath(os.getcwd())
    assert os.path.realpath(teneva.__file__).startswith(root + os.sep), (
        teneva.__file__, root)
    np.seterr(all='ignore')
    res = scenarios(teneva)
    with open(out_path, 'wb') as f:
        pickle.dump({'file': teneva.__file__, 'res': res}, f)


def main():
    tmp = tempfile.mkdtemp(prefix='equiv_C11_')
    outs = []
    for tag, root in (('orig', ROOT_ORIG), ('twin', ROOT_TWIN)):
        out = os.path.join(tmp, tag + '.pkl')
        env = dict(os.environ)
        env.pop('PYTHONPATH', None)
        env['PYTHONDONTWRITEBYTECODE'] = '1'
        proc = subprocess.run(
            [sys.executable, os.path.abspath(__file__), '--worker', out],
            cwd=root, env=env)
        if proc.returncode != 0:
            print(f'worker {tag} failed with code {proc.returncode}')
            return 1
        with open(out, 'rb') as f:
            outs.append(pickle.load(f))
    a, b = outs
    print('orig package :', a['file'])
    print('twin package :', b['file'])
    if a['file'] == b['file']:
        print('ERROR: both workers imported the same package')
        return 1

    errs = []
    st = Stats()
    if list(a['res']) != list(b['res']):
        errs.append('scenario lists differ')
    n_exc = 0
    for key in a['res']:
        if key not in b['res']:
            continue
        same(a['res'][key], b['res'][key], key, errs, st)
        if a['res'][key].get('status') == 'exc':
            n_exc += 1

    print(f'scenarios            : {len(a["res"])}')
    print(f'  raising (same) exc : {n_exc}')
    print(f'arrays compared      : {st.n_arr}')
    print(f'  bitwise identical  : {st.n_bitwise}')
    print(f'  max abs deviation  : {st.max_dev:.3e} (of the non-bitwise ones)')
    print(f'mismatches           : {len(errs)}')
    for err in errs[:40]:
        print('  MISMATCH', err)
    return 1 if errs else 0


if __name__ == '__main__':
    if len(sys.argv) == 3 and sys.argv[1] == '--worker':
        worker(sys.argv[2])
        sys.exit(0)
    sys.exit(main())
