"""Equivalence demonstration for the C07 twin B refactoring (TT-ALS anchors).

The same deterministic list of scenarios is executed in two subprocesses: one
imports the pristine package (cwd = /tmp/twinsB/C07/orig) and one imports the
refactored package (cwd = /tmp/wt/C07). Each of them dumps all the observable
results (return values, the info / cache / allow_swap dictionaries, the state
of the arguments after the call, the text printed to stdout, the exceptions and
what the callback has seen) into a pickle; then the two pickles are compared.

Refactored functions under the test: teneva.als.als, teneva.als._optimize_core_adaptive,
teneva.als_func.als_func.

Exit code: 0 if everything agrees, 1 otherwise.

"""
import contextlib
import io
import os
import pickle
import re
import subprocess
import sys
import tempfile


DIR_ORIG = '/tmp/twinsB/C07/orig'
DIR_NEW = '/tmp/wt/C07'
RTOL = 1.E-10
ATOL = 1.E-12


# ---------------------------------------------------------------------------
# Worker part (it is run with cwd equal to the root of the checked package)
# ---------------------------------------------------------------------------


def _worker(fpath):
    sys.path.insert(0, os.getcwd())
    import numpy as np
    import teneva
    mod_als = sys.modules['teneva.als']
    assert os.path.realpath(mod_als.__file__).startswith(
        os.path.realpath(os.getcwd()) + os.sep)

    root = os.path.realpath(os.getcwd())
    assert os.path.realpath(teneva.__file__).startswith(root + os.sep), \
        (teneva.__file__, root)

    res = {}

    def snap(x):
        # Deep copy of the (nested) data into plain python / numpy objects:
        if isinstance(x, np.ndarray):
            return np.array(x, copy=True)
        if isinstance(x, dict):
            return {k: snap(v) for k, v in x.items() if k != 't'}
        if isinstance(x, (list, tuple)):
            return [snap(v) for v in x]
        if isinstance(x, np.generic):
            return x.item()
        return x

    def run(name, func, args, kwargs, watch):
        # watch: dict of the named objects (arguments), which state is saved
        # before and after the call (to compare the mutation behaviour).
        before = snap(watch)
        out = io.StringIO()
        rec = {'exc': None, 'ret': None}
        with contextlib.redirect_stdout(out):
            try:
                rec['ret'] = snap(func(*args, **kwargs))
            except Exception as err:
                rec['exc'] = (type(err).__name__, str(err))
        text = re.sub(r'time:\s*[-0-9.eE+]+', 'time: X', out.getvalue())
        rec['stdout'] = text
        rec['before'] = before
        rec['after'] = snap(watch)
        assert name not in res, name
        res[name] = rec

    def rand_tt(rng, n, r):
        return [rng.normal(size=(r[k], n[k], r[k+1])) for k in range(len(n))]

    def sample_all_slices(rng, n, m):
        # Multi-indices, where each slice of each mode is present:
        d = len(n)
        I = np.vstack([rng.integers(0, n[k], size=m) for k in range(d)]).T
        for k in range(d):
            pos = rng.permutation(m)[:n[k]]
            I[pos, k] = np.arange(n[k])
        return I

    def sample_all_slices_fix(I, n):
        for k in range(len(n)):
            miss = sorted(set(range(n[k])) - set(I[:, k].tolist()))
            for j, v in enumerate(miss):
                I[len(I) - 1 - j, k] = v
        return I

    # ---------------------------------------------------------------- als ---

    cases = [
        # (n, r, m)
        ([3, 4], [1, 2, 1], 30),
        ([2, 2], [1, 1, 1], 5),
        ([3, 3], [1, 5, 1], 12),                # over-ranked
        ([4, 3, 5], [1, 2, 3, 1], 60),
        ([4, 3, 5], [1, 1, 1, 1], 25),
        ([2, 3, 2], [1, 4, 7, 1], 20),          # over-ranked
        ([5, 4, 3, 4], [1, 3, 2, 3, 1], 150),
        ([3, 3, 3, 3], [1, 1, 4, 1, 1], 40),
        ([2, 3, 4, 3, 2], [1, 2, 3, 3, 2, 1], 200),
        ([6, 5, 4, 3, 2, 3], [1, 2, 2, 2, 2, 2, 1], 300),
    ]

    num = 0
    for n, r, m in cases:
        d = len(n)
        for var in range(8):
            num += 1
            rng = np.random.default_rng(1000 + num)
            Y0 = rand_tt(rng, n, r)
            I = sample_all_slices(rng, n, m)
            if var % 2 == 1:
                # Duplicates of the samples:
                I[m//2:m//2 + 3] = I[:3]
                I = sample_all_slices_fix(I, n)
            y = rng.normal(size=m)
            w = rng.uniform(0.1, 2., size=m) if var in (2, 3, 6) else None
            lamb = [1.E-3, 1.E-1, 10., 1.E-6, 0.5, 1.E-3, 1.E-2, 3.][var]
            nswp = [1, 2, 3, 4, 2, 5, 1, 3][var]
            kw = dict(nswp=nswp, lamb=lamb, w=w)
            if var == 4:
                kw['I_vld'] = sample_all_slices(rng, n, 15)
                kw['y_vld'] = rng.normal(size=15)
            if var == 5:
                kw['e'] = 1.E-1
                kw['log'] = True
            if var == 7:
                kw['update_sol'] = True
            info = {}
            Iarg = I.copy() if var % 3 else [list(map(int, i)) for i in I]
            yarg = y.copy() if var % 3 else [float(v) for v in y]
            watch = {'I': Iarg, 'y': yarg, 'Y0': Y0, 'info': info, 'w': w}
            run(f'als-const-{num}', teneva.als, (Iarg, yarg, Y0),
                dict(info=info, **kw), watch)

    # Restart (a+b sweeps), permutations, float32 / int inputs, lamb is None:
    for num in range(6):
        rng = np.random.default_rng(2000 + num)
        n = [3, 4, 3, 2][:2 + num % 3]
        r = [1] + [2 + num % 2] * (len(n) - 1) + [1]
        m = 80
        Y0 = rand_tt(rng, n, r)
        I = sample_all_slices(rng, n, m)
        y = rng.normal(size=m)
        w = rng.uniform(0.5, 1.5, size=m) if num % 2 else None
        p = rng.permutation(m)
        info = {}
        run(f'als-perm-{num}', teneva.als, (I[p], y[p], Y0),
            dict(nswp=3, lamb=0.05, w=None if w is None else w[p], info=info),
            {'info': info, 'Y0': Y0})
        info = {'extra': 'kept', 'nswp': 77}
        run(f'als-types-{num}', teneva.als,
            (I.astype(np.int32), y.astype(np.float32), Y0),
            dict(nswp=2, lamb=None if num < 3 else 0.2, info=info),
            {'info': info, 'Y0': Y0})

    # Slice coverage validation (missing slice at each mode; flag on / off;
    # a slice covered by a single sample at the first / last position):
    num = 0
    for n, r in [([3, 4], [1, 2, 1]), ([3, 2, 4], [1, 2, 2, 1]),
                 ([2, 3, 3, 2], [1, 2, 3, 2, 1])]:
        d = len(n)
        for k_miss in range(-1, d):
            for skip in [False, True]:
                for pos in [0, -1]:
                    num += 1
                    rng = np.random.default_rng(3000 + num)
                    m = 40
                    Y0 = rand_tt(rng, n, r)
                    I = sample_all_slices(rng, n, m)
                    if k_miss >= 0:
                        v = int(rng.integers(0, n[k_miss]))
                        I[I[:, k_miss] == v, k_miss] = (v + 1) % n[k_miss]
                    else:
                        # Single sample for one slice at the given position:
                        k = num % d
                        I[I[:, k] == 0, k] = 1
                        I[pos, k] = 0
                    y = rng.normal(size=m)
                    info = {}
                    run(f'als-cover-{num}', teneva.als, (I, y, Y0),
                        dict(nswp=2, lamb=0.01, info=info,
                             allow_skip_cores=skip,
                             r=None if num % 5 else 3),
                        {'I': I, 'y': y, 'Y0': Y0, 'info': info})

    # Empty train dataset / wrong usage:
    Y0 = rand_tt(np.random.default_rng(1), [2, 3], [1, 2, 1])
    for skip in [False, True]:
        info = {}
        run(f'als-empty-{skip}', teneva.als,
            (np.zeros((0, 2), dtype=int), np.zeros(0), Y0),
            dict(nswp=1, info=info, allow_skip_cores=skip),
            {'info': info})
    info = {}
    run('als-assert-update', teneva.als,
        (np.zeros((3, 2), dtype=int), np.zeros(3), Y0),
        dict(nswp=1, info=info, r=2, update_sol=True), {'info': info})
    info = {}
    run('als-assert-swap', teneva.als,
        (np.zeros((3, 2), dtype=int), np.zeros(3), Y0),
        dict(nswp=1, info=info, allow_swap=True), {'info': info})

    # Callback (what it sees, stop by it) and the other stop reasons:
    for num in range(8):
        rng = np.random.default_rng(4000 + num)
        n = [3, 2, 4, 3][:2 + num % 3]
        r = [1] + [2] * (len(n) - 1) + [1]
        m = 60
        Y0 = rand_tt(rng, n, r)
        I = sample_all_slices(rng, n, m)
        y = rng.normal(size=m)
        seen = []

        def cb(Y, info, opts, seen=seen, num=num):
            seen.append(snap({'Y': Y, 'info': info, 'opts': opts}))
            if num % 4 == 0:
                return len(seen) == 2
            if num % 4 == 1:
                return 1 # Not a "True"
            if num % 4 == 2:
                return True
            return None

        kw = dict(nswp=4, lamb=0.1, cb=cb)
        if num == 3:
            kw.update(e=1.E+3)
        if num == 7:
            kw.update(e_vld=1.E+3, I_vld=I[:7], y_vld=y[:7])
        if num >= 4:
            kw.update(r=3, e_adap=1.E-2)
        info = {}
        run(f'als-cb-{num}', teneva.als, (I, y, Y0), dict(info=info, **kw),
            {'info': info, 'seen': seen, 'I': I})

    # Rank-adaptive mode:
    cases = [
        ([3, 4, 3], [1, 2, 2, 1], 80),
        ([3, 4, 3], [1, 1, 1, 1], 50),
        ([2, 2, 2], [1, 2, 2, 1], 30),
        ([4, 3, 5, 3], [1, 3, 3, 3, 1], 200),
        ([4, 3, 5, 3], [1, 1, 2, 1, 1], 150),
        ([3, 3, 3, 3, 3], [1, 2, 3, 3, 2, 1], 300),
        ([5, 2, 4, 2, 3, 4], [1, 2, 2, 2, 2, 2, 1], 400),
    ]
    num = 0
    for n, r, m in cases:
        for var in range(6):
            num += 1
            rng = np.random.default_rng(5000 + num)
            Y0 = rand_tt(rng, n, r)
            I = sample_all_slices(rng, n, m)
            y = rng.normal(size=m)
            if var == 1:
                # Low-rank data:
                y = teneva.get_many(rand_tt(rng, n, [1] + [2]*(len(n)-1) + [1]), I)
            kw = dict(nswp=[1, 2, 3, 2, 4, 2][var], r=[3, 4, 2, 5, 3, 6][var],
                      lamb=[1.E-3, 1.E-4, 0.1, 1., 1.E-2, None][var],
                      e_adap=[1.E-3, 1.E-6, 1.E-1, 1.E-3, 0.3, 1.E-10][var],
                      r_add=[10000, 1, 10000, 2, 1, 10000][var],
                      use_stab=(num in (2, 8)))
            if var in (2, 4):
                kw['w'] = rng.uniform(0.2, 3., size=m)
            if var == 3:
                kw['I_vld'] = I[:20].copy()
                kw['y_vld'] = y[:20].copy()
                kw['log'] = True
            if var == 5:
                kw['allow_skip_cores'] = True
                I[:, 1] = np.minimum(I[:, 1], n[1] - 2)
            info = {}
            run(f'als-adap-{num}', teneva.als, (I, y, Y0),
                dict(info=info, **kw),
                {'I': I, 'y': y, 'Y0': Y0, 'info': info})

    # Experimental swap option (with / without the validation dataset):
    for num in range(12):
        rng = np.random.default_rng(6000 + num)
        n = [[3, 3, 3], [2, 2, 2, 2], [4, 2, 3, 2, 3], [3, 3, 3, 3, 3]][num % 4]
        r = [1] + [2] * (len(n) - 1) + [1]
        m = 120
        Y0 = rand_tt(rng, n, r)
        I = sample_all_slices(rng, n, m)
        y = rng.normal(size=m)
        if num % 2:
            y = np.sin(I @ np.arange(1, len(n) + 1)) + I[:, 0] * I[:, -1]
        kw = dict(nswp=3, r=4, lamb=1.E-3, allow_swap=True, allow_skip_cores=True,
                  swap_tol=[3, 0.5, 1.E-3, 100][num % 4], e_adap=1.E-2)
        if num != 5:
            kw['I_vld'] = I[:30].copy()
            kw['y_vld'] = y[:30].copy()
        info = {}
        run(f'als-swap-{num}', teneva.als, (I, y, Y0), dict(info=info, **kw),
            {'I': I, 'y': y, 'Y0': Y0, 'info': info})

    # -------------------------------------------- _optimize_core_adaptive ---

    num = 0
    for r1, n1, n2, r2, m in [(1, 2, 3, 1, 20), (2, 3, 3, 2, 60),
                              (3, 2, 4, 1, 50), (1, 4, 2, 3, 40),
                              (4, 3, 2, 5, 100), (2, 1, 1, 2, 10),
                              (2, 5, 4, 2, 12), (3, 3, 3, 3, 1)]:
        for var in range(8):
            num += 1
            rng = np.random.default_rng(7000 + num)
            rm = int(rng.integers(1, 5))
            Q1 = rng.normal(size=(r1, n1, rm))
            Q2 = rng.normal(size=(rm, n2, r2))
            i1 = rng.integers(0, n1, size=m)
            i2 = rng.integers(0, n2, size=m)
            y = rng.normal(size=m)
            Yl = rng.normal(size=(m, r1))
            Yr = rng.normal(size=(r2, m))
            w = rng.uniform(0.1, 2., size=m) if var % 3 == 1 else None
            lamb = [1.E-3, 0.1, None, 5., 1.E-5, 1.E-2, 1., 1.E-3][var]
            e = [1.E-3, 1.E-8, 0.5, 1.E-2, 1.E-3, 0.9, 1.E-12, 1.E-3][var]
            r = [3, 100, 2, 1, 4, 2, 7, 3][var]
            ltr = bool(var % 2)
            swap = {} if var in (3, 4, 6) else None
            if var == 7:
                swap = {'old': 1}
            if var in (0, 1):
                cache = None
            elif var in (2, 3):
                cache = {}
            elif var in (4, 5):
                cache = {'i1': {k: i1 == k for k in range(n1)}}
            else:
                cache = {'i2': {k: i2 == k for k in range(n2)}, 'x': 5}
            args = (Q1, Q2, i1, i2, y, Yl, Yr, e, r, lamb, w)
            kw = dict(ltr=ltr, allow_swap=swap, swap_tol=[3, 0.01][var % 2],
                      cache=cache)
            if var == 0:
                kw = {}
            watch = {'Q1': Q1, 'Q2': Q2, 'i1': i1, 'i2': i2, 'y': y, 'Yl': Yl,
                     'Yr': Yr, 'w': w, 'swap': swap, 'cache': cache}
            run(f'adap-core-{num}', mod_als._optimize_core_adaptive, args, kw,
                watch)
            rec = res[f'adap-core-{num}']
            rec['cache_types'] = None if cache is None else sorted(
                (str(k), type(v).__name__,
                 sorted(type(kk).__name__ for kk in v) if isinstance(v, dict)
                 else None) for k, v in cache.items())

    # ----------------------------------------------------------- als_func ---

    def fh_pow(n):
        def fh(x):
            return np.vstack([x**p for p in range(n)])
        return fh

    num = 0
    for d, n, r, m in [(2, 3, 2, 40), (2, 2, 1, 10), (3, 4, 2, 100),
                       (3, 3, 1, 50), (3, 2, 5, 60), (4, 3, 3, 200),
                       (5, 4, 2, 300)]:
        for var in range(10):
            num += 1
            rng = np.random.default_rng(8000 + num)
            rr = [1] + [r] * (d - 1) + [1]
            if var == 8:
                rr = [1] + [int(v) for v in rng.integers(1, 4, size=d-1)] + [1]
            A0 = rand_tt(rng, [n] * d, rr)
            X = rng.uniform(-1., 1., size=(m, d))
            y = np.cos(X.sum(axis=1)) + 0.1 * rng.normal(size=m)
            kw = dict(nswp=[1, 2, 3, 2, 4, 2, 3, 2, 2, 1][var],
                      lamb=[1.E-3, 0.1, None, 1.E-2, 1., 1.E-3, 1.E-4, 0.5,
                            1.E-3, None][var])
            if var == 1:
                kw.update(a=-2., b=3.)
            if var in (3, 4):
                kw.update(n_max=n + [2, 3][var - 3],
                          thr_pow=[1.E-6, 0.3][var - 3])
            if var == 5:
                kw.update(fh=fh_pow(n))
            if var == 6:
                kw.update(fh=[fh_pow(n + (k % 2)) for k in range(d)],
                          thr_pow=1.E-1)
            if var == 7:
                kw.update(update_sol=True, n_max=n + 1, thr_pow=0.05)
            if var in (2, 4, 8):
                kw.update(X_vld=X[:11].copy(), y_vld=y[:11].copy())
            if var == 8:
                kw.update(e=1.E-2, e_vld=1.E-1, log=True)
            if var == 9:
                kw.update(X_vld=X[:11].copy(), n_max=n - 1 if n > 2 else n + 4)
            info = {} if var % 2 else {'extra': 1, 'stop': 'x'}
            Xarg = X.copy() if var % 3 else [list(map(float, x)) for x in X]
            yarg = y.copy() if var % 3 else [float(v) for v in y]
            run(f'als-func-{num}', teneva.als_func, (Xarg, yarg, A0),
                dict(info=info, **kw),
                {'X': Xarg, 'y': yarg, 'A0': A0, 'info': info})

    # Wrong usage of als_func:
    A0 = rand_tt(np.random.default_rng(3), [3, 3, 3], [1, 2, 2, 1])
    X = np.random.default_rng(4).uniform(-1, 1, size=(30, 3))
    y = X.sum(axis=1)
    info = {}
    run('als-func-bad-fh', teneva.als_func, (X, y, A0),
        dict(info=info, fh=[fh_pow(3)] * 2), {'info': info, 'A0': A0})
    info = {}
    run('als-func-bad-update', teneva.als_func, (X, y, A0),
        dict(info=info, lamb=None, update_sol=True), {'info': info})
    info = {}
    run('als-func-small-basis', teneva.als_func, (X, y, A0),
        dict(info=info, fh=fh_pow(2), nswp=1), {'info': info, 'A0': A0})

    with open(fpath, 'wb') as f:
        pickle.dump(res, f)


# ---------------------------------------------------------------------------
# Comparison part
# ---------------------------------------------------------------------------


def _compare(a, b, path, errs, stat):
    import numpy as np

    if type(a) is not type(b):
        errs.append(f'{path}: types {type(a).__name__} / {type(b).__name__}')
        return

    if isinstance(a, np.ndarray):
        if a.shape != b.shape or a.dtype != b.dtype:
            errs.append(f'{path}: shape / dtype {a.shape} {a.dtype} / '
                        f'{b.shape} {b.dtype}')
            return
        stat['arrays'] += 1
        if a.tobytes() == b.tobytes():
            stat['exact'] += 1
            return
        if a.dtype.kind == 'f':
            ok = np.allclose(a, b, rtol=RTOL, atol=ATOL, equal_nan=True)
            diff = np.max(np.abs(a - b)) if a.size else 0.
            stat.setdefault('inexact', []).append((path, float(diff)))
            stat['maxdiff'] = max(stat['maxdiff'], float(diff))
        else:
            ok = np.array_equal(a, b)
        if not ok:
            errs.append(f'{path}: arrays differ')
        return

    if isinstance(a, dict):
        if list(a.keys()) != list(b.keys()):
            errs.append(f'{path}: keys {list(a.keys())} / {list(b.keys())}')
            return
        for k in a:
            _compare(a[k], b[k], f'{path}/{k}', errs, stat)
        return

    if isinstance(a, (list, tuple)):
        if len(a) != len(b):
            errs.append(f'{path}: lengths {len(a)} / {len(b)}')
            return
        for k, (x, y) in enumerate(zip(a, b)):
            _compare(x, y, f'{path}/{k}', errs, stat)
        return

    if isinstance(a, float):
        stat['floats'] += 1
        if a == b or (a != a and b != b):
            stat['floats_exact'] += 1
            return
        if abs(a - b) > ATOL + RTOL * abs(b):
            errs.append(f'{path}: floats {a!r} / {b!r}')
        return

    if a != b:
        errs.append(f'{path}: values {a!r} / {b!r}')


def main():
    env = dict(os.environ)
    env.pop('PYTHONPATH', None)
    for name in ['OMP_NUM_THREADS', 'OPENBLAS_NUM_THREADS', 'MKL_NUM_THREADS']:
        env[name] = '1'
    env['PYTHONDONTWRITEBYTECODE'] = '1'

    data = []
    with tempfile.TemporaryDirectory() as tmp:
        procs = []
        for k, cwd in enumerate([DIR_ORIG, DIR_NEW]):
            fpath = os.path.join(tmp, f'res{k}.pkl')
            procs.append((fpath, cwd, subprocess.Popen(
                [sys.executable, os.path.abspath(__file__), '--worker', fpath],
                cwd=cwd, env=env)))
        for fpath, cwd, proc in procs:
            if proc.wait() != 0:
                print(f'FAIL: worker for {cwd} exited with {proc.returncode}')
                return 1
            with open(fpath, 'rb') as f:
                data.append(pickle.load(f))

    res_old, res_new = data
    errs = []
    stat = {'arrays': 0, 'exact': 0, 'maxdiff': 0., 'floats': 0,
            'floats_exact': 0}
    if list(res_old.keys()) != list(res_new.keys()):
        errs.append('Different lists of scenarios')
    else:
        for name in res_old:
            _compare(res_old[name], res_new[name], name, errs, stat)

    n_exc = sum(1 for v in res_old.values() if v['exc'] is not None)
    n_out = sum(1 for v in res_old.values() if v['stdout'])
    kinds = {}
    for v in res_old.values():
        if v['exc'] is not None:
            kinds[v['exc'][0]] = kinds.get(v['exc'][0], 0) + 1
    print(f'Scenarios            : {len(res_old)}')
    print(f'  with exception     : {n_exc} {kinds}')
    print(f'  with stdout        : {n_out}')
    n_swp = sum(1 for v in res_old.values() if 'swapping' in v['stdout'])
    print(f'  with core swaps    : {n_swp}')
    print(f'Arrays compared      : {stat["arrays"]} '
          f'(bit-for-bit equal: {stat["exact"]})')
    print(f'Floats compared      : {stat["floats"]} '
          f'(exactly equal: {stat["floats_exact"]})')
    print(f'Max abs difference   : {stat["maxdiff"]:.3e}')

    for path, diff in stat.get('inexact', []):
        print(f'  not bit-for-bit    : {path} (max abs diff {diff:.2e})')

    if '--list-exc' in sys.argv:
        for name, v in res_old.items():
            if v['exc'] is not None:
                print(f'  {name}: {v["exc"][0]}: {v["exc"][1][:90]}')

    if errs:
        print(f'FAIL: {len(errs)} difference(s)')
        for text in errs[:40]:
            print('  ' + text)
        return 1

    print('OK: the original and the refactored packages agree')
    return 0


if __name__ == '__main__':
    if len(sys.argv) == 3 and sys.argv[1] == '--worker':
        _worker(sys.argv[2])
        sys.exit(0)
    sys.exit(main())
