"""Equivalence demonstration for the C08 twin (round C).

Runs the same deterministic scenario list in two subprocesses (pristine copy
of the package in /tmp/twinsC/C08/orig, refactored package in /tmp/wt/C08),
pickles the results and compares them.  Exit code 0 = all scenarios agree.

Usage: /venv/bin/python /tmp/twinsC/C08/equiv.py
"""
import os
import pickle
import subprocess
import sys
import tempfile


ROOT_ORIG = '/tmp/twinsC/C08/orig'
ROOT_NEW = '/tmp/wt/C08'
RTOL = 1.E-13
ATOL = 1.E-13


# --------------------------------------------------------------------------
# Worker part (executed with the package root as the first sys.path entry)
# --------------------------------------------------------------------------


def _pack(x):
    """Turn a result into a picklable, comparable description."""
    import numpy as np
    if isinstance(x, np.ndarray):
        return ('arr', x.shape, str(x.dtype), bool(x.flags['C_CONTIGUOUS']),
            bool(x.flags['F_CONTIGUOUS']), np.array(x))
    if isinstance(x, (tuple, list)):
        return (type(x).__name__, [_pack(y) for y in x])
    if isinstance(x, dict):
        return ('dict', [(str(k), _pack(x[k])) for k in sorted(x, key=str)
            if k not in ('t',)])
    if isinstance(x, np.generic):
        return ('scalar', str(x.dtype), x.item())
    return ('obj', type(x).__name__, x)


def _call(f, *args, **kwargs):
    try:
        return ('ok', _pack(f(*args, **kwargs)))
    except Exception as err:
        return ('exc', type(err).__name__, str(err))


def _matrices():
    """Deterministic list of (tag, matrix) inside and around the quantifier."""
    import numpy as np
    out = []
    shapes = [(2, 1), (3, 1), (9, 1), (3, 2), (4, 3), (5, 4), (8, 3),
        (12, 5), (20, 7), (33, 8), (50, 2), (64, 16), (100, 10), (17, 16)]
    for s, (n, r) in enumerate(shapes):
        rng = np.random.default_rng(1000 + s)
        A = rng.normal(size=(n, r))
        out.append((f'normal-{n}x{r}', A))

        # Prescribed conditioning up to 1e8
        for c in (1.E+2, 1.E+5, 1.E+8):
            U, _ = np.linalg.qr(rng.normal(size=(n, r)))
            V, _ = np.linalg.qr(rng.normal(size=(r, r)))
            sv = np.logspace(0, -np.log10(c), r) if r > 1 else np.ones(1)
            out.append((f'cond{c:.0e}-{n}x{r}', (U * sv) @ V.T))

        # Duplicate rows and zero rows (column rank stays full if possible)
        if n >= r + 2:
            D = A.copy()
            D[-1] = D[0]
            D[n // 2] = 0.
            out.append((f'dupzero-{n}x{r}', D))
        if n >= 2 * r + 1:
            D = np.vstack([A[:r], A[:r], np.zeros((n - 2 * r, r))])
            out.append((f'dupblock-{n}x{r}', D))

        # Layout / dtype variants (same values)
        out.append((f'forder-{n}x{r}', np.asfortranarray(A)))
        out.append((f'strided-{n}x{r}', rng.normal(size=(2*n, 2*r))[::2, ::2]))
        out.append((f'uniform-{n}x{r}', rng.uniform(-1, 1, size=(n, r))))
        out.append((f'ints-{n}x{r}',
            rng.integers(-5, 6, size=(n, r)).astype(float) + np.eye(n, r)))

    rng = np.random.default_rng(77)
    out.append(('float32-15x4', rng.normal(size=(15, 4)).astype(np.float32)))
    out.append(('intdtype-9x3', rng.integers(-9, 10, size=(9, 3)) +
        10 * np.eye(9, 3, dtype=int)))
    out.append(('scaled-big-30x6', 1.E+6 * rng.normal(size=(30, 6))))
    out.append(('scaled-small-30x6', 1.E-6 * rng.normal(size=(30, 6))))
    out.append(('eye-top-10x4', np.vstack([np.eye(4), 0.5 * np.ones((6, 4))])))
    out.append(('ties-8x2', np.array([[1., 0.], [0., 1.], [1., 1.], [1., -1.],
        [-1., 1.], [1., 1.], [0., 0.], [2., 2.]])))
    # Wide / square (must be rejected by maxvol; trivial branch of _maxvol)
    out.append(('square-4x4', rng.normal(size=(4, 4))))
    out.append(('wide-3x6', rng.normal(size=(3, 6))))
    out.append(('square-1x1', rng.normal(size=(1, 1))))
    return out


def _scenarios():
    import numpy as np
    import teneva

    res = []

    def run(tag, f, A, *args, **kwargs):
        A_in = np.array(A, order='K')
        A_ref = A_in.copy(order='K')
        out = _call(f, A_in, *args, **kwargs)
        same = (A_in.shape == A_ref.shape and A_in.dtype == A_ref.dtype and
            np.array_equal(A_in, A_ref, equal_nan=True))
        res.append((tag, out, ('arg-unchanged', bool(same))))

    mats = _matrices()

    for tag, A in mats:
        n, r = A.shape

        # --- maxvol
        for e in (1.01, 1.05, 1.5, 10.):
            for k in (1, 2, 7, 100, 1000):
                run(f'maxvol|{tag}|e={e}|k={k}', teneva.maxvol, A, e, k)
        run(f'maxvol|{tag}|defaults', teneva.maxvol, A)
        run(f'maxvol|{tag}|kw', teneva.maxvol, A, k=3, e=1.02)
        run(f'maxvol|{tag}|k=0', teneva.maxvol, A, 1.05, 0)

        # --- maxvol_rect
        drs = [(0, None), (0, 0), (0, 1), (1, 1), (1, 2), (2, 5), (0, 3),
            (3, None), (1, None), (0, n), (0, 10 * n), (2, 1), (-1, 2),
            (0, -1), (n, None), (n - r, None), (n - r + 1, None),
            (n - r, n - r), (1, 0)]
        for dr_min, dr_max in drs:
            for e in (1.01, 1.1, 2.):
                run(f'rect|{tag}|e={e}|dr={dr_min},{dr_max}',
                    teneva.maxvol_rect, A, e, dr_min, dr_max)
        run(f'rect|{tag}|defaults', teneva.maxvol_rect, A)
        run(f'rect|{tag}|kw', teneva.maxvol_rect, A, dr_max=2, e0=1.01, k0=3,
            e=1.3, dr_min=1)
        run(f'rect|{tag}|k0=1', teneva.maxvol_rect, A, 1.1, 0, None, 1.05, 1)
        run(f'rect|{tag}|e-huge', teneva.maxvol_rect, A, 1.E+3, 1, 4)

        # --- _maxvol
        for dr_min, dr_max in [(0, 0), (0, 1), (1, 1), (1, 3), (2, 1),
                (0, n), (n, n), (3, 2 * n), (0, 2)]:
            run(f'_maxvol|{tag}|dr={dr_min},{dr_max}', teneva._maxvol, A,
                1.1, dr_min, dr_max, 1.05, 100)
            run(f'_maxvol|{tag}|dr={dr_min},{dr_max}|tau', teneva._maxvol, A,
                1.01, dr_min, dr_max, 1.01, 2)
        run(f'_maxvol|{tag}|defaults', teneva._maxvol, A)
        run(f'_maxvol|{tag}|kw', teneva._maxvol, A, dr_max=2, tau0=1.2, k0=5)

    # --- callers further up (same random draws, info / cache side effects)
    for seed in range(4):
        for d, n, r in [(3, 6, 1), (4, 5, 2), (5, 4, 3), (3, 7, 9)]:
            def f(I):
                return np.sin(0.3 * I.sum(axis=1)) + 1. / (1. + I[:, 0])
            for dr_min, dr_max in [(0, 0), (0, 2), (1, 2)]:
                Y0 = teneva.rand([n] * d, r, seed=seed)
                Y0_ref = [G.copy() for G in Y0]
                info, cache = {}, {}
                out = _call(teneva.cross, f, Y0, m=3000, e=1.E-10, nswp=3,
                    dr_min=dr_min, dr_max=dr_max, info=info, cache=cache)
                same = all(np.array_equal(G, H) for G, H in zip(Y0, Y0_ref))
                keys = sorted(cache.keys())
                res.append((f'cross|seed={seed}|d={d}|n={n}|r={r}|'
                    f'dr={dr_min},{dr_max}', out, ('arg-unchanged', bool(same)),
                    _pack(info), ('cache', len(keys), keys[:50],
                    [float(cache[q]) for q in keys[:50]])))

            rng = np.random.default_rng(seed)
            G = rng.normal(size=(r, n, r + 1))
            R = rng.normal(size=(r + 1, r + 1))
            res.append((f'core_dot_maxvol|seed={seed}|{n}|{r}|rtl',
                _call(teneva.core_dot_maxvol, G, R, None, False)))
            R = rng.normal(size=(r, r))
            res.append((f'core_dot_maxvol|seed={seed}|{n}|{r}|ltr',
                _call(teneva.core_dot_maxvol, G, R, None, True)))

            Y = teneva.rand([n] * d, r, seed=seed + 10)
            res.append((f'optima_tt|seed={seed}|d={d}|n={n}|r={r}',
                _call(teneva.optima_tt, Y, 5)))
            res.append((f'optima_tt_maxvol|seed={seed}|d={d}|n={n}|r={r}',
                _call(teneva.optima_tt_maxvol, Y, 4)))

    return res


def worker(root, fpath):
    sys.path.insert(0, root)
    os.chdir(root)
    import teneva
    where = os.path.realpath(teneva.__file__)
    assert where.startswith(os.path.realpath(root) + os.sep), (where, root)
    res = _scenarios()
    with open(fpath, 'wb') as f:
        pickle.dump(res, f)


# --------------------------------------------------------------------------
# Comparison part
# --------------------------------------------------------------------------


class Stat:
    def __init__(self):
        self.n_arr = 0
        self.n_bit = 0
        self.n_exc = 0
        self.bad = []


def _cmp(a, b, path, st):
    import numpy as np
    if type(a) is not type(b):
        st.bad.append(f'{path}: type {type(a).__name__}/{type(b).__name__}')
        return
    if isinstance(a, tuple) and len(a) == 6 and a[0] == 'arr':
        if b[0] != 'arr' or a[1:5] != b[1:5]:
            st.bad.append(f'{path}: array meta {a[:5]} vs {b[:5]}')
            return
        st.n_arr += 1
        x, y = a[5], b[5]
        if np.array_equal(x, y, equal_nan=True):
            st.n_bit += 1
        elif x.dtype.kind in 'iub' or not np.allclose(x, y, rtol=RTOL,
                atol=ATOL * max(1., float(np.max(np.abs(x), initial=0.))),
                equal_nan=True):
            st.bad.append(f'{path}: array values differ')
        return
    if isinstance(a, (tuple, list)):
        if len(a) != len(b):
            st.bad.append(f'{path}: length {len(a)} vs {len(b)}')
            return
        for q, (x, y) in enumerate(zip(a, b)):
            _cmp(x, y, f'{path}/{q}', st)
        return
    if isinstance(a, float):
        if not (a == b or (a != a and b != b) or
                abs(a - b) <= RTOL * max(1., abs(a))):
            st.bad.append(f'{path}: {a!r} vs {b!r}')
        return
    if a != b:
        st.bad.append(f'{path}: {a!r} vs {b!r}')


def main():
    tmp = tempfile.mkdtemp(prefix='equivC08_')
    files, procs = [], []
    for name, root in (('orig', ROOT_ORIG), ('new', ROOT_NEW)):
        fpath = os.path.join(tmp, name + '.pkl')
        env = dict(os.environ)
        env.pop('PYTHONPATH', None)
        env['PYTHONDONTWRITEBYTECODE'] = '1'
        # Small matrices only: one BLAS thread per worker (both run at once)
        for var in ('OMP_NUM_THREADS', 'OPENBLAS_NUM_THREADS',
                'MKL_NUM_THREADS'):
            env[var] = '1'
        procs.append((name, subprocess.Popen([sys.executable, '-W', 'ignore',
            os.path.abspath(__file__), '--worker', root, fpath],
            cwd=root, env=env)))
        files.append(fpath)
    for name, p in procs:
        if p.wait() != 0:
            print(f'FAIL: worker "{name}" exited with {p.returncode}')
            return 1

    with open(files[0], 'rb') as f:
        res_o = pickle.load(f)
    with open(files[1], 'rb') as f:
        res_n = pickle.load(f)

    st = Stat()
    if len(res_o) != len(res_n):
        st.bad.append(f'number of scenarios {len(res_o)} vs {len(res_n)}')
    n_exc = 0
    kinds = {}
    for so, sn in zip(res_o, res_n):
        if so[0] != sn[0]:
            st.bad.append(f'scenario order {so[0]} vs {sn[0]}')
            continue
        if so[1][0] == 'exc':
            n_exc += 1
        head = so[0].split('|')[0]
        kinds[head] = kinds.get(head, 0) + 1
        _cmp(so[1:], sn[1:], so[0], st)

    print(f'scenarios: {len(res_o)}  ' +
        '  '.join(f'{k}={v}' for k, v in sorted(kinds.items())))
    print(f'scenarios ending in an exception (equal type and text): {n_exc}')
    print(f'arrays compared: {st.n_arr}  bitwise equal: {st.n_bit}')
    if st.bad:
        print(f'MISMATCHES: {len(st.bad)}')
        for line in st.bad[:40]:
            print('  ' + line)
        return 1
    print('OK: original and refactored package agree on all scenarios')
    return 0


if __name__ == '__main__':
    if len(sys.argv) == 4 and sys.argv[1] == '--worker':
        worker(sys.argv[2], sys.argv[3])
        sys.exit(0)
    sys.exit(main())
