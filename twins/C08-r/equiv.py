"""Equivalence demonstration for the C08 refactoring (maxvol / maxvol_rect / _maxvol).

Runs the same deterministic scenario list in two subprocesses (one importing the
pristine package from /tmp/twinsA/C08/orig, one importing the refactored package
from /tmp/wt/C08), dumps the outcomes to pickles and compares them.

Exit code 0: everything agrees; 1: some difference (or a worker failed).
"""
import os
import pickle
import subprocess
import sys
import tempfile

ORIG = '/tmp/twinsA/C08/orig'
TWIN = os.environ.get('EQUIV_TWIN', '/tmp/wt/C08')
PY = sys.executable or '/venv/bin/python'


# --------------------------------------------------------------------------
# worker part (executed with cwd = root of the package to be tested)
# --------------------------------------------------------------------------


def _matrix(rng, n, r, cond=1., kind='gauss', dup=0, zero=0, order='C',
            dtype=float):
    import numpy as np
    if kind == 'gauss':
        A = rng.normal(size=(n, r))
    elif kind == 'unif':
        A = rng.uniform(-1., 1., size=(n, r))
    elif kind == 'orth':
        A = np.linalg.qr(rng.normal(size=(n, r)))[0]
    elif kind == 'int':
        A = rng.integers(-5, 6, size=(n, r)).astype(float)
        A[:r] += 7. * np.eye(r)          # keep full column rank
    else:
        raise ValueError(kind)
    if cond > 1.:
        U, _, Vt = np.linalg.svd(A, full_matrices=False)
        s = np.logspace(0., -np.log10(cond), r)
        A = (U * s) @ Vt
    # duplicate / zero rows (placed so that the rank is kept for n >= r + k)
    idx = rng.permutation(n)
    free = max(0, n - r)
    dup = min(dup, free)
    zero = min(zero, free - dup)
    for t in range(dup):
        A[idx[t]] = A[idx[n - 1 - (t % r)]]
    for t in range(dup, dup + zero):
        A[idx[t]] = 0.
    if np.linalg.matrix_rank(A) < r:     # deterministic fallback
        A[idx[n - r:]] += np.eye(r)
    A = np.asarray(A, dtype=dtype)
    return np.asfortranarray(A) if order == 'F' else np.ascontiguousarray(A)


def _pack(x):
    import numpy as np
    if isinstance(x, np.ndarray):
        return ('nd', x.dtype.str, x.shape, np.array(x))
    if isinstance(x, (tuple, list)):
        return (type(x).__name__, [_pack(y) for y in x])
    if isinstance(x, dict):
        return ('dict', sorted((k, _pack(v)) for k, v in x.items()
            if k not in ('t',)))
    if isinstance(x, (np.generic,)):
        return ('npscalar', type(x).__name__, x.item())
    return ('py', type(x).__name__, x)


def _call(func, A, *args, **kwargs):
    """Call and record result or exception + state of the argument after."""
    import numpy as np
    A_in = A.copy(order='K') if isinstance(A, np.ndarray) else A
    try:
        res = ('ok', _pack(func(A_in, *args, **kwargs)))
    except Exception as exc:  # noqa
        res = ('exc', type(exc).__name__, str(exc))
    return (res, _pack(A_in))


def worker(fpath):
    sys.path.insert(0, os.getcwd())
    import numpy as np
    import teneva
    root = os.path.realpath(os.getcwd())
    assert os.path.realpath(teneva.__file__).startswith(root + os.sep), \
        (teneva.__file__, root)

    out = []

    def rec(name, val):
        out.append((name, val))

    rng = np.random.default_rng(20240808)

    shapes = [(2, 1), (3, 1), (7, 1), (3, 2), (4, 3), (5, 4), (9, 8),
        (6, 2), (10, 3), (12, 5), (25, 6), (40, 10), (64, 4), (100, 7),
        (200, 12), (33, 32), (300, 2)]
    conds = [1., 1.e2, 1.e5, 1.e8]
    kinds = ['gauss', 'unif', 'orth', 'int']

    # ---- maxvol ----------------------------------------------------------
    cnt = 0
    for (n, r) in shapes:
        for cond in conds:
            for e in [1.01, 1.05, 1.3, 2.]:
                for k in [0, 1, 2, 7, 100]:
                    cnt += 1
                    if cnt % 3 and n * r > 300:
                        continue
                    kind = kinds[cnt % 4]
                    A = _matrix(rng, n, r, cond, kind, dup=cnt % 3,
                        zero=(cnt // 3) % 3, order='CF'[cnt % 2])
                    rec(f'maxvol n{n} r{r} c{cond:g} e{e} k{k} {kind}',
                        _call(teneva.maxvol, A, e, k))
    # defaults, keywords, dtypes
    for (n, r) in shapes:
        A = _matrix(rng, n, r, 1.e3)
        rec(f'maxvol-default n{n} r{r}', _call(teneva.maxvol, A))
        rec(f'maxvol-kw n{n} r{r}', _call(teneva.maxvol, A, k=3, e=1.02))
        A32 = _matrix(rng, n, r, 10., dtype=np.float32)
        rec(f'maxvol-f32 n{n} r{r}', _call(teneva.maxvol, A32, 1.1, 20))
        Ai = _matrix(rng, n, r, 1., 'int', dtype=np.int64)
        rec(f'maxvol-int n{n} r{r}', _call(teneva.maxvol, Ai, 1.05, 50))
        rec(f'maxvol-view n{n} r{r}',
            _call(lambda M: teneva.maxvol(M[::-1]), A))
    # rejected inputs
    for (n, r) in [(1, 1), (3, 3), (2, 5), (1, 4), (8, 8), (5, 6)]:
        A = rng.normal(size=(n, r))
        rec(f'maxvol-bad n{n} r{r}', _call(teneva.maxvol, A))
        rec(f'maxvol-bad-k0 n{n} r{r}', _call(teneva.maxvol, A, 1.5, 0))
        rec(f'maxvol_rect-bad n{n} r{r}', _call(teneva.maxvol_rect, A))
        rec(f'maxvol_rect-bad2 n{n} r{r}',
            _call(teneva.maxvol_rect, A, 1.1, 0, 0))
    rec('maxvol-1d', _call(teneva.maxvol, rng.normal(size=5)))

    # ---- maxvol_rect -----------------------------------------------------
    cnt = 0
    for (n, r) in shapes:
        drs = [(0, None), (0, 0), (0, 1), (1, 1), (1, 3), (2, None),
            (0, n - r), (n - r, n - r), (n - r, None), (0, n), (1, 2 * n),
            (3, 2), (-1, 2), (n - r + 1, None), (n - r + 1, n), (2, 1),
            (-2, None), (0, -1), (0, 5)]
        for (dr_min, dr_max) in drs:
            for e in [1.01, 1.1, 1.5, 3.]:
                cnt += 1
                cond = conds[cnt % 4]
                kind = kinds[(cnt // 4) % 4]
                A = _matrix(rng, n, r, cond, kind, dup=cnt % 4,
                    zero=(cnt // 2) % 3, order='CF'[(cnt // 3) % 2])
                e0 = [1.01, 1.05, 1.2][cnt % 3]
                k0 = [0, 1, 10, 100][cnt % 4]
                rec(f'rect n{n} r{r} dr{dr_min},{dr_max} e{e} e0{e0} k0{k0}',
                    _call(teneva.maxvol_rect, A, e, dr_min, dr_max, e0, k0))
    for (n, r) in shapes:
        A = _matrix(rng, n, r, 1.e4)
        rec(f'rect-default n{n} r{r}', _call(teneva.maxvol_rect, A))
        rec(f'rect-kw n{n} r{r}', _call(teneva.maxvol_rect, A, dr_max=2,
            e=1.01, k0=2))
        rec(f'rect-tiny-e n{n} r{r}', _call(teneva.maxvol_rect, A, 1.e-3))
        A32 = _matrix(rng, n, r, 10., dtype=np.float32)
        rec(f'rect-f32 n{n} r{r}', _call(teneva.maxvol_rect, A32, 1.05, 1))
        Ai = _matrix(rng, n, r, 1., 'int', dtype=np.int64)
        rec(f'rect-int n{n} r{r}', _call(teneva.maxvol_rect, Ai, 1.05))
        rec(f'rect-npint n{n} r{r}', _call(teneva.maxvol_rect, A, 1.05,
            np.int64(min(1, n - r)), np.int64(3)))

    # ---- _maxvol (dispatch) ----------------------------------------------
    all_shapes = shapes + [(1, 1), (3, 3), (2, 5), (1, 4), (8, 8), (5, 6)]
    cnt = 0
    for (n, r) in all_shapes:
        rec(f'_maxvol-default n{n} r{r}',
            _call(teneva._maxvol, rng.normal(size=(n, r))))
        for (dr_min, dr_max) in [(0, 0), (0, 1), (1, 1), (1, 2), (2, 1),
                (0, 3), (3, 3), (5, 2), (0, 1000), (1000, 1000), (1, 0),
                (np.int64(1), np.int64(2))]:
            for tau in [1.01, 1.1, 2.]:
                cnt += 1
                cond = conds[cnt % 4]
                if n > r:
                    A = _matrix(rng, n, r, cond, kinds[cnt % 4],
                        dup=cnt % 2, zero=cnt % 3, order='CF'[cnt % 2])
                else:
                    A = rng.normal(size=(n, r))
                tau0 = [1.01, 1.05, 1.5][cnt % 3]
                k0 = [0, 1, 5, 100][(cnt // 3) % 4]
                rec(f'_maxvol n{n} r{r} dr{dr_min},{dr_max} tau{tau} '
                    f'tau0{tau0} k0{k0}', _call(teneva._maxvol, A, tau,
                        dr_min, dr_max, tau0, k0))
        rec(f'_maxvol-kw n{n} r{r}', _call(teneva._maxvol,
            rng.normal(size=(n, r)), dr_max=2, tau0=1.02, k0=3))

    # ---- callers of the anchors (random draws, info / cache dictionaries) --
    def func(I):
        X = I / 7. - 0.5
        return np.sin(X.sum(axis=1)) + 1. / (1. + (X * X).sum(axis=1))

    for seed in [0, 1, 7]:
        for (d, n, r, dr_min, dr_max) in [(3, 6, 1, 0, 0), (4, 8, 2, 0, 1),
                (5, 5, 3, 1, 2), (4, [4, 9, 3, 7], 2, 0, 2), (3, 4, 6, 0, 0),
                (6, 3, 4, 1, 1)]:
            Y0 = teneva.rand(n if isinstance(n, list) else [n] * d, r,
                seed=seed)
            info, cache = {}, {}
            try:
                Y = teneva.cross(func, Y0, m=3000, e=None, nswp=3,
                    dr_min=dr_min, dr_max=dr_max, info=info, cache=cache)
                res = ('ok', _pack(Y))
            except Exception as exc:  # noqa
                res = ('exc', type(exc).__name__, str(exc))
            rec(f'cross seed{seed} d{d} n{n} r{r} dr{dr_min},{dr_max}',
                (res, _pack(info), len(cache),
                 _pack(sorted(cache.items())[:50]), _pack(Y0)))

            Y = teneva.rand(n if isinstance(n, list) else [n] * d, r,
                seed=seed + 100)
            for k_opt in [1, 5]:
                try:
                    res = ('ok', _pack(teneva.optima_tt_maxvol(Y, k_opt)))
                except Exception as exc:  # noqa
                    res = ('exc', type(exc).__name__, str(exc))
                rec(f'optima_tt_maxvol seed{seed} d{d} n{n} r{r} k{k_opt}',
                    (res, _pack(Y)))

    for seed in range(6):
        rg = np.random.default_rng(seed)
        r1, nn, r2, q = [(2, 5, 3, 4), (1, 4, 1, 3), (3, 3, 2, 6),
            (4, 2, 5, 2), (2, 7, 2, 2), (3, 2, 1, 5)][seed]
        for ltr in [True, False]:
            G = rg.normal(size=(r1, nn, r2))
            R = rg.normal(size=(q, r1) if ltr else (r2, q))
            try:
                res = ('ok', _pack(teneva.core_dot_maxvol(G, R, None, ltr)))
            except Exception as exc:  # noqa
                res = ('exc', type(exc).__name__, str(exc))
            rec(f'core_dot_maxvol seed{seed} ltr{ltr}',
                (res, _pack(G), _pack(R)))

    with open(fpath, 'wb') as f:
        pickle.dump(out, f)


# --------------------------------------------------------------------------
# comparison part
# --------------------------------------------------------------------------


class Stats:
    def __init__(self):
        self.arrays = 0
        self.bitwise = 0
        self.maxdiff = 0.


def same(a, b, st, path=''):
    import numpy as np
    if type(a) is not type(b):
        return f'{path}: type {type(a)} vs {type(b)}'
    if isinstance(a, tuple) and len(a) == 4 and a[0] == 'nd':
        if a[:3] != b[:3]:
            return f'{path}: array meta {a[:3]} vs {b[:3]}'
        x, y = a[3], b[3]
        st.arrays += 1
        if x.tobytes() == y.tobytes():
            st.bitwise += 1
            return None
        if x.dtype.kind in 'iub':
            return f'{path}: integer arrays differ'
        if not np.array_equal(np.isnan(x), np.isnan(y)):
            return f'{path}: nan pattern differs'
        tol = 1.e-12 if x.dtype.itemsize >= 8 else 1.e-5
        if not np.allclose(x, y, rtol=tol, atol=tol, equal_nan=True):
            return f'{path}: values differ (max {np.nanmax(np.abs(x - y))})'
        st.maxdiff = max(st.maxdiff, float(np.nanmax(np.abs(x - y))))
        return None
    if isinstance(a, (tuple, list)):
        if len(a) != len(b):
            return f'{path}: len {len(a)} vs {len(b)}'
        for t, (x, y) in enumerate(zip(a, b)):
            msg = same(x, y, st, f'{path}/{t}')
            if msg:
                return msg
        return None
    if isinstance(a, float):
        if a == b or (a != a and b != b):
            return None
        if abs(a - b) <= 1.e-12 * max(1., abs(a), abs(b)):
            st.maxdiff = max(st.maxdiff, abs(a - b))
            return None
        return f'{path}: float {a!r} vs {b!r}'
    if a != b:
        return f'{path}: {a!r} vs {b!r}'
    return None


def main():
    tmp = tempfile.mkdtemp(prefix='equivC08_')
    files, procs = {}, {}
    for name, cwd in [('orig', ORIG), ('twin', TWIN)]:
        files[name] = os.path.join(tmp, name + '.pkl')
        env = dict(os.environ)
        env.pop('PYTHONPATH', None)
        env['PYTHONDONTWRITEBYTECODE'] = '1'
        for var in ['OMP_NUM_THREADS', 'OPENBLAS_NUM_THREADS',
                'MKL_NUM_THREADS']:
            env[var] = '1'
        procs[name] = subprocess.Popen([PY, '-W', 'ignore',
            os.path.abspath(__file__), '--worker', files[name]], cwd=cwd,
            env=env)
    failed = False
    for name, p in procs.items():
        if p.wait() != 0:
            print(f'worker "{name}" failed with code {p.returncode}')
            failed = True
    if failed:
        return 1

    with open(files['orig'], 'rb') as f:
        res_o = pickle.load(f)
    with open(files['twin'], 'rb') as f:
        res_t = pickle.load(f)

    bad = 0
    if [x[0] for x in res_o] != [x[0] for x in res_t]:
        print('scenario lists differ')
        return 1

    st = Stats()
    n_exc = 0
    for (name, a), (_, b) in zip(res_o, res_t):
        msg = same(a, b, st, name)
        if msg:
            bad += 1
            if bad <= 20:
                print('DIFF', msg)
        r0 = a[0]
        if isinstance(r0, tuple) and r0 and r0[0] == 'exc':
            n_exc += 1

    print(f'scenarios: {len(res_o)} (of them raising: {n_exc}); '
        f'arrays compared: {st.arrays}, bitwise equal: {st.bitwise}, '
        f'max abs diff of the rest: {st.maxdiff:.3e}; mismatches: {bad}')
    return 1 if bad else 0


if __name__ == '__main__':
    if len(sys.argv) == 3 and sys.argv[1] == '--worker':
        worker(sys.argv[2])
        sys.exit(0)
    sys.exit(main())
