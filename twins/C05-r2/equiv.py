"""Equivalence demonstration for the C05 twin (TT-cross anchors).

The same deterministic scenario list is run in two subprocesses, one importing
the pristine package (cwd = /tmp/twinsB/C05/orig) and one importing the
refactored package (cwd = /tmp/wt/C05); each dumps its results to a pickle and
the two pickles are compared (shapes, dtypes, exceptions, mutation of the
arguments, info / cache dictionaries, oracle call sequences, numerical values).

Exit code 0 if everything agrees and 1 otherwise.

"""
import contextlib
import io
import os
import pickle
import re
import subprocess
import sys
import tempfile


ROOT_ORIG = '/tmp/twinsB/C05/orig'
ROOT_TWIN = '/tmp/wt/C05'
RTOL = 1.E-12
ATOL = 1.E-14


# ---------------------------------------------------------------------------
# Worker part (runs inside one of the two package roots)
# ---------------------------------------------------------------------------


def worker(fpath):
    root = os.getcwd()
    sys.path.insert(0, root)
    import numpy as np
    import teneva
    tcross = sys.modules['teneva.cross']   # (teneva.cross is the function)
    assert os.path.dirname(os.path.abspath(teneva.__file__)) == \
        os.path.join(root, 'teneva'), teneva.__file__

    def arr(a):
        """Describe an array (values + all the metadata we want to compare)."""
        if a is None:
            return None
        a = np.asarray(a)
        return {'__arr__': True, 'shape': a.shape, 'dtype': str(a.dtype),
            'val': np.array(a)}

    def cache_dump(cache):
        if cache is None:
            return None
        # Insertion order, key types and value types are part of the contract:
        return [(tuple(int(k) for k in key), len(key), type(val).__name__,
            float(val)) for key, val in cache.items()]

    def info_dump(info):
        return {k: (v if not isinstance(v, np.generic) else v.item())
            for k, v in info.items() if k != 't'}

    def guarded(fn):
        try:
            return {'ok': fn()}
        except Exception as exc:
            return {'exc': type(exc).__name__, 'msg': str(exc)}

    class Oracle:
        """Element oracle which logs every request it gets."""
        def __init__(self, Y, mode='ok', limit=None, as_list=False):
            self.Y, self.mode, self.limit = Y, mode, limit
            self.as_list = as_list
            self.calls = []
            self.count = 0

        def __call__(self, I):
            self.calls.append({'I': arr(I),
                'c_contig': bool(I.flags['C_CONTIGUOUS']),
                'owndata': bool(I.flags['OWNDATA'])})
            self.count += 1
            if self.limit is not None and self.count > self.limit:
                if self.mode == 'none':
                    return None
                if self.mode == 'raise':
                    raise RuntimeError('oracle failed')
                if self.mode == 'short':
                    return teneva.get_many(self.Y, I)[:-1]
            y = teneva.get_many(self.Y, I)
            return list(y) if self.as_list else y

    res = {}

    # --- 1. _iter directly -------------------------------------------------

    rng = np.random.default_rng(12345)
    shapes = [(1, 2, 1), (1, 3, 2), (2, 3, 2), (3, 4, 2), (2, 5, 7), (1, 4, 9),
        (4, 2, 3), (5, 3, 1), (1, 1, 1), (3, 1, 3), (2, 6, 20), (6, 7, 4)]
    growth = [(0, 0), (1, 1), (0, 2), (1, 3), (2, 2)]
    for (r1, n, r2) in shapes:
        for ltr in (True, False):
            for with_I in (False, True):
                for (dr_min, dr_max) in growth:
                    for rank_def in (False, True):
                        Z = rng.normal(size=(r1, n, r2))
                        if rank_def:
                            # rank-deficient (rank one) unfolding
                            Z = np.einsum('i,j,k->ijk', rng.normal(size=r1),
                                rng.normal(size=n), rng.normal(size=r2))
                        Ig = np.arange(n, dtype=int).reshape(-1, 1)
                        I = None
                        if with_I:
                            rows = r1 if ltr else r2
                            w = int(rng.integers(1, 4))
                            I = rng.integers(0, 6, size=(rows, w))
                        Z0 = Z.copy()
                        I0 = None if I is None else I.copy()
                        key = ('iter', r1, n, r2, ltr, with_I, dr_min, dr_max,
                            rank_def)

                        def run():
                            G, R, I_new = tcross._iter(Z, Ig, I, 1.1, dr_min,
                                dr_max, 1.05, 100, ltr=ltr)
                            return {'G': arr(G), 'R': arr(R),
                                'I_new': arr(I_new),
                                'I_new_c': bool(I_new.flags['C_CONTIGUOUS']),
                                'Z_same': bool(np.array_equal(Z, Z0)),
                                'I_same': I is None or bool(
                                    np.array_equal(I, I0)),
                                'Ig': arr(Ig)}
                        res[key] = guarded(run)

    # Defaults of _iter (preiteration-like call by keywords):
    Z = rng.normal(size=(2, 4, 3))
    Ig = np.arange(4, dtype=int).reshape(-1, 1)
    res[('iter-default',)] = guarded(lambda: [arr(x) for x in
        tcross._iter(Z, Ig, None, tau0=1.01, k0=5, ltr=True)])
    res[('iter-default-rtl',)] = guarded(lambda: [arr(x) for x in
        tcross._iter(Z, Ig, None)])

    # --- 2. _func directly -------------------------------------------------

    Yt = teneva.rand([4, 5, 3, 6, 4], [1, 2, 3, 2, 3, 1], seed=7)
    case = 0
    for pos in range(5):
        for (r1, r2) in [(1, 1), (2, 3), (3, 1), (1, 4), (5, 5)]:
            for cmode in ('none', 'empty', 'partial', 'full'):
                for m_max in (None, 10, 10**6):
                    for omode in ('ok', 'none'):
                        case += 1
                        n = [4, 5, 3, 6, 4][pos]
                        rg = np.random.default_rng(1000 + case)
                        Ig = np.arange(n, dtype=int).reshape(-1, 1)
                        Ir = None if pos == 0 else np.column_stack(
                            [rg.integers(0, [4, 5, 3, 6, 4][q], size=r1)
                            for q in range(pos)])
                        Ic = None if pos == 4 else np.column_stack(
                            [rg.integers(0, [4, 5, 3, 6, 4][q], size=r2)
                            for q in range(pos+1, 5)])
                        cache = None
                        if cmode != 'none':
                            cache = {}
                        if cmode in ('partial', 'full'):
                            # prefill through a first (unlimited) request
                            info0 = {'m': 0, 'm_cache': 0, 'm_max': None,
                                'stop': None}
                            tcross._func(Oracle(Yt), Ig, Ir, Ic, info0, cache)
                            if cmode == 'partial':
                                for k_ in list(cache.keys())[::2]:
                                    del cache[k_]
                        info = {'m': 3, 'm_cache': 2, 'm_max': m_max,
                            'stop': None, 'extra': 'x'}
                        f = Oracle(Yt, mode=omode,
                            limit=0 if omode == 'none' else None)
                        copies = [None if x is None else x.copy()
                            for x in (Ig, Ir, Ic)]
                        key = ('func', pos, r1, r2, cmode, m_max, omode)

                        def run():
                            Z = tcross._func(f, Ig, Ir, Ic, info, cache)
                            same = all((a is None and b is None) or
                                np.array_equal(a, b)
                                for a, b in zip((Ig, Ir, Ic), copies))
                            return {'Z': arr(Z), 'info': info_dump(info),
                                'cache': cache_dump(cache), 'calls': f.calls,
                                'args_same': bool(same),
                                'Z_f': None if Z is None else bool(
                                    Z.flags['F_CONTIGUOUS'])}
                        res[key] = guarded(run)

    # --- 3. _func_eval directly -------------------------------------------

    Ye = teneva.rand([3, 4, 3], [1, 2, 2, 1], seed=11)
    for case in range(40):
        rg = np.random.default_rng(5000 + case)
        k = int(rg.integers(1, 25))
        I = np.column_stack([rg.integers(0, q, size=k) for q in (3, 4, 3)])
        if case % 3 == 0 and k > 2:
            I[k // 2] = I[0]           # duplicated rows inside one request
            I[-1] = I[0]
        for cmode in ('none', 'empty', 'partial', 'full', 'foreign'):
            for (omode, limit) in [('ok', None), ('none', 0), ('raise', 0),
                                   ('short', 0)]:
                for m_max in (None, 5, 1000):
                    for as_list in (False, True):
                        cache = None if cmode == 'none' else {}
                        if cmode in ('partial', 'full'):
                            for q, i in enumerate(I):
                                if cmode == 'full' or q % 2:
                                    cache[tuple(i)] = float(
                                        teneva.get_many(Ye, i.reshape(1, -1))[0])
                        if cmode == 'foreign':
                            # user-made cache: plain int keys, int values
                            cache[(0, 0, 0)] = 2
                            cache[(1, 1, 1)] = 3
                        info = {'m': 1, 'm_cache': 4, 'm_max': m_max,
                            'stop': None}
                        f = Oracle(Ye, mode=omode, limit=limit,
                            as_list=as_list)
                        I0 = I.copy()
                        key = ('eval', case, cmode, omode, m_max, as_list)
                        out = {}

                        def run():
                            y = tcross._func_eval(f, I, info, cache)
                            return arr(y)
                        out['y'] = guarded(run)
                        out['info'] = info_dump(info)
                        out['cache'] = cache_dump(cache)
                        out['calls'] = f.calls
                        out['I_same'] = bool(np.array_equal(I, I0))
                        res[key] = out

    # --- 4. the whole cross ------------------------------------------------

    def run_cross(key, n, rho, r0, seed, opts, cmode='none', vld=False,
                  omode='ok', limit=None, cb_mode=None, log=False,
                  noise=0., func=None):
        d = len(n)
        Yt = teneva.rand(n, rho, seed=seed)
        Y0 = teneva.rand(n, r0, seed=seed + 1)
        Y0_copy = [G.copy() for G in Y0]
        rg = np.random.default_rng(seed + 2)
        cache = None if cmode == 'none' else {}
        if cmode == 'prefilled':
            Ipre = np.column_stack([rg.integers(0, k, size=30) for k in n])
            for i, y in zip(Ipre, teneva.get_many(Yt, Ipre)):
                cache[tuple(i)] = float(y)
        kw = dict(opts)
        if vld:
            I_vld = np.column_stack([rg.integers(0, k, size=50) for k in n])
            y_vld = teneva.get_many(Yt, I_vld)
            kw['I_vld'], kw['y_vld'] = I_vld, y_vld
        f = Oracle(Yt, mode=omode, limit=limit)
        if noise:
            base = f

            class Noisy:
                calls = base.calls

                def __call__(self, I):
                    y = base(I)
                    if y is None:
                        return None
                    # deterministic, index-dependent perturbation (full rank)
                    return y + noise * np.sin(1. + I @ np.arange(1, d+1))
            f = Noisy()
        cb_log = []
        if cb_mode is not None:
            def cb(Y, info, opts_):
                cb_log.append({'info': info_dump(info),
                    'keys': sorted(opts_.keys()),
                    'Ir': [arr(x) for x in opts_['Ir']],
                    'Ic': [arr(x) for x in opts_['Ic']],
                    'Yold': [arr(G) for G in opts_['Yold']],
                    'Y': [arr(G) for G in Y],
                    'cache_is': opts_['cache'] is cache})
                if cb_mode == 'stop2':
                    return True if info['nswp'] >= 2 else None
                if cb_mode == 'truthy':
                    return 1       # not "is True": should not stop
                return False
            kw['cb'] = cb
        if func is not None:
            kw['func'] = func
        info = {'junk': 1}
        if os.environ.get('EQUIV_DEBUG'):
            print(key, file=sys.stderr, flush=True)
        out = {}
        buf = io.StringIO()

        def run():
            with contextlib.redirect_stdout(buf):
                Y = teneva.cross(f, Y0, info=info, cache=cache, log=log, **kw)
            return {'Y': [arr(G) for G in Y],
                'err': float(teneva.accuracy(Y, Yt)),
                'is_Y0': Y is Y0}
        out['res'] = guarded(run)
        out['info'] = info_dump(info)
        out['cache'] = cache_dump(cache)
        out['calls'] = f.calls
        out['cb'] = cb_log
        out['Y0_same'] = all(np.array_equal(a, b)
            for a, b in zip(Y0, Y0_copy))
        out['log'] = re.sub(r'time:\s*[-0-9.e+]+', 'time: T', buf.getvalue())
        res[key] = out

    shapes = [[4, 5], [3, 3, 3], [5, 4, 6, 3], [2, 2, 2, 2, 2], [6, 3, 7],
        [3, 4, 2, 3, 4, 3], [1, 3, 2], [7, 2]]
    case = 0
    for n in shapes:
        d = len(n)
        for rho in (1, 2, 3):
            for r0 in (1, rho, rho + 2):
                for (dr_min, dr_max) in [(0, 0), (1, 1), (1, 2), (0, 2)]:
                    for cmode in ('none', 'empty', 'prefilled'):
                        case += 1
                        if d >= 5 and case % 3 != 0:
                            continue    # (thinned out: these are slow)
                        seed = 100 + case
                        vld = case % 2 == 0
                        nswp = [0, 1, 2, 3, 5][case % 5]
                        opts = {'nswp': nswp, 'dr_min': dr_min,
                            'dr_max': dr_max}
                        if case % 7 == 0:
                            opts['e'] = 1.E-10
                        if case % 11 == 0:
                            opts['m'] = 300
                        if vld and case % 4 == 0:
                            opts['e_vld'] = 1.E-9
                        if case % 13 == 0:
                            opts['m_cache_scale'] = 1
                        if case % 9 == 0:
                            opts['tau'], opts['tau0'], opts['k0'] = 1.5, 1.2, 3
                        key = ('cross', tuple(n), rho, r0, dr_min, dr_max,
                            cmode, case)
                        run_cross(key, n, rho, r0, seed, opts, cmode, vld,
                            log=(case % 5 == 0))

    # Special scenarios: stops by oracle / budget / callback, noise, errors
    base = dict(n=[4, 5, 3, 4], rho=2, r0=1, seed=900)
    for cmode in ('none', 'empty', 'prefilled'):
        for limit in (0, 1, 3, 4, 6, 9):
            for omode in ('none', 'raise', 'short'):
                run_cross(('cross-oracle', cmode, limit, omode), **base,
                    opts={'nswp': 4}, cmode=cmode, omode=omode, limit=limit,
                    vld=True, log=True)
        for m in (1, 10, 39, 40, 41, 100, 150, 400, 1.5E+2):
            run_cross(('cross-m', cmode, m), **base, opts={'m': m},
                cmode=cmode, log=True)
            run_cross(('cross-m-e', cmode, m), **base,
                opts={'m': m, 'e': 1.E-8, 'dr_max': 2}, cmode=cmode, vld=True)
        for cb_mode in ('stop2', 'truthy', 'false'):
            run_cross(('cross-cb', cmode, cb_mode), **base,
                opts={'nswp': 4}, cmode=cmode, cb_mode=cb_mode, vld=True)
        for noise in (1.E-3, 1.):
            run_cross(('cross-noise', cmode, noise), **base,
                opts={'nswp': 3, 'dr_min': 1, 'dr_max': 2}, cmode=cmode,
                noise=noise, vld=True, log=True)
        run_cross(('cross-e_vld', cmode), **base,
            opts={'e_vld': 1.E-6, 'dr_max': 1}, cmode=cmode, vld=True)
        run_cross(('cross-e', cmode), **base, opts={'e': 1.E-6}, cmode=cmode)
        run_cross(('cross-conv', cmode), **base,
            opts={'nswp': 50, 'dr_min': 0, 'dr_max': 0, 'm_cache_scale': 2},
            cmode=cmode, log=True)

    # Custom inner function (replaces _func; it calls the module's _func_eval)
    def my_func(f, Ig, Ir, Ic, info, cache):
        Z = tcross._func(f, Ig, Ir, Ic, info, cache)
        return None if Z is None else 1. * Z
    run_cross(('cross-func',), **base, opts={'nswp': 2}, cmode='empty',
        func=my_func)

    # Argument errors
    run_cross(('cross-err', 1), **base, opts={})
    run_cross(('cross-err', 2), **base, opts={}, vld=True)
    run_cross(('cross-err', 3), **base, opts={'e_vld': 1.E-3, 'nswp': 1})
    run_cross(('cross-err', 4), **base, opts={'e_vld': 1.E-3}, vld=True)

    # d = 2 with a one-point mode and over-ranked start
    run_cross(('cross-small', 1), n=[1, 1], rho=1, r0=1, seed=31,
        opts={'nswp': 2}, cmode='empty')
    run_cross(('cross-small', 2), n=[2, 1, 2], rho=[1, 2, 2, 1],
        r0=[1, 3, 3, 1], seed=32, opts={'nswp': 2, 'dr_max': 2},
        cmode='empty', vld=True)
    run_cross(('cross-small', 3), n=[3, 4, 5], rho=[1, 3, 2, 1],
        r0=[1, 5, 7, 1], seed=33, opts={'nswp': 3}, cmode='none', vld=True)

    with open(fpath, 'wb') as fh:
        pickle.dump(res, fh)


# ---------------------------------------------------------------------------
# Comparison part
# ---------------------------------------------------------------------------


class Stat:
    def __init__(self):
        self.n_arr = 0
        self.n_exact = 0
        self.max_dev = 0.
        self.errors = []


def compare(a, b, path, st):
    import numpy as np
    if len(st.errors) > 30:
        return
    if type(a) is not type(b):
        st.errors.append(f'{path}: type {type(a).__name__} vs '
            f'{type(b).__name__}')
        return
    if isinstance(a, dict) and a.get('__arr__'):
        if a['shape'] != b['shape'] or a['dtype'] != b['dtype']:
            st.errors.append(f'{path}: shape/dtype {a["shape"]} {a["dtype"]} '
                f'vs {b["shape"]} {b["dtype"]}')
            return
        st.n_arr += 1
        va, vb = a['val'], b['val']
        if np.array_equal(va, vb, equal_nan=True):
            st.n_exact += 1
            return
        if va.dtype.kind != 'f':
            st.errors.append(f'{path}: non-float arrays differ')
            return
        if not np.allclose(va, vb, rtol=RTOL, atol=ATOL, equal_nan=True):
            st.errors.append(f'{path}: values differ, max abs dev '
                f'{np.max(np.abs(va - vb)):.3e}')
            return
        st.max_dev = max(st.max_dev, float(np.max(np.abs(va - vb))))
        return
    if isinstance(a, dict):
        if list(a.keys()) != list(b.keys()):
            st.errors.append(f'{path}: keys {list(a.keys())} vs '
                f'{list(b.keys())}')
            return
        for k in a:
            compare(a[k], b[k], f'{path}/{k}', st)
        return
    if isinstance(a, (list, tuple)):
        if len(a) != len(b):
            st.errors.append(f'{path}: length {len(a)} vs {len(b)}')
            return
        for i, (x, y) in enumerate(zip(a, b)):
            compare(x, y, f'{path}[{i}]', st)
        return
    if isinstance(a, float):
        if a == b or (a != a and b != b):
            return
        if abs(a - b) <= ATOL + RTOL * abs(b):
            st.max_dev = max(st.max_dev, abs(a - b))
            return
        st.errors.append(f'{path}: float {a!r} vs {b!r}')
        return
    if a != b:
        st.errors.append(f'{path}: {a!r} vs {b!r}')


def main():
    me = os.path.abspath(__file__)
    data = []
    with tempfile.TemporaryDirectory() as tmp:
        procs = []
        for name, root in (('orig', ROOT_ORIG), ('twin', ROOT_TWIN)):
            fpath = os.path.join(tmp, name + '.pkl')
            env = dict(os.environ)
            env.pop('PYTHONPATH', None)
            env['PYTHONDONTWRITEBYTECODE'] = '1'
            for var in ('OMP_NUM_THREADS', 'OPENBLAS_NUM_THREADS',
                        'MKL_NUM_THREADS'):
                env[var] = '1'
            procs.append((name, fpath, subprocess.Popen([sys.executable, '-W',
                'ignore', me, '--worker', fpath], cwd=root, env=env)))
        for name, fpath, proc in procs:
            if proc.wait() != 0:
                print(f'worker "{name}" failed with code {proc.returncode}')
                return 1
            with open(fpath, 'rb') as fh:
                data.append(pickle.load(fh))

    a, b = data
    st = Stat()
    if list(a.keys()) != list(b.keys()):
        print('scenario lists differ')
        return 1
    for key in a:
        compare(a[key], b[key], str(key), st)

    n_exc = sum(1 for v in a.values() if 'exc' in str(v)[:2000] or
        ('res' in v and 'exc' in v['res']))
    kinds = {}
    for key in a:
        kinds[key[0]] = kinds.get(key[0], 0) + 1
    stops = {}
    for key, v in a.items():
        if isinstance(v, dict) and 'info' in v and key[0].startswith('cross'):
            s = v['info'].get('stop')
            stops[s] = stops.get(s, 0) + 1
    print(f'scenarios: {len(a)}  by kind: {kinds}')
    print(f'cross stop types seen: {stops}')
    print(f'scenarios with an exception on either path (approx.): {n_exc}')
    print(f'arrays compared: {st.n_arr}, bit-for-bit equal: {st.n_exact}, '
        f'max abs deviation of the rest: {st.max_dev:.3e}')
    if st.errors:
        print(f'DIFFERENCES ({len(st.errors)} shown):')
        for e in st.errors:
            print('  ' + e)
        return 1
    print('OK: the refactored functions agree with the original ones')
    return 0


if __name__ == '__main__':
    if len(sys.argv) == 3 and sys.argv[1] == '--worker':
        worker(sys.argv[2])
        sys.exit(0)
    sys.exit(main())
