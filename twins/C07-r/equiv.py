"""Equivalence demonstration for the C07 refactoring (TT-ALS anchors).

The same deterministic scenario list is executed in two subprocesses, one with
the pristine package (/tmp/twinsA/C07/orig) and one with the refactored package
(/tmp/wt/C07). Every scenario records the returned values, the state of all
(mutable) arguments after the call, the info / cache dictionaries, the captured
stdout and the raised exception (if any). The two records are then compared.

Exit code: 0 if everything agrees, 1 otherwise.

Usage: /venv/bin/python /tmp/twinsA/C07/equiv.py
"""
import contextlib
import io
import itertools
import os
import pickle
import subprocess
import sys
import tempfile
import warnings

import numpy as np


DIR_ORIG = '/tmp/twinsA/C07/orig'
DIR_NEW = '/tmp/wt/C07'
RTOL = 1.E-9
ATOL = 1.E-11


# ---------------------------------------------------------------------------
# Worker part (runs inside the subprocess; imports the package from the cwd)
# ---------------------------------------------------------------------------


def snap(x):
    """Deep snapshot of a value into plain picklable python / numpy objects."""
    if isinstance(x, np.ndarray):
        return ('nd', str(x.dtype), x.shape, np.array(x))
    if isinstance(x, (list, tuple)):
        return (type(x).__name__, [snap(v) for v in x])
    if isinstance(x, dict):
        return ('dict', [(repr(k), snap(v)) for k, v in x.items()
            if k != 't'])
    if isinstance(x, (np.generic,)):
        return ('np', str(x.dtype), x.item())
    if x is None or isinstance(x, (bool, int, float, str)):
        return ('py', type(x).__name__, x)
    return ('repr', repr(x))


def run(fn, args, kwargs, watch):
    """Call fn and record result / exception / stdout / state of arguments."""
    out = io.StringIO()
    rec = {}
    with warnings.catch_warnings(record=True) as wrn:
        warnings.simplefilter('always')
        with contextlib.redirect_stdout(out):
            try:
                rec['ret'] = snap(fn(*args, **kwargs))
            except Exception as exc:
                rec['exc'] = (type(exc).__name__, str(exc))
    rec['wrn'] = sorted(set((w.category.__name__, str(w.message)) for w in wrn))
    rec['out'] = [ln for ln in out.getvalue().splitlines()
        if 'time:' not in ln]
    rec['args'] = snap(watch)
    return rec


def cores(rng, n, r, kind='normal'):
    d = len(n)
    r = [1] + [r] * (d - 1) + [1] if isinstance(r, int) else list(r)
    if kind == 'int':
        return [rng.integers(-2, 3, size=(r[k], n[k], r[k+1])).astype(int)
            for k in range(d)]
    return [rng.normal(size=(r[k], n[k], r[k+1])) for k in range(d)]


def samples(rng, n, m, full=True):
    d = len(n)
    I = np.array([rng.integers(0, n[k], size=m) for k in range(d)]).T
    if full:
        for k in range(d):
            pos = rng.permutation(m)[:n[k]]
            I[pos, k] = np.arange(n[k])
    return I


def worker(fpath):
    sys.path.insert(0, os.getcwd())
    import teneva
    # (teneva.als / teneva.als_func are shadowed by the functions)
    M = sys.modules['teneva.als']
    MF = sys.modules['teneva.als_func']
    assert os.path.dirname(os.path.dirname(teneva.__file__)) == os.getcwd()

    res = {}

    # -- A. _lstsq --------------------------------------------------------
    rng = np.random.default_rng(1)
    shapes = [(1, 1), (1, 4), (3, 3), (7, 4), (4, 7), (30, 6), (5, 1)]
    for (m, n), lamb, use_w, use_upd, ova, order in itertools.product(shapes,
            [None, 1.E-3, 0.7], [0, 1], [0, 1], [True, False], ['C', 'F']):
        A = np.array(rng.normal(size=(m, n)), order=order)
        y = rng.normal(size=m)
        w = rng.uniform(0.1, 2., size=m) if use_w else None
        u = rng.normal(size=n) if use_upd else None
        watch = [A, y, w, u]
        key = ('lstsq', m, n, lamb, use_w, use_upd, ova, order)
        res[key] = run(M._lstsq, (A, y), dict(lamb=lamb, w=w,
            overwrite_a=ova, update_sol=u), watch)
    # positional / default call and rank-deficient matrix:
    A = np.ones((6, 3)); y = np.arange(6.)
    res[('lstsq', 'defaults')] = run(M._lstsq, (A, y), {}, [A, y])
    A = np.ones((6, 3)); y = np.arange(6.)
    res[('lstsq', 'deficient')] = run(M._lstsq, (A, y, None), {}, [A, y])
    A = np.zeros((4, 2)); y = np.zeros(4)
    res[('lstsq', 'zeros')] = run(M._lstsq, (A, y, 0.1, np.ones(4)), {}, [A, y])
    A = np.full((4, 2), np.nan); y = np.zeros(4)
    res[('lstsq', 'nan')] = run(M._lstsq, (A, y, 0.1), {}, [A, y])

    # -- B. als._optimize_core ---------------------------------------------
    rng = np.random.default_rng(2)
    cfgs = [(1, 2, 1, 5), (1, 3, 4, 20), (4, 3, 1, 20), (3, 4, 3, 40),
        (5, 2, 6, 9), (2, 6, 2, 4), (3, 1, 3, 7), (2, 3, 2, 1)]
    for (r1, n, r2, m), lamb, use_w, use_upd, miss, order in itertools.product(
            cfgs, [None, 1.E-3, 2.], [0, 1], [0, 1], [0, 1], ['C', 'F']):
        Q = np.array(rng.normal(size=(r1, n, r2)), order=order)
        i = rng.integers(0, n, size=m)
        if miss and n > 1:
            i[i == n - 1] = 0
        y = rng.normal(size=m)
        Yl = rng.normal(size=(m, r1))
        Yr = rng.normal(size=(r2, m))
        w = rng.uniform(0.1, 2., size=m) if use_w else None
        u = 1 if use_upd else None
        watch = [Q, i, y, Yl, Yr, w]
        key = ('core', r1, n, r2, m, lamb, use_w, use_upd, miss, order)
        res[key] = run(M._optimize_core, (Q, i, y, Yl, Yr, lamb, w),
            dict(update_sol=u), watch)
        res[key + ('pos',)] = run(M._optimize_core,
            (Q, i, y, Yl, Yr, lamb, w, u), {}, watch)
    # integer core (dtype is kept by the copy, the solution is cast):
    Q = np.arange(12).reshape(2, 3, 2)
    i = np.array([0, 1, 2, 2, 1, 0, 0]); y = np.arange(7.)
    Yl = np.ones((7, 2)) * np.arange(1, 8)[:, None]; Yr = np.ones((2, 7))
    res[('core', 'int')] = run(M._optimize_core,
        (Q, i, y, Yl, Yr, 0.01, None), {}, [Q, i, y, Yl, Yr])
    res[('core', 'int-upd')] = run(M._optimize_core,
        (Q, i, y, Yl, Yr, 0.01, None, 1), {}, [Q, i, y, Yl, Yr])
    res[('core', 'w-list')] = run(M._optimize_core,
        (Q * 1., i, y, Yl, Yr, 0.01, [1.] * 7), {}, [Q, i, y, Yl, Yr])

    # -- C. als._optimize_core_adaptive ------------------------------------
    rng = np.random.default_rng(3)
    cfgs = [(1, 2, 2, 1, 6), (2, 3, 2, 2, 30), (3, 2, 4, 1, 25),
        (1, 4, 3, 3, 50), (4, 2, 2, 4, 10), (2, 1, 3, 2, 12), (2, 3, 3, 2, 2)]
    for (r1, n1, n2, r2, m), lamb, use_w, ltr, swap, cmode, rmax in \
            itertools.product(cfgs, [1.E-3, None], [0, 1], [True, False],
            [0, 1], ['none', 'empty', 'i1', 'i2', 'both'], [1, 3, 100]):
        Q1 = rng.normal(size=(r1, n1, 3))
        Q2 = rng.normal(size=(3, n2, r2))
        i1 = rng.integers(0, n1, size=m)
        i2 = rng.integers(0, n2, size=m)
        y = rng.normal(size=m)
        Yl = rng.normal(size=(m, r1))
        Yr = rng.normal(size=(r2, m))
        w = rng.uniform(0.1, 2., size=m) if use_w else None
        c1 = {k: i1 == k for k in range(n1)}
        c2 = {k: i2 == k for k in range(n2)}
        cache = {'none': None, 'empty': {}, 'i1': {'i1': c1},
            'i2': {'i2': c2}, 'both': {'i2': c2, 'i1': c1}}[cmode]
        sw = {} if swap else None
        watch = [Q1, Q2, i1, i2, y, Yl, Yr, w, cache, sw]
        key = ('adap', r1, n1, n2, r2, m, lamb, use_w, ltr, swap, cmode, rmax)
        res[key] = run(M._optimize_core_adaptive,
            (Q1, Q2, i1, i2, y, Yl, Yr, 1.E-2, rmax, lamb, w),
            dict(ltr=ltr, allow_swap=sw, swap_tol=3, cache=cache), watch)
    res[('adap', 'defaults')] = run(M._optimize_core_adaptive,
        (Q1, Q2, i1, i2, y, Yl, Yr, 1.E-2, 2, 0.1, None), {}, watch)

    # -- D. als_func._optimize_core ----------------------------------------
    rng = np.random.default_rng(4)
    cfgs = [(1, 1, 1, 4), (1, 3, 2, 15), (2, 5, 2, 40), (3, 4, 1, 8),
        (2, 6, 3, 20), (4, 2, 4, 10)]
    for (r1, n, r2, m), lamb, use_upd, n_max, thr, zero, view in \
            itertools.product(cfgs, [None, 1.E-3, 1.], [0, 1],
            [None, 10], [1.E-6, 0.3, 1.E+6], [0, 1], [0, 1]):
        base = rng.normal(size=(r1, n + 2, r2))
        if zero:
            base[:, n-1:, :] = 0.
        y = rng.normal(size=m) * (0. if zero == 1 and thr == 0.3 else 1.)
        Yl = rng.normal(size=(m, r1))
        Yr = rng.normal(size=(r2, m))
        Hb = rng.normal(size=(m, n + 2))
        if zero:
            Hb[:, n-1:] *= 1.E-9
        Q = base[:, :n, :] if view else base[:, :n, :].copy()
        Hk = Hb[:, :n] if view else Hb[:, :n].copy()
        u = 1 if use_upd else None
        watch = [base, Q, y, Yl, Yr, Hb, Hk]
        key = ('fcore', r1, n, r2, m, lamb, use_upd, n_max, thr, zero, view)
        res[key] = run(MF._optimize_core, (Q, y, Yl, Yr, Hk, n_max, thr),
            dict(lamb=lamb, update_sol=u), watch)
    base = np.zeros((2, 4, 2)); y = np.zeros(9)
    Yl = np.ones((9, 2)); Yr = np.ones((2, 9)); Hk = np.ones((9, 4))
    res[('fcore', 'allzero')] = run(MF._optimize_core,
        (base, y, Yl, Yr, Hk, 5, 1.E-6, 0.1), {}, [base, y, Yl, Yr, Hk])
    res[('fcore', 'allzero-pos')] = run(MF._optimize_core,
        (base, y, Yl, Yr, Hk, 5, 1.E-6, 0.1, 1), {}, [base, y, Yl, Yr, Hk])

    # -- E. als (full runs) ------------------------------------------------
    def run_als(key, I, y, Y0, nswp, **kw):
        info = {}
        watch = [I, y, Y0, info, kw.get('w'), kw.get('I_vld'), kw.get('y_vld')]
        res[key] = run(teneva.als, (I, y, Y0, nswp),
            dict(info=info, **kw), watch)
        return res[key]

    rng = np.random.default_rng(5)
    shapes = [([2, 2], 1, 6), ([3, 4], 2, 30), ([4, 3], 6, 40),
        ([3, 2, 4], 2, 60), ([2, 5, 3], [1, 1, 3, 1], 45),
        ([3, 3, 3], [1, 5, 2, 1], 50), ([2, 3, 2, 3], 3, 90),
        ([4, 2, 3, 2, 3], [1, 2, 1, 4, 2, 1], 120), ([2] * 6, 2, 70)]
    for si, (n, r, m) in enumerate(shapes):
        d = len(n)
        I = samples(rng, n, m)
        Yt = cores(rng, n, 2)
        y = np.array([teneva.get(Yt, i) for i in I]) + 0.01*rng.normal(size=m)
        w = rng.uniform(0.2, 3., size=m)
        Y0 = cores(rng, n, r)
        perm = rng.permutation(m)
        I_vld = samples(rng, n, 25, full=False)
        y_vld = np.array([teneva.get(Yt, i) for i in I_vld])
        for lamb, use_w, nswp in itertools.product(
                [1.E-3, 0.5, None], [0, 1], [1, 2, 5]):
            kw = dict(lamb=lamb, w=w if use_w else None)
            rec = run_als(('als', si, lamb, use_w, nswp), I, y, Y0, nswp, **kw)
            # the same samples listed in another order:
            kwp = dict(lamb=lamb, w=w[perm] if use_w else None)
            run_als(('als-perm', si, lamb, use_w, nswp),
                I[perm], y[perm], Y0, nswp, **kwp)
        # restart a + b:
        for a, b in [(1, 1), (2, 3), (3, 1)]:
            info = {}
            Ya = teneva.als(I, y, Y0, a, info=info, lamb=0.01, w=w)
            run_als(('als-restart', si, a, b), I, y, Ya, b, lamb=0.01, w=w)
        # validation data, stop criteria, callback, update_sol, list inputs:
        run_als(('als-vld', si), I, y, Y0, 4, I_vld=I_vld, y_vld=y_vld)
        run_als(('als-evld', si), I, y, Y0, 6, I_vld=I_vld, y_vld=y_vld,
            e_vld=0.5)
        run_als(('als-e', si), I, y, Y0, 8, e=1.E-2)
        run_als(('als-log', si), I, y, Y0, 2, log=True)
        run_als(('als-upd', si), I, y, Y0, 3, update_sol=1, lamb=0.05)
        run_als(('als-upd-w', si), I, y, Y0, 2, update_sol=1, lamb=0.05, w=w)
        run_als(('als-list', si), I.tolist(), y.tolist(),
            Y0, 2)
        run_als(('als-int', si), I, y, cores(rng, n, r, 'int'), 2)
        seen = []
        def cb(Y, info, opts, seen=seen):
            seen.append((info['nswp'], sorted(opts.keys()),
                [G.shape for G in opts['Yl']], [G.shape for G in opts['Yr']]))
            return True if info['nswp'] == 2 else 1
        run_als(('als-cb', si), I, y, Y0, 5, cb=cb)
        res[('als-cb-seen', si)] = {'ret': snap(seen)}
        # missing slice data:
        I_bad = I.copy()
        k_bad = si % d
        I_bad[I_bad[:, k_bad] == n[k_bad] - 1, k_bad] = 0
        run_als(('als-miss', si), I_bad, y, Y0, 2)
        run_als(('als-miss-ok', si), I_bad, y, Y0, 2, allow_skip_cores=True)
        run_als(('als-miss-ok-w', si), I_bad, y, Y0, 3, allow_skip_cores=True,
            w=w, lamb=0.2)
        I_bad2 = I.copy()
        I_bad2[:, d - 1] = 0
        run_als(('als-miss-last', si), I_bad2, y, Y0, 2)
        # single sample per slice at the first / last position:
        I_one = I.copy()
        I_one[I_one[:, 0] == 0, 0] = 1
        I_one[0, 0] = 0
        run_als(('als-one-first', si), I_one, y, Y0, 3, w=w)
        I_one = I.copy()
        I_one[I_one[:, d-1] == 0, d-1] = 1
        I_one[-1, d-1] = 0
        run_als(('als-one-last', si), I_one, y, Y0, 3)
        # duplicates:
        I_dup = np.vstack([I, I[:7], I[:7]])
        y_dup = np.hstack([y, y[:7] + 0.1, y[:7] - 0.2])
        run_als(('als-dup', si), I_dup, y_dup, Y0, 3, lamb=0.01)
        # rank-adaptive mode:
        if d >= 3:
            Y0a = cores(rng, n, 2)
            for rr, stab, use_w, lamb in itertools.product(
                    [2, 3, 5], [False, True], [0, 1], [1.E-3, None]):
                run_als(('als-adap', si, rr, stab, use_w, lamb), I, y, Y0a, 3,
                    r=rr, use_stab=stab, w=w if use_w else None, lamb=lamb,
                    e_adap=1.E-2)
            run_als(('als-adap-radd', si), I, y, Y0a, 3, r=5, r_add=1)
            run_als(('als-adap-skip', si), I_bad, y, Y0a, 2, r=3,
                allow_skip_cores=True)
            run_als(('als-adap-miss', si), I_bad, y, Y0a, 2, r=3)
            run_als(('als-adap-swap', si), I, y, Y0a, 2, r=3, allow_swap=True,
                I_vld=I_vld, y_vld=y_vld)
            run_als(('als-adap-upd', si), I, y, Y0a, 2, r=3, update_sol=1)
        run_als(('als-swap-const', si), I, y, Y0, 2, allow_swap=True)

    # -- F. als_func (full runs) -------------------------------------------
    def run_alsf(key, X, y, A0, nswp, **kw):
        info = {}
        watch = [X, y, A0, info, kw.get('X_vld'), kw.get('y_vld')]
        res[key] = run(teneva.als_func, (X, y, A0),
            dict(nswp=nswp, info=info, **kw), watch)

    rng = np.random.default_rng(6)
    shapes = [(2, 3, 1, 40), (2, 4, 3, 60), (3, 3, 2, 80), (3, 5, [1, 6, 2, 1],
        90), (4, 2, 2, 70), (5, 3, [1, 2, 1, 3, 2, 1], 150)]
    for si, (d, n, r, m) in enumerate(shapes):
        X = rng.uniform(-1., 1., size=(m, d))
        y = np.sin(X.sum(axis=1)) + 0.01 * rng.normal(size=m)
        A0 = cores(rng, [n] * d, r)
        perm = rng.permutation(m)
        X_vld = rng.uniform(-1., 1., size=(20, d))
        y_vld = np.sin(X_vld.sum(axis=1))
        for lamb, nswp in itertools.product([1.E-3, 0.3, None], [1, 2, 4]):
            run_alsf(('alsf', si, lamb, nswp), X, y, A0, nswp, lamb=lamb)
            run_alsf(('alsf-perm', si, lamb, nswp), X[perm], y[perm], A0,
                nswp, lamb=lamb)
        for a, b in [(1, 1), (2, 2)]:
            Aa = teneva.als_func(X, y, A0, nswp=a, info={}, lamb=0.01)
            run_alsf(('alsf-restart', si, a, b), X, y, Aa, b, lamb=0.01)
        for n_max, thr, lamb in itertools.product(
                [n, n + 1, n + 3], [1.E-6, 1.E-1, 1.E+3], [1.E-3, None]):
            run_alsf(('alsf-nmax', si, n_max, thr, lamb), X, y, A0, 3,
                n_max=n_max, thr_pow=thr, lamb=lamb)
        run_alsf(('alsf-nmax-upd', si), X, y, A0, 3, n_max=n + 2,
            thr_pow=1.E-1, update_sol=1, lamb=0.05)
        run_alsf(('alsf-upd', si), X, y, A0, 3, update_sol=1, lamb=0.05)
        run_alsf(('alsf-upd-nolamb', si), X, y, A0, 3, update_sol=1, lamb=None)
        run_alsf(('alsf-vld', si), X, y, A0, 5, X_vld=X_vld, y_vld=y_vld,
            e_vld=0.2)
        run_alsf(('alsf-e', si), X, y, A0, 8, e=1.E-2)
        run_alsf(('alsf-log', si), X, y, A0, 2, log=True)
        run_alsf(('alsf-ab', si), X * 2. + 1., y, A0, 2, a=-1., b=3.)
        fh = lambda x: np.array([x**p for p in range(n + 1)])
        run_alsf(('alsf-fh', si), X, y, A0, 2, fh=fh)
        run_alsf(('alsf-fh-list', si), X, y, A0, 2, fh=[fh] * d, n_max=n + 1,
            thr_pow=0.5)
        run_alsf(('alsf-fh-bad', si), X, y, A0, 2, fh=[fh] * (d + 1))
        run_alsf(('alsf-zero', si), X, y * 0., A0, 2, n_max=n + 1)
        run_alsf(('alsf-int', si), X, y, cores(rng, [n] * d, r, 'int'), 2)

    with open(fpath, 'wb') as f:
        pickle.dump(res, f)


# ---------------------------------------------------------------------------
# Comparison part
# ---------------------------------------------------------------------------


class Stat:
    n_arr = 0
    n_bit = 0
    max_rel = 0.


def compare(a, b, path, errs):
    if type(a) is not type(b):
        errs.append(f'{path}: type {type(a)} vs {type(b)}')
        return
    if isinstance(a, tuple) and len(a) == 4 and a[0] == 'nd':
        if a[1] != b[1] or a[2] != b[2]:
            errs.append(f'{path}: dtype/shape {a[1:3]} vs {b[1:3]}')
            return
        x, y = a[3], b[3]
        Stat.n_arr += 1
        if x.tobytes() == y.tobytes():
            Stat.n_bit += 1
            return
        if x.dtype.kind in 'fc':
            ok = np.allclose(x, y, rtol=RTOL, atol=ATOL, equal_nan=True)
            with np.errstate(all='ignore'):
                rel = np.nanmax(np.abs(x - y) / (np.abs(x) + 1.E-300)) \
                    if x.size else 0.
            Stat.max_rel = max(Stat.max_rel, float(rel))
        else:
            ok = np.array_equal(x, y)
        if not ok:
            errs.append(f'{path}: array values differ (max abs '
                f'{np.nanmax(np.abs(x - y)):.3e})')
        return
    if isinstance(a, (tuple, list)):
        if len(a) != len(b):
            errs.append(f'{path}: len {len(a)} vs {len(b)}')
            return
        for k, (u, v) in enumerate(zip(a, b)):
            compare(u, v, f'{path}[{k}]', errs)
        return
    if isinstance(a, dict):
        if list(a.keys()) != list(b.keys()):
            errs.append(f'{path}: keys {list(a)} vs {list(b)}')
            return
        for k in a:
            compare(a[k], b[k], f'{path}.{k}', errs)
        return
    if isinstance(a, float):
        if a == b or (np.isnan(a) and np.isnan(b)):
            return
        if not np.isclose(a, b, rtol=RTOL, atol=ATOL):
            errs.append(f'{path}: float {a!r} vs {b!r}')
        return
    if a != b:
        errs.append(f'{path}: {a!r} vs {b!r}')


def main():
    tmp = tempfile.mkdtemp(prefix='equivC07_')
    files = []
    procs = []
    env = dict(os.environ)
    env.pop('PYTHONPATH', None)
    env['PYTHONHASHSEED'] = '0'
    for name, cwd in [('orig', DIR_ORIG), ('new', DIR_NEW)]:
        fpath = os.path.join(tmp, name + '.pkl')
        files.append(fpath)
        procs.append(subprocess.Popen([sys.executable, os.path.abspath(__file__),
            '--worker', fpath], cwd=cwd, env=env))
    for p in procs:
        if p.wait() != 0:
            print('FAIL: worker crashed')
            return 1

    with open(files[0], 'rb') as f:
        res_orig = pickle.load(f)
    with open(files[1], 'rb') as f:
        res_new = pickle.load(f)

    errs = []
    if list(res_orig.keys()) != list(res_new.keys()):
        errs.append('scenario lists differ')
    n_exc = 0
    for key in res_orig:
        if key not in res_new:
            continue
        n_exc += 'exc' in res_orig[key]
        compare(res_orig[key], res_new[key], repr(key), errs)

    kinds = {}
    for key in res_orig:
        kinds[key[0]] = kinds.get(key[0], 0) + 1
    print(f'scenarios: {len(res_orig)} {kinds}')
    print(f'scenarios ending with an exception (compared too): {n_exc}')
    print(f'arrays compared: {Stat.n_arr}, bitwise identical: {Stat.n_bit}, '
        f'max rel. deviation of the others: {Stat.max_rel:.3e}')
    if errs:
        print(f'FAIL: {len(errs)} differences')
        for e in errs[:40]:
            print('  ' + e)
        return 1
    print('OK: original and refactored package agree on all scenarios')
    return 0


if __name__ == '__main__':
    if len(sys.argv) == 3 and sys.argv[1] == '--worker':
        worker(sys.argv[2])
        sys.exit(0)
    sys.exit(main())
