"""Equivalence demonstration for the C17 refactoring (QTT conversion / maps).

Runs one deterministic scenario list in two subprocesses (pristine package in
/tmp/twinsA/C17/orig, refactored package in /tmp/wt/C17), pickles the outcomes
and compares them.  Exit code 0 = everything agrees, 1 = some difference.

Usage:  /venv/bin/python /tmp/twinsA/C17/equiv.py
"""
import itertools
import os
import pickle
import subprocess
import sys
import tempfile
import warnings

import numpy as np


ROOT_ORIG = '/tmp/twinsA/C17/orig'
ROOT_NEW = '/tmp/wt/C17'
RTOL = 1.E-10
ATOL = 1.E-12


# --------------------------------------------------------------------------
# Worker part (is run with one package root in front of sys.path)
# --------------------------------------------------------------------------


def describe(v):
    """Turn a result into a picklable, package-independent description."""
    if isinstance(v, np.ndarray):
        return ('nd', tuple(v.shape), str(v.dtype), np.array(v),
            bool(v.flags.writeable))
    if isinstance(v, (list, tuple)):
        return (type(v).__name__, [describe(x) for x in v])
    if isinstance(v, (bool, int, float, str, type(None))):
        return ('py', type(v).__name__, v)
    if isinstance(v, np.generic):
        return ('np', str(v.dtype), v.item())
    return ('repr', repr(v))


def snapshot(args):
    return describe(args)


def run_call(func, *args, **kwargs):
    """Call func, return outcome + description of the arguments afterwards."""
    try:
        with warnings.catch_warnings():
            warnings.simplefilter('ignore')
            with np.errstate(all='ignore'):
                res = func(*args, **kwargs)
        out = ('ok', describe(res))
        if isinstance(res, np.ndarray):
            alias = any(isinstance(a, np.ndarray) and np.shares_memory(a, res)
                for a in args)
            for a in args:
                if isinstance(a, (list, tuple)):
                    alias = alias or any(isinstance(x, np.ndarray)
                        and np.shares_memory(x, res) for x in a)
            out = out + (('alias', bool(alias)),)
    except Exception as exc:
        out = ('exc', type(exc).__name__, str(exc))
    return out, snapshot(list(args)), snapshot(sorted(kwargs.items()))


def make_core(rng, r1, n, r2, kind):
    if kind == 'rand':
        return rng.normal(size=(r1, n, r2))
    if kind == 'big':
        return rng.normal(size=(r1, n, r2)) * 1.E+8
    if kind == 'small':
        return rng.normal(size=(r1, n, r2)) * 1.E-9
    if kind == 'lowrank':
        u = rng.normal(size=(r1, n, 1))
        v = rng.normal(size=(1, 1, r2))
        return u * v + 1.E-7 * rng.normal(size=(r1, n, r2))
    if kind == 'zero':
        return np.zeros((r1, n, r2))
    if kind == 'ones':
        return np.ones((r1, n, r2))
    if kind == 'int':
        return rng.integers(-3, 4, size=(r1, n, r2))
    if kind == 'f32':
        return rng.normal(size=(r1, n, r2)).astype(np.float32)
    if kind == 'forder':
        return np.asfortranarray(rng.normal(size=(r1, n, r2)))
    if kind == 'strided':
        return rng.normal(size=(2*r1, n, 3*r2))[::2, :, ::3]
    raise ValueError(kind)


def scenarios_core_tt_to_qtt(teneva):
    out = []
    rng = np.random.default_rng(1701)
    kinds = ['rand', 'big', 'small', 'lowrank', 'zero', 'ones', 'int', 'f32',
        'forder', 'strided']
    accs = [(0., 1.E+12), (1.E-10, 1.E+12), (1.E-3, 1.E+12), (0.5, 1.E+12),
        (50., 1.E+12), (0., 1), (0., 2), (1.E-6, 3), (0., 2.7), (1.E-2, 5)]
    shapes = []
    for q in range(1, 7):
        for r1, r2 in [(1, 1), (1, 3), (4, 1), (2, 2), (3, 5), (7, 2), (9, 9)]:
            shapes.append((r1, 2**q, r2))
    k = 0
    for (r1, n, r2) in shapes:
        for kind in kinds:
            # rotate over the accuracy / cap pairs (plus the defaults):
            for e, r in (accs[k % len(accs)], accs[(k + 3) % len(accs)]):
                G = make_core(rng, r1, n, r2, kind)
                out.append((('t2q', r1, n, r2, kind, e, r),
                    run_call(teneva.core_tt_to_qtt, G, e, r)))
            k += 1
        G = make_core(rng, r1, n, r2, 'rand')
        out.append((('t2q-default', r1, n, r2),
            run_call(teneva.core_tt_to_qtt, G)))
        G = make_core(rng, r1, n, r2, 'rand')
        out.append((('t2q-kw', r1, n, r2),
            run_call(teneva.core_tt_to_qtt, G, r=2, e=1.E-4)))

    # Invalid / degenerate mode sizes and malformed arguments:
    for n in [0, 1, 3, 5, 6, 7, 12, 24, 100]:
        for r1, r2 in [(1, 1), (2, 3), (2, 2), (3, 4)]:
            G = rng.normal(size=(r1, n, r2))
            out.append((('t2q-badn', r1, n, r2),
                run_call(teneva.core_tt_to_qtt, G, 1.E-8, 4)))
    out.append((('t2q-2d',),
        run_call(teneva.core_tt_to_qtt, rng.normal(size=(4, 4)))))
    out.append((('t2q-4d',),
        run_call(teneva.core_tt_to_qtt, rng.normal(size=(2, 4, 2, 2)))))
    out.append((('t2q-list',),
        run_call(teneva.core_tt_to_qtt, [[[1., 2.]]])))
    out.append((('t2q-nan',),
        run_call(teneva.core_tt_to_qtt, np.full((2, 4, 2), np.nan))))
    out.append((('t2q-rzero',),
        run_call(teneva.core_tt_to_qtt, rng.normal(size=(2, 8, 2)), 0., 0)))
    out.append((('t2q-rneg',),
        run_call(teneva.core_tt_to_qtt, rng.normal(size=(2, 8, 2)), 0., -3)))
    return out


def make_qtt_cores(rng, ranks, modes, kind):
    cores = []
    for k, n in enumerate(modes):
        G = make_core(rng, ranks[k], n, ranks[k+1], kind)
        cores.append(G)
    return cores


def scenarios_core_qtt_to_tt(teneva):
    out = []
    rng = np.random.default_rng(1702)
    profiles = []
    for q in range(1, 8):
        profiles.append(([1]*(q+1), [2]*q))
        profiles.append(([3]*(q+1), [2]*q))
        profiles.append(([2] + [7]*(q-1) + [4], [2]*q))  # over-ranked
        profiles.append(([1 + (5*k) % 4 for k in range(q+1)], [2]*q))
        profiles.append(([2] + [min(2**(k+1), 2**(q-k-1), 6) * 2
            for k in range(q-1)] + [3], [2]*q))
    # modes other than two are merged by the same code as well:
    profiles.append(([2, 3, 2, 4], [3, 2, 5]))
    profiles.append(([1, 2, 2, 1], [4, 1, 3]))
    profiles.append(([1, 1, 1], [1, 1]))
    kinds = ['rand', 'int', 'f32', 'forder', 'strided', 'zero']
    for j, (ranks, modes) in enumerate(profiles):
        for kind in (kinds[j % len(kinds)], 'rand', kinds[(j+2) % len(kinds)]):
            Q = make_qtt_cores(rng, ranks, modes, kind)
            out.append((('q2t', tuple(ranks), tuple(modes), kind),
                run_call(teneva.core_qtt_to_tt, Q)))
        Q = make_qtt_cores(rng, ranks, modes, 'rand')
        out.append((('q2t-tuple', tuple(ranks), tuple(modes)),
            run_call(teneva.core_qtt_to_tt, tuple(Q))))
    # mixed dtypes in one list:
    Q = make_qtt_cores(rng, [2, 3, 4, 2], [2, 2, 2], 'rand')
    Q[1] = Q[1].astype(np.float32)
    Q[2] = np.rint(Q[2]).astype(int)
    out.append((('q2t-mixed',), run_call(teneva.core_qtt_to_tt, Q)))
    # a 4D array as the list of equal-shaped cores:
    out.append((('q2t-4d',),
        run_call(teneva.core_qtt_to_tt, rng.normal(size=(4, 3, 2, 3)))))
    # errors:
    out.append((('q2t-empty',), run_call(teneva.core_qtt_to_tt, [])))
    Q = make_qtt_cores(rng, [2, 3, 4, 2], [2, 2, 2], 'rand')
    Q[1] = rng.normal(size=(5, 2, 4))
    out.append((('q2t-mismatch',), run_call(teneva.core_qtt_to_tt, Q)))
    out.append((('q2t-none',), run_call(teneva.core_qtt_to_tt, None)))
    return out


def scenarios_ind_tt_to_qtt(teneva):
    out = []
    rng = np.random.default_rng(1703)

    # Exhaustive part: all multi-indices for bounded q*d, one by one (as list,
    # tuple and array) and as one batch:
    for q in range(1, 7):
        for d in range(1, 7):
            if q * d > 12:
                continue
            n = 2**q
            I = np.array(list(itertools.product(range(n), repeat=d)),
                dtype=int)
            res_b = run_call(teneva.ind_tt_to_qtt, I, n)
            out.append((('i-batch', q, d), res_b))
            out.append((('i-batch-back', q, d), run_call(
                teneva.ind_qtt_to_tt, teneva.ind_tt_to_qtt(I, n), q)))
            step = max(1, len(I) // 300)
            for i in I[::step]:
                out.append((('i-one-arr', q, d, tuple(i)),
                    run_call(teneva.ind_tt_to_qtt, i.copy(), n)))
                out.append((('i-one-list', q, d, tuple(i)),
                    run_call(teneva.ind_tt_to_qtt, [int(x) for x in i], n)))
            i = I[len(I) // 2]
            out.append((('i-one-tuple', q, d),
                run_call(teneva.ind_tt_to_qtt, tuple(int(x) for x in i), n)))
            out.append((('i-one-back', q, d), run_call(
                teneva.ind_qtt_to_tt, teneva.ind_tt_to_qtt(i, n), q)))

    # Larger random batches, unusual containers / dtypes / layouts:
    for q, d, m in [(10, 3, 50), (20, 2, 40), (3, 25, 30), (1, 40, 17),
                    (5, 5, 1), (4, 1, 1), (30, 1, 9), (8, 4, 0)]:
        n = 2**q
        I = rng.integers(0, n, size=(m, d))
        out.append((('i-rand', q, d, m),
            run_call(teneva.ind_tt_to_qtt, I, n)))
        out.append((('i-rand-nested-list', q, d, m),
            run_call(teneva.ind_tt_to_qtt, I.tolist(), n)))
        out.append((('i-rand-float', q, d, m),
            run_call(teneva.ind_tt_to_qtt, I.astype(float), n)))
        out.append((('i-rand-floatn', q, d, m),
            run_call(teneva.ind_tt_to_qtt, I, float(n))))
        out.append((('i-rand-npn', q, d, m),
            run_call(teneva.ind_tt_to_qtt, I, np.int64(n))))
        out.append((('i-rand-forder', q, d, m),
            run_call(teneva.ind_tt_to_qtt, np.asfortranarray(I), n)))
        out.append((('i-rand-int32', q, d, m),
            run_call(teneva.ind_tt_to_qtt, I.astype(np.int32), n)))
        out.append((('i-rand-uint8', q, d, m),
            run_call(teneva.ind_tt_to_qtt, (I % 256).astype(np.uint8),
                max(n, 256))))
        big = rng.integers(0, n, size=(2*m + 2, 2*d))
        out.append((('i-rand-strided', q, d, m),
            run_call(teneva.ind_tt_to_qtt, big[::2, ::2], n)))

    # Rejected mode sizes and other errors (type and message are compared):
    I = np.array([[0, 1, 2], [2, 1, 0]])
    for n in [3, 5, 6, 7, 9, 10, 12, 100, 1000, 0, -4, 2.5, 1, 1.5,
              np.nan, np.inf, None, 'a', [4], np.array([4, 4])]:
        out.append((('i-badn', repr(n)),
            run_call(teneva.ind_tt_to_qtt, I.copy(), n)))
        out.append((('i-badn-one', repr(n)),
            run_call(teneva.ind_tt_to_qtt, [0, 0], n)))
    out.append((('i-n1-zero',),
        run_call(teneva.ind_tt_to_qtt, np.zeros((3, 2), dtype=int), 1)))
    out.append((('i-n1-zero-one',),
        run_call(teneva.ind_tt_to_qtt, [0, 0, 0], 1)))
    # out-of-range entries (several bad ones: the first reported must agree):
    for bad in [[[0, 8, 1], [9, 1, 10]], [[0, 1, 1], [9, 12, 1]],
                [[-1, 0, 0], [0, -2, 0]], [[0, 0, -7], [11, 0, 0]],
                [[7, 7, 7], [7, 7, 8]]]:
        out.append((('i-oob', repr(bad)),
            run_call(teneva.ind_tt_to_qtt, np.array(bad), 8)))
        out.append((('i-oob-one', repr(bad)),
            run_call(teneva.ind_tt_to_qtt, bad[1], 8)))
    # malformed index containers:
    for tag, bad in [('none', None), ('int', 3), ('float', 2.), ('np0d',
            np.int64(3)), ('arr0d', np.array(3)), ('empty', []),
            ('empty2d', np.zeros((0, 3), dtype=int)),
            ('nocols', np.zeros((4, 0), dtype=int)),
            ('3d-k1', np.array([[[1], [2]], [[3], [0]], [[2], [2]]])),
            ('3d-k2', np.zeros((3, 2, 2), dtype=int)),
            ('ragged', [[1, 2], [3]]), ('str', 'ab'), ('bool', [True, False])]:
        out.append((('i-badI', tag), run_call(teneva.ind_tt_to_qtt, bad, 4)))
    return out


def scenarios_composite(teneva):
    """The callers: full TT <-> QTT conversion and entry lookup."""
    out = []
    for seed, (d, q, r) in enumerate([(1, 1, 1), (1, 4, 1), (2, 3, 2),
            (3, 2, 3), (4, 3, 2), (5, 2, 4), (3, 4, 9), (6, 2, 1),
            (2, 5, 5), (3, 3, [1, 2, 7, 1])]):
        n = 2**q
        Y = teneva.rand([n]*d, r, seed=100 + seed)
        for e, rmax in [(0., 1.E+12), (1.E-8, 1.E+12), (1.E-2, 1.E+12),
                        (0., 2), (1.E-5, 3), (0., 1)]:
            Yc = [G.copy() for G in Y]
            res = run_call(teneva.tt_to_qtt, Yc, e, rmax)
            out.append((('c-tt2qtt', d, q, repr(r), e, rmax), res))
            try:
                Z = teneva.tt_to_qtt(Y, e, rmax)
            except Exception:
                continue
            out.append((('c-back', d, q, repr(r), e, rmax),
                run_call(teneva.qtt_to_tt, Z, q)))
            rng = np.random.default_rng(55 + seed)
            I = rng.integers(0, n, size=(25, d))
            I_qtt = teneva.ind_tt_to_qtt(I, n)
            out.append((('c-get', d, q, repr(r), e, rmax),
                run_call(teneva.get_many, Z, I_qtt)))
            out.append((('c-full', d, q, repr(r), e, rmax),
                run_call(teneva.full, teneva.qtt_to_tt(Z, q))
                if n**d <= 5000 else 'skipped'))
    return out


def worker(root, fpath):
    sys.path.insert(0, root)
    os.chdir(root)
    with warnings.catch_warnings():
        warnings.simplefilter('ignore')
        import teneva
    here = os.path.realpath(os.path.dirname(teneva.__file__))
    want = os.path.realpath(os.path.join(root, 'teneva'))
    if here != want:
        raise RuntimeError(f'Wrong package is imported: {here} != {want}')

    res = []
    res += scenarios_core_tt_to_qtt(teneva)
    res += scenarios_core_qtt_to_tt(teneva)
    res += scenarios_ind_tt_to_qtt(teneva)
    res += scenarios_composite(teneva)
    with open(fpath, 'wb') as f:
        pickle.dump(res, f)


# --------------------------------------------------------------------------
# Comparison part
# --------------------------------------------------------------------------


def tol_scale(dtype):
    """Tolerances are given for float64; scale them for narrower floats."""
    if dtype.kind not in 'fc':
        return 1.
    return float(np.finfo(dtype).eps / np.finfo(np.float64).eps)


def same(a, b, path, errs):
    if type(a) is not type(b):
        errs.append(f'{path}: types differ: {type(a)} vs {type(b)}')
        return
    if isinstance(a, np.ndarray):
        if a.shape != b.shape or a.dtype != b.dtype:
            errs.append(f'{path}: array meta {a.shape}/{a.dtype} vs '
                f'{b.shape}/{b.dtype}')
        elif a.dtype.kind in 'iub':
            if not np.array_equal(a, b):
                errs.append(f'{path}: integer arrays differ')
        elif not np.allclose(a, b, rtol=RTOL * tol_scale(a.dtype),
                atol=ATOL * tol_scale(a.dtype) * max(1.,
                float(np.max(np.abs(a[np.isfinite(a)]), initial=0.))),
                equal_nan=True):
            errs.append(f'{path}: float arrays differ, max abs diff = '
                f'{np.nanmax(np.abs(a - b))}')
        return
    if isinstance(a, (list, tuple)):
        if len(a) != len(b):
            errs.append(f'{path}: lengths differ: {len(a)} vs {len(b)}')
            return
        for k, (x, y) in enumerate(zip(a, b)):
            same(x, y, f'{path}[{k}]', errs)
        return
    if isinstance(a, float) and isinstance(b, float):
        if not (a == b or (a != a and b != b)):
            errs.append(f'{path}: {a!r} vs {b!r}')
        return
    if a != b:
        errs.append(f'{path}: {a!r} vs {b!r}')


def is_outside(key):
    """Scenarios that are not inputs of the quantifier (reported only).

    It is only the mode size n = 1 (q = 0) for core_tt_to_qtt: the original
    code either fails in a reshape or returns a meaningless core there (its
    einsum silently broadcasts a bond of size one), the refactored code
    always fails with the ValueError.
    """
    return key[0] == 't2q-badn' and key[2] == 1


def relax_messages(key, val_o, val_n, notes):
    """Both raised the same exception type with another NumPy-internal text.

    The type of the exception must always agree.  The text must agree as well
    if it is written by teneva itself ("Invalid ..."); for the messages which
    are generated inside NumPy for malformed arguments (mismatched bonds, 3D
    index arrays) only a note is printed.
    """
    out_o, out_n = val_o[0], val_n[0]
    if out_o[0] != 'exc' or out_n[0] != 'exc':
        return val_o, val_n
    if out_o[1] != out_n[1] or out_o[2] == out_n[2]:
        return val_o, val_n
    if out_o[2].startswith('Invalid') or out_n[2].startswith('Invalid'):
        return val_o, val_n
    notes.append(f'{key!r}: same {out_o[1]}, NumPy message text differs '
        f'({out_o[2]!r} vs {out_n[2]!r})')
    val_n = (out_n[:2] + (out_o[2],),) + tuple(val_n[1:])
    return val_o, val_n


def main():
    tmp = tempfile.mkdtemp(prefix='equiv_C17_')
    files = []
    for name, root in [('orig', ROOT_ORIG), ('new', ROOT_NEW)]:
        fpath = os.path.join(tmp, name + '.pkl')
        env = dict(os.environ)
        env.pop('PYTHONPATH', None)
        env['PYTHONDONTWRITEBYTECODE'] = '1'
        proc = subprocess.run([sys.executable, os.path.abspath(__file__),
            '--worker', root, fpath], cwd=root, env=env)
        if proc.returncode != 0:
            print(f'Worker for "{name}" failed')
            return 1
        files.append(fpath)

    with open(files[0], 'rb') as f:
        res_orig = pickle.load(f)
    with open(files[1], 'rb') as f:
        res_new = pickle.load(f)

    errs = []
    if len(res_orig) != len(res_new):
        errs.append(f'Number of scenarios: {len(res_orig)} vs {len(res_new)}')
    n_ok = n_exc = 0
    notes = []
    for (key_o, val_o), (key_n, val_n) in zip(res_orig, res_new):
        if key_o != key_n:
            errs.append(f'Scenario keys differ: {key_o} vs {key_n}')
            continue
        if is_outside(key_o):
            # Not an input of the quantifier (q = 0): only reported.
            tmp_errs = []
            same(val_o, val_n, repr(key_o), tmp_errs)
            notes.extend('outside the quantifier: ' + e for e in tmp_errs)
            continue
        val_o, val_n = relax_messages(key_o, val_o, val_n, notes)
        same(val_o, val_n, repr(key_o), errs)
        if isinstance(val_o, tuple) and isinstance(val_o[0], tuple):
            n_ok += val_o[0][0] == 'ok'
            n_exc += val_o[0][0] == 'exc'

    print(f'Scenarios compared : {len(res_orig)} '
        f'(returned: {n_ok}, raised: {n_exc})')
    for note in notes:
        print('  note: ' + note)
    if errs:
        print(f'DIFFERENCES ({len(errs)}):')
        for err in errs[:50]:
            print('  ' + err)
        return 1
    print('All outcomes agree (values, shapes, dtypes, exceptions, argument '
        'mutation, aliasing).')
    return 0


if __name__ == '__main__':
    if len(sys.argv) == 4 and sys.argv[1] == '--worker':
        worker(sys.argv[2], sys.argv[3])
        sys.exit(0)
    sys.exit(main())
